import Abasic.Proofs.Stmt3Input
import Abasic.Proofs.DataRoundTrip
import Abasic.Props.C03All
/-
  C03 / C08 — INPUT inside the unified reference machine.

  The reference machine is Abasic/Ref/Prog3Input.lean (`RStepI`: the statements
  of Ref/Stmt3.lean and `INPUT x`, run against a list of replies), the relation
  between its states and the states of the model is `Sync`
  (Abasic/Proofs/Stmt3Input.lean).  Proved here, about the model of the real code:

  * `turnI_colon`            — a turn on a colon stutters (whatever the statements
                               around the colon are);
  * `turn3_input_prompt`     — a turn on an INPUT that has not shown its prompt:
                               the interpreter awaits input, the cursor ON the INPUT
                               token; exactly the reference step (prompt shown);
  * `turn3_input_reply`      — `provide_input text` + `continue_evaluating` on an
                               awaiting interpreter is exactly the reference step
                               that takes the reply `text`: store and go on with the
                               NEXT statement (`?EXTRA IGNORED` iff surplus), or
                               `?REENTER` and await again;
  * `turn3_input_refines`    — the two together: one INPUT turn (await + reply +
                               resume) keeps `Sync`;
  * `hostTurns_refines`, `run3_input_refines` — whole runs of the host loop
                               (`runHost`) against runs of the reference machine
                               with the same replies, GIVEN that the statements of
                               Ref/Stmt3.lean refine on lines that also hold INPUT
                               statements (`BaseTurns`, see below);
  * `input_only_reexecutes_itself` — across the suspension nothing but the
                               INPUT is executed.

  What is assumed.  `turn3_refines` (C03All.lean) is a theorem about programs
  ALL of whose lines are renderings of `RStmt3` statements (`Holds σ.lines p`
  for an `RProgram3`); a program with INPUT is not of that form, so the theorem
  cannot be applied to the non-INPUT turns of such a program as it stands.  Its
  statement transplanted to `RProgramI` is the hypothesis `BaseTurns` of the run
  theorems.  Everything about INPUT itself, about colons and about the
  sequencing behind an INPUT is proved unconditionally.

  INPUT as the THEN / ELSE branch of an IF is not part of `RStmtI` (the branches
  of `RStmt3.ifS` are `RStmt3` statements): the known finding KF-ELSE-RESUME
  lives there (`C08.then_input_else_resumes_into_else`).
-/
set_option linter.unusedSectionVars false

namespace Abasic.Props.C03
open Abasic Abasic.Ref Abasic.ExprL Abasic.ExprL2 Abasic.StmtL Abasic.ProgL Abasic.Prog3L Abasic.Prog3I
open Abasic.InputL

variable {F : Type} [NumOps F]

/-! ### the reference step at an INPUT, case by case -/

theorem rstepI_prompt {q : RProgramI F} {x : RStateI F} {n j : Nat} {ss : List (RStmtI F)} {t : ITarget F}
    (hpc : x.st.pc = some (n, j)) (hl : q.line n = some ss) (hs : ss[j]? = some (.input t))
    (hp : x.prompted = false) (replies : List Str) :
    RStepI q x replies = .inl ({ x with prompted := true }, replies) := by
  simp only [RStepI, hpc, hl, hs, hp, ↓reduceIte]

theorem rstepI_wait {q : RProgramI F} {x : RStateI F} {n j : Nat} {ss : List (RStmtI F)} {t : ITarget F}
    (hpc : x.st.pc = some (n, j)) (hl : q.line n = some ss) (hs : ss[j]? = some (.input t))
    (hp : x.prompted = true) : RStepI q x [] = .inl (x, []) := by
  simp only [RStepI, hpc, hl, hs, hp, Bool.true_eq_false, ↓reduceIte]

theorem rstepI_accept {q : RProgramI F} {x : RStateI F} {n j : Nat} {ss : List (RStmtI F)} {t : ITarget F}
    (hpc : x.st.pc = some (n, j)) (hl : q.line n = some ss) (hs : ss[j]? = some (.input t))
    (hp : x.prompted = true) {text : Str} {rest : List Str} {v : Value F} {extra : Bool}
    (hr : readReply (F := F) t.name text = .accept v extra) :
    RStepI q x (text :: rest) = .inl (x.accepted t.name v extra (q.resume n (j + 1)), rest) := by
  simp only [RStepI, hpc, hl, hs, hp, Bool.true_eq_false, ↓reduceIte, hr]

theorem rstepI_reenter {q : RProgramI F} {x : RStateI F} {n j : Nat} {ss : List (RStmtI F)} {t : ITarget F}
    (hpc : x.st.pc = some (n, j)) (hl : q.line n = some ss) (hs : ss[j]? = some (.input t))
    (hp : x.prompted = true) {text : Str} {rest : List Str}
    (hr : readReply (F := F) t.name text = .reenter) :
    RStepI q x (text :: rest) = .inl (x.rejected, rest) := by
  simp only [RStepI, hpc, hl, hs, hp, Bool.true_eq_false, ↓reduceIte, hr]

/-- the only error of the coercion is DATA TYPE MISMATCH -/
theorem coerce_error {name : Str} {e : DataElement F} {err : Err}
    (h : Value.coerceFromData name e = .error err) : err = .dataTypeMismatch := by
  unfold Value.coerceFromData at h
  by_cases hd : endsWithDollar name = true
  · rw [if_pos hd] at h
    cases e <;> cases h
  · rw [if_neg hd] at h
    cases e with
    | str s => simp only [Except.error.injEq] at h; exact h.symm
    | num x => cases h

/-- what `readReply` says about a text: its DATA parse and the coercion of the first item -/
theorem readReply_cases (name text : Str) :
    ∃ first more k, parseData (F := F) text = (first :: more, k) ∧
      ((∃ v, Value.coerceFromData name first = .ok v ∧
          readReply (F := F) name text = .accept v (C08.surplus more k text)) ∨
       (Value.coerceFromData name first = .error .dataTypeMismatch ∧
          readReply (F := F) name text = .reenter)) := by
  have hne := (DataRT.parseData_spec (F := F) text).1
  cases hpd : parseData (F := F) text with
  | mk items k =>
    rw [hpd] at hne
    cases items with
    | nil => exact absurd rfl hne
    | cons first more =>
      refine ⟨first, more, k, rfl, ?_⟩
      cases hco : Value.coerceFromData name first with
      | ok v =>
        left
        refine ⟨v, rfl, ?_⟩
        simp only [readReply, hpd, hco]
        rfl
      | error err =>
        right
        have := coerce_error hco
        subst this
        refine ⟨rfl, ?_⟩
        simp only [readReply, hpd, hco]

/-! ### `Sync`, unfolded -/

theorem sync_pos {q : RProgramI F} {x : RStateI F} {σ : St F} {n j : Nat}
    (hpc : x.st.pc = some (n, j)) (hp : x.prompted = false) (hc : CoreI q x σ) (h : PosI q n j σ) : Sync q x σ := by
  unfold Sync
  rw [hpc]
  refine ⟨hc, ?_⟩
  rw [hp]
  exact h

theorem sync_await {q : RProgramI F} {x : RStateI F} {σ : St F} {n j : Nat}
    (hpc : x.st.pc = some (n, j)) (hp : x.prompted = true) (hc : CoreI q x σ) (h : AwaitI q n j σ) : Sync q x σ := by
  unfold Sync
  rw [hpc]
  refine ⟨hc, ?_⟩
  rw [hp]
  exact h

theorem sync_core {q : RProgramI F} {x : RStateI F} {σ : St F} {n j : Nat} (h : Sync q x σ)
    (hpc : x.st.pc = some (n, j)) : CoreI q x σ := by
  unfold Sync at h; rw [hpc] at h; exact h.1

theorem sync_posOf {q : RProgramI F} {x : RStateI F} {σ : St F} {n j : Nat} (h : Sync q x σ)
    (hpc : x.st.pc = some (n, j)) (hp : x.prompted = false) : PosI q n j σ := by
  unfold Sync at h; rw [hpc] at h
  have := h.2
  rw [hp] at this
  exact this

theorem sync_awaitOf {q : RProgramI F} {x : RStateI F} {σ : St F} {n j : Nat} (h : Sync q x σ)
    (hpc : x.st.pc = some (n, j)) (hp : x.prompted = true) : AwaitI q n j σ := by
  unfold Sync at h; rw [hpc] at h
  have := h.2
  rw [hp] at this
  exact this

theorem sync_final {q : RProgramI F} {x : RStateI F} {σ : St F} (h : Sync q x σ) (hpc : x.st.pc = none) :
    FinalI x σ := by
  unfold Sync at h; rw [hpc] at h; exact h

/-! ### the INPUT statement on its line -/

/-- the line around `INPUT name` standing as statement `j` -/
theorem input_at {q : RProgramI F} {σ : St F} (henv : EnvI q σ) {n j : Nat} {ss : List (RStmtI F)} {name : Str}
    (hl : q.line n = some ss) (hs : ss[j]? = some (.input (.scalar name)))
    (hloc : σ.loc = { line := some n, idx := (preToksI ss j).length }) :
    At σ (preToksI ss j) (.kw .Input :: .symbol name :: renderTailI (ss.drop (j + 1))) := by
  refine ⟨?_, by rw [hloc]⟩
  rw [lineToks_ofI henv.lines hl (by rw [hloc]), line_splitI ss j _ hs]
  rfl

/-- what follows an INPUT statement on its line is nothing or a colon: never `(` -/
theorem tail_not_paren (ss : List (RStmtI F)) (k : Nat) :
    ∀ t, (renderTailI (ss.drop k)).head? = some t → t.isKw .LeftParen = false := by
  intro t ht
  cases hd : ss.drop k with
  | nil => rw [hd] at ht; cases ht
  | cons a rest =>
    rw [hd] at ht
    simp only [renderTailI, List.head?_cons, Option.some.injEq] at ht
    subst ht
    rfl

/-- the position right behind `INPUT name` standing as statement `j` of line `n` -/
theorem input_addr {q : RProgramI F} {n j : Nat} {ss : List (RStmtI F)} {name : Str}
    (hl : q.line n = some ss) (hs : ss[j]? = some (.input (.scalar name))) :
    AddrRelI q n (j + 1) { line := some n, idx := (preToksI ss j).length + 2 } :=
  ⟨ss, j, _, hl, rfl, hs, rfl⟩

/-! ### one turn on an INPUT -/

/-- **The first visit.**  `run_next_statement` with the cursor ON `INPUT name`
    and no reply pending: the interpreter awaits input, the cursor stays ON the
    INPUT token, four token reads, nothing else. -/
theorem rnsI_prompt {q : RProgramI F} {fuel : Nat} {x : RStateI F} {σ : St F} (hc : CoreI q x σ)
    {n j : Nat} {ss : List (RStmtI F)} {name : Str}
    (hl : q.line n = some ss) (hs : ss[j]? = some (.input (.scalar name)))
    (hloc : σ.loc = { line := some n, idx := (preToksI ss j).length }) :
    runNextStatement fuel σ = .ok () { σ with state := .awaitingInput, reads := σ.reads + 1 + 1 + 1 + 1 } := by
  have hAt := input_at hc.env hl hs hloc
  have hAt0 : At (mv { σ with state := .running } 0 (σ.reads + 1)) (preToksI ss j)
      (.kw .Input :: .symbol name :: renderTailI (ss.drop (j + 1))) := hAt
  have hst := C08.input_stmt_suspend (evalN fuel) (mv { σ with state := .running } 0 (σ.reads + 1))
    (preToksI ss j) _ hc.mem.input hAt0
  rw [traceOut_off (σ := mv { σ with state := .running } 0 (σ.reads + 1)) hc.env.tracing] at hst
  rw [rns_eq fuel σ hAt, bind_ok hst]
  refine Eq.trans (sequence_more (pre := preToksI ss j) (t := .kw .Input)
    (post := .symbol name :: renderTailI (ss.drop (j + 1))) ?_) ?_
  · exact ⟨hAt.1, hAt.2⟩
  · rfl

/-- the prompt flag is not part of `CoreI` -/
theorem coreI_prompt {q : RProgramI F} {x : RStateI F} {σ : St F} (h : CoreI q x σ) (b : Bool) :
    CoreI q { x with prompted := b } σ :=
  ⟨h.env, ⟨h.mem.vars, h.mem.arrays, h.mem.rng, h.mem.loops, h.mem.stack, h.mem.data, h.mem.out, h.mem.fns,
    h.mem.fnLines, h.mem.input⟩, h.inv, h.nesting⟩

/-- the state after the first visit is in `Sync` with the prompted reference state -/
theorem sync_prompted {q : RProgramI F} {x : RStateI F} {σ : St F} (hc : CoreI q x σ)
    {n j : Nat} {ss : List (RStmtI F)} {t : ITarget F}
    (hpc : x.st.pc = some (n, j)) (hl : q.line n = some ss) (hs : ss[j]? = some (.input t))
    (hloc : σ.loc = { line := some n, idx := (preToksI ss j).length }) (k : Nat) :
    Sync q { x with prompted := true } ({ σ with state := .awaitingInput, reads := k } : St F) := by
  refine sync_await (n := n) (j := j) hpc rfl ?_ ⟨rfl, ss, t, hl, hs, hloc⟩
  have := coreI_prompt hc true
  exact ⟨⟨this.env.lines, this.env.warnings, this.env.tracing⟩,
    this.mem.congr rfl rfl rfl rfl rfl rfl rfl rfl rfl rfl, this.inv, this.nesting⟩

/-- the invariants of the reference state survive the assignment of a coerced item -/
theorem rinv_assign {r : RState3 F} (h : RInv3 r) {name : Str} {first : DataElement F} {v : Value F}
    (hco : Value.coerceFromData name first = .ok v) (out : List Str) (pc : Option (Nat × Nat)) :
    RInv3 { r with vars := alSet name v r.vars, out := out, pc := pc } := by
  refine ⟨fun k v' hk => ?_, h.arrs, h.rng, h.rets⟩
  by_cases hkn : k = name
  · subst hkn
    have : alGet k (alSet k v r.vars) = some v := alGet_alSet_same k v r.vars
    rw [show ({ r with vars := alSet k v r.vars, out := out, pc := pc } : RState3 F).vars = alSet k v r.vars from rfl,
      this] at hk
    cases hk
    exact C08.coerce_matches k first v hco
  · rw [show ({ r with vars := alSet name v r.vars, out := out, pc := pc } : RState3 F).vars = alSet name v r.vars
      from rfl, alGet_alSet_other name k v r.vars hkn] at hk
    exact h.typed k v' hk

theorem out_accept {x : RStateI F} {σ : St F} (ho : σ.out = x.output.reverse) (b : Bool) :
    ∀ (name : Str) (v : Value F) (pc : Option (Nat × Nat)),
      C08.extraOut b ++ σ.out = ((x.accepted name v b pc).output).reverse := by
  intro name v pc
  rw [ho]
  cases b <;> simp [C08.extraOut, RStateI.output, RStateI.accepted]

theorem out_reenter {x : RStateI F} {σ : St F} (ho : σ.out = x.output.reverse) :
    Out.reenter :: σ.out = (x.rejected.output).reverse := by
  rw [ho]
  simp [RStateI.output, RStateI.rejected]

/-- **The visit with a suitable reply.**  `run_next_statement` with the cursor
    ON `INPUT name` and a reply pending whose first item suits `name`: the
    model lands where the reference machine is after taking the reply — the
    value stored, `?EXTRA IGNORED` iff surplus, the program counter on the NEXT
    statement. -/
theorem rnsI_accept {q : RProgramI F} {fuel : Nat} (hwf : q.WF) {x : RStateI F} {σ : St F}
    (henv : EnvI q σ) (hmem : MemI q x { σ with input := none }) (hinv : RInv3 x.st) (hnest : σ.nesting = 0)
    {n j : Nat} {ss : List (RStmtI F)} {name text : Str}
    (hl : q.line n = some ss) (hs : ss[j]? = some (.input (.scalar name)))
    (hloc : σ.loc = { line := some n, idx := (preToksI ss j).length })
    (hin : σ.input = some text)
    {first : DataElement F} {more : List (DataElement F)} {k : Nat} {v : Value F}
    (hpd : parseData (F := F) text = (first :: more, k)) (hco : Value.coerceFromData name first = .ok v) :
    ∃ σ', runNextStatement fuel σ = .ok () σ' ∧
      Sync q (x.accepted name v (C08.surplus more k text) (q.resume n (j + 1))) σ' ∧
      σ'.arrays = σ.arrays ∧ σ'.loops = σ.loops ∧ σ'.data = σ.data ∧ σ'.fns = σ.fns ∧
      σ'.rng = σ.rng ∧ σ'.out = C08.extraOut (C08.surplus more k text) ++ σ.out ∧
      σ'.vars = alSet name v σ.vars := by
  have hAt := input_at henv hl hs hloc
  have hAt0 : At (mv { σ with state := .running } 0 (σ.reads + 1)) (preToksI ss j)
      (.kw .Input :: .symbol name :: renderTailI (ss.drop (j + 1))) := hAt
  have hst := C08.input_stmt_resume (evalN fuel) (mv { σ with state := .running } 0 (σ.reads + 1))
    (preToksI ss j) _ text name first more k v hin hAt0 (tail_not_paren ss (j + 1)) hpd hco
  rw [traceOut_off (σ := mv { σ with state := .running } 0 (σ.reads + 1)) henv.tracing] at hst
  rw [rns_eq fuel σ hAt, bind_ok hst]
  have hc2 : CoreI q (x.accepted name v (C08.surplus more k text) x.st.pc)
      ({ mv { σ with state := .running } 0 (σ.reads + 1) with
          input := none,
          loc := { (mv { σ with state := .running } 0 (σ.reads + 1)).loc with
                    idx := (mv { σ with state := .running } 0 (σ.reads + 1)).loc.idx + 2 },
          vars := alSet name v (mv { σ with state := .running } 0 (σ.reads + 1)).vars,
          out := C08.extraOut (C08.surplus more k text) ++ ([] ++ (mv { σ with state := .running } 0 (σ.reads + 1)).out),
          reads := (mv { σ with state := .running } 0 (σ.reads + 1)).reads + 1 + 1 + 1 } : St F) := by
    refine ⟨⟨henv.lines, henv.warnings, henv.tracing⟩, ?_, rinv_assign hinv hco [] x.st.pc, hnest⟩
    exact ⟨by show alSet name v σ.vars = alSet name v x.st.vars; rw [show σ.vars = x.st.vars from hmem.vars],
      hmem.arrays, hmem.rng, hmem.loops, hmem.stack, hmem.data,
      out_accept (σ := σ) hmem.out _ name v x.st.pc,
      ⟨fun a b => hmem.fns.undef a b, fun a b c => hmem.fns.defd a b c⟩, hmem.fnLines, rfl⟩
  obtain ⟨σ', hσ', hsync, hfr⟩ := land_afterI hwf hc2 rfl (n := n) (k := j + 1) (by
    have := input_addr hl hs
    show AddrRelI q n (j + 1) { line := σ.loc.line, idx := σ.loc.idx + 0 + 2 }
    rw [hloc]
    exact this)
  exact ⟨σ', hσ', hsync, hfr.arrays, hfr.loops, hfr.data, hfr.fns, hfr.rng, hfr.out, hfr.vars⟩

/-- **The visit with an unsuitable reply.**  `?REENTER`, the reply is consumed,
    the interpreter awaits input again with the cursor ON the INPUT token; no
    variable, no array changes. -/
theorem rnsI_reenter {q : RProgramI F} {fuel : Nat} {x : RStateI F} {σ : St F}
    (henv : EnvI q σ) (hmem : MemI q x { σ with input := none }) (hinv : RInv3 x.st) (hnest : σ.nesting = 0)
    {n j : Nat} {ss : List (RStmtI F)} {name text : Str}
    (hpc : x.st.pc = some (n, j)) (hl : q.line n = some ss) (hs : ss[j]? = some (.input (.scalar name)))
    (hloc : σ.loc = { line := some n, idx := (preToksI ss j).length })
    (hin : σ.input = some text)
    {first : DataElement F} {more : List (DataElement F)} {k : Nat}
    (hpd : parseData (F := F) text = (first :: more, k))
    (hco : Value.coerceFromData name first = .error .dataTypeMismatch) :
    ∃ σ', runNextStatement fuel σ = .ok () σ' ∧ Sync q x.rejected σ' ∧ σ'.state = .awaitingInput ∧
      σ'.vars = σ.vars ∧ σ'.arrays = σ.arrays ∧ σ'.out = .reenter :: σ.out := by
  have hAt := input_at henv hl hs hloc
  have hAt0 : At (mv { σ with state := .running } 0 (σ.reads + 1)) (preToksI ss j)
      (.kw .Input :: .symbol name :: renderTailI (ss.drop (j + 1))) := hAt
  have hst := C08.input_stmt_reenter (evalN fuel) (mv { σ with state := .running } 0 (σ.reads + 1))
    (preToksI ss j) _ text name first more k hin hAt0 (tail_not_paren ss (j + 1)) hpd hco
  rw [traceOut_off (σ := mv { σ with state := .running } 0 (σ.reads + 1)) henv.tracing] at hst
  rw [rns_eq fuel σ hAt, bind_ok hst]
  refine ⟨_, sequence_more (pre := preToksI ss j) (t := .kw .Input)
    (post := .symbol name :: renderTailI (ss.drop (j + 1))) ?_, ?_, rfl, rfl, rfl, rfl⟩
  · exact ⟨hAt.1, hAt.2⟩
  · refine sync_await (x := x.rejected) (n := n) (j := j) hpc rfl ?_ ⟨rfl, ss, _, hl, hs, ?_⟩
    · refine ⟨⟨henv.lines, henv.warnings, henv.tracing⟩, ?_, ⟨hinv.typed, hinv.arrs, hinv.rng, hinv.rets⟩, hnest⟩
      exact ⟨hmem.vars, hmem.arrays, hmem.rng, hmem.loops, hmem.stack, hmem.data, out_reenter (σ := σ) hmem.out,
        ⟨fun a b => hmem.fns.undef a b, fun a b c => hmem.fns.defd a b c⟩, hmem.fnLines, rfl⟩
    · show ({ line := σ.loc.line, idx := σ.loc.idx + 0 + 0 } : Loc) = _
      rw [hloc]
      rfl

/-! ### turns -/

/-- the outcome of a host call against the outcome of a reference step from `x`
    (`TurnStep3` of C03All.lean for the machine with INPUT) -/
def TurnStepI (q : RProgramI F) (x : RStateI F) (res : Res F Unit) : (RStateI F × List Str) ⊕ (Err × Nat) → Prop
  | .inl (x', _) => ∃ σ', res = .ok () σ' ∧ Sync q x' σ'
  | .inr (e, ln) => ∃ σ' l, res = .err { err := e, loc := some l } σ' ∧
      (l.line = some ln ∨ ∃ name m, alGet name x.st.fnLines = some m ∧ l.line = some m) ∧
      σ'.state = .idle ∧ σ'.out = x.output.reverse

/-- **A turn on a colon.**  With the cursor on the colon in front of the statement
    the reference machine is at (an INPUT or not), a turn moves the cursor to the
    first token of that statement and changes nothing else `Sync` sees. -/
theorem turnI_colon {q : RProgramI F} {fuel : Nat} {x : RStateI F} {σ : St F}
    (h : Sync q x σ) {n j : Nat} {ss : List (RStmtI F)} (hpc : x.st.pc = some (n, j)) (hp : x.prompted = false)
    (hl : q.line n = some ss) (hidx : σ.loc.idx + 1 = (preToksI ss j).length) :
    ∃ σ', continueEvaluating fuel σ = .ok () σ' ∧ Sync q x σ' ∧ σ'.loc.idx = (preToksI ss j).length ∧
      σ'.vars = σ.vars ∧ σ'.arrays = σ.arrays ∧ σ'.out = σ.out := by
  have hc := sync_core h hpc
  obtain ⟨hrun, hline, ss', hl', hj, hcur⟩ := sync_posOf h hpc hp
  rw [hl] at hl'
  cases hl'
  have h0 : 0 < j := by
    rcases hcur with hc' | hc'
    · omega
    · exact hc'.1
  obtain ⟨j', rfl⟩ : ∃ j', j = j' + 1 := ⟨j - 1, by omega⟩
  have hσ' := rnsI_colon (fuel := fuel) hc.env hl hj hline hidx
  refine ⟨{ σ with state := .running, loc := { line := some n, idx := (preToksI ss (j' + 1)).length },
                   reads := σ.reads + 1 + 1 + 1 }, ?_, ?_, rfl, rfl, rfl, rfl⟩
  · rw [C09.continue_is_one_turn fuel σ hrun]
    exact InputL.postprocess_ok hσ'
  · refine sync_pos hpc hp ⟨⟨hc.env.lines, hc.env.warnings, hc.env.tracing⟩,
      hc.mem.congr rfl rfl rfl rfl rfl rfl rfl rfl rfl rfl, hc.inv, hc.nesting⟩ ?_
    exact ⟨rfl, rfl, ss, hl, hj, Or.inl rfl⟩

/-- **The first visit of an INPUT is the reference step that shows the prompt.**
    With the cursor on `INPUT x`, `continue_evaluating` leaves the interpreter
    awaiting input, the cursor ON the INPUT token, and everything `Sync` sees
    unchanged. -/
theorem turn3_input_prompt {q : RProgramI F} {fuel : Nat} {x : RStateI F} {σ : St F} (h : Sync q x σ)
    {n j : Nat} {ss : List (RStmtI F)} {t : ITarget F}
    (hpc : x.st.pc = some (n, j)) (hp : x.prompted = false) (hl : q.line n = some ss)
    (hs : ss[j]? = some (.input t)) (hidx : σ.loc.idx = (preToksI ss j).length) (replies : List Str) :
    TurnStepI q x (continueEvaluating fuel σ) (RStepI q x replies) ∧
      ∃ σ', continueEvaluating fuel σ = .ok () σ' ∧ σ'.state = .awaitingInput ∧ σ'.loc = σ.loc ∧
        σ'.vars = σ.vars ∧ σ'.arrays = σ.arrays ∧ σ'.out = σ.out := by
  have hc := sync_core h hpc
  obtain ⟨hrun, hline, _⟩ := sync_posOf h hpc hp
  have hloc : σ.loc = { line := some n, idx := (preToksI ss j).length } := by rw [← hidx, ← hline]
  cases t with
  | scalar name =>
    have hr := rnsI_prompt (fuel := fuel) hc hl hs hloc
    have hcont : continueEvaluating fuel σ =
        .ok () { σ with state := .awaitingInput, reads := σ.reads + 1 + 1 + 1 + 1 } := by
      rw [C09.continue_is_one_turn fuel σ hrun]
      exact InputL.postprocess_ok hr
    refine ⟨?_, _, hcont, rfl, rfl, rfl, rfl, rfl⟩
    rw [rstepI_prompt hpc hl hs hp, hcont]
    exact ⟨_, rfl, sync_prompted hc hpc hl hs hloc _⟩

/-- **`provide_input` + `continue_evaluating` is the reference step that takes the
    reply.**  From an interpreter awaiting input at `INPUT x` (`Sync` with a
    prompted reference state): the reply is read as DATA items, the first is
    coerced by the name of `x`; if it suits, it is stored, `?EXTRA IGNORED` is
    emitted iff there was a surplus, and the run goes on with the NEXT
    statement; if not, `?REENTER` and the interpreter awaits input again.  Never
    an error. -/
theorem turn3_input_reply {q : RProgramI F} {fuel : Nat} (hwf : q.WF) {x : RStateI F} {σ : St F} (h : Sync q x σ)
    {n j : Nat} (hpc : x.st.pc = some (n, j)) (hp : x.prompted = true) (text : Str) (rest : List Str) :
    TurnStepI q x ((provideInput text >>= fun _ => continueEvaluating fuel) σ) (RStepI q x (text :: rest)) ∧
      ∃ x', RStepI q x (text :: rest) = .inl (x', rest) := by
  have hc := sync_core h hpc
  obtain ⟨hst, ss, t, hl, hs, hloc⟩ := sync_awaitOf h hpc hp
  have hprov := C08.provideInput_eq text σ hst
  have hcont : continueEvaluating fuel ({ σ with input := some text, state := .running } : St F) =
      postprocess (runNextStatement fuel) ({ σ with input := some text, state := .running } : St F) :=
    C09.continue_is_one_turn fuel _ rfl
  rw [bind_ok hprov, hcont]
  have henv : EnvI q ({ σ with input := some text, state := .running } : St F) :=
    ⟨hc.env.lines, hc.env.warnings, hc.env.tracing⟩
  have hmem : MemI q x ({ ({ σ with input := some text, state := .running } : St F) with input := none } : St F) :=
    hc.mem.congr rfl rfl rfl rfl rfl rfl rfl rfl rfl hc.mem.input.symm
  cases t with
  | scalar name =>
    obtain ⟨first, more, k, hpd, hcase⟩ := readReply_cases (F := F) name text
    rcases hcase with ⟨v, hco, hr⟩ | ⟨hco, hr⟩
    · obtain ⟨σ', hσ', hsync, _⟩ := rnsI_accept (fuel := fuel) hwf henv hmem hc.inv hc.nesting hl hs hloc rfl hpd hco
      rw [rstepI_accept hpc hl hs hp hr, InputL.postprocess_ok hσ']
      exact ⟨⟨σ', rfl, hsync⟩, _, rfl⟩
    · obtain ⟨σ', hσ', hsync, _⟩ := rnsI_reenter (fuel := fuel) henv hmem hc.inv hc.nesting hpc hl hs hloc rfl hpd hco
      rw [rstepI_reenter hpc hl hs hp hr, InputL.postprocess_ok hσ']
      exact ⟨⟨σ', rfl, hsync⟩, _, rfl⟩

theorem rstepsI_ok {q : RProgramI F} {x x' : RStateI F} {rs rs' : List Str} (n : Nat)
    (h : RStepI q x rs = .inl (x', rs')) : RStepsI q (n + 1) x rs = RStepsI q n x' rs' := by
  simp only [RStepsI, h]

theorem rstepsI_err {q : RProgramI F} {x : RStateI F} {rs : List Str} {e : Err} {ln : Nat} (n : Nat)
    (h : RStepI q x rs = .inr (e, ln)) : RStepsI q (n + 1) x rs = .inr (e, ln, x) := by
  simp only [RStepsI, h]

/-- **One INPUT turn = await + reply + resume, in `Sync`.**  From a running
    state in `Sync` with the cursor on an INPUT that has not shown its prompt,
    and a reply `text`: the first host call suspends (awaiting input), the
    second (`provide_input text`, `continue_evaluating`) ends in `Sync` with the
    reference state two steps on (prompt, reply taken), the reply consumed. -/
theorem turn3_input_refines {q : RProgramI F} {fuel : Nat} (hwf : q.WF) {x : RStateI F} {σ : St F} (h : Sync q x σ)
    {n j : Nat} {ss : List (RStmtI F)} {t : ITarget F}
    (hpc : x.st.pc = some (n, j)) (hp : x.prompted = false) (hl : q.line n = some ss)
    (hs : ss[j]? = some (.input t)) (hidx : σ.loc.idx = (preToksI ss j).length) (text : Str) (rest : List Str) :
    ∃ σ₁ σ₂ x₂,
      continueEvaluating fuel σ = .ok () σ₁ ∧ σ₁.state = .awaitingInput ∧
        Sync q { x with prompted := true } σ₁ ∧
      (provideInput text >>= fun _ => continueEvaluating fuel) σ₁ = .ok () σ₂ ∧
      RStepsI q 2 x (text :: rest) = .inl (x₂, rest) ∧ Sync q x₂ σ₂ := by
  obtain ⟨h1, σ₁, hσ₁, hst, _⟩ := turn3_input_prompt (fuel := fuel) h hpc hp hl hs hidx (text :: rest)
  have hstep1 := rstepI_prompt hpc hl hs hp (text :: rest)
  rw [hstep1, hσ₁] at h1
  obtain ⟨σ₁', hEq, hsync1⟩ := h1
  cases hEq
  obtain ⟨h2, x₂, hstep2⟩ := turn3_input_reply (fuel := fuel) hwf hsync1 (x := { x with prompted := true }) hpc rfl text rest
  rw [hstep2] at h2
  obtain ⟨σ₂, hσ₂, hsync2⟩ := h2
  exact ⟨_, σ₂, x₂, hσ₁, hst, hsync1, hσ₂, by rw [rstepsI_ok 1 hstep1, rstepsI_ok 0 hstep2]; rfl, hsync2⟩

/-! ### the statements of Ref/Stmt3.lean on the lines of an `RProgramI`: what is assumed -/

/-- the side conditions of `turn3_refines` on one reference state (`StepOk` of C03All.lean) -/
structure StepOkI (q : RProgramI F) (fuel : Nat) (x : RStateI F) : Prop where
  bodies : ∀ name d, alGet name x.st.fns = some d → Resolved x.st.fns d.body
  stmt : ∀ n j ss s, x.st.pc = some (n, j) → q.line n = some ss → ss[j]? = some (.base s) →
    ResolvedS x.st.fns s ∧ sdepth3 x.st.fns s ≤ fuel ∧ sdepth3 x.st.fns s ≤ Extracted.nestingLimit

/-- every state the reference machine reaches from `x` with the replies `rs` is `StepOkI` -/
def SafeRunI (q : RProgramI F) (fuel : Nat) (x : RStateI F) (rs : List Str) : Prop :=
  ∀ m x' rs', RStepsI q m x rs = .inl (x', rs') → StepOkI q fuel x'

/-- the static side conditions: well formed, every `base` statement covered -/
structure FitsI (q : RProgramI F) : Prop where
  wf : q.WF
  covered : ∀ l ∈ q, ∀ s, RStmtI.base s ∈ l.2 → s.Covered

/-- the outcome `res` of `run_next_statement` from `σ` against a reference step from `x`
    (`StepsTo3` of Proofs/Stmt3Prog.lean) -/
def StepsToI (q : RProgramI F) (x : RStateI F) (res : Res F Unit) (σ : St F) :
    (RStateI F × List Str) ⊕ (Err × Nat) → Prop
  | .inl (x', _) => ∃ σ', res = .ok () σ' ∧ Sync q x' σ'
  | .inr (e, ln) => ∃ σ' te l, res = .err te σ' ∧ σ'.out = σ.out ∧
      σ'.populate te = { err := e, loc := some l } ∧
      (l.line = some ln ∨ ∃ name m, alGet name x.st.fnLines = some m ∧ l.line = some m)

/-- **The assumption of the run theorems**: `rns3_refines` (the core of
    `turn3_refines` and `run3_start`, C03All.lean) with `RProgramI` in place of
    `RProgram3` — a turn with the cursor on a statement of Ref/Stmt3.lean is the
    reference step of that statement also when other statements of the program
    are INPUTs.  (C03All.lean proves this for programs without INPUT; its proof
    looks at the other statements of the program only through the store
    `Holds`, the DATA chunks and the return addresses.) -/
def BaseTurns (q : RProgramI F) (fuel : Nat) : Prop :=
  ∀ (x : RStateI F) (σ : St F) (n j : Nat) (ss : List (RStmtI F)) (s : RStmt3 F) (replies : List Str),
    StepOkI q fuel x → CoreI q x σ → x.prompted = false → x.st.pc = some (n, j) → q.line n = some ss →
    ss[j]? = some (.base s) → σ.loc = { line := some n, idx := (preToksI ss j).length } →
    StepsToI q x (runNextStatement fuel σ) σ (RStepI q x replies)

theorem turnStepI_of_stepsTo {q : RProgramI F} {x : RStateI F} {σ : St F} {m : M F Unit}
    (y : (RStateI F × List Str) ⊕ (Err × Nat)) (hout : σ.out = x.output.reverse) (h : StepsToI q x (m σ) σ y) :
    TurnStepI q x (postprocess m σ) y := by
  cases y with
  | inl xr =>
    obtain ⟨σ', hσ', hland⟩ := h
    exact ⟨σ', by unfold postprocess; rw [hσ'], hland⟩
  | inr eln =>
    obtain ⟨e, ln⟩ := eln
    obtain ⟨σ', te, l, hσ', ho, hpop, hl⟩ := h
    refine ⟨{ σ' with state := .idle }, l, ?_, hl, rfl, by show σ'.out = _; rw [ho, hout]⟩
    unfold postprocess
    rw [hσ']
    show Res.err (σ'.populate te) _ = _
    rw [hpop]

/-- a step of a `base` statement takes no reply -/
theorem rstepI_base_replies {q : RProgramI F} {x x' : RStateI F} {n j : Nat} {ss : List (RStmtI F)} {s : RStmt3 F}
    (hpc : x.st.pc = some (n, j)) (hl : q.line n = some ss) (hs : ss[j]? = some (.base s))
    {rs rs' : List Str} (h : RStepI q x rs = .inl (x', rs')) : rs' = rs := by
  simp only [RStepI, hpc, hl, hs] at h
  cases hb : RStepB q x.st n j s with
  | inl r' =>
    rw [hb] at h
    simp only [Sum.inl.injEq, Prod.mk.injEq] at h
    exact h.2.symm
  | inr e => rw [hb] at h; cases h

/-! ### the host loop -/

/-- The host loop with replies: up to `k` host turns.  A turn is
    `continue_evaluating` while the interpreter is running, and
    `provide_input reply` followed by `continue_evaluating` while it awaits input;
    the loop stops when the interpreter is idle, on an error, and when input is
    awaited and no reply is left.  Result: the outcome and the replies not used. -/
def hostTurns (fuel : Nat) : Nat → List Str → St F → Res F Unit × List Str
  | 0, rs, σ => (.ok () σ, rs)
  | k + 1, rs, σ =>
    if σ.state = .running then
      match continueEvaluating fuel σ with
      | .ok _ σ' => hostTurns fuel k rs σ'
      | .err e σ' => (.err e σ', rs)
    else if σ.state = .awaitingInput then
      match rs with
      | [] => (.ok () σ, [])
      | text :: rest =>
        match (provideInput text >>= fun _ => continueEvaluating fuel) σ with
        | .ok _ σ' => hostTurns fuel k rest σ'
        | .err e σ' => (.err e σ', rest)
    else (.ok () σ, rs)

/-- RUN, then up to `k` host turns with the replies `replies` -/
def runHost (fuel : Nat) (replies : List Str) (k : Nat) (σ : St F) : Res F Unit × List Str :=
  match startEvaluating fuel "RUN".toList σ with
  | .ok _ σ' => hostTurns fuel k replies σ'
  | .err e σ' => (.err e σ', replies)

/-- The outcome of a run of the host loop against the outcome of a run of the
    reference machine: states in `Sync` and the same replies left; or the same
    error after the same output, located on the same line — or, for an error
    raised in the body of a user function, on the line of the definition of one
    of the functions defined when the failing step started (as in `TurnStep3`). -/
def RunMatchI (q : RProgramI F) (res : Res F Unit × List Str) :
    (RStateI F × List Str) ⊕ (Err × Nat × RStateI F) → Prop
  | .inl (x', rs') => ∃ σ', res.1 = .ok () σ' ∧ Sync q x' σ' ∧ res.2 = rs'
  | .inr (e, ln, xf) => ∃ σ' l, res.1 = .err { err := e, loc := some l } σ' ∧
      (l.line = some ln ∨ ∃ name m, alGet name xf.st.fnLines = some m ∧ l.line = some m) ∧
      σ'.state = .idle ∧ σ'.out = xf.output.reverse

theorem hostTurns_running (fuel k : Nat) (rs : List Str) {σ σ' : St F} (hr : σ.state = .running)
    (h : continueEvaluating fuel σ = .ok () σ') : hostTurns fuel (k + 1) rs σ = hostTurns fuel k rs σ' := by
  simp only [hostTurns, hr, ↓reduceIte, h]

theorem hostTurns_running_err (fuel k : Nat) (rs : List Str) {σ σ' : St F} {e : TErr} (hr : σ.state = .running)
    (h : continueEvaluating fuel σ = .err e σ') : hostTurns fuel (k + 1) rs σ = (.err e σ', rs) := by
  simp only [hostTurns, hr, ↓reduceIte, h]

theorem hostTurns_reply (fuel k : Nat) (text : Str) (rest : List Str) {σ σ' : St F} (hr : σ.state = .awaitingInput)
    (h : (provideInput text >>= fun _ => continueEvaluating fuel) σ = .ok () σ') :
    hostTurns fuel (k + 1) (text :: rest) σ = hostTurns fuel k rest σ' := by
  simp only [hostTurns, hr, reduceCtorEq, ↓reduceIte, h]

theorem hostTurns_wait (fuel k : Nat) {σ : St F} (hr : σ.state = .awaitingInput) :
    hostTurns fuel k [] σ = (.ok () σ, []) := by
  cases k with
  | zero => rfl
  | succ k =>
    simp only [hostTurns, hr, reduceCtorEq, ↓reduceIte]

theorem hostTurns_idle (fuel k : Nat) (rs : List Str) {σ : St F} (hr : σ.state = .idle) :
    hostTurns fuel k rs σ = (.ok () σ, rs) := by
  cases k with
  | zero => rfl
  | succ k =>
    simp only [hostTurns, hr, reduceCtorEq, ↓reduceIte]

theorem SafeRunI.here {q : RProgramI F} {fuel : Nat} {x : RStateI F} {rs : List Str} (h : SafeRunI q fuel x rs) :
    StepOkI q fuel x := h 0 x rs rfl

theorem SafeRunI.step {q : RProgramI F} {fuel : Nat} {x x' : RStateI F} {rs rs' : List Str}
    (h : SafeRunI q fuel x rs) (hs : RStepI q x rs = .inl (x', rs')) : SafeRunI q fuel x' rs' :=
  fun m x'' rs'' hm => h (m + 1) x'' rs'' (by rw [rstepsI_ok m hs]; exact hm)

/-- **`k` host turns are at most `k` reference steps**, with the same replies
    consumed (a turn on a colon is no step; the first visit of an INPUT is the
    step that shows the prompt; a reply is the step that takes it). -/
theorem hostTurns_refines {q : RProgramI F} {fuel : Nat} (hfit : FitsI q) (hbase : BaseTurns q fuel) :
    ∀ (k : Nat) (x : RStateI F) (rs : List Str) (σ : St F), Sync q x σ → SafeRunI q fuel x rs →
      ∃ n, n ≤ k ∧ RunMatchI q (hostTurns fuel k rs σ) (RStepsI q n x rs)
  | 0, x, rs, σ, h, _ => ⟨0, Nat.le_refl _, σ, rfl, h, rfl⟩
  | k + 1, x, rs, σ, h, hsafe => by
    cases hpc : x.st.pc with
    | none =>
      refine ⟨0, Nat.zero_le _, σ, ?_, h, ?_⟩ <;> rw [hostTurns_idle fuel _ rs (sync_final h hpc).1]
    | some nj =>
      obtain ⟨n0, j⟩ := nj
      have hc := sync_core h hpc
      cases hp : x.prompted with
      | true =>
        obtain ⟨hst, ss, t, hl, hs, hloc⟩ := sync_awaitOf h hpc hp
        cases rs with
        | nil => refine ⟨0, Nat.zero_le _, σ, ?_, h, ?_⟩ <;> rw [hostTurns_wait fuel _ hst]
        | cons text rest =>
          obtain ⟨hT, x', hstep⟩ := turn3_input_reply (fuel := fuel) hfit.wf h hpc hp text rest
          rw [hstep] at hT
          obtain ⟨σ', hσ', hsim⟩ := hT
          obtain ⟨n, hn, hm⟩ := hostTurns_refines hfit hbase k x' rest σ' hsim (hsafe.step hstep)
          refine ⟨n + 1, by omega, ?_⟩
          rw [rstepsI_ok n hstep, hostTurns_reply fuel k text rest hst hσ']
          exact hm
      | false =>
        obtain ⟨hrun, hline, ss, hl, hj, hcur⟩ := sync_posOf h hpc hp
        rcases hcur with hidx | ⟨_, hidx⟩
        · have hloc : σ.loc = { line := some n0, idx := (preToksI ss j).length } := by rw [← hidx, ← hline]
          have hsj : ss[j]? = some ss[j] := by simp [hj]
          have hT : TurnStepI q x (continueEvaluating fuel σ) (RStepI q x rs) := by
            cases hsj' : ss[j] with
            | base s =>
              rw [hsj'] at hsj
              rw [C09.continue_is_one_turn fuel σ hrun]
              exact turnStepI_of_stepsTo _ hc.mem.out (hbase x σ n0 j ss s rs hsafe.here hc hp hpc hl hsj hloc)
            | input t =>
              rw [hsj'] at hsj
              exact (turn3_input_prompt (fuel := fuel) h hpc hp hl hsj hidx rs).1
          cases hstep : RStepI q x rs with
          | inl xr =>
            obtain ⟨x', rs'⟩ := xr
            rw [hstep] at hT
            obtain ⟨σ', hσ', hsim⟩ := hT
            have hrs : rs' = rs := by
              cases hsj' : ss[j] with
              | base s => rw [hsj'] at hsj; exact rstepI_base_replies hpc hl hsj hstep
              | input t =>
                rw [hsj'] at hsj
                rw [rstepI_prompt hpc hl hsj hp rs] at hstep
                simp only [Sum.inl.injEq, Prod.mk.injEq] at hstep
                exact hstep.2.symm
            subst hrs
            obtain ⟨n, hn, hm⟩ := hostTurns_refines hfit hbase k x' rs' σ' hsim (hsafe.step hstep)
            refine ⟨n + 1, by omega, ?_⟩
            rw [rstepsI_ok n hstep, hostTurns_running fuel k rs' hrun hσ']
            exact hm
          | inr eln =>
            obtain ⟨e, ln⟩ := eln
            rw [hstep] at hT
            obtain ⟨σ', l, hσ', hloc', hidle, hout⟩ := hT
            refine ⟨1, by omega, ?_⟩
            rw [rstepsI_err 0 hstep, hostTurns_running_err fuel k rs hrun hσ']
            exact ⟨σ', l, rfl, hloc', hidle, hout⟩
        · obtain ⟨σ', hσ', hsim, _⟩ := turnI_colon (fuel := fuel) h hpc hp hl hidx
          obtain ⟨n, hn, hm⟩ := hostTurns_refines hfit hbase k x rs σ' hsim hsafe
          refine ⟨n, by omega, ?_⟩
          rw [hostTurns_running fuel k rs hrun hσ']
          exact hm

/-! ### RUN -/

/-- what RUN needs of the state it is typed into (`PReady3` of C03All.lean) -/
structure PReadyI (q : RProgramI F) (σ : St F) : Prop where
  idle : σ.state = .idle
  lines : HoldsI σ.lines q
  warnings : σ.warnings = false
  tracing : σ.tracing = false
  nesting : σ.nesting = 0
  out : σ.out = []
  rng : σ.rng < Extracted.rngModulus

theorem coreI_start {q : RProgramI F} {σ : St F} (h : PReadyI q σ) (loc : Loc) :
    CoreI q (q.start σ.rng)
      ({ (({ σ.setImmediate [] with input := none, vars := [], arrays := [] } : St F).resetRuntime) with loc := loc }) where
  env := ⟨h.lines, h.warnings, h.tracing⟩
  mem := {
    vars := rfl
    arrays := rfl
    rng := rfl
    loops := Prog2L.Rel2.nil
    stack := Prog2L.Rel2.nil
    data := rfl
    out := h.out
    fns := ⟨fun _ _ => rfl, fun name d hd => by cases hd⟩
    fnLines := fun name fd hfd => by cases hfd
    input := rfl }
  inv := ⟨fun k v h => by simp [RProgramI.start, alGet] at h, fun k a h => by simp [RProgramI.start, alGet] at h,
    h.rng, Nat.zero_le _⟩
  nesting := h.nesting

/-- **RUN on a program that begins with INPUT** (no assumption): RUN clears
    variables, arrays, stacks, the DATA cursor, the function table and a pending
    reply, puts the cursor on the first line and returns with the interpreter
    awaiting input — the reference step that shows the prompt. -/
theorem runI_start_input {q : RProgramI F} {fuel : Nat} {σ : St F} (h : PReadyI q σ)
    {n : Nat} {ss : List (RStmtI F)} {t : ITarget F} (hfirstq : q.first = some n) (hl : q.line n = some ss)
    (hs : ss[0]? = some (.input t)) (rs : List Str) :
    TurnStepI q (q.start σ.rng) (startEvaluating fuel "RUN".toList σ) (RStepI q (q.start σ.rng) rs) := by
  rw [startEvaluating_run fuel σ h.idle]
  have hfirst : σ.lines.first = some n := by rw [holds_firstI h.lines, hfirstq]
  have hc : CoreI q (q.start σ.rng) (runInit σ) := by
    rw [runInit_first hfirst]
    exact coreI_start h _
  have hpc : (q.start σ.rng).st.pc = some (n, 0) := by
    show (q.first.map fun n => (n, 0)) = _
    rw [hfirstq]; rfl
  have hloc : (runInit σ).loc = { line := some n, idx := (preToksI ss 0).length } := by
    rw [runInit_first hfirst, preToksI_zero]; rfl
  cases t with
  | scalar name =>
    rw [rstepI_prompt hpc hl hs rfl rs, InputL.postprocess_ok (rnsI_prompt (fuel := fuel) hc hl hs hloc)]
    exact ⟨_, rfl, sync_prompted hc hpc hl hs hloc _⟩

/-- **RUN is the first reference step**: it clears variables, arrays, stacks, the
    DATA cursor, the function table and a pending reply, puts the cursor on the
    first line and runs its first statement in the same call — if that is an
    INPUT, RUN returns with the interpreter awaiting input. -/
theorem runI_start {q : RProgramI F} {fuel : Nat} (hfit : FitsI q) (hbase : BaseTurns q fuel) {σ : St F}
    (h : PReadyI q σ) (rs : List Str) (hok : StepOkI q fuel (q.start σ.rng)) :
    TurnStepI q (q.start σ.rng) (startEvaluating fuel "RUN".toList σ) (RStepI q (q.start σ.rng) rs) := by
  rw [startEvaluating_run fuel σ h.idle]
  cases hq : q with
  | nil =>
    subst hq
    have hfirst : σ.lines.first = none := by rw [holds_firstI h.lines]; rfl
    obtain ⟨σ', hσ', hidle, hvars, harr, hout⟩ :=
      rns_imm2 fuel (runInit σ) (by rw [runInit_none hfirst]; rfl) (by rw [runInit_none hfirst]; rfl)
    have harr : σ'.arrays = [] := by rw [harr, runInit_none hfirst]; rfl
    refine ⟨σ', InputL.postprocess_ok hσ', ?_⟩
    show FinalI _ σ'
    rw [runInit_none hfirst] at hvars hout
    exact ⟨hidle, hvars, harr, hout.trans h.out⟩
  | cons l rest =>
    rw [← hq]
    have hfirstq : q.first = some l.1 := by rw [hq]; rfl
    have hfirst : σ.lines.first = some l.1 := by rw [holds_firstI h.lines, hfirstq]
    obtain ⟨ss, hl⟩ := first_lineI hfirstq
    have hlen := line_nonemptyI hfit.wf hl
    have hs : ss[0]? = some ss[0] := by simp [hlen]
    have hc : CoreI q (q.start σ.rng) (runInit σ) := by
      rw [runInit_first hfirst]
      exact coreI_start h _
    have hpc : (q.start σ.rng).st.pc = some (l.1, 0) := by
      show (q.first.map fun n => (n, 0)) = _
      rw [hfirstq]; rfl
    have hloc : (runInit σ).loc = { line := some l.1, idx := (preToksI ss 0).length } := by
      rw [runInit_first hfirst, preToksI_zero]; rfl
    cases hs0 : ss[0] with
    | base s =>
      rw [hs0] at hs
      exact turnStepI_of_stepsTo _ hc.mem.out (hbase _ _ l.1 0 ss s rs hok hc rfl hpc hl hs hloc)
    | input t =>
      rw [hs0] at hs
      have := runI_start_input (fuel := fuel) h hfirstq hl hs rs
      rw [startEvaluating_run fuel σ h.idle] at this
      exact this

/-- **Whole runs with INPUT.**  RUN followed by `k` turns of the host loop with
    the replies `replies` does what `n` steps of the reference machine with the
    same replies do, for some `n` between 1 and `k + 1`: the final states are in
    `Sync` (same output records in the same order — PRINT, `?REENTER`,
    `?EXTRA IGNORED` —, same variables and arrays, the model awaiting input
    exactly when the reference machine stands at a prompted INPUT) and the same
    replies are left; or both fail with the same error, after the same output,
    on the same line. -/
theorem run3_input_refines {q : RProgramI F} {fuel : Nat} (hfit : FitsI q) (hbase : BaseTurns q fuel) {σ : St F}
    (h : PReadyI q σ) (replies : List Str) (hsafe : SafeRunI q fuel (q.start σ.rng) replies) (k : Nat) :
    ∃ n, 1 ≤ n ∧ n ≤ k + 1 ∧ RunMatchI q (runHost fuel replies k σ) (RStepsI q n (q.start σ.rng) replies) := by
  have hT := runI_start hfit hbase h replies hsafe.here
  unfold runHost
  cases hstep : RStepI q (q.start σ.rng) replies with
  | inl xr =>
    obtain ⟨x', rs'⟩ := xr
    rw [hstep] at hT
    obtain ⟨σ', hσ', hsim⟩ := hT
    have hrs : rs' = replies := by
      -- the first step takes no reply: a `base` statement, or the prompt of an INPUT
      cases hpc : (q.start σ.rng).st.pc with
      | none =>
        simp only [RStepI, hpc, Sum.inl.injEq, Prod.mk.injEq] at hstep
        exact hstep.2.symm
      | some nj =>
        obtain ⟨n0, j⟩ := nj
        cases hl : q.line n0 with
        | none =>
          simp only [RStepI, hpc, hl, Sum.inl.injEq, Prod.mk.injEq] at hstep
          exact hstep.2.symm
        | some ss =>
          cases hs : ss[j]? with
          | none =>
            simp only [RStepI, hpc, hl, hs, Sum.inl.injEq, Prod.mk.injEq] at hstep
            exact hstep.2.symm
          | some s =>
            cases s with
            | base s => exact rstepI_base_replies hpc hl hs hstep
            | input t =>
              rw [rstepI_prompt hpc hl hs rfl replies] at hstep
              simp only [Sum.inl.injEq, Prod.mk.injEq] at hstep
              exact hstep.2.symm
    subst hrs
    obtain ⟨n, hn, hm⟩ := hostTurns_refines hfit hbase k x' rs' σ' hsim (hsafe.step hstep)
    refine ⟨n + 1, by omega, by omega, ?_⟩
    rw [rstepsI_ok n hstep, hσ']
    exact hm
  | inr eln =>
    obtain ⟨e, ln⟩ := eln
    rw [hstep] at hT
    obtain ⟨σ', l, hσ', hloc, hidle, hout⟩ := hT
    refine ⟨1, by omega, by omega, ?_⟩
    rw [rstepsI_err 0 hstep, hσ']
    exact ⟨σ', l, rfl, hloc, hidle, hout⟩

/-! ### C08's placement claim at the level of whole programs -/

/-- **Across the suspension only the INPUT is executed.**  `INPUT name` stands as
    statement `j` of line `n` — behind any statements `0 … j - 1` on that line,
    in front of any others — in a running program (`Sync`), the cursor on it; the
    reply `text` suits `name`.  Then:

    1. the first host call suspends: awaiting input, cursor, variables, arrays
       and output as they were;
    2. `provide_input text` + `continue_evaluating` succeeds, and compared with
       the state BEFORE the suspension the only differences in what the program
       can observe are: `name` holds the coerced item, and `?EXTRA IGNORED` was
       emitted iff the reply had a surplus.  No PRINT record, no other variable,
       no array, loop, DATA position, function or generator state has changed:
       the statements in front of the INPUT on its line have not been executed
       a second time (and the INPUT's own assignment exactly once);
    3. the model is in `Sync` with the reference state whose program counter is
       `resume n (j + 1)` — the statement behind the INPUT, else the next line —
       and that is two reference steps from the start (prompt, reply).  By
       `hostTurns_refines` the following host turns are the reference steps
       from there: the statement after the INPUT runs next, and once. -/
theorem input_only_reexecutes_itself {q : RProgramI F} {fuel : Nat} (hwf : q.WF) {x : RStateI F} {σ : St F}
    (h : Sync q x σ) {n j : Nat} {ss : List (RStmtI F)} {name : Str}
    (hpc : x.st.pc = some (n, j)) (hp : x.prompted = false) (hl : q.line n = some ss)
    (hs : ss[j]? = some (.input (.scalar name))) (hidx : σ.loc.idx = (preToksI ss j).length)
    (text : Str) (rest : List Str) {first : DataElement F} {more : List (DataElement F)} {k : Nat} {v : Value F}
    (hpd : parseData (F := F) text = (first :: more, k)) (hco : Value.coerceFromData name first = .ok v) :
    ∃ σ₁ σ₂,
      continueEvaluating fuel σ = .ok () σ₁ ∧ σ₁.state = .awaitingInput ∧ σ₁.loc = σ.loc ∧ σ₁.vars = σ.vars ∧
        σ₁.arrays = σ.arrays ∧ σ₁.out = σ.out ∧
      (provideInput text >>= fun _ => continueEvaluating fuel) σ₁ = .ok () σ₂ ∧
        σ₂.out = C08.extraOut (C08.surplus more k text) ++ σ.out ∧ σ₂.vars = alSet name v σ.vars ∧
        σ₂.arrays = σ.arrays ∧ σ₂.loops = σ.loops ∧ σ₂.data = σ.data ∧ σ₂.fns = σ.fns ∧ σ₂.rng = σ.rng ∧
      RStepsI q 2 x (text :: rest) =
        .inl (x.accepted name v (C08.surplus more k text) (q.resume n (j + 1)), rest) ∧
      Sync q (x.accepted name v (C08.surplus more k text) (q.resume n (j + 1))) σ₂ := by
  have hc := sync_core h hpc
  obtain ⟨hrun, hline, _⟩ := sync_posOf h hpc hp
  have hloc : σ.loc = { line := some n, idx := (preToksI ss j).length } := by rw [← hidx, ← hline]
  have hcont : continueEvaluating fuel σ =
      .ok () { σ with state := .awaitingInput, reads := σ.reads + 1 + 1 + 1 + 1 } := by
    rw [C09.continue_is_one_turn fuel σ hrun]
    exact InputL.postprocess_ok (rnsI_prompt (fuel := fuel) hc hl hs hloc)
  have hprov := C08.provideInput_eq text
    ({ σ with state := .awaitingInput, reads := σ.reads + 1 + 1 + 1 + 1 } : St F) rfl
  have hmem : MemI q x ({ σ with input := none, state := .running, reads := σ.reads + 1 + 1 + 1 + 1 } : St F) :=
    hc.mem.congr rfl rfl rfl rfl rfl rfl rfl rfl rfl hc.mem.input.symm
  obtain ⟨σ₂, hσ₂, hsync, ha, hlo, hd, hf, hg, ho, hv⟩ := rnsI_accept (fuel := fuel) hwf
    (σ := ({ σ with input := some text, state := .running, reads := σ.reads + 1 + 1 + 1 + 1 } : St F))
    ⟨hc.env.lines, hc.env.warnings, hc.env.tracing⟩ hmem hc.inv hc.nesting hl hs hloc rfl hpd hco
  have hr : readReply (F := F) name text = .accept v (C08.surplus more k text) := by
    simp only [readReply, hpd, hco]
    rfl
  refine ⟨_, σ₂, hcont, rfl, rfl, rfl, rfl, rfl, ?_, ho, hv, ha, hlo, hd, hf, hg, ?_, hsync⟩
  · rw [bind_ok hprov]
    rw [C09.continue_is_one_turn fuel _ rfl]
    exact InputL.postprocess_ok hσ₂
  · rw [rstepsI_ok 1 (rstepI_prompt hpc hl hs hp (text :: rest)),
      rstepsI_ok 0 (rstepI_accept (x := { x with prompted := true }) (t := .scalar name) hpc hl hs rfl hr)]
    rfl

/-! ### non-vacuity (on the degenerate carrier `Unit`: no text parses as a number) -/

namespace DemoI

/-- ```
    10 PRINT "A"; : INPUT X$ : PRINT X$;
    20 INPUT N : PRINT "B";
    ``` -/
def prog : RProgramI Unit :=
  [ (10, [ .base (.printS [.expr (.str ['A']), .semi]), .input (.scalar ['X', '$']),
           .base (.printS [.expr (.var ['X', '$']), .semi]) ]),
    (20, [ .input (.scalar ['N']), .base (.printS [.expr (.str ['B']), .semi]) ]) ]

/-- what a host sees of a run: error, state, output (oldest first), names of the variables, replies left -/
def obs (r : Res Unit Unit × List Str) : Option Err × IState × List Out × List Str × List Str :=
  match r.1 with
  | .ok _ s => (none, s.state, s.out.reverse, s.vars.map (·.1), r.2)
  | .err e s => (some e.err, s.state, s.out.reverse, s.vars.map (·.1), r.2)

/-- the same of a run of the reference machine (and its program counter) -/
def robs (r : (RStateI Unit × List Str) ⊕ (Err × Nat × RStateI Unit)) :
    Option Err × Bool × List Out × List Str × List Str :=
  match r with
  | .inl (x, rs) => (none, x.awaits, x.output, x.st.vars.map (·.1), rs)
  | .inr (e, _, x) => (some e, x.awaits, x.output, x.st.vars.map (·.1), [])

/-- the program counter at the end of a run of the reference machine -/
def rpc (r : (RStateI Unit × List Str) ⊕ (Err × Nat × RStateI Unit)) : Option (Nat × Nat) :=
  match r with
  | .inl (x, _) => x.st.pc
  | .inr (_, _, x) => x.st.pc

def replies : List Str := ["HI, THERE".toList, "X".toList, "1".toList]

def progLines : Lines Unit :=
  { map := [ (10, [.kw .Print, .str ['A'], .kw .Semicolon, .kw .Colon, .kw .Input, .symbol ['X', '$'], .kw .Colon,
                   .kw .Print, .symbol ['X', '$'], .kw .Semicolon]),
             (20, [.kw .Input, .symbol ['N'], .kw .Colon, .kw .Print, .str ['B'], .kw .Semicolon]) ],
    sorted := [10, 20] }

theorem prog_compile : compilePI prog = progLines := by
  simp [compilePI, prog, progLines, renderLineI, renderTailI, renderSI, ITarget.render, renderS3, renderItems3,
    PItem3.render, render2]

/-- By computation on the model: RUN and the host loop with the replies `HI, THERE`,
    `X`, `1`.  `A` is printed once (the PRINT in front of the first INPUT is not
    repeated), the first reply is accepted with `?EXTRA IGNORED`, `HI` is printed
    once, `INPUT N` rejects `X` and `1` (on this carrier nothing is a number) with
    `?REENTER` each, and the interpreter awaits input with no reply left. -/
theorem model_run : obs (runHost defaultFuel replies 12 ({ lines := compilePI prog } : St Unit)) =
    (none, .awaitingInput, [.print ['A'], .extraIgnored, .print ['H', 'I'], .reenter, .reenter], [['X', '$']], []) := by
  rw [prog_compile]
  decide +kernel

/-- ```
    10 RESTORE : INPUT X$ : RESTORE
    20 INPUT N : END
    ```
    (statements that evaluate no expression: the reference machine can then be run
    by `decide`; `fold2` is defined by well-founded recursion) -/
def progR : RProgramI Unit :=
  [ (10, [ .base .restoreS, .input (.scalar ['X', '$']), .base .restoreS ]),
    (20, [ .input (.scalar ['N']), .base .endS ]) ]

def progRLines : Lines Unit :=
  { map := [ (10, [.kw .Restore, .kw .Colon, .kw .Input, .symbol ['X', '$'], .kw .Colon, .kw .Restore]),
             (20, [.kw .Input, .symbol ['N'], .kw .Colon, .kw .End]) ],
    sorted := [10, 20] }

theorem progR_compile : compilePI progR = progRLines := by
  simp [compilePI, progR, progRLines, renderLineI, renderTailI, renderSI, ITarget.render, renderS3]

/-- By computation, the model and the reference machine on `progR` with the same
    replies: the same output records (`?EXTRA IGNORED` for the first reply,
    `?REENTER` twice for `INPUT N`), the same variables, the same replies left
    (none), the model awaiting input and the reference machine standing at the
    prompted INPUT of line 20. -/
theorem both_run :
    obs (runHost defaultFuel replies 12 ({ lines := compilePI progR } : St Unit)) =
      (none, .awaitingInput, [.extraIgnored, .reenter, .reenter], [['X', '$']], []) ∧
    robs (RStepsI progR 9 (progR.start 0) replies) =
      (none, true, [.extraIgnored, .reenter, .reenter], [['X', '$']], []) ∧
    rpc (RStepsI progR 9 (progR.start 0) replies) = some (20, 0) := by
  rw [progR_compile]
  refine ⟨?_, ?_, ?_⟩
  · decide +kernel
  · decide +kernel
  · decide +kernel

/-- `10 INPUT X$ : PRINT X$;` -/
def prog2 : RProgramI Unit :=
  [ (10, [ .input (.scalar ['X', '$']), .base (.printS [.expr (.var ['X', '$']), .semi]) ]) ]

theorem ready2 : PReadyI prog2 ({ lines := compilePI prog2 } : St Unit) :=
  ⟨rfl, holds_compileI prog2, rfl, rfl, rfl, rfl, by show (0 : Nat) < Extracted.rngModulus; decide⟩

theorem wf2 : prog2.WF := ⟨by decide, by intro l hl; simp [prog2] at hl; subst hl; simp⟩

/-- By the theorems (no assumption): RUN leaves the interpreter awaiting input in
    `Sync` with the prompted start state; the reply `HI` leads to a state in `Sync`
    with the reference state two steps from the start. -/
example : ∃ σ₁ σ₂ x₂,
    startEvaluating defaultFuel "RUN".toList ({ lines := compilePI prog2 } : St Unit) = .ok () σ₁ ∧
    σ₁.state = .awaitingInput ∧
    (provideInput "HI".toList >>= fun _ => continueEvaluating defaultFuel) σ₁ = .ok () σ₂ ∧
    RStepsI prog2 2 (prog2.start 0) ["HI".toList] = .inl (x₂, []) ∧ Sync prog2 x₂ σ₂ := by
  have hpc : (prog2.start (F := Unit) 0).st.pc = some (10, 0) := rfl
  have hl : prog2.line 10 = some [ .input (.scalar ['X', '$']), .base (.printS [.expr (.var ['X', '$']), .semi]) ] := rfl
  have h1 := runI_start_input (fuel := defaultFuel) ready2 (n := 10) rfl hl rfl ["HI".toList]
  have hstep1 := rstepI_prompt (x := prog2.start (F := Unit) 0) hpc hl rfl rfl ["HI".toList]
  rw [show ({ lines := compilePI prog2 } : St Unit).rng = 0 from rfl, hstep1] at h1
  obtain ⟨σ₁, hσ₁, hsync1⟩ := h1
  have hst : σ₁.state = .awaitingInput := (sync_awaitOf hsync1 hpc rfl).1
  obtain ⟨h2, x₂, hstep2⟩ := turn3_input_reply (fuel := defaultFuel) wf2 hsync1 hpc rfl "HI".toList []
  rw [hstep2] at h2
  obtain ⟨σ₂, hσ₂, hsync2⟩ := h2
  exact ⟨σ₁, σ₂, x₂, hσ₁, hst, hσ₂, by rw [rstepsI_ok 1 hstep1, rstepsI_ok 0 hstep2]; rfl, hsync2⟩

end DemoI

end Abasic.Props.C03
