import Abasic.Props.C03Stmt
import Abasic.Proofs.ProgLemmas
/-
  C03, program level: the turn-by-turn execution of a stored program refines
  the reference machine of Abasic/Ref/Prog.lean.

  A program `p : RProgram F` (numbered lines of covered statements LET, PRINT,
  GOTO, END, IF … THEN … [ELSE …], several to a line with `:`) is stored as
  `compileP p` (or any store that `Holds` its lines).  RUN and every following `continueEvaluating` is one *turn*
  (`runNextStatement`); the reference machine makes one *step* `RStep` per
  statement.  How the two line up, as the model does it (`runNextStatement`,
  `dispatch`):

  * a turn runs ONE statement; when that exhausts the line, the same turn moves
    the cursor to the start of the next greater line (or makes the interpreter
    idle); after a GOTO the turn ends at the start of the target line;
  * a colon is NOT consumed by the turn of the statement in front of it: that
    turn ends with the cursor ON the colon, and the next turn consumes the colon
    and nothing else (for `dispatch` the colon is a statement of its own);
    so the first statement of a line costs one turn, every other one two.

  Hence the simulation relation `Sim` lets the cursor stand either at the first
  token of the statement the reference machine is at, or — if that statement is
  not the first of its line — on the colon in front of it, and

  * `turn_colon`   : on the colon, a turn moves to the statement; the reference
                     machine does not move;
  * `turn_refines` : on the statement, a turn is exactly `RStep`: the same
                     variables, the same PRINT records, the next position; a
                     reference error is the error of the turn, attributed to the
                     line of the statement, and the interpreter is idle;
  * `run_start`    : RUN is the first reference step from `p.start`;
  * `run_refines`  : RUN and `k` more turns are `n` reference steps for some
                     `1 ≤ n ≤ k + 1`; `run_refines_steps`: `n ≥ 1` reference
                     steps are RUN and `k ≤ 2 (n - 1)` more turns.  In both, equal
                     variables, equal printed output, equal (error, line).

  Hypotheses (`Fits`): ascending line numbers, no empty line, every statement
  `Covered` (Ref/Stmt.lean; for GOTO this is `toU64 (ofNat n) = n`) and its
  depth `sdepth` within the fuel and the nesting cap.  The start state (`Ready`)
  is idle, its store holds the lines of `p` (`Holds`: the token map answers with
  the rendered lines, the ordered index lists the numbers — true of `compileP p`,
  of the store after the lines were typed in (`holds_load`) and of every
  well-formed store with these contents (`holds_of_wf`), whatever the order of
  entry), warnings and tracing are off, nesting is 0 and the output queue empty.
  That no stored line begins with ELSE (`NoElseLine`, needed by the IF theorem)
  is derived, not assumed.  Error attribution rests on `stmt_errkeep`
  (Proofs/ErrKeep.lean): a covered statement that fails, fails with the cursor on
  the line it started on and without having printed.
-/
set_option linter.unusedSectionVars false

namespace Abasic.Props.C03
open Abasic Abasic.Ref Abasic.ExprL Abasic.StmtL Abasic.ProgL

variable {F : Type} [NumOps F]

/-! ### the simulation relation -/

/-- the cursor against the program counter: idle after the end; otherwise
    running on the line of the statement, at its first token or (when it is not
    the first statement of the line) on the colon in front of it -/
def Pos (p : RProgram F) : Option (Nat × Nat) → St F → Prop
  | none, σ => σ.state = .idle
  | some (n, j), σ => σ.state = .running ∧ σ.loc.line = some n ∧
      ∃ ss, p.line n = some ss ∧ j < ss.length ∧
        (σ.loc.idx = (preToks ss j).length ∨ (0 < j ∧ σ.loc.idx + 1 = (preToks ss j).length))

/-- **The simulation relation.**  `core`: the store holds the lines of the program (`Holds`), the
    variables are the reference variables, the output queue holds the reference
    PRINT records (`outRecs`: as `Out.print`, newest first), no GOSUB / function
    frames, warnings and tracing off, nesting 0, no user functions.  `pos`: the
    cursor stands where the program counter says (`Pos`). -/
structure Sim (p : RProgram F) (r : RState F) (σ : St F) : Prop where
  core : Core p r.vars r.out σ
  pos : Pos p r.pc σ

/-- the outcome of a turn (or of RUN) against the outcome of a reference step from `r` -/
def TurnStep (p : RProgram F) (r : RState F) (res : Res F Unit) : RState F ⊕ (Err × Nat) → Prop
  | .inl r' => ∃ σ', res = .ok () σ' ∧ Sim p r' σ'
  | .inr (e, ln) => ∃ σ' i, res = .err { err := e, loc := some { line := some ln, idx := i } } σ' ∧
      σ'.state = .idle ∧ σ'.out = outRecs r.out

theorem preToks_zero (ss : List (RStmt F)) : preToks ss 0 = [] := by
  cases ss <;> rfl

theorem landed_pos {p : RProgram F} {pc : Option (Nat × Nat)} {σ : St F} (h : Landed p pc σ) : Pos p pc σ := by
  cases pc with
  | none => exact h
  | some nj =>
    obtain ⟨n, j⟩ := nj
    obtain ⟨hrun, ss, hl, hj, hline, hidx⟩ := h
    refine ⟨hrun, hline, ss, hl, hj, ?_⟩
    by_cases h0 : j = 0
    · rw [if_pos h0] at hidx
      subst h0
      rw [preToks_zero]
      exact Or.inl hidx
    · rw [if_neg h0] at hidx
      exact Or.inr ⟨Nat.pos_of_ne_zero h0, hidx⟩

theorem postprocess_ok {m : M F Unit} {σ σ' : St F} (h : m σ = .ok () σ') : postprocess m σ = .ok () σ' := by
  unfold postprocess; rw [h]

theorem postprocess_err {m : M F Unit} {σ σ' : St F} {e : Err} (h : m σ = .err { err := e } σ')
    (hnd : e ≠ .dataTypeMismatch) :
    postprocess m σ = .err { err := e, loc := some σ'.prevLoc } { σ' with state := .idle } := by
  unfold postprocess; rw [h]
  show Res.err (σ'.populate { err := e }) _ = _
  rw [populate_nd σ' hnd]

/-- from the core lemma (`rns_stmt`, about `runNextStatement`) to a host call -/
theorem turnStep_of_stepsTo {p : RProgram F} {r : RState F} {σ σ0 : St F} {m : M F Unit}
    (x : RState F ⊕ (Err × Nat)) (hnd : ∀ e ln, x = .inr (e, ln) → e ≠ .dataTypeMismatch)
    (hout : σ.out = outRecs r.out) (h : StepsTo p (m σ) σ x) :
    (∀ σ', m σ = .ok () σ' → postprocess m σ0 = .ok () σ') →
    (∀ e σ', m σ = .err { err := e } σ' → e ≠ .dataTypeMismatch →
      postprocess m σ0 = .err { err := e, loc := some σ'.prevLoc } { σ' with state := .idle }) →
    TurnStep p r (postprocess m σ0) x := by
  intro hok herr
  cases x with
  | inl r' =>
    obtain ⟨σ', hσ', hc, hland⟩ := h
    exact ⟨σ', hok σ' hσ', hc, landed_pos hland⟩
  | inr eln =>
    obtain ⟨e, ln⟩ := eln
    obtain ⟨σ', hσ', hline, ho⟩ := h
    refine ⟨{ σ' with state := .idle }, σ'.loc.idx - 1, ?_, rfl, by show σ'.out = _; rw [ho, hout]⟩
    rw [herr e σ' hσ' (hnd e ln rfl)]
    show Res.err { err := e, loc := some { line := σ'.loc.line, idx := σ'.loc.idx - 1 } } _ = _
    rw [hline]

/-! ### one turn -/

/-- **A turn on a colon.**  With the cursor on the colon in front of the
    statement the reference machine is at, a turn succeeds, moves the cursor to
    the first token of that statement and changes nothing the simulation relation
    sees: the reference machine does not move. -/
theorem turn_colon {p : RProgram F} {fuel : Nat} {r : RState F} {σ : St F}
    (h : Sim p r σ) {n j : Nat} {ss : List (RStmt F)} (hpc : r.pc = some (n, j)) (hl : p.line n = some ss)
    (hidx : σ.loc.idx + 1 = (preToks ss j).length) :
    ∃ σ', continueEvaluating fuel σ = .ok () σ' ∧ Sim p r σ' ∧ σ'.loc.idx = (preToks ss j).length := by
  have hpos := h.pos
  rw [hpc] at hpos
  obtain ⟨hrun, hline, ss', hl', hj, hcur⟩ := hpos
  rw [hl] at hl'
  cases hl'
  have h0 : 0 < j := by
    rcases hcur with hc | hc
    · omega
    · exact hc.1
  obtain ⟨j', rfl⟩ : ∃ j', j = j' + 1 := ⟨j - 1, by omega⟩
  obtain ⟨σ', hσ', hc', hrun', hloc'⟩ := rns_colon (fuel := fuel) h.core hl hj hline hidx
  refine ⟨σ', ?_, ⟨hc', ?_⟩, by rw [hloc']⟩
  · rw [C09.continue_is_one_turn fuel σ hrun]
    exact postprocess_ok hσ'
  · rw [hpc]
    exact ⟨hrun', by rw [hloc'], ss, hl, hj, Or.inl (by rw [hloc'])⟩

/-- **A turn on a statement is one reference step.**  With the cursor on the
    first token of the statement at the program counter, `continueEvaluating`
    does what `RStep` says: on `.inl r'` it succeeds in a state related to `r'`
    (variables, PRINT records, next position — on the colon if the next statement
    is on the same line, at the start of the next or of the target line, or idle
    at the end); on `.inr (e, ln)` it fails with `e` located on line `ln`, the
    interpreter is idle and nothing has been printed by the failing statement. -/
theorem turn_refines {p : RProgram F} {fuel : Nat} (hfit : Fits p fuel) {r : RState F} {σ : St F}
    (h : Sim p r σ) {n j : Nat} {ss : List (RStmt F)} (hpc : r.pc = some (n, j)) (hl : p.line n = some ss)
    (hidx : σ.loc.idx = (preToks ss j).length) :
    TurnStep p r (continueEvaluating fuel σ) (RStep p r) := by
  have hpos := h.pos
  rw [hpc] at hpos
  obtain ⟨hrun, hline, ss', hl', hj, _⟩ := hpos
  rw [hl] at hl'
  cases hl'
  have hs : ss[j]? = some ss[j] := by simp [hj]
  have hloc : σ.loc = { line := some n, idx := (preToks ss j).length } := by
    rw [← hidx, ← hline]
  have hS := rns_stmt hfit h.core hpc hl hs hloc
  rw [C09.continue_is_one_turn fuel σ hrun]
  exact turnStep_of_stepsTo (RStep p r) (fun e ln he => rstep_nd he) h.core.out hS
    (fun σ' hσ' => postprocess_ok hσ') (fun e σ' hσ' hnd => postprocess_err hσ' hnd)

/-! ### RUN -/

/-- what RUN needs of the state it is typed into -/
structure Ready (p : RProgram F) (σ : St F) : Prop where
  idle : σ.state = .idle
  lines : Holds σ.lines p
  warnings : σ.warnings = false
  tracing : σ.tracing = false
  nesting : σ.nesting = 0
  out : σ.out = []

theorem bind_pure_unit (m : M F Unit) (σ : St F) : (m >>= fun _ => pure ()) σ = m σ := by
  show M.bindM m (fun _ => M.pureM ()) σ = m σ
  unfold M.bindM M.pureM
  cases m σ <;> rfl

theorem startEvaluating_run (fuel : Nat) (σ : St F) (hi : σ.state = .idle) :
    startEvaluating fuel "RUN".toList σ = postprocess (runNextStatement fuel) (runInit σ) := by
  unfold startEvaluating postprocess
  rw [run_eq fuel σ hi, bind_pure_unit]

/-- **RUN is the first reference step**: it clears the variables, puts the cursor
    on the first line and runs its first statement in the same call. -/
theorem run_start {p : RProgram F} {fuel : Nat} (hfit : Fits p fuel) {σ : St F} (h : Ready p σ) :
    TurnStep p p.start (startEvaluating fuel "RUN".toList σ) (RStep p p.start) := by
  rw [startEvaluating_run fuel σ h.idle]
  cases hp : p with
  | nil =>
    subst hp
    have hfirst : σ.lines.first = none := by rw [holds_first h.lines]; rfl
    obtain ⟨σ', hσ', hidle, hlines, hvars, hout, hw, ht, hn, hf, hst⟩ :=
      rns_imm fuel (runInit σ) (by rw [runInit_none hfirst]; rfl) (by rw [runInit_none hfirst]; rfl)
    refine ⟨σ', postprocess_ok hσ', ⟨?_, hidle⟩⟩
    rw [runInit_none hfirst] at hlines hvars hout hw ht hn hf hst
    exact ⟨by rw [hlines]; exact h.lines, hvars, hout.trans h.out, hst rfl, hw.trans h.warnings, ht.trans h.tracing,
      hn.trans h.nesting, hf⟩
  | cons l rest =>
    rw [← hp]
    have hfirstp : p.first = some l.1 := by rw [hp]; rfl
    have hfirst : σ.lines.first = some l.1 := by rw [holds_first h.lines, hfirstp]
    obtain ⟨ss, hl⟩ := first_line hfirstp
    have hlen := line_nonempty hfit.wf hl
    have hs : ss[0]? = some ss[0] := by simp [hlen]
    have hc : Core p p.start.vars p.start.out (runInit σ) := by
      rw [runInit_first hfirst]
      exact ⟨h.lines, rfl, h.out, rfl, h.warnings, h.tracing, h.nesting, rfl⟩
    have hpc : p.start.pc = some (l.1, 0) := by
      show (p.first.map fun n => (n, 0)) = _
      rw [hfirstp]; rfl
    have hloc : (runInit σ).loc = { line := some l.1, idx := (preToks ss 0).length } := by
      rw [runInit_first hfirst, preToks_zero]; rfl
    have hS := rns_stmt hfit hc hpc hl hs hloc
    exact turnStep_of_stepsTo (RStep p p.start) (fun e ln he => rstep_nd he) hc.out hS
      (fun σ' hσ' => postprocess_ok hσ') (fun e σ' hσ' hnd => postprocess_err hσ' hnd)

/-! ### runs -/

/-- the host loop: up to `k` more turns, as long as the interpreter is running -/
def turns (fuel : Nat) : Nat → St F → Res F Unit
  | 0, σ => .ok () σ
  | k + 1, σ =>
    if σ.state = .running then
      match continueEvaluating fuel σ with
      | .ok _ σ' => turns fuel k σ'
      | .err e σ' => .err e σ'
    else .ok () σ

/-- RUN and up to `k` more turns -/
def runTurns (fuel k : Nat) (σ : St F) : Res F Unit :=
  match startEvaluating fuel "RUN".toList σ with
  | .ok _ σ' => turns fuel k σ'
  | .err e σ' => .err e σ'

/-- the outcome of a run of the model against the outcome of a run of the
    reference machine: the same variables, PRINT records and position, or the
    same error on the same line with the same PRINT records before it -/
def RunMatch (p : RProgram F) (res : Res F Unit) : RState F ⊕ (Err × Nat × List Str) → Prop
  | .inl r' => ∃ σ', res = .ok () σ' ∧ Sim p r' σ'
  | .inr (e, ln, out) => ∃ σ' i, res = .err { err := e, loc := some { line := some ln, idx := i } } σ' ∧
      σ'.state = .idle ∧ σ'.out = outRecs out

theorem turns_idle (fuel k : Nat) (σ : St F) (h : σ.state = .idle) : turns fuel k σ = .ok () σ := by
  cases k with
  | zero => rfl
  | succ k => simp [turns, h]

theorem turns_ok (fuel k : Nat) {σ σ' : St F} (hr : σ.state = .running)
    (h : continueEvaluating fuel σ = .ok () σ') : turns fuel (k + 1) σ = turns fuel k σ' := by
  simp only [turns, hr, ↓reduceIte, h]

theorem turns_err (fuel k : Nat) {σ σ' : St F} {e : TErr} (hr : σ.state = .running)
    (h : continueEvaluating fuel σ = .err e σ') : turns fuel (k + 1) σ = .err e σ' := by
  simp only [turns, hr, ↓reduceIte, h]

theorem rsteps_ok {p : RProgram F} {r r' : RState F} (n : Nat) (h : RStep p r = .inl r') :
    RSteps p (n + 1) r = RSteps p n r' := by
  simp only [RSteps, h]

theorem rsteps_err {p : RProgram F} {r : RState F} {e : Err} {ln : Nat} (n : Nat) (h : RStep p r = .inr (e, ln)) :
    RSteps p (n + 1) r = .inr (e, ln, r.out) := by
  simp only [RSteps, h]

theorem rstep_ended {p : RProgram F} {r : RState F} (h : r.pc = none) : RStep p r = .inl r := by
  simp only [RStep, h]

/-- **`k` turns are at most `k` reference steps** (a turn on a colon is none). -/
theorem turns_refines {p : RProgram F} {fuel : Nat} (hfit : Fits p fuel) :
    ∀ (k : Nat) (r : RState F) (σ : St F), Sim p r σ →
      ∃ n, n ≤ k ∧ RunMatch p (turns fuel k σ) (RSteps p n r)
  | 0, r, σ, h => ⟨0, Nat.le_refl _, σ, rfl, h⟩
  | k + 1, r, σ, h => by
    cases hpc : r.pc with
    | none =>
      have hpos := h.pos
      rw [hpc] at hpos
      exact ⟨0, Nat.zero_le _, σ, turns_idle fuel _ σ hpos, h⟩
    | some nj =>
      obtain ⟨n0, j⟩ := nj
      have hpos := h.pos
      rw [hpc] at hpos
      obtain ⟨hrun, hline, ss, hl, hj, hcur⟩ := hpos
      rcases hcur with hidx | ⟨_, hidx⟩
      · have hT := turn_refines hfit h hpc hl hidx
        cases hstep : RStep p r with
        | inl r' =>
          rw [hstep] at hT
          obtain ⟨σ', hσ', hsim⟩ := hT
          obtain ⟨n, hn, hm⟩ := turns_refines hfit k r' σ' hsim
          refine ⟨n + 1, by omega, ?_⟩
          rw [rsteps_ok n hstep, turns_ok fuel k hrun hσ']
          exact hm
        | inr eln =>
          obtain ⟨e, ln⟩ := eln
          rw [hstep] at hT
          obtain ⟨σ', i, hσ', hidle, hout⟩ := hT
          refine ⟨1, by omega, ?_⟩
          rw [rsteps_err 0 hstep, turns_err fuel k hrun hσ']
          exact ⟨σ', i, rfl, hidle, hout⟩
      · obtain ⟨σ', hσ', hsim, _⟩ := turn_colon (fuel := fuel) h hpc hl hidx
        obtain ⟨n, hn, hm⟩ := turns_refines hfit k r σ' hsim
        refine ⟨n, by omega, ?_⟩
        rw [turns_ok fuel k hrun hσ']
        exact hm

/-- **`n` reference steps are at most `2 n` turns.** -/
theorem steps_refines {p : RProgram F} {fuel : Nat} (hfit : Fits p fuel) :
    ∀ (n : Nat) (r : RState F) (σ : St F), Sim p r σ →
      ∃ k, k ≤ 2 * n ∧ RunMatch p (turns fuel k σ) (RSteps p n r)
  | 0, r, σ, h => ⟨0, Nat.le_refl _, σ, rfl, h⟩
  | n + 1, r, σ, h => by
    cases hpc : r.pc with
    | none =>
      obtain ⟨k, hk, hm⟩ := steps_refines hfit n r σ h
      refine ⟨k, by omega, ?_⟩
      rw [rsteps_ok n (rstep_ended hpc)]
      exact hm
    | some nj =>
      obtain ⟨n0, j⟩ := nj
      have hpos := h.pos
      rw [hpc] at hpos
      obtain ⟨hrun, hline, ss, hl, hj, hcur⟩ := hpos
      -- with the cursor on the statement
      have atStmt : ∀ σ : St F, Sim p r σ → σ.state = .running → σ.loc.idx = (preToks ss j).length →
          ∃ k, k ≤ 2 * n + 1 ∧ RunMatch p (turns fuel k σ) (RSteps p (n + 1) r) := by
        intro σ h hrun hidx
        have hT := turn_refines hfit h hpc hl hidx
        cases hstep : RStep p r with
        | inl r' =>
          rw [hstep] at hT
          obtain ⟨σ', hσ', hsim⟩ := hT
          obtain ⟨k, hk, hm⟩ := steps_refines hfit n r' σ' hsim
          refine ⟨k + 1, by omega, ?_⟩
          rw [rsteps_ok n hstep, turns_ok fuel k hrun hσ']
          exact hm
        | inr eln =>
          obtain ⟨e, ln⟩ := eln
          rw [hstep] at hT
          obtain ⟨σ', i, hσ', hidle, hout⟩ := hT
          refine ⟨1, by omega, ?_⟩
          rw [rsteps_err n hstep, turns_err fuel 0 hrun hσ']
          exact ⟨σ', i, rfl, hidle, hout⟩
      rcases hcur with hidx | ⟨_, hidx⟩
      · obtain ⟨k, hk, hm⟩ := atStmt σ h hrun hidx
        exact ⟨k, by omega, hm⟩
      · obtain ⟨σ', hσ', hsim, hidx'⟩ := turn_colon (fuel := fuel) h hpc hl hidx
        have hrun' : σ'.state = .running := by
          have := hsim.pos
          rw [hpc] at this
          exact this.1
        obtain ⟨k, hk, hm⟩ := atStmt σ' hsim hrun' hidx'
        refine ⟨k + 1, by omega, ?_⟩
        rw [turns_ok fuel k hrun hσ']
        exact hm

/-- **Whole runs, by turns.**  RUN followed by `k` turns of the host loop does
    what `n` reference steps from the start of the program do, for some `n`
    between 1 and `k + 1`: equal variables, equal printed output, the cursor
    where the program counter says; or the same error, attributed to the same
    line, after the same output. -/
theorem run_refines {p : RProgram F} {fuel : Nat} (hfit : Fits p fuel) {σ : St F} (h : Ready p σ) (k : Nat) :
    ∃ n, 1 ≤ n ∧ n ≤ k + 1 ∧ RunMatch p (runTurns fuel k σ) (RSteps p n p.start) := by
  have hT := run_start hfit h
  unfold runTurns
  cases hstep : RStep p p.start with
  | inl r' =>
    rw [hstep] at hT
    obtain ⟨σ', hσ', hsim⟩ := hT
    obtain ⟨n, hn, hm⟩ := turns_refines hfit k r' σ' hsim
    refine ⟨n + 1, by omega, by omega, ?_⟩
    rw [rsteps_ok n hstep, hσ']
    exact hm
  | inr eln =>
    obtain ⟨e, ln⟩ := eln
    rw [hstep] at hT
    obtain ⟨σ', i, hσ', hidle, hout⟩ := hT
    refine ⟨1, by omega, by omega, ?_⟩
    rw [rsteps_err 0 hstep, hσ']
    exact ⟨σ', i, rfl, hidle, hout⟩

/-- **Whole runs, by reference steps.**  `n + 1` reference steps from the start of
    the program are RUN followed by some `k ≤ 2 n` turns of the host loop. -/
theorem run_refines_steps {p : RProgram F} {fuel : Nat} (hfit : Fits p fuel) {σ : St F} (h : Ready p σ) (n : Nat) :
    ∃ k, k ≤ 2 * n ∧ RunMatch p (runTurns fuel k σ) (RSteps p (n + 1) p.start) := by
  have hT := run_start hfit h
  unfold runTurns
  cases hstep : RStep p p.start with
  | inl r' =>
    rw [hstep] at hT
    obtain ⟨σ', hσ', hsim⟩ := hT
    obtain ⟨k, hk, hm⟩ := steps_refines hfit n r' σ' hsim
    refine ⟨k, hk, ?_⟩
    rw [rsteps_ok n hstep, hσ']
    exact hm
  | inr eln =>
    obtain ⟨e, ln⟩ := eln
    rw [hstep] at hT
    obtain ⟨σ', i, hσ', hidle, hout⟩ := hT
    refine ⟨0, by omega, ?_⟩
    rw [rsteps_err n hstep, hσ']
    exact ⟨σ', i, rfl, hidle, hout⟩

theorem takeOutput_outRecs {σ : St F} {os : List Str} (h : σ.out = outRecs os) :
    (takeOutput σ).1 = os.map Out.print := by
  simp only [takeOutput, h, outRecs, List.reverse_reverse]

/-- **A program that ends, ends the same way in the model**: if the reference
    machine has reached its end after `n + 1` steps, then RUN and some `k ≤ 2 n`
    turns leave the interpreter idle, holding the reference variables, and the
    host takes exactly the reference PRINT records from the output queue. -/
theorem run_ends {p : RProgram F} {fuel : Nat} (hfit : Fits p fuel) {σ : St F} (h : Ready p σ) (n : Nat)
    {r' : RState F} (hr : RSteps p (n + 1) p.start = .inl r') (hend : r'.pc = none) :
    ∃ k σ', k ≤ 2 * n ∧ runTurns fuel k σ = .ok () σ' ∧ σ'.state = .idle ∧ σ'.vars = r'.vars ∧
      (takeOutput σ').1 = r'.out.map Out.print := by
  obtain ⟨k, hk, hm⟩ := run_refines_steps hfit h n
  rw [hr] at hm
  obtain ⟨σ', hσ', hsim⟩ := hm
  have hpos := hsim.pos
  rw [hend] at hpos
  exact ⟨k, σ', hk, hσ', hpos, hsim.core.vars, takeOutput_outRecs hsim.core.out⟩

/-- **A program that fails, fails the same way in the model**: the same error,
    attributed to the same line, after the same printed output. -/
theorem run_fails {p : RProgram F} {fuel : Nat} (hfit : Fits p fuel) {σ : St F} (h : Ready p σ) (n : Nat)
    {e : Err} {ln : Nat} {out : List Str} (hr : RSteps p (n + 1) p.start = .inr (e, ln, out)) :
    ∃ k σ' i, k ≤ 2 * n ∧
      runTurns fuel k σ = .err { err := e, loc := some { line := some ln, idx := i } } σ' ∧
      σ'.state = .idle ∧ (takeOutput σ').1 = out.map Out.print := by
  obtain ⟨k, hk, hm⟩ := run_refines_steps hfit h n
  rw [hr] at hm
  obtain ⟨σ', i, hσ', hidle, hout⟩ := hm
  exact ⟨k, σ', i, hk, hσ', hidle, takeOutput_outRecs hout⟩

/-! ### non-vacuity (on the degenerate carrier `Unit`, where `toU64 (ofNat n) = 0`: the only GOTO target is line 0) -/

/-- ```
    0 IF A$ THEN END
    10 LET A$ = "X" : PRINT A$;
    20 GOTO 0
    ``` -/
def demoProg : RProgram Unit :=
  [ (0, [.ifS (.var ['A', '$']) .endS none]),
    (10, [.letS ['A', '$'] (.str ['X']), .printS [.expr (.var ['A', '$']), .semi]]),
    (20, [.gotoS 0]) ]

def demoLines : Lines Unit :=
  { map := [ (0, [.kw .If, .symbol ['A', '$'], .kw .Then, .kw .End]),
             (10, [.kw .Let, .symbol ['A', '$'], .kw .Equals, .str ['X'], .kw .Colon,
                   .kw .Print, .symbol ['A', '$'], .kw .Semicolon]),
             (20, [.kw .Goto, .num ()]) ],
    sorted := [0, 10, 20] }

theorem demo_compile : compileP demoProg = demoLines := by
  simp [compileP, demoProg, demoLines, renderLine, renderTail, renderS, renderItems, PItem.render,
    render_str, render_var, NumOps.ofNat]

def demoStart : St Unit := { lines := demoLines }

/-- by computation on the model: RUN and five turns (IF; LET; the colon; PRINT; GOTO; IF … END —
    RUN is the first of them) print `X` and leave the interpreter idle; after four it is still running -/
example : (runTurns defaultFuel 5 demoStart).final.state = .idle ∧
    (takeOutput (runTurns defaultFuel 5 demoStart).final).1 = [.print ['X']] ∧
    (runTurns defaultFuel 4 demoStart).final.state = .running := by
  decide +kernel

/-- the reference machine: five steps to the end -/
example : ∃ r', RSteps demoProg 5 demoProg.start = .inl r' ∧ r'.pc = none ∧ r'.out = [['X']] :=
  ⟨_, rfl, rfl, rfl⟩

theorem demo_fits : Fits demoProg defaultFuel where
  wf := ⟨by decide, by intro l hl; simp [demoProg] at hl; rcases hl with rfl | rfl | rfl <;> simp⟩
  covered := by
    intro l hl s hs
    simp [demoProg] at hl
    rcases hl with rfl | rfl | rfl
    · simp at hs; subst hs; simp [RStmt.Covered, RStmt.elseFree]
    · simp at hs; rcases hs with rfl | rfl
      · simp [RStmt.Covered]
      · simp [RStmt.Covered, separated]
    · simp at hs; subst hs; simp [RStmt.Covered, NumOps.toU64]
  depth := by
    intro l hl s hs
    simp [demoProg] at hl
    rcases hl with rfl | rfl | rfl
    · simp at hs; subst hs; simp [sdepth, depth, defaultFuel, Extracted.nestingLimit]
    · simp at hs; rcases hs with rfl | rfl
      · simp [sdepth, depth, defaultFuel, Extracted.nestingLimit]
      · simp [sdepth, itemsDepth, depth, defaultFuel, Extracted.nestingLimit]
    · simp at hs; subst hs; simp [sdepth]

theorem demo_ready : Ready demoProg demoStart where
  idle := rfl
  lines := by show Holds demoLines demoProg; rw [← demo_compile]; exact holds_compile _
  warnings := rfl
  tracing := rfl
  nesting := rfl
  out := rfl

/-- … and the same by the theorems: `demoProg` satisfies their hypotheses, the reference machine ends
    after five steps having printed `X`, hence so does the model within 8 turns after RUN. -/
example : ∃ k σ', k ≤ 8 ∧ runTurns defaultFuel k demoStart = .ok () σ' ∧ σ'.state = .idle ∧
    (takeOutput σ').1 = [.print ['X']] := by
  obtain ⟨k, σ', hk, hrun, hidle, _, hout⟩ :=
    run_ends demo_fits demo_ready 4 (r' := { vars := [(['A', '$'], .str ['X'])], out := [['X']], pc := none }) rfl rfl
  exact ⟨k, σ', hk, hrun, hidle, hout⟩

/-- ```
    10 PRINT "A"
    20 GOTO 0
    ``` -/
def badProg : RProgram Unit :=
  [ (10, [.printS [.expr (.str ['A'])]]), (20, [.gotoS 0]) ]

def badLines : Lines Unit :=
  { map := [ (10, [.kw .Print, .str ['A']]), (20, [.kw .Goto, .num ()]) ], sorted := [10, 20] }

theorem bad_compile : compileP badProg = badLines := by
  simp [compileP, badProg, badLines, renderLine, renderTail, renderS, renderItems, PItem.render,
    render_str, NumOps.ofNat]

def errOf {α : Type} : Res Unit α → Option TErr
  | .ok _ _ => none
  | .err e _ => some e

/-- by computation on the model: the PRINT record, then UNDEF'D STATEMENT located on line 20 -/
example : errOf (runTurns defaultFuel 1 ({ lines := badLines } : St Unit)) =
      some { err := .undefinedStatement, loc := some { line := some 20, idx := 1 } } ∧
    (takeOutput (runTurns defaultFuel 1 ({ lines := badLines } : St Unit)).final).1 = [.print ['A', '\n']] := by
  decide +kernel

theorem bad_fits : Fits badProg defaultFuel where
  wf := ⟨by decide, by intro l hl; simp [badProg] at hl; rcases hl with rfl | rfl <;> simp⟩
  covered := by
    intro l hl s hs
    simp [badProg] at hl
    rcases hl with rfl | rfl
    · simp at hs; subst hs; simp [RStmt.Covered, separated]
    · simp at hs; subst hs; simp [RStmt.Covered, NumOps.toU64]
  depth := by
    intro l hl s hs
    simp [badProg] at hl
    rcases hl with rfl | rfl
    · simp at hs; subst hs; simp [sdepth, itemsDepth, depth, defaultFuel, Extracted.nestingLimit]
    · simp at hs; subst hs; simp [sdepth]

/-- the same by the theorems (error kind, line attribution, output before the error) -/
example : ∃ k σ' i, k ≤ 2 ∧ runTurns defaultFuel k ({ lines := badLines } : St Unit) =
      .err { err := .undefinedStatement, loc := some { line := some 20, idx := i } } σ' ∧
    σ'.state = .idle ∧ (takeOutput σ').1 = [.print ['A', '\n']] :=
  run_fails bad_fits (σ := ({ lines := badLines } : St Unit))
    ⟨rfl, by show Holds badLines badProg; rw [← bad_compile]; exact holds_compile _, rfl, rfl, rfl, rfl⟩ 1
    (e := .undefinedStatement) (ln := 20) (out := [['A', '\n']]) rfl

end Abasic.Props.C03
