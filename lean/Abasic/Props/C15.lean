import Abasic.Front
/-
  C15 — loading a file equals typing it in, and CLI options apply in both modes.

  Proved here: for a numbered, non-empty, tokenizable line the analyzer's line
  pass and the interpreter's line entry store exactly the same tokens under the
  same number; hence for a file made of such lines the analyzer's program store
  is the store obtained by entering the lines one by one (by induction over the
  file); the interpreter built from the file has every piece of runtime state at
  its initial value; and in BOTH modes the interpreter that executes RUN carries
  exactly the command-line flags (the defect repaired by 0b6911f).
  Process-level I/O (rustyline, buffering, exit codes) is exercised by the
  correspondence slice on the real binary, not modelled.
-/
namespace Abasic.Props.C15
open Abasic

variable {F : Type} [NumOps F]

/-- a file line that is numbered, non-empty and tokenizable to at least one token -/
def GoodLine (F : Type) [NumOps F] (line : Str) (n : Nat) (ts : List (Token F)) : Prop :=
  line ≠ [] ∧ ∃ k rts, parseLineNumber line = some (n, k) ∧ tokenizeRanges (F := F) line k = (rts, none) ∧
    rts.map (·.1) = ts ∧ ts ≠ []

/-- The analyzer's line pass stores a good line exactly as `set n ts`. -/
theorem analyzeLine_store (a : Analysis F) (i : Nat) (line : Str) (n : Nat) (ts : List (Token F))
    (h : GoodLine F line n ts) :
    (analyzeLine a i line).st.lines = a.st.lines.set n ts := by
  obtain ⟨hne, k, rts, hp, ht, hm, hts⟩ := h
  have hempty : line.isEmpty = false := by cases line <;> simp_all
  have hrts : rts.isEmpty = false := by
    cases rts with
    | nil => simp at hm; exact absurd hm hts
    | cons _ _ => rfl
  unfold analyzeLine
  simp only [hempty, Bool.false_eq_true, ↓reduceIte, hp, ht, hrts]
  split <;> simp [St.setNumberedLine, St.setImmediate, warnLine, hm]

/-- Entering the same line at the prompt stores it the same way. -/
theorem typed_store (fuel : Nat) (line : Str) (σ : St F) (n : Nat) (ts : List (Token F))
    (h : GoodLine F line n ts) (hidle : σ.state = .idle)
    (hcmd : (commandWord line).bind Command.ofWord = none) :
    ∃ σ', startEvaluating fuel line σ = .ok () σ' ∧ σ'.lines = σ.lines.set n ts ∧ σ'.state = .idle := by
  obtain ⟨_, k, rts, hp, ht, hm, _⟩ := h
  have htok : tokenize (F := F) line k = .ok ts := by simp [tokenize, ht, hm]
  refine ⟨(σ.setImmediate []).setNumberedLine n ts, ?_, ?_, ?_⟩
  · simp [startEvaluating, postprocess, evaluateImpl, hidle, maybeProcessCommand, hcmd, hp, htok,
      bind, M.bindM, M.get, M.modify, setImmediate, pure, M.pureM]
  · simp [St.setNumberedLine, St.setImmediate]
  · simp [St.setNumberedLine, St.setImmediate, hidle]

/-- a whole file of good lines, with the (number, tokens) each line denotes -/
inductive GoodFile (F : Type) [NumOps F] : List Str → List (Nat × List (Token F)) → Prop
  | nil : GoodFile F [] []
  | cons {line n ts lines edits} : GoodLine F line n ts → GoodFile F lines edits →
      GoodFile F (line :: lines) ((n, ts) :: edits)

/-- Loading = typing, at the level of the program store: the analyzer's store
    after the line pass is the fold of `set` over the file's lines — which is
    what line-by-line entry produces (`typed_store`), whatever the order and
    duplicates. -/
theorem load_store (lines : List Str) (edits : List (Nat × List (Token F))) (h : GoodFile F lines edits)
    (a : Analysis F) (i : Nat) :
    (analyzeLines a i lines).st.lines = edits.foldl (fun l e => l.set e.1 e.2) a.st.lines := by
  induction h generalizing a i with
  | nil => rfl
  | cons hl _ ih =>
    simp only [analyzeLines, List.foldl_cons]
    rw [ih, analyzeLine_store a i _ _ _ hl]

omit [NumOps F] in
/-- The interpreter built from a file starts with all runtime state at its initial value. -/
theorem loaded_is_fresh (a : Analysis F) :
    let s := a.intoInterpreter
    s.vars = [] ∧ s.arrays = [] ∧ s.stack = [] ∧ s.loops = [] ∧ s.fns = [] ∧ s.data = none ∧ s.bp = none ∧
    s.input = none ∧ s.state = .idle ∧ s.loc = {} ∧ s.imm = [] ∧ s.out = [] := by
  simp [Analysis.intoInterpreter]

/-- The flags of the interpreter that executes RUN are the command-line options, in file mode … -/
theorem cli_flags_file (fuel : Nat) (w t : Bool) (seed : Nat) (text : Str) :
    (cliLoad (F := F) fuel w t seed text).warnings = w ∧ (cliLoad (F := F) fuel w t seed text).tracing = t ∧
    (cliLoad (F := F) fuel w t seed text).rng = rngNew seed := by
  simp [cliLoad, cliConfigure]

omit [NumOps F] in
/-- … and in interactive mode. -/
theorem cli_flags_interactive (w t : Bool) (seed : Nat) :
    (cliCreate (F := F) w t seed).warnings = w ∧ (cliCreate (F := F) w t seed).tracing = t ∧
    (cliCreate (F := F) w t seed).rng = rngNew seed := by
  simp [cliCreate, cliConfigure]

/-- Entering a numbered line never changes the flags (so they are still the options when RUN comes). -/
theorem typing_keeps_flags (fuel : Nat) (line : Str) (σ : St F) (n : Nat) (ts : List (Token F))
    (h : GoodLine F line n ts) (hidle : σ.state = .idle)
    (hcmd : (commandWord line).bind Command.ofWord = none) :
    ∃ σ', startEvaluating fuel line σ = .ok () σ' ∧ σ'.warnings = σ.warnings ∧ σ'.tracing = σ.tracing ∧ σ'.rng = σ.rng := by
  obtain ⟨_, k, rts, hp, ht, hm, _⟩ := h
  have htok : tokenize (F := F) line k = .ok ts := by simp [tokenize, ht, hm]
  refine ⟨(σ.setImmediate []).setNumberedLine n ts, ?_, ?_, ?_, ?_⟩
  · simp [startEvaluating, postprocess, evaluateImpl, hidle, maybeProcessCommand, hcmd, hp, htok,
      bind, M.bindM, M.get, M.modify, setImmediate, pure, M.pureM]
  all_goals simp [St.setNumberedLine, St.setImmediate]

/-- Non-vacuity: a good line. -/
example : (parseLineNumber "10 END".toList = some (10, 2)) ∧
    ((tokenizeRanges (F := Unit) "10 END".toList 2).1.map (·.1)).length = 1 := by decide

end Abasic.Props.C15
