import Abasic.Proofs.WFStmt
import Abasic.Props.C01More
import Abasic.Props.C19More
import Abasic.Props.C20More
/-
  C01 / C19 — no host call panics: the well-formedness invariant of interpreter states.

  `WFσ` (Proofs/WF.lean) holds in every state a host can reach (`wf_reachable`, for ANY
  sequence of calls, protocol-respecting or not); from a state with `WFσ`, a call made in
  the state the protocol allows it in never returns a panic (`no_panic`): none of
  `tokens_for_line`'s unwrap, `exit_nested`'s underflow, "function must exist", "stack
  must not be empty", the DATA iterator's unwrap, `rewind_before_token`, the array
  unwraps / index checks, the RNG multiplication overflow, `data[0]` of INPUT, LIST's
  unwrap can fire; rendering the caret lines of a reported error does not panic either
  (`caret_total`).  Together: `coreTotal`, the hypothesis `C19.CoreTotal fuel {}` of the
  page theorems, discharged.
-/
namespace Abasic.Props.C01
open Abasic Abasic.WF M

variable {F : Type} [NumOps F]

/-! ### Interp.lean below the entry points -/

omit [NumOps F] in
theorem good_returnToIdle : Good ER T (returnToIdle : M F Unit) :=
  good_modify_inert (by inert)

theorem good_runNextStatement (fuel : Nat) : Good SR T (runNextStatement (F := F) fuel) := by
  unfold runNextStatement
  have h1 := good_stmtBody (good_evalN (F := F) fuel).1 (good_evalN (F := F) fuel).2
  have h2 : Good SR T (M.modify fun s : St F => { s with state := .running }) :=
    (good_modify_inert (by inert)).sr
  have h3 := (good_returnToIdle (F := F)).sr
  good_auto

omit [NumOps F] in
theorem runFromFirst_nesting_lines (s : St F) :
    s.runFromFirst.nesting = s.nesting ∧ s.runFromFirst.lines = s.lines := by
  unfold St.runFromFirst
  simp only
  split <;> exact ⟨rfl, rfl⟩

theorem list_some {L : Lines F} (h : C04.WF L) : ∃ ls, L.list = some ls := by
  obtain ⟨entries, he, _, _⟩ := C04.list_sorted L h
  exact ⟨_, by unfold Lines.list; rw [he]; rfl⟩

theorem good_maybeProcessCommand (fuel : Nat) (line : Str) :
    Good SR T (maybeProcessCommand (F := F) fuel line) := by
  unfold maybeProcessCommand
  have hrun := good_runNextStatement (F := F) fuel
  have hcont := good_continueFromBreakpoint (F := F)
  have hclear : Good SR T (M.modify fun s : St F =>
      ({ s with input := none, vars := [], arrays := [] }).runFromFirst) := by
    intro s hs
    have hw : WFσ ({ s with input := none, vars := [], arrays := [] } : St F) :=
      { hs with arrays := by intro _ h; cases h }
    have hnl := runFromFirst_nesting_lines ({ s with input := none, vars := [], arrays := [] } : St F)
    exact GoodAt.modify (s0 := s) (wf_runFromFirst hw) ⟨hnl.1, hnl.2⟩
  have hlist : Good SR T (do
      let s ← M.get
      match s.lines.list with
      | none => rpanic "list: unwrap on None"
      | some ls =>
        M.set { s with out := (ls.map Out.print).reverse ++ s.out }
        pure true : M F Bool) := by
    refine Good.get_bind' fun s0 hs0 => ?_
    obtain ⟨ls, hls⟩ := list_some hs0.lines
    simp only [hls]
    exact GoodAt.bind (Q := T) (GoodAt.set (hs0.same rfl rfl rfl rfl rfl rfl rfl rfl rfl rfl) ⟨rfl, rfl⟩)
      fun _ s1 hw hr _ _ => GoodAt.pure hw hr trivial
  have hmod : ∀ f : St F → St F, Inert f → Good SR T (do M.modify f; pure true : M F Bool) := fun f hf =>
    Good.bind (Q := T) (good_modify_inert hf).sr fun _ _ => Good.pure trivial
  split
  · exact Good.pure trivial
  · good_auto
  · exact hlist
  · exact hmod _ (by inert)
  · good_auto
  · exact hmod _ (by inert)
  · exact hmod _ (by inert)
  · good_auto
  · good_auto

/-- **`Pres`**: `m` preserves `WFσ` on the ok and on the err path, leaves the nesting counter and the
    line store as it found them, and its errors are located non-panics. -/
abbrev Pres {α : Type} (m : M F α) : Prop := Good SR T m

/-- every expression and statement evaluation, at every fuel, is `Pres` (expressions even keep the
    stack, the functions, the immediate line and the cursor's line, and never move the cursor back) -/
theorem pres_evalN (n : Nat) :
    Good ER T (evalN (F := F) n).expr ∧ Pres (evalN (F := F) n).expr ∧ Pres (evalN (F := F) n).stmt :=
  ⟨(good_evalN n).1, (good_evalN n).1.sr, (good_evalN n).2⟩

/-- spelled out: a statement run from a well-formed state ends in a well-formed state on both paths,
    and a failure is never a panic -/
theorem stmt_no_panic (n : Nat) {s : St F} (hs : WFσ s) :
    (∀ a s', (evalN (F := F) n).stmt s = .ok a s' → WFσ s' ∧ s'.nesting = s.nesting) ∧
    (∀ e s', (evalN (F := F) n).stmt s = .err e s' → WFσ s' ∧ s'.nesting = s.nesting ∧ e.err.isPanic = false) := by
  have h := (good_evalN (F := F) n).2 s hs
  constructor
  · intro a s' hr; rw [hr] at h; exact ⟨h.1, h.2.1.nesting⟩
  · intro e s' hr; rw [hr] at h; exact ⟨h.1, h.2.1.nesting, plain_not_panic h.2.2.plain⟩

/-! ### errors at the host level -/

/-- an error a host call may report about the submitted `line`: not a panic, located on a
    stored line (or the immediate line), and a tokenization error is one `line` really has -/
structure HErr (line : Str) (L : Lines F) (e : TErr) : Prop where
  notPanic : e.err.isPanic = false
  loc : ∀ loc, e.loc = some loc → LocOk L loc
  tok : ∀ t, e.err = .syntax (.tokenization t) → ∃ skip, tokenize (F := F) line skip = .error t

theorem herr_of_eok {line : Str} {L : Lines F} {e : TErr} (h : EOk L e) : HErr line L e :=
  ⟨plain_not_panic h.plain, h.loc, fun t ht => by have := h.plain; rw [ht] at this; cases this⟩

/-- what a host-level computation guarantees -/
def HPost (line : Str) {α : Type} : Res F α → Prop
  | .ok _ s' => WFσ s'
  | .err e s' => WFσ s' ∧ HErr line s'.lines e

def HGoodAt (line : Str) {α : Type} (m : M F α) (s : St F) : Prop := HPost line (m s)

theorem HPost.of_post {line : Str} {α : Type} {R : St F → St F → Prop} {Q : α → Prop} {s0 : St F}
    {r : Res F α} (h : Post R Q s0 r) : HPost line r := by
  cases r with
  | ok a s' => exact h.1
  | err e s' => exact ⟨h.1, herr_of_eok h.2.2⟩

theorem HGoodAt.bind {line : Str} {α β : Type} {R : St F → St F → Prop} {Q : α → Prop} {m : M F α}
    {f : α → M F β} {s : St F} (hm : Post R Q s (m s)) (hf : ∀ a s1, WFσ s1 → Q a → HGoodAt line (f a) s1) :
    HGoodAt line (m >>= f) s := by
  show HPost line (M.bindM m f s)
  unfold M.bindM
  cases hms : m s with
  | ok a s1 =>
    rw [hms] at hm
    exact hf a s1 hm.1 hm.2.2
  | err e s1 =>
    rw [hms] at hm
    exact ⟨hm.1, herr_of_eok hm.2.2⟩

omit [NumOps F] in
theorem populate_err (s : St F) (e : TErr) : (s.populate e).err = e.err := by
  unfold St.populate
  split
  · rfl
  · split <;> rfl

omit [NumOps F] in
theorem populate_loc {s : St F} (hs : WFσ s) {e : TErr} (he : ∀ loc, e.loc = some loc → LocOk s.lines loc) :
    ∀ loc, (s.populate e).loc = some loc → LocOk s.lines loc := by
  unfold St.populate
  split
  · exact he
  · split
    · intro loc hl
      simp only [St.dataLoc] at hl
      split at hl
      · cases hl
      · rename_i it hd
        simp only [Option.map_eq_some_iff] at hl
        obtain ⟨c, hc, rfl⟩ := hl
        exact hs.data it hd c (List.mem_of_getElem? hc)
    · intro loc hl
      simp only [Option.some.injEq] at hl
      subst hl
      intro n hn
      obtain ⟨ts, hg, hi⟩ := hs.loc n hn
      exact ⟨ts, hg, by show s.loc.idx - 1 ≤ ts.length; omega⟩

omit [NumOps F] in
theorem wf_idle {s : St F} (hs : WFσ s) : WFσ { s with state := .idle } :=
  hs.same rfl rfl rfl rfl rfl rfl rfl rfl rfl rfl

/-- `postprocess_result` keeps the guarantee -/
theorem postprocess_hpost {line : Str} {α : Type} {m : M F α} {s : St F} (h : HPost line (m s)) :
    HPost line (postprocess m s) := by
  unfold postprocess
  cases hms : m s with
  | ok a s' => rw [hms] at h; exact h
  | err e s' =>
    rw [hms] at h
    obtain ⟨hw, he⟩ := h
    refine ⟨wf_idle hw, ?_, populate_loc hw he.loc, ?_⟩
    · rw [populate_err]; exact he.notPanic
    · rw [populate_err]; exact he.tok

/-! ### the entry points under their protocol preconditions -/

/-- `evaluate_impl` called when idle -/
theorem evaluateImpl_hpost (fuel : Nat) (line : Str) {s : St F} (hs : WFσ s) (hidle : s.state = .idle) :
    HPost line (evaluateImpl fuel line s) := by
  have hne : ¬ (s.state != .idle) = true := by rw [hidle]; simp
  show HGoodAt line (evaluateImpl fuel line) s
  unfold evaluateImpl
  refine (show ∀ (f : St F → M F Unit), HGoodAt line (f s) s → HGoodAt line (M.get >>= f) s from
    fun f h => h) _ ?_
  rw [if_neg hne]
  refine HGoodAt.bind (good_setImmediate [] s hs) fun _ s1 hw1 _ => ?_
  refine HGoodAt.bind (good_maybeProcessCommand fuel line s1 hw1) fun b s2 hw2 _ => ?_
  split
  · exact hw2
  · have key : ∀ (num : Option Nat) (skip : Nat), HGoodAt line
        (match tokenize (F := F) line skip with
          | .error e => M.fail (.syntax (.tokenization e))
          | .ok ts =>
            match num with
            | some n => M.modify fun s => s.setNumberedLine n ts
            | none => do setImmediate ts; runNextStatement fuel : M F Unit) s2 := by
      intro num skip
      cases ht : tokenize (F := F) line skip with
      | error e =>
        refine ⟨hw2, rfl, (by intro loc hl; cases hl), ?_⟩
        intro t h
        simp only [Err.syntax.injEq, SynErr.tokenization.injEq] at h
        exact ⟨skip, by rw [ht, h]⟩
      | ok ts =>
        cases num with
        | some n => exact wf_setNumberedLine hw2 n ts
        | none =>
          exact HGoodAt.bind (good_setImmediate ts s2 hw2) fun _ s3 hw3 _ =>
            HPost.of_post (good_runNextStatement fuel s3 hw3)
    cases hp : parseLineNumber line with
    | none => exact key none 0
    | some p => exact key (some p.1) p.2

/-- `start_evaluating` called when idle: the state stays well formed and a failure is an ordinary,
    located error. -/
theorem start_hpost (fuel : Nat) (line : Str) {s : St F} (hs : WFσ s) (hidle : s.state = .idle) :
    HPost line (startEvaluating fuel line s) :=
  postprocess_hpost (evaluateImpl_hpost fuel line hs hidle)

/-- `continue_evaluating` called when running -/
theorem cont_hpost (fuel : Nat) {s : St F} (hs : WFσ s) (hrun : s.state = .running) :
    HPost ([] : Str) (continueEvaluating fuel s) := by
  have : continueEvaluating fuel s = postprocess (runNextStatement fuel) s := by
    simp [continueEvaluating, bind, M.bindM, M.get, hrun]
  rw [this]
  exact postprocess_hpost (HPost.of_post (good_runNextStatement fuel s hs))

/-! ### every host call preserves `WFσ`, whether the protocol allows it or not -/

omit [NumOps F] in
theorem wf_init : WFσ ({} : St F) where
  lines := C04.wf_empty
  loc := locOk_imm _ _
  bp := by intro _ _ h; cases h
  stack := by intro _ h; cases h
  loops := by intro _ h; cases h
  fns := by intro _ h; cases h
  data := by intro _ h; cases h
  arrays := by intro _ h; cases h
  rng := by show (0 : Nat) < 2 ^ 33; omega
  nest := Nat.zero_le _

theorem wf_start (fuel : Nat) (line : Str) {s : St F} (hs : WFσ s) :
    WFσ (startEvaluating fuel line s).final := by
  by_cases hidle : s.state = .idle
  · have h := start_hpost fuel line hs hidle
    cases hr : startEvaluating fuel line s with
    | ok a s' => rw [hr] at h; exact h
    | err e s' => rw [hr] at h; exact h.1
  · have : startEvaluating fuel line s =
        .err (s.populate { err := .panic "assertion failed: state == Idle" }) { s with state := .idle } := by
      simp [startEvaluating, postprocess, evaluateImpl, bind, M.bindM, M.get, hidle, M.rpanic]
    rw [this]
    exact wf_idle hs

theorem wf_cont (fuel : Nat) {s : St F} (hs : WFσ s) : WFσ (continueEvaluating fuel s).final := by
  by_cases hrun : s.state = .running
  · have h := cont_hpost fuel hs hrun
    cases hr : continueEvaluating fuel s with
    | ok a s' => rw [hr] at h; exact h
    | err e s' => rw [hr] at h; exact h.1
  · have : continueEvaluating fuel s = .err { err := .panic "assertion failed: state == Running" } s := by
      simp [continueEvaluating, bind, M.bindM, M.get, hrun, M.rpanic]
    rw [this]
    exact hs

omit [NumOps F] in
theorem wf_reply (text : Str) {s : St F} (hs : WFσ s) : WFσ (provideInput text s).final := by
  by_cases ha : s.state = .awaitingInput
  · have : provideInput text s = .ok () { s with input := some text, state := .running } := by
      simp [provideInput, bind, M.bindM, M.get, ha, M.set]
    rw [this]
    exact hs.same rfl rfl rfl rfl rfl rfl rfl rfl rfl rfl
  · have : provideInput text s = .err { err := .panic "assertion failed: state == AwaitingInput" } s := by
      simp [provideInput, bind, M.bindM, M.get, ha, M.rpanic]
    rw [this]
    exact hs

theorem wf_brk {s : St F} (hs : WFσ s) : WFσ (breakAtCurrentLocation s).final :=
  (good_breakAtCurrentLocation s hs).1

omit [NumOps F] in
theorem wf_seed (n : Nat) {s : St F} (hs : WFσ s) : WFσ (randomize n s).final :=
  hs.setRng (C18.seed_reduced n).2

omit [NumOps F] in
theorem wf_takeOutput {s : St F} (hs : WFσ s) : WFσ (takeOutput s).2 :=
  hs.same rfl rfl rfl rfl rfl rfl rfl rfl rfl rfl

/-- Every host call, allowed by the protocol or not, succeeding or failing, keeps the state well formed. -/
theorem wf_applyCall (fuel : Nat) (c : Call) {s : St F} (hs : WFσ s) : WFσ (applyCall fuel c s) := by
  cases c with
  | start text => exact wf_start fuel text hs
  | cont => exact wf_cont fuel hs
  | reply text => exact wf_reply text hs
  | brk => exact wf_brk hs
  | seed n => exact wf_seed n hs
  | output => exact wf_takeOutput hs

/-- `WFσ` holds in every state a host can bring a new interpreter into. -/
theorem wf_reachable (fuel : Nat) (s : St F) (h : Reachable fuel s) : WFσ s := by
  induction h with
  | init => exact wf_init
  | step c _ ih => exact wf_applyCall fuel c ih

/-! ### no panic under the protocol -/

/-- the state the protocol allows a call in (interpreter.rs asserts the first three) -/
def Call.allowed (c : Call) (s : St F) : Prop :=
  match c with
  | .start _ => s.state = .idle
  | .cont => s.state = .running
  | .reply _ => s.state = .awaitingInput
  | _ => True

/-- From a well-formed state, a call the protocol allows does not return a panic. -/
theorem no_panic_call (fuel : Nat) (c : Call) {s : St F} (hs : WFσ s) (ha : c.allowed s)
    (e : TErr) (s' : St F) (h : c.run fuel s = .err e s') : e.err.isPanic = false := by
  cases c with
  | start text =>
    have hp := start_hpost fuel text hs ha
    have h' : startEvaluating fuel text s = .err e s' := h
    rw [h'] at hp
    exact hp.2.notPanic
  | cont =>
    have hp := cont_hpost fuel hs ha
    have h' : continueEvaluating fuel s = .err e s' := h
    rw [h'] at hp
    exact hp.2.notPanic
  | reply text =>
    have h' : provideInput text s = .err e s' := h
    rw [reply_total text s ha] at h'
    cases h'
  | brk => cases h
  | seed n => cases h
  | output => cases h

/-- states reachable by calls the protocol allows -/
inductive ReachableP (fuel : Nat) : St F → Prop where
  | init : ReachableP fuel {}
  | step {σ : St F} (c : Call) : ReachableP fuel σ → c.allowed σ → ReachableP fuel (applyCall fuel c σ)

theorem ReachableP.reachable {fuel : Nat} {s : St F} (h : ReachableP fuel s) : Reachable fuel s := by
  induction h with
  | init => exact .init
  | step c _ _ ih => exact .step c ih

/-- **C01.** No protocol-respecting host call from a reachable state returns a panic error. -/
theorem no_panic (fuel : Nat) (s : St F) (hr : ReachableP fuel s) (c : Call) (ha : c.allowed s)
    (e : TErr) (s' : St F) (h : c.run fuel s = .err e s') : e.err.isPanic = false :=
  no_panic_call fuel c (wf_reachable fuel s hr.reachable) ha e s' h

/-- … and between calls the state is well formed with the nesting counter at 0. -/
theorem reachable_wf_nesting (fuel : Nat) (s : St F) (hr : Reachable fuel s) : WFσ s ∧ s.nesting = 0 :=
  ⟨wf_reachable fuel s hr, nesting_zero_of_reachable fuel s hr⟩

/-! ### the caret lines of a reported error -/

theorem tok_range_ok (line : Str) (skip : Nat) (t : TokErr) (h : tokenize (F := F) line skip = .error t) :
    ¬ (t.range line).2 < (t.range line).1 := by
  have h2 : (tokenizeRanges (F := F) line skip).2 = some t := by
    unfold tokenize at h
    split at h
    · cases h
    · rename_i e heq
      simp only [Except.error.injEq] at h
      rw [heq, h]
  cases t with
  | illegalChar i => simp only [TokErr.range]; split <;> simp only <;> omega
  | unterminated i =>
    have := C20.tokenize_unterminated_bound (F := F) line skip i h2
    simp only [TokErr.range]; omega
  | invalidNumber x y =>
    have := C13.error_after_skip (F := F) line skip (.invalidNumber x y) h2
    simp only [C13.ErrPosOk] at this
    simp only [TokErr.range]; omega
  | outOfFuel => simp [TokErr.range]

/-- `get_line_with_pointer_caret` does not panic on an error a host call reported about `line`. -/
theorem caret_total {line : Str} {s : St F} {e : TErr} (he : HErr line s.lines e) :
    (caretLines s e (some line)).isSome = true := by
  have htail : ∀ o : Option (List Str), o.isSome = true →
      (match o with
        | none => none
        | some (l :: ls) => some (l :: ls)
        | some [] =>
          match some line, e.err with
          | some text, .syntax (.tokenization t) =>
            let (a, b) := t.range text
            if b < a then none
            else some [text, List.replicate a ' ' ++ List.replicate (b - a) '^']
          | _, _ => some []).isSome = true := by
    intro o ho
    cases o with
    | none => cases ho
    | some l =>
      cases l with
      | cons x xs => rfl
      | nil =>
        simp only
        split
        · rename_i text t heq1 heq2
          simp only [Option.some.injEq] at heq1
          subst heq1
          obtain ⟨skip, hskip⟩ := he.tok t heq2
          have := tok_range_ok (F := F) line skip t hskip
          generalize t.range line = p at this
          obtain ⟨a, b⟩ := p
          simp only at this ⊢
          rw [if_neg this]
          rfl
        · rfl
  unfold caretLines
  apply htail
  cases hl : e.loc with
  | none => rfl
  | some loc =>
    simp only [progCaret]
    cases hn : loc.line with
    | none => rfl
    | some n =>
      obtain ⟨ts, hg, _⟩ := he.loc loc hl n hn
      simp only [hg]
      rfl

/-- A failed `start_evaluating` (called when idle) reports an error whose caret lines render. -/
theorem caret_total_start (fuel : Nat) (line : Str) {s : St F} (hs : WFσ s) (hidle : s.state = .idle)
    (e : TErr) (s' : St F) (h : startEvaluating fuel line s = .err e s') :
    e.err.isPanic = false ∧ (caretLines s' e (some line)).isSome = true := by
  have hp := start_hpost fuel line hs hidle
  rw [h] at hp
  exact ⟨hp.2.notPanic, caret_total hp.2⟩

/-! ### C19's hypothesis about the core, discharged -/

/-- every core state the page can produce is well formed -/
theorem wf_reach (fuel : Nat) {s0 s : St F} (h0 : WFσ s0) (h : C19.Reach fuel s0 s) : WFσ s := by
  induction h with
  | base => exact h0
  | init => exact wf_init
  | @startOk s1 s2 line a _ hi h ih =>
    have hp := start_hpost fuel line ih hi
    rw [h] at hp; exact hp
  | @startErr s1 s2 line e _ hi h _ ih =>
    have hp := start_hpost fuel line ih hi
    rw [h] at hp; exact hp.1
  | contOk _ hi h ih =>
    have hp := cont_hpost fuel ih hi
    rw [h] at hp; exact hp
  | contErr _ hi h _ ih =>
    have hp := cont_hpost fuel ih hi
    rw [h] at hp; exact hp.1
  | @input s1 s2 text a _ _ h ih =>
    have := wf_reply text ih
    rw [h] at this; exact this
  | brk _ _ h ih =>
    have := wf_brk ih
    rw [h] at this; exact this
  | take _ ih => exact wf_takeOutput ih

/-- `CoreTotal` from any well-formed starting state … -/
theorem coreTotal_of_wf (fuel : Nat) {s0 : St F} (h0 : WFσ s0) : C19.CoreTotal fuel s0 := by
  intro s hr
  have hs := wf_reach fuel h0 hr
  constructor
  · intro hidle line e s' h
    exact caret_total_start fuel line hs hidle e s' h
  · intro hrun e s' h
    have hp := cont_hpost fuel hs hrun
    rw [h] at hp
    exact hp.2.notPanic

/-- **C19's open hypothesis.**  From the interpreter as created, on every core state the page can
    produce, `start_evaluating` called when idle and `continue_evaluating` called when running do
    not panic, and the caret lines of a reported error render. -/
theorem coreTotal (fuel : Nat) : C19.CoreTotal fuel ({} : St F) :=
  coreTotal_of_wf fuel wf_init

/-- … hence no admissible sequence of page events traps: `C19.page_events_inv` without hypothesis. -/
theorem page_events_total (fuel : Nat) (es : List C19.Event) (hadm : C19.Admissible fuel es ({} : Page F)) :
    ∃ p', C19.run fuel es ({} : Page F) = some p' ∧ C19.PageInv fuel {} p' :=
  C19.page_events_inv fuel (coreTotal fuel) es hadm

/-! ### checked sessions -/

instance (c : Call) (s : St F) : Decidable (c.allowed s) := by
  cases c <;> unfold Call.allowed <;> infer_instance

/-- run a call sequence, refusing (`none`) a call the protocol does not allow -/
def runP (fuel : Nat) : List Call → St F → Option (St F)
  | [], s => some s
  | c :: cs, s => if c.allowed s then runP fuel cs (applyCall fuel c s) else none

theorem runP_reachable (fuel : Nat) (cs : List Call) (s s' : St F) (hr : ReachableP fuel s)
    (h : runP fuel cs s = some s') : ReachableP fuel s' := by
  induction cs generalizing s with
  | nil =>
    simp only [runP, Option.some.injEq] at h
    rw [← h]; exact hr
  | cons c cs ih =>
    simp only [runP] at h
    split at h
    · rename_i ha
      exact ih _ (.step c hr ha) h
    · cases h

/-- a small number carrier for checked examples (the degenerate `Unit` carrier has no numerals):
    integers, written as digit strings -/
def Toy := Int

def toyParse : List Char → Nat → Option Nat
  | [], acc => some acc
  | c :: cs, acc => if isAsciiDigit c then toyParse cs (acc * 10 + (c.toNat - '0'.toNat)) else none

instance : NumOps Toy where
  zero := (0 : Int)
  one := (1 : Int)
  add := fun (a b : Int) => a + b
  sub := fun (a b : Int) => a - b
  mul := fun (a b : Int) => a * b
  div := fun (a b : Int) => a / b
  pow := fun (a b : Int) => a ^ b.toNat
  neg := fun (a : Int) => -a
  abs := fun (a : Int) => (a.natAbs : Int)
  floor := fun a => a
  lt := fun (a b : Int) => decide (a < b)
  le := fun (a b : Int) => decide (a ≤ b)
  eq := fun (a b : Int) => decide (a = b)
  toI64 := fun (a : Int) => a
  toU64 := fun (a : Int) => a.toNat
  ofNat := fun n => (n : Int)
  parse := fun cs => if cs.isEmpty then none else (toyParse cs 0).map fun n => (n : Int)
  render := fun (a : Int) => if a < 0 then '-' :: natToStr a.natAbs else natToStr a.toNat
  isFinite := fun _ => true

/-- **Why an immediate location carries no index bound in `LocOk`.**  `idx ≤ imm.length` is NOT an
    invariant for stored immediate locations: a protocol-respecting session after which the interpreter
    is idle with an empty immediate line and a GOSUB frame that returns to index 2 of "the" immediate
    line.  (Harmless in the model: every access is `ts[idx]?`.) -/
theorem immediate_idx_not_invariant :
    ∃ s : St Toy, ReachableP 60 s ∧ s.state = .idle ∧ s.imm.length = 0 ∧
      s.stack.map (·.ret) = [{ line := none, idx := 2 }] := by
  have h : (runP (F := Toy) 60 [.start "100 STOP".toList, .start "GOSUB 100".toList, .cont] {}).map
      (fun s => (s.state, s.imm.length, s.stack.map (·.ret))) = some (.idle, 0, [{ line := none, idx := 2 }]) := by
    decide +kernel
  cases hr : runP (F := Toy) 60 [.start "100 STOP".toList, .start "GOSUB 100".toList, .cont] {} with
  | none => rw [hr] at h; cases h
  | some s =>
    rw [hr] at h
    simp only [Option.map_some, Option.some.injEq, Prod.mk.injEq] at h
    exact ⟨s, runP_reachable 60 _ _ _ .init hr, h.1, h.2.1, h.2.2⟩

/-- … and while a call runs, the cursor itself can be past the end of the immediate line: RETURN typed
    after that session resumes at index 2 of the one-token line `RETURN`. -/
theorem immediate_cursor_stale :
    ∃ s : St Toy, ReachableP 60 s ∧
      ((dispatch (evalN 60) (s.setImmediate [.kw .Return])).final.loc = { line := none, idx := 2 } ∧
       (dispatch (evalN 60) (s.setImmediate [.kw .Return])).final.imm.length = 1) := by
  have h : (runP (F := Toy) 60 [.start "100 STOP".toList, .start "GOSUB 100".toList, .cont] {}).map
      (fun s => ((dispatch (evalN 60) (s.setImmediate [.kw .Return])).final.loc,
        (dispatch (evalN 60) (s.setImmediate [.kw .Return])).final.imm.length)) =
      some ({ line := none, idx := 2 }, 1) := by
    decide +kernel
  cases hr : runP (F := Toy) 60 [.start "100 STOP".toList, .start "GOSUB 100".toList, .cont] {} with
  | none => rw [hr] at h; cases h
  | some s =>
    rw [hr] at h
    simp only [Option.map_some, Option.some.injEq, Prod.mk.injEq] at h
    exact ⟨s, runP_reachable 60 _ _ _ .init hr, h.1, h.2⟩

/-- the session of the non-vacuity example: a user function, DIM/READ/DATA, INPUT into an array cell
    indexed by a function call, a rejected reply (re-enter: `rewind_before_token`), RND, GOSUB/RETURN,
    FOR/NEXT, END -/
def demoSession : List Call :=
  [.start "10 DEF FNA(X) = X * 2".toList, .start "20 DIM B(3): READ B(1), C$: DATA 4, HI".toList,
   .start "30 INPUT B(FNA(1))".toList, .start "40 PRINT B(2) + RND(1): GOSUB 60".toList,
   .start "50 END".toList, .start "60 FOR I = 1 TO 2: NEXT I: RETURN".toList, .start "RUN".toList,
   .cont, .cont, .cont, .cont, .cont, .cont, .reply "X".toList, .cont, .reply "7".toList] ++
  List.replicate 12 .cont

/-- Non-vacuity: the session respects the protocol at every call, so every state along it is
    reachable, well formed and none of its calls panicked; it ends idle having printed `7`. -/
example : ∃ s : St Toy, runP 60 demoSession {} = some s ∧ ReachableP 60 s ∧ WFσ s ∧ s.state = .idle ∧
    s.out = [.print "7\n".toList, .reenter] := by
  have h : (runP (F := Toy) 60 demoSession {}).map (fun s => (s.state, s.out)) =
      some (.idle, [.print "7\n".toList, .reenter]) := by
    decide +kernel
  cases hr : runP (F := Toy) 60 demoSession {} with
  | none => rw [hr] at h; cases h
  | some s =>
    rw [hr] at h
    simp only [Option.map_some, Option.some.injEq, Prod.mk.injEq] at h
    have hreach := runP_reachable 60 _ _ _ .init hr
    exact ⟨s, rfl, hreach, wf_reachable 60 s hreach.reachable, h.1, h.2⟩

/-- The protocol precondition matters: continuing an idle interpreter trips the assertion. -/
example : ∃ e s', continueEvaluating (F := Unit) 5 {} = .err e s' ∧ e.err.isPanic = true :=
  ⟨_, _, rfl, rfl⟩

end Abasic.Props.C01
