import Abasic.Props.C02More
import Abasic.Proofs.AnalyzerLemmas
/-
  C06 for expressions: the static analyzer and the evaluator agree.

  1. `typeOf`        — the spec's static typing of a syntax tree (what the analyzer
                       computes), `accs` — the symbol accesses it logs;
  2. `analyze_render`— for every tree `e`, the token-stream ANALYZER
                       (`aOrExpr (aEvalN n)`) run on `render e` returns `typeOf e`,
                       having consumed exactly `render e` and logged exactly
                       `accs … e`; or fails with the error of `typeOf e`;
  3. `typed_value`   — in a well-typed environment, a tree accepted by `typeOf`
                       never folds to TYPE MISMATCH and its value has the computed kind;
                       `untyped_value` — the converse;
  4. `sound_expr`    — analyzer accepts the rendering ⇒ the evaluator on the same
                       tokens does not fail with TYPE MISMATCH or a syntax error.

  The proof of 2 mirrors that of `eval_render` (Abasic/Proofs/ExprLemmas.lean):
  induction on the tree for `AAStmt` (atoms through `aParen`), `APStmt` (tiers)
  and `ASStmt` (left spine of a tier with an exact iteration budget).
-/
set_option linter.unusedSectionVars false

namespace Abasic.Props.C06
open Abasic Abasic.Ref Abasic.ExprL Abasic.AnaL M

variable {F : Type} [NumOps F]

/-! ### 1. the spec's static typing -/

/-- The static type of an expression, as the analyzer computes it: literals have
    their own type, a variable the type of its name's suffix; `+x` has the type of
    `x`, `-x` requires a number, `NOT x` is a number whatever `x` is; arithmetic
    requires two numbers, a comparison two operands of the same type (result: a
    number), AND / OR accept anything (result: a number); ABS / INT require a
    number; parentheses are transparent.  The only error is TYPE MISMATCH. -/
def typeOf : Expr F → Except Err VT
  | .num _ => .ok .num
  | .str _ => .ok .str
  | .var n => .ok (VT.ofName n)
  | .un op e =>
    match typeOf e with
    | .error x => .error x
    | .ok t =>
      match unaryRule op t with
      | some t' => .ok t'
      | none => .error .typeMismatch
  | .bin op l r =>
    match typeOf l with
    | .error x => .error x
    | .ok a =>
      match typeOf r with
      | .error x => .error x
      | .ok b =>
        match tierRule (tierOf op) a b with
        | some t => .ok t
        | none => .error .typeMismatch
  | .paren e => typeOf e
  | .abs e =>
    match typeOf e with
    | .ok .num => .ok .num
    | .ok .str => .error .typeMismatch
    | .error x => .error x
  | .int e =>
    match typeOf e with
    | .ok .num => .ok .num
    | .ok .str => .error .typeMismatch
    | .error x => .error x

/-- The symbol accesses the analyzer logs for `render e` standing at token index
    `off` of line `ln`: one read per variable occurrence, left to right, at the
    index of its token (ABS / INT are not logged). -/
def accs (ln : Nat) : Nat → Expr F → List Acc
  | _, .num _ => []
  | _, .str _ => []
  | off, .var n => [(n, ln, off, .read)]
  | off, .un _ e => accs ln (if e.prec < 8 then off + 1 + 1 else off + 1) e
  | off, .bin op l r =>
    accs ln (if l.prec < BinOp.prec op then off + 1 else off) l ++
    accs ln (if r.prec < BinOp.prec op + 1
              then off + (render (fixP (BinOp.prec op) l)).length + 1 + 1
              else off + (render (fixP (BinOp.prec op) l)).length + 1) r
  | off, .paren e => accs ln (off + 1) e
  | off, .abs e => accs ln (off + 2) e
  | off, .int e => accs ln (off + 2) e

theorem typeOf_fixP (p : Nat) (e : Expr F) : typeOf (fixP p e) = typeOf e := by
  unfold fixP; split <;> rfl

theorem accs_fixP (ln off p : Nat) (e : Expr F) :
    accs ln off (fixP p e) = accs ln (if e.prec < p then off + 1 else off) e := by
  unfold fixP; split <;> rfl

theorem accs_un (ln off : Nat) (op : UnOp) (e : Expr F) :
    accs ln off (.un op e) = accs ln (off + 1) (fixP 8 e) := by
  rw [accs_fixP]; rfl

theorem accs_bin (ln off : Nat) (op : BinOp) (l r : Expr F) :
    accs ln off (.bin op l r) =
      accs ln off (fixP (BinOp.prec op) l) ++
      accs ln (off + (render (fixP (BinOp.prec op) l)).length + 1) (fixP (BinOp.prec op + 1) r) := by
  rw [accs_fixP, accs_fixP]; rfl

theorem accs_congr (ln : Nat) {a b : Nat} (e : Expr F) (h : a = b) : accs ln a e = accs ln b e := by
  subst h; rfl


/-! #### `accs` against the rendering: every logged access is the read of a symbol
    token of `render e`, at that token's index -/

theorem getElem?_append_some {α : Type} {l1 l2 : List α} {i : Nat} {x : α} (h : l1[i]? = some x) :
    (l1 ++ l2)[i]? = some x := by
  have hi : i < l1.length := (List.getElem?_eq_some_iff.1 h).1
  rw [List.getElem?_append_left hi]; exact h

/-- every entry of `accs ln off e` is `(name, ln, off + i, read)` where the `i`-th
    token of `render e` is the symbol `name` -/
def AccsOk (ln : Nat) (e : Expr F) : Prop :=
  ∀ off a, a ∈ accs ln off e →
    ∃ name i, a = (name, ln, off + i, Access.read) ∧ (render e)[i]? = some (.symbol name)

theorem accsOk_wrap (ln : Nat) (x : Expr F) (hx : AccsOk ln x) :
    ∀ off a, a ∈ accs ln (off + 1) x →
      ∃ name i, a = (name, ln, off + i, Access.read) ∧
        (Token.kw Kw.LeftParen :: (render x ++ [Token.kw Kw.RightParen]))[i]? = some (.symbol name) := by
  intro off a ha
  obtain ⟨name, i, rfl, hi⟩ := hx (off + 1) a ha
  refine ⟨name, i + 1, by rw [Nat.add_assoc, Nat.add_comm 1 i], ?_⟩
  rw [List.getElem?_cons_succ]
  exact getElem?_append_some hi

theorem accsOk_fixP (ln p : Nat) (x : Expr F) (hx : AccsOk ln x) : AccsOk ln (fixP p x) := by
  unfold fixP; split
  · intro off a ha
    rw [render_paren]
    exact accsOk_wrap ln x hx off a ha
  · exact hx

theorem accs_ok (ln : Nat) (e : Expr F) : AccsOk ln e := by
  induction e with
  | num x => intro off a ha; simp [accs] at ha
  | str s => intro off a ha; simp [accs] at ha
  | var n =>
    intro off a ha
    simp only [accs, List.mem_singleton] at ha
    exact ⟨n, 0, ha, by rw [render_var]; rfl⟩
  | paren x ih =>
    intro off a ha
    rw [render_paren]
    exact accsOk_wrap ln x ih off a ha
  | abs x ih =>
    intro off a ha
    obtain ⟨name, i, rfl, hi⟩ := accsOk_wrap ln x ih (off + 1) a ha
    refine ⟨name, i + 1, by rw [Nat.add_assoc, Nat.add_comm 1 i], ?_⟩
    rw [render_abs, List.getElem?_cons_succ]
    exact hi
  | int x ih =>
    intro off a ha
    obtain ⟨name, i, rfl, hi⟩ := accsOk_wrap ln x ih (off + 1) a ha
    refine ⟨name, i + 1, by rw [Nat.add_assoc, Nat.add_comm 1 i], ?_⟩
    rw [render_int, List.getElem?_cons_succ]
    exact hi
  | un op x ih =>
    intro off a ha
    rw [accs_un] at ha
    obtain ⟨name, i, rfl, hi⟩ := accsOk_fixP ln 8 x ih (off + 1) a ha
    refine ⟨name, i + 1, by rw [Nat.add_assoc, Nat.add_comm 1 i], ?_⟩
    rw [render_un, List.getElem?_cons_succ]
    exact hi
  | bin op l r ihl ihr =>
    intro off a ha
    rw [accs_bin, List.mem_append] at ha
    rw [render_bin]
    rcases ha with ha | ha
    · obtain ⟨name, i, rfl, hi⟩ := accsOk_fixP ln _ l ihl off a ha
      exact ⟨name, i, rfl, getElem?_append_some hi⟩
    · obtain ⟨name, i, rfl, hi⟩ := accsOk_fixP ln _ r ihr _ a ha
      refine ⟨name, (render (fixP (BinOp.prec op) l)).length + 1 + i, by simp only [Nat.add_assoc], ?_⟩
      rw [List.getElem?_append_right (by omega)]
      have : (render (fixP (BinOp.prec op) l)).length + 1 + i - (render (fixP (BinOp.prec op) l)).length
          = i + 1 := by omega
      rw [this, List.getElem?_cons_succ]
      exact hi

/-- one logged read per variable occurrence -/
def varCount : Expr F → Nat
  | .num _ => 0
  | .str _ => 0
  | .var _ => 1
  | .un _ e => varCount e
  | .bin _ l r => varCount l + varCount r
  | .paren e => varCount e
  | .abs e => varCount e
  | .int e => varCount e

theorem accs_length (ln off : Nat) (e : Expr F) : (accs ln off e).length = varCount e := by
  induction e generalizing off with
  | bin op l r ihl ihr => simp only [accs, List.length_append, ihl, ihr, varCount]
  | _ => simp [accs, varCount, *]

/-! ### 2. the analyzer on a rendering -/

theorem prevLoc_eq {σ : St F} {ln i : Nat} (hl : σ.loc.line = some ln) (hi : σ.loc.idx = i + 1) :
    prevLoc σ = .ok { line := some ln, idx := i } σ := by
  simp only [prevLoc, bind, M.bindM, M.get, pure, M.pureM, St.prevLoc, hl, hi, Nat.add_sub_cancel]

theorem logAccess_eq (sym : Str) (ln i : Nat) (a : Access) (σ : St F) :
    logAccess sym { line := some ln, idx := i } a σ = .ok () (lg σ [(sym, ln, i, a)]) := rfl

/-- atoms, parsed by `aParen` -/
def AAStmt (e : Expr F) : Prop :=
  ∀ (f ln : Nat) (σ : St F) (pre rest : List (Token F)),
    depth e ≤ f → σ.nesting + depth e ≤ Extracted.nestingLimit → e.prec = 8 →
    Ends 0 rest → At σ pre (render e ++ rest) → σ.loc.line = some ln →
    AAgrees (aParen (aEvalN f) σ) (typeOf e) σ
      (fun t r => .ok t (lg (mv σ (render e).length r) (accs ln pre.length e)))

/-- any tier at or below the strength of `e` analyzes `render e` -/
def APStmt (e : Expr F) : Prop :=
  ∀ (f j ln : Nat) (σ : St F) (pre rest : List (Token F)),
    depth e ≤ f → σ.nesting + depth e ≤ Extracted.nestingLimit → lv e ≤ j → j ≤ 6 →
    Ends j rest → At σ pre (render e ++ rest) → σ.loc.line = some ln →
    AAgrees (atier (aEvalN f) j σ) (typeOf e) σ
      (fun t r => .ok t (lg (mv σ (render e).length r) (accs ln pre.length e)))

/-- spine statement: the loop of tier `k+1`, started with `spine k e` iterations
    more than `n`, is after `render e` the loop with `n` iterations left -/
def ASStmt (e : Expr F) : Prop :=
  ∀ (f k n ln : Nat) (g : Nat → Nat) (σ : St F) (pre rest : List (Token F)),
    depth e ≤ f → σ.nesting + depth e ≤ Extracted.nestingLimit → lv e ≤ k + 1 → k < 6 →
    Ends k rest → At σ pre (render e ++ rest) → σ.loc.line = some ln →
    g ((pre ++ (render e ++ rest)).length + 1) = n + spine k e →
    AAgrees ((atier (aEvalN f) k >>= fun v => lineBudget >>= fun b =>
              aLevelLoop (atier (aEvalN f) k) (opsAt k) (kindAt k) (g b) v) σ)
      (typeOf e) σ
      (fun t r => aLevelLoop (atier (aEvalN f) k) (opsAt k) (kindAt k) n t
        (lg (mv σ (render e).length r) (accs ln pre.length e)))

/-- the recursive entry `ev.expr`, one nesting level and one unit of fuel deeper -/
theorem aexpr_eq (x : Expr F) (hx : APStmt x) (f ln : Nat) (σ : St F) (pre rest : List (Token F))
    (hd : depth x + 1 ≤ f) (hn : σ.nesting + (depth x + 1) ≤ Extracted.nestingLimit)
    (hE : Ends 6 rest) (hAt : At σ pre (render x ++ rest)) (hl : σ.loc.line = some ln) :
    AAgrees ((aEvalN f).expr σ) (typeOf x) σ
      (fun t r => .ok t (lg (mv σ (render x).length r) (accs ln pre.length x))) := by
  obtain ⟨f', rfl⟩ : ∃ f', f = f' + 1 := ⟨f - 1, by omega⟩
  refine aexpr_of_tier _ f' σ _ _ (by omega) ?_
  exact hx f' 6 ln (nest σ (σ.nesting + 1)) pre rest (by omega) (by simp only [nest_nesting]; omega)
    (by have := prec_bounds x; unfold lv; omega) (Nat.le_refl _) hE (at_nest hAt _) hl

/-! #### atoms -/

theorem AA_num (x : F) : AAStmt (.num x : Expr F) := by
  intro f ln σ pre rest _ _ _ _ hAt _
  rw [render_num] at hAt ⊢
  have hAt : At σ pre (.num x :: rest) := hAt
  refine ⟨σ.reads + 1 + 1, by omega, ?_⟩
  unfold aParen
  rw [bind_ok (accept_false hAt rfl)]
  simp only [Bool.false_eq_true, ↓reduceIte]
  unfold aTerm
  rw [bind_ok (nextUnwrapped_eq (at_mv0 hAt _)), mv_mv]
  show Res.ok VT.num _ = Res.ok VT.num (lg _ [])
  rw [lg_nil]
  rfl

theorem AA_str (s : Str) : AAStmt (.str s : Expr F) := by
  intro f ln σ pre rest _ _ _ _ hAt _
  rw [render_str] at hAt ⊢
  have hAt : At σ pre (.str s :: rest) := hAt
  refine ⟨σ.reads + 1 + 1, by omega, ?_⟩
  unfold aParen
  rw [bind_ok (accept_false hAt rfl)]
  simp only [Bool.false_eq_true, ↓reduceIte]
  unfold aTerm
  rw [bind_ok (nextUnwrapped_eq (at_mv0 hAt _)), mv_mv]
  show Res.ok VT.str _ = Res.ok VT.str (lg _ [])
  rw [lg_nil]
  rfl

theorem AA_var (n : Str) : AAStmt (.var n : Expr F) := by
  intro f ln σ pre rest _ _ _ hE hAt hl
  rw [render_var] at hAt ⊢
  have hAt : At σ pre (.symbol n :: rest) := hAt
  refine ⟨σ.reads + 1 + 1 + 1, by omega, ?_⟩
  unfold aParen
  rw [bind_ok (accept_false hAt rfl)]
  simp only [Bool.false_eq_true, ↓reduceIte]
  unfold aTerm
  rw [bind_ok (nextUnwrapped_eq (at_mv0 hAt _)), mv_mv]
  simp only [mv_reads, Nat.zero_add]
  rw [bind_ok (prevLoc_eq (ln := ln) (i := pre.length) (by rw [mv_line]; exact hl)
    (by rw [mv_idx, hAt.2]))]
  have hAt2 := at_mv1 hAt (σ.reads + 1 + 1)
  rw [bind_ok (peekIsKw_false .LeftParen hAt2 (fun t ht => (hE t ht).1)), mv_mv]
  simp only [Bool.false_eq_true, ↓reduceIte, mv_reads]
  rw [bind_ok (logAccess_eq _ _ _ _ _)]
  rfl

theorem AA_paren (x : Expr F) (hx : APStmt x) : AAStmt (.paren x) := by
  intro f ln σ pre rest hd hn _ _ hAt hl
  rw [render_paren] at hAt ⊢
  have hAt : At σ pre (.kw .LeftParen :: (render x ++ (.kw .RightParen :: rest))) := by
    simpa only [List.cons_append, List.append_assoc, List.nil_append] using hAt
  have hd' : depth x + 1 ≤ f := hd
  have hn' : σ.nesting + (depth x + 1) ≤ Extracted.nestingLimit := hn
  have hAt1 := at_mv1 hAt (σ.reads + 1)
  have hX := aexpr_eq x hx f ln (mv σ 1 (σ.reads + 1)) _ _ hd' hn' (ends_rparen 6 rest) hAt1 hl
  unfold aParen
  rw [bind_ok (accept_true hAt rfl)]
  simp only [↓reduceIte]
  show AAgrees _ (typeOf x) _ _
  cases hev : typeOf x with
  | error e =>
    rw [hev] at hX
    obtain ⟨σ', hσ', hn''⟩ := hX
    exact ⟨σ', bind_err hσ', hn''⟩
  | ok v =>
    rw [hev] at hX
    obtain ⟨r, hr, hσ'⟩ := hX
    simp only [mv_reads, mv_mv] at hr hσ'
    refine ⟨r + 1, by omega, ?_⟩
    rw [bind_ok hσ']
    have hAt2 : At (lg (mv σ (1 + (render x).length) r) (accs ln (pre ++ [Token.kw Kw.LeftParen]).length x))
        ((pre ++ [.kw .LeftParen]) ++ render x) (.kw .RightParen :: rest) := by
      have := at_mv hAt1 r
      rw [mv_mv] at this
      exact at_lg this _
    rw [bind_ok (expect_eq hAt2 rfl), mv_lg, mv_mv]
    simp only [lg_reads, mv_reads, pure_eq]
    congr 1
    apply fin_congr
    · simp only [List.length_cons, List.length_append, List.length_nil]
      omega
    · show _ = accs ln (pre.length + 1) x
      apply accs_congr
      simp only [List.length_cons, List.length_append, List.length_nil]

/-- an atom at any tier -/
theorem AP_atom (e : Expr F) (ha : AAStmt e) (he : e.prec = 8) : APStmt e := by
  intro f j ln σ pre rest hd hn _ _ hE hAt hl
  obtain ⟨t, ts, hts, hun⟩ := atom_head e he
  have hAt0 : At σ pre (t :: (ts ++ rest)) := by rw [hts] at hAt; exact hAt
  have hA := ha f ln (mv σ 0 (σ.reads + 1)) pre rest hd hn he (hE.mono (Nat.zero_le _)) (at_mv0 hAt _) hl
  have h0 : AAgrees (atier (aEvalN f) 0 σ) (typeOf e) σ
      (fun t r => .ok t (lg (mv σ (render e).length r) (accs ln pre.length e))) := by
    show AAgrees (aUnary (aEvalN f) σ) _ _ _
    unfold aUnary
    rw [bind_ok (tryNext_none hAt0 (fun t' ht' => by
      simp only [List.head?_cons, Option.some.injEq] at ht'; subst ht'; exact hun))]
    cases hev : typeOf e with
    | error x =>
      rw [hev] at hA
      obtain ⟨σ', hσ', hn'⟩ := hA
      exact ⟨σ', bind_err hσ', hn'⟩
    | ok v =>
      rw [hev] at hA
      obtain ⟨r, hr, hσ'⟩ := hA
      simp only [mv_reads, mv_mv, Nat.zero_add] at hr hσ'
      exact ⟨r, by omega, by rw [bind_ok hσ']; rfl⟩
  exact alift_level _ _ _ _ _ (pre ++ render e) rest 0 j (Nat.zero_le _) hE (fun r => at_mv hAt r) h0

/-- the spine statement from the tier statement when `e` has no operator of tier `k+1` on top -/
theorem AS_of_P (e : Expr F) (hP : APStmt e) (f k n ln : Nat) (g : Nat → Nat) (σ : St F)
    (pre rest : List (Token F))
    (hd : depth e ≤ f) (hn : σ.nesting + depth e ≤ Extracted.nestingLimit) (hlv : lv e ≤ k) (hk : k < 6)
    (hE : Ends k rest) (hAt : At σ pre (render e ++ rest)) (hl : σ.loc.line = some ln)
    (hg : g ((pre ++ (render e ++ rest)).length + 1) = n + spine k e) :
    AAgrees ((atier (aEvalN f) k >>= fun v => lineBudget >>= fun b =>
              aLevelLoop (atier (aEvalN f) k) (opsAt k) (kindAt k) (g b) v) σ)
      (typeOf e) σ
      (fun t r => aLevelLoop (atier (aEvalN f) k) (opsAt k) (kindAt k) n t
        (lg (mv σ (render e).length r) (accs ln pre.length e))) := by
  have h := hP f k ln σ pre rest hd hn hlv (Nat.le_of_lt hk) hE hAt hl
  rw [spine_zero hlv, Nat.add_zero] at hg
  cases hev : typeOf e with
  | error x =>
    rw [hev] at h
    obtain ⟨σ', hσ', hn'⟩ := h
    exact ⟨σ', bind_err hσ', hn'⟩
  | ok v =>
    rw [hev] at h
    obtain ⟨r, hr, hσ'⟩ := h
    refine ⟨r, hr, ?_⟩
    rw [bind_ok hσ', bind_ok (lineBudget_eq (σ := lg (mv σ (render e).length r) _) hAt.1), hg]
    rfl

/-! #### binary operators -/

theorem AP_paren (x : Expr F) (hx : APStmt x) : APStmt (.paren x) := AP_atom _ (AA_paren x hx) rfl

theorem AP_fixP (p : Nat) (x : Expr F) (hx : APStmt x) : APStmt (fixP p x) := by
  unfold fixP; split
  · exact AP_paren x hx
  · exact hx

theorem AS_paren (x : Expr F) (hx : APStmt x) : ASStmt (.paren x) := by
  intro f k n ln g σ pre rest hd hn _ hk hE hAt hl hg
  exact AS_of_P _ (AP_paren x hx) f k n ln g σ pre rest hd hn (Nat.zero_le _) hk hE hAt hl hg

theorem AS_fixP (p : Nat) (x : Expr F) (hP : APStmt x) (hS : ASStmt x) : ASStmt (fixP p x) := by
  unfold fixP; split
  · exact AS_paren x hP
  · exact hS

/-- the spine case: `bin op l r` read by the loop of the tier of `op` -/
theorem AS_bin_same (op : BinOp) (l r : Expr F) (hPl : APStmt l) (hSl : ASStmt l) (hPr : APStmt r)
    (f n ln : Nat) (g : Nat → Nat) (σ : St F) (pre rest : List (Token F))
    (hd : depth (.bin op l r) ≤ f) (hn : σ.nesting + depth (.bin op l r) ≤ Extracted.nestingLimit)
    (hE : Ends (6 - BinOp.prec op) rest) (hAt : At σ pre (render (.bin op l r) ++ rest))
    (hl : σ.loc.line = some ln)
    (hg : g ((pre ++ (render (.bin op l r) ++ rest)).length + 1) = n + spine (6 - BinOp.prec op) (.bin op l r)) :
    AAgrees ((atier (aEvalN f) (6 - BinOp.prec op) >>= fun v => lineBudget >>= fun b =>
              aLevelLoop (atier (aEvalN f) (6 - BinOp.prec op)) (opsAt (6 - BinOp.prec op))
                (kindAt (6 - BinOp.prec op)) (g b) v) σ)
      (typeOf (.bin op l r)) σ
      (fun t r' => aLevelLoop (atier (aEvalN f) (6 - BinOp.prec op)) (opsAt (6 - BinOp.prec op))
        (kindAt (6 - BinOp.prec op)) n t
        (lg (mv σ (render (.bin op l r)).length r') (accs ln pre.length (.bin op l r)))) := by
  have hb := prec_op_bounds op
  have hkind := kindAt_op op
  generalize hk : 6 - BinOp.prec op = k at *
  have hk6 : k < 6 := by omega
  rw [depth_bin] at hd hn
  have hdl : depth (fixP (BinOp.prec op) l) ≤ f := Nat.le_trans (Nat.le_max_left _ _) hd
  have hdr : depth (fixP (BinOp.prec op + 1) r) ≤ f := Nat.le_trans (Nat.le_max_right _ _) hd
  have hnl : σ.nesting + depth (fixP (BinOp.prec op) l) ≤ Extracted.nestingLimit :=
    Nat.le_trans (Nat.add_le_add_left (Nat.le_max_left _ _) _) hn
  have hnr : σ.nesting + depth (fixP (BinOp.prec op + 1) r) ≤ Extracted.nestingLimit :=
    Nat.le_trans (Nat.add_le_add_left (Nat.le_max_right _ _) _) hn
  rw [accs_bin]
  rw [render_bin] at hAt hg ⊢
  have hspL : spine k (fixP (BinOp.prec op) l) = spine k l := by rw [← hk]; exact spine_fixP op l
  have hlvL : lv (fixP (BinOp.prec op) l) ≤ k + 1 := by rw [← hk]; exact lv_fixP_left op l
  have hlvR : lv (fixP (BinOp.prec op + 1) r) ≤ k := by rw [← hk]; exact lv_fixP_right op r
  have hSL : ASStmt (fixP (BinOp.prec op) l) := AS_fixP _ l hPl hSl
  have hPR : APStmt (fixP (BinOp.prec op + 1) r) := AP_fixP _ r hPr
  have hfL : typeOf (fixP (BinOp.prec op) l) = typeOf l := typeOf_fixP _ _
  have hfR : typeOf (fixP (BinOp.prec op + 1) r) = typeOf r := typeOf_fixP _ _
  generalize fixP (BinOp.prec op) l = L at *
  generalize fixP (BinOp.prec op + 1) r = R at *
  have hAtL : At σ pre (render L ++ (.kw (BinOp.token op) :: (render R ++ rest))) := by
    simpa only [List.append_assoc, List.cons_append] using hAt
  have hEL : Ends k (.kw (BinOp.token op) :: (render R ++ rest)) := hk ▸ ends_op op _
  have hsp : spine k (.bin op l r) = spine k l + 1 := by simp only [spine, hk, if_true]
  -- the left operand, with one more iteration in hand
  have hLres := hSL f k (n + 1) ln g σ pre _ hdl hnl hlvL hk6 hEL hAtL hl
    (by rw [hspL]
        have : pre ++ (render L ++ Token.kw (BinOp.token op) :: (render R ++ rest))
            = pre ++ (render L ++ Token.kw (BinOp.token op) :: render R ++ rest) := by
          simp only [List.append_assoc, List.cons_append]
        rw [this, hg, hsp]; omega)
  rw [hfL] at hLres
  cases hel : typeOf l with
  | error x =>
    rw [hel] at hLres
    obtain ⟨σ', hσ', hn'⟩ := hLres
    simp only [typeOf, hel]
    exact ⟨σ', hσ', hn'⟩
  | ok a =>
    rw [hel] at hLres
    obtain ⟨r1, hr1, hσ1⟩ := hLres
    simp only at hσ1
    -- one iteration of the loop
    have hAt1 : At (lg (mv σ (render L).length r1) (accs ln pre.length L)) (pre ++ render L)
        (.kw (BinOp.token op) :: (render R ++ rest)) := at_lg (at_mv hAtL r1) _
    have hop : opsAt (F := F) k (.kw (BinOp.token op)) = some op := by
      rw [opsAt_token, if_pos hk.symm]
    have hAt2 := at_mv1 hAt1 (r1 + 1)
    have hRres := hPR f k ln (mv (lg (mv σ (render L).length r1) (accs ln pre.length L)) 1 (r1 + 1)) _ rest
      hdr hnr hlvR (Nat.le_of_lt hk6) hE hAt2 hl
    rw [hfR] at hRres
    cases her : typeOf r with
    | error x =>
      rw [her] at hRres
      obtain ⟨σ', hσ', hn'⟩ := hRres
      simp only [typeOf, hel, her]
      exact ⟨σ', by rw [hσ1]; exact aLevelLoop_err hAt1 hop hσ', hn'⟩
    | ok b =>
      rw [her] at hRres
      obtain ⟨r2, hr2, hσ2⟩ := hRres
      simp only [mv_reads] at hr2
      simp only [mv_mv, fin_fin] at hσ2
      simp only [typeOf, hel, her]
      cases hev : tierRule (tierOf op) a b with
      | none =>
        exact ⟨_, hσ1.trans (aLevelLoop_rej hAt1 hop hσ2 (by rw [hkind]; exact hev)), rfl⟩
      | some c =>
        refine ⟨r2, by omega, ?_⟩
        rw [hσ1, aLevelLoop_ok hAt1 hop hσ2 (by rw [hkind]; exact hev)]
        congr 1
        apply fin_congr
        · simp only [List.length_append, List.length_cons]
          omega
        · congr 1
          apply accs_congr
          simp only [List.length_append, List.length_cons, List.length_nil]

/-- the tier statement of a binary node from its spine statement -/
theorem AP_bin (op : BinOp) (l r : Expr F) (hPl : APStmt l) (hSl : ASStmt l) (hPr : APStmt r) :
    APStmt (.bin op l r) := by
  intro f j ln σ pre rest hd hn hlv hj hE hAt hl
  have hb := prec_op_bounds op
  have hkj : 6 - BinOp.prec op + 1 ≤ j := by simp only [lv, Expr.prec] at hlv; omega
  have hsp := spine_le (6 - BinOp.prec op) (.bin op l r)
  have hlen : (render (.bin op l r)).length ≤ (pre ++ (render (.bin op l r) ++ rest)).length := by
    simp only [List.length_append]; omega
  obtain ⟨n, hn'⟩ : ∃ n, (pre ++ (render (.bin op l r) ++ rest)).length + 1
      = (n + 1) + spine (6 - BinOp.prec op) (.bin op l r) :=
    ⟨(pre ++ (render (.bin op l r) ++ rest)).length - spine (6 - BinOp.prec op) (.bin op l r), by omega⟩
  have h := AS_bin_same op l r hPl hSl hPr f (n + 1) ln id σ pre rest hd hn (hE.mono (by omega)) hAt hl hn'
  have hAt' : ∀ r', At (mv σ (render (.bin op l r)).length r') (pre ++ render (.bin op l r)) rest :=
    fun r' => at_mv hAt r'
  have h1 : AAgrees (atier (aEvalN f) (6 - BinOp.prec op + 1) σ) (typeOf (.bin op l r)) σ
      (fun t r' => .ok t (lg (mv σ (render (.bin op l r)).length r') (accs ln pre.length (.bin op l r)))) := by
    show AAgrees ((atier (aEvalN f) (6 - BinOp.prec op) >>= fun v => lineBudget >>= fun b =>
              aLevelLoop (atier (aEvalN f) (6 - BinOp.prec op)) (opsAt (6 - BinOp.prec op))
                (kindAt (6 - BinOp.prec op)) (id b) v) σ) _ _ _
    cases hev : typeOf (.bin op l r) with
    | error x => rw [hev] at h; exact h
    | ok v =>
      rw [hev] at h
      obtain ⟨r1, hr1, hσ1⟩ := h
      refine ⟨r1 + 1, by omega, ?_⟩
      rw [hσ1]
      simp only
      rw [aLevelLoop_stop (at_lg (hAt' r1) _) (hE.mono hkj)]
      rfl
  exact alift_level _ _ _ _ _ _ rest _ j hkj hE hAt' h1

theorem AS_bin (op : BinOp) (l r : Expr F) (hPl : APStmt l) (hSl : ASStmt l) (hPr : APStmt r) :
    ASStmt (.bin op l r) := by
  intro f k n ln g σ pre rest hd hn hlv hk hE hAt hl hg
  by_cases hkk : 6 - BinOp.prec op = k
  · subst hkk
    exact AS_bin_same op l r hPl hSl hPr f n ln g σ pre rest hd hn hE hAt hl hg
  · have hlv' : lv (.bin op l r) ≤ k := by
      simp only [lv, Expr.prec] at hlv ⊢; omega
    exact AS_of_P _ (AP_bin op l r hPl hSl hPr) f k n ln g σ pre rest hd hn hlv' hk hE hAt hl hg

theorem AS_atom (e : Expr F) (hP : APStmt e) (he : lv e = 0) : ASStmt e := by
  intro f k n ln g σ pre rest hd hn _ hk hE hAt hl hg
  exact AS_of_P _ hP f k n ln g σ pre rest hd hn (by omega) hk hE hAt hl hg

theorem AA_bin (op : BinOp) (l r : Expr F) : AAStmt (.bin op l r) := by
  intro f ln σ pre rest _ _ he
  have := prec_op_bounds op
  simp only [Expr.prec] at he
  omega

/-! #### unary operators -/

theorem AA_fixP8 (x : Expr F) (hP : APStmt x) (hA : AAStmt x) : AAStmt (fixP 8 x) := by
  unfold fixP; split
  · exact AA_paren x hP
  · exact hA

theorem AA_un (op : UnOp) (x : Expr F) : AAStmt (.un op x) := by
  intro f ln σ pre rest _ _ he
  simp [Expr.prec] at he

theorem AP_un (op : UnOp) (x : Expr F) (hP : APStmt x) (hA : AAStmt x) : APStmt (.un op x) := by
  intro f j ln σ pre rest hd hn _ _ hE hAt hl
  rw [depth_un] at hd hn
  have hAt0 : At σ pre (.kw (UnOp.token op) :: (render (fixP 8 x) ++ rest)) := by
    rw [render_un] at hAt; exact hAt
  have hAt1 := at_mv1 hAt0 (σ.reads + 1)
  have hX := AA_fixP8 x hP hA f ln (mv σ 1 (σ.reads + 1)) _ rest hd hn (prec_fixP8 x)
    (hE.mono (Nat.zero_le _)) hAt1 hl
  rw [typeOf_fixP] at hX
  have h0 : AAgrees (atier (aEvalN f) 0 σ) (typeOf (.un op x)) σ
      (fun t r => .ok t (lg (mv σ (render (.un op x)).length r) (accs ln pre.length (.un op x)))) := by
    show AAgrees (aUnary (aEvalN f) σ) _ _ _
    unfold aUnary
    rw [bind_ok (tryNext_some hAt0 (unop_ofToken op))]
    cases hev : typeOf x with
    | error e =>
      rw [hev] at hX
      obtain ⟨σ', hσ', hn'⟩ := hX
      simp only [typeOf, hev]
      exact ⟨σ', bind_err hσ', hn'⟩
    | ok v =>
      rw [hev] at hX
      obtain ⟨r, hr, hσ'⟩ := hX
      simp only [mv_reads, mv_mv] at hr hσ'
      simp only [typeOf, hev]
      rw [bind_ok hσ']
      have hfin : lg (mv σ (1 + (render (fixP 8 x)).length) r) (accs ln (pre ++ [Token.kw (UnOp.token op)]).length (fixP 8 x))
          = lg (mv σ (render (.un op x)).length r) (accs ln pre.length (.un op x)) := by
        apply fin_congr
        · rw [render_un, List.length_cons]; omega
        · rw [accs_un]
          apply accs_congr
          simp only [List.length_append, List.length_cons, List.length_nil]
      rw [hfin]
      cases op with
      | pos => exact ⟨r, by omega, rfl⟩
      | not => exact ⟨r, by omega, rfl⟩
      | neg =>
        cases v with
        | num => exact ⟨r, by omega, rfl⟩
        | str => exact ⟨_, rfl, rfl⟩
  exact alift_level _ _ _ _ _ (pre ++ render (.un op x)) rest 0 j (Nat.zero_le _) hE (fun r => at_mv hAt r) h0

/-! #### ABS / INT -/

/-- `aNumberFunctionArg` on `( render x )` -/
theorem aNumberFunctionArg_eq (x : Expr F) (hx : APStmt x) (f ln : Nat) (σ : St F) (pre rest : List (Token F))
    (hd : depth x + 1 ≤ f) (hn : σ.nesting + (depth x + 1) ≤ Extracted.nestingLimit)
    (hAt : At σ pre (.kw .LeftParen :: (render x ++ (.kw .RightParen :: rest))))
    (hl : σ.loc.line = some ln) :
    match typeOf x with
    | .ok .num => ∃ r, σ.reads < r ∧
        aNumberFunctionArg (aEvalN f) σ =
          .ok .num (lg (mv σ ((render x).length + 2) r) (accs ln (pre.length + 1) x))
    | .ok .str => ∃ σ', aNumberFunctionArg (aEvalN f) σ = .err { err := .typeMismatch } σ' ∧
        σ'.nesting = σ.nesting
    | .error e => ∃ σ', aNumberFunctionArg (aEvalN f) σ = .err { err := e } σ' ∧ σ'.nesting = σ.nesting := by
  have hAt1 := at_mv1 hAt (σ.reads + 1)
  have hX := aexpr_eq x hx f ln (mv σ 1 (σ.reads + 1)) _ _ hd hn (ends_rparen 6 rest) hAt1 hl
  unfold aNumberFunctionArg
  rw [bind_ok (expect_eq hAt rfl)]
  cases hev : typeOf x with
  | error e =>
    rw [hev] at hX
    obtain ⟨σ', hσ', hn''⟩ := hX
    exact ⟨σ', bind_err hσ', hn''⟩
  | ok v =>
    rw [hev] at hX
    obtain ⟨r, hr, hσ'⟩ := hX
    simp only [mv_reads, mv_mv] at hr hσ'
    cases v with
    | str =>
      exact ⟨_, (bind_ok hσ').trans (bind_err (checkNumber_str _)), rfl⟩
    | num =>
      refine ⟨r + 1, by omega, ?_⟩
      rw [bind_ok hσ']
      show (VT.checkNumber (F := F) .num >>= _) _ = _
      rw [bind_ok (checkNumber_num _)]
      have hAt2 : At (lg (mv σ (1 + (render x).length) r) (accs ln (pre ++ [Token.kw Kw.LeftParen]).length x))
          ((pre ++ [.kw .LeftParen]) ++ render x) (.kw .RightParen :: rest) := by
        have := at_mv hAt1 r
        rw [mv_mv] at this
        exact at_lg this _
      rw [bind_ok (expect_eq hAt2 rfl), mv_lg, mv_mv]
      simp only [lg_reads, mv_reads, pure_eq]
      congr 1
      apply fin_congr
      · omega
      · apply accs_congr
        simp only [List.length_append, List.length_cons, List.length_nil]

/-- a call of a built-in number function `name ( x )` through `aParen` -/
theorem AA_call (name : Str) (x : Expr F) (hx : APStmt x)
    (hname : (name == Extracted.builtinAbs.toList || name == Extracted.builtinInt.toList
      || name == Extracted.builtinRnd.toList) = true)
    (f ln : Nat) (σ : St F) (pre rest : List (Token F))
    (hd : depth x + 1 ≤ f) (hn : σ.nesting + (depth x + 1) ≤ Extracted.nestingLimit)
    (hAt : At σ pre (.symbol name :: .kw .LeftParen :: (render x ++ (.kw .RightParen :: rest))))
    (hl : σ.loc.line = some ln) :
    AAgrees (aParen (aEvalN f) σ)
      (match typeOf x with
       | .ok .num => .ok .num
       | .ok .str => .error .typeMismatch
       | .error e => .error e) σ
      (fun t r => .ok t (lg (mv σ ((render x).length + 3) r) (accs ln (pre.length + 2) x))) := by
  have hAt1 := at_mv1 hAt (σ.reads + 1 + 1)
  have hAt2 := at_mv0 hAt1 (σ.reads + 1 + 1 + 1)
  rw [mv_mv, Nat.add_zero] at hAt2
  have hN := aNumberFunctionArg_eq x hx f ln (mv σ 1 (σ.reads + 1 + 1 + 1)) _ _ hd hn hAt2 hl
  unfold aParen
  rw [bind_ok (accept_false hAt rfl)]
  simp only [Bool.false_eq_true, ↓reduceIte]
  unfold aTerm
  rw [bind_ok (nextUnwrapped_eq (at_mv0 hAt _)), mv_mv]
  simp only [mv_reads, Nat.zero_add]
  rw [bind_ok (prevLoc_eq (ln := ln) (i := pre.length) (by rw [mv_line]; exact hl)
    (by rw [mv_idx, hAt.2]))]
  rw [bind_ok (peekIsKw_cons .LeftParen hAt1), mv_mv]
  simp only [mv_reads, Nat.add_zero]
  have hk : (Token.kw (F := F) Kw.LeftParen).isKw Kw.LeftParen = true := rfl
  simp only [hk, ↓reduceIte]
  unfold aFunctionCall
  simp only [hname, ↓reduceIte]
  cases hev : typeOf x with
  | error e =>
    rw [hev] at hN
    obtain ⟨σ', hσ', hn''⟩ := hN
    exact ⟨σ', bind_err (bind_err hσ'), hn''⟩
  | ok v =>
    rw [hev] at hN
    cases v with
    | str =>
      obtain ⟨σ', hσ', hn''⟩ := hN
      exact ⟨σ', bind_err (bind_err hσ'), hn''⟩
    | num =>
      obtain ⟨r, hr, hσ'⟩ := hN
      simp only [mv_reads, mv_mv] at hr hσ'
      refine ⟨r, by omega, ?_⟩
      have h1 : (aNumberFunctionArg (aEvalN f) >>= fun t => pure (some t))
          (mv σ 1 (σ.reads + 1 + 1 + 1)) =
          .ok (some VT.num) (lg (mv σ (1 + ((render x).length + 2)) r)
            (accs ln ((pre ++ [Token.symbol name]).length + 1) x)) := by
        rw [bind_ok hσ']; rfl
      rw [bind_ok h1]
      show Res.ok _ _ = Res.ok _ _
      congr 1
      apply fin_congr
      · omega
      · apply accs_congr
        simp only [List.length_append, List.length_cons, List.length_nil]

theorem AA_abs (x : Expr F) (hx : APStmt x) : AAStmt (.abs x) := by
  intro f ln σ pre rest hd hn _ _ hAt hl
  rw [render_abs] at hAt ⊢
  have hAt : At σ pre (.symbol Extracted.builtinAbs.toList :: .kw .LeftParen ::
      (render x ++ (.kw .RightParen :: rest))) := by
    simpa only [List.cons_append, List.append_assoc, List.nil_append] using hAt
  have h := AA_call _ x hx (by decide) f ln σ pre rest hd hn hAt hl
  have hlen : (Token.symbol (F := F) Extracted.builtinAbs.toList :: Token.kw Kw.LeftParen ::
      (render x ++ [Token.kw Kw.RightParen])).length = (render x).length + 3 := by
    simp only [List.length_cons, List.length_append, List.length_nil]
  rw [hlen]
  exact h

theorem AA_int (x : Expr F) (hx : APStmt x) : AAStmt (.int x) := by
  intro f ln σ pre rest hd hn _ _ hAt hl
  rw [render_int] at hAt ⊢
  have hAt : At σ pre (.symbol Extracted.builtinInt.toList :: .kw .LeftParen ::
      (render x ++ (.kw .RightParen :: rest))) := by
    simpa only [List.cons_append, List.append_assoc, List.nil_append] using hAt
  have h := AA_call _ x hx (by decide) f ln σ pre rest hd hn hAt hl
  have hlen : (Token.symbol (F := F) Extracted.builtinInt.toList :: Token.kw Kw.LeftParen ::
      (render x ++ [Token.kw Kw.RightParen])).length = (render x).length + 3 := by
    simp only [List.length_cons, List.length_append, List.length_nil]
  rw [hlen]
  exact h

/-! #### all trees -/

theorem amain (e : Expr F) : APStmt e ∧ ASStmt e ∧ AAStmt e := by
  induction e with
  | num x => exact ⟨AP_atom _ (AA_num x) rfl, AS_atom _ (AP_atom _ (AA_num x) rfl) rfl, AA_num x⟩
  | str s => exact ⟨AP_atom _ (AA_str s) rfl, AS_atom _ (AP_atom _ (AA_str s) rfl) rfl, AA_str s⟩
  | var n => exact ⟨AP_atom _ (AA_var n) rfl, AS_atom _ (AP_atom _ (AA_var n) rfl) rfl, AA_var n⟩
  | paren x ih => exact ⟨AP_paren x ih.1, AS_paren x ih.1, AA_paren x ih.1⟩
  | bin op l r ihl ihr =>
    exact ⟨AP_bin op l r ihl.1 ihl.2.1 ihr.1, AS_bin op l r ihl.1 ihl.2.1 ihr.1, AA_bin op l r⟩
  | un op x ih =>
    have hP := AP_un op x ih.1 ih.2.2
    exact ⟨hP, AS_atom _ hP rfl, AA_un op x⟩
  | abs x ih =>
    have hA := AA_abs x ih.1
    exact ⟨AP_atom _ hA rfl, AS_atom _ (AP_atom _ hA rfl) rfl, hA⟩
  | int x ih =>
    have hA := AA_int x ih.1
    exact ⟨AP_atom _ hA rfl, AS_atom _ (AP_atom _ hA rfl) rfl, hA⟩

/-! ### 2. `analyze_render` -/

/-- The hypotheses of `analyze_render` (the analogue of `C02.Ready`): the cursor
    of `σ` stands on the NUMBERED line `ln` (the analyzer only ever walks numbered
    lines: `logAccess` unwraps the line number), whose tokens are
    `pre ++ render e ++ rest`, at index `|pre|`; there is room for the
    parentheses of the rendering below the nesting cap and in the fuel. -/
structure AReady (σ : St F) (ln : Nat) (pre : List (Token F)) (e : Expr F) (rest : List (Token F))
    (n : Nat) : Prop where
  line : σ.loc.line = some ln
  toks : tokens σ = .ok (pre ++ render e ++ rest) σ
  idx : σ.loc.idx = pre.length
  nesting : σ.nesting + depth e < Extracted.nestingLimit
  fuel : depth e + 1 ≤ n
  follows : C02.Follows rest

theorem AReady.of_ready {σ : St F} {ln : Nat} {pre rest : List (Token F)} {e : Expr F} {n : Nat}
    (h : C02.Ready σ pre e rest n) (hl : σ.loc.line = some ln) : AReady σ ln pre e rest n :=
  ⟨hl, h.toks, h.idx, h.nesting, h.fuel, h.follows⟩

theorem AReady.at {σ : St F} {ln : Nat} {pre rest : List (Token F)} {e : Expr F} {n : Nat}
    (h : AReady σ ln pre e rest n) : At σ pre (render e ++ rest) :=
  ⟨by rw [C02.lineToks_of_tokens h.toks, List.append_assoc], h.idx⟩

/-- the result state of the analyzer, spelled out: the cursor after the
    rendering, `r` reads, the accesses of `e` appended; everything else as in `σ` -/
theorem fin_eq {σ : St F} {pre : List (Token F)} (hidx : σ.loc.idx = pre.length) (len r : Nat)
    (a : List Acc) :
    lg (mv σ len r) a =
      { σ with loc := { σ.loc with idx := pre.length + len }, reads := r, accesses := σ.accesses ++ a } := by
  simp only [lg, mv, hidx]

/-- **The analyzer on a rendering.**  For every tree `e`, the six analyzer tiers
    run on `render e` return `typeOf e`, having consumed exactly `render e`,
    logged exactly `accs ln |pre| e`, and changed nothing else (lines, variables,
    nesting counter, … are those of `σ`; the read counter grew); if `typeOf e` is
    an error the run fails with that error, the nesting counter restored. -/
theorem analyze_render (e : Expr F) (n ln : Nat) (σ : St F) (pre rest : List (Token F))
    (h : AReady σ ln pre e rest n) :
    (∀ t, typeOf e = .ok t → ∃ r, σ.reads < r ∧
      aOrExpr (aEvalN n) σ =
        .ok t { σ with loc := { σ.loc with idx := pre.length + (render e).length }, reads := r,
                       accesses := σ.accesses ++ accs ln pre.length e }) ∧
    (∀ x, typeOf e = .error x → ∃ σ',
      aOrExpr (aEvalN n) σ = .err { err := x } σ' ∧ σ'.nesting = σ.nesting) := by
  have hA := (amain e).1 n 6 ln σ pre rest (by have := h.fuel; omega) (by have := h.nesting; omega)
    (by have := prec_bounds e; unfold lv; omega) (Nat.le_refl _) (C02.ends_of_follows h.follows) h.at h.line
  rw [atier_six] at hA
  constructor
  · intro t ht
    rw [ht] at hA
    obtain ⟨r, hr, hσ⟩ := hA
    exact ⟨r, hr, by rw [hσ]; show Res.ok t (lg (mv σ _ r) _) = _; rw [fin_eq h.idx]⟩
  · intro x hx
    rw [hx] at hA
    exact hA

/-- the same for the recursive entry `aExprBody` = `(aEvalN (n+1)).expr` (one
    nesting level deeper, restored on exit), the entry used by statements -/
theorem analyze_render_body (e : Expr F) (n ln : Nat) (σ : St F) (pre rest : List (Token F))
    (h : AReady σ ln pre e rest n) :
    (∀ t, typeOf e = .ok t → ∃ r, σ.reads < r ∧
      aExprBody (aEvalN n) σ =
        .ok t { σ with loc := { σ.loc with idx := pre.length + (render e).length }, reads := r,
                       accesses := σ.accesses ++ accs ln pre.length e }) ∧
    (∀ x, typeOf e = .error x → ∃ σ',
      aExprBody (aEvalN n) σ = .err { err := x } σ' ∧ σ'.nesting = σ.nesting) := by
  have hA := aexpr_eq e (amain e).1 (n + 1) ln σ pre rest (by have := h.fuel; omega)
    (by have := h.nesting; omega) (C02.ends_of_follows h.follows) h.at h.line
  have hb : (aEvalN (F := F) (n + 1)).expr = aExprBody (aEvalN n) := rfl
  rw [hb] at hA
  constructor
  · intro t ht
    rw [ht] at hA
    obtain ⟨r, hr, hσ⟩ := hA
    exact ⟨r, hr, by rw [hσ]; show Res.ok t (lg (mv σ _ r) _) = _; rw [fin_eq h.idx]⟩
  · intro x hx
    rw [hx] at hA
    exact hA

/-- the analyzer's verdict on a rendering is `typeOf` -/
theorem analyze_render_outcome (e : Expr F) (n ln : Nat) (σ : St F) (pre rest : List (Token F))
    (h : AReady σ ln pre e rest n) :
    C02.outcome (aOrExpr (aEvalN n) σ) =
      (match typeOf e with
       | .ok t => .ok t
       | .error x => .error { err := x }) := by
  obtain ⟨h1, h2⟩ := analyze_render e n ln σ pre rest h
  cases hev : typeOf e with
  | ok t => obtain ⟨r, _, hr⟩ := h1 t hev; rw [hr]; rfl
  | error x => obtain ⟨σ', hσ', _⟩ := h2 x hev; rw [hσ']; rfl

/-- accepted by the analyzer ⇔ typed by the spec -/
theorem analyzer_accepts_iff (e : Expr F) (n ln : Nat) (σ : St F) (pre rest : List (Token F))
    (h : AReady σ ln pre e rest n) (t : VT) :
    (∃ σ', aOrExpr (aEvalN n) σ = .ok t σ') ↔ typeOf e = .ok t := by
  obtain ⟨h1, h2⟩ := analyze_render e n ln σ pre rest h
  constructor
  · rintro ⟨σ', hσ'⟩
    cases hev : typeOf e with
    | ok t' =>
      obtain ⟨r, _, hr⟩ := h1 t' hev
      rw [hr] at hσ'
      simp only [Res.ok.injEq] at hσ'
      rw [hσ'.1]
    | error x =>
      obtain ⟨σ'', hσ'', _⟩ := h2 x hev
      rw [hσ''] at hσ'
      cases hσ'
  · intro ht
    obtain ⟨r, _, hr⟩ := h1 t ht
    exact ⟨_, hr⟩

/-! ### 3. typing and values -/

/-- the only static error is TYPE MISMATCH -/
theorem typeOf_error (e : Expr F) (x : Err) (h : typeOf e = .error x) : x = .typeMismatch := by
  induction e generalizing x with
  | num _ => simp [typeOf] at h
  | str _ => simp [typeOf] at h
  | var _ => simp [typeOf] at h
  | paren e ih => exact ih x h
  | un op e ih =>
    simp only [typeOf] at h
    cases hte : typeOf e with
    | error y =>
      rw [hte] at h; simp only [Except.error.injEq] at h; subst h; exact ih _ hte
    | ok a =>
      rw [hte] at h; simp only at h
      cases hu : unaryRule op a with
      | none => rw [hu] at h; simp only [Except.error.injEq] at h; exact h.symm
      | some t => rw [hu] at h; cases h
  | bin op l r ihl ihr =>
    simp only [typeOf] at h
    cases htl : typeOf l with
    | error y =>
      rw [htl] at h; simp only [Except.error.injEq] at h; subst h; exact ihl _ htl
    | ok a =>
      rw [htl] at h; simp only at h
      cases htr : typeOf r with
      | error y =>
        rw [htr] at h; simp only [Except.error.injEq] at h; subst h; exact ihr _ htr
      | ok b =>
        rw [htr] at h; simp only at h
        cases hu : tierRule (tierOf op) a b with
        | none => rw [hu] at h; simp only [Except.error.injEq] at h; exact h.symm
        | some t => rw [hu] at h; cases h
  | abs e ih =>
    simp only [typeOf] at h
    cases hte : typeOf e with
    | error y => rw [hte] at h; simp only [Except.error.injEq] at h; subst h; exact ih _ hte
    | ok a =>
      rw [hte] at h
      cases a with
      | num => cases h
      | str => simp only [Except.error.injEq] at h; exact h.symm
  | int e ih =>
    simp only [typeOf] at h
    cases hte : typeOf e with
    | error y => rw [hte] at h; simp only [Except.error.injEq] at h; subst h; exact ih _ hte
    | ok a =>
      rw [hte] at h
      cases a with
      | num => cases h
      | str => simp only [Except.error.injEq] at h; exact h.symm

/-- an environment whose every variable holds a value of the kind its name announces -/
def WellTypedEnv (env : Str → Value F) : Prop := ∀ name, (env name).matchesName name = true

theorem kindOf_env {env : Str → Value F} (henv : WellTypedEnv env) (name : Str) :
    kindOf (env name) = VT.ofName name := by
  have h := henv name
  rw [suffix_rule_agrees] at h
  simpa using h

/-- The fold of a tree against its static type, in a well-typed environment:
    a typed tree folds to a value of that kind, or to DIVISION BY ZERO; an
    untyped tree folds to TYPE MISMATCH, or to DIVISION BY ZERO. -/
theorem fold_typeOf (env : Str → Value F) (henv : WellTypedEnv env) (e : Expr F) :
    (∀ t, typeOf e = .ok t →
      (∃ v, foldE env e = .ok v ∧ kindOf v = t) ∨ foldE env e = .error .divisionByZero) ∧
    (∀ x, typeOf e = .error x →
      foldE env e = .error .typeMismatch ∨ foldE env e = .error .divisionByZero) := by
  induction e with
  | num x =>
    refine ⟨fun t h => ?_, fun x h => by simp [typeOf] at h⟩
    simp only [typeOf, Except.ok.injEq] at h; subst h
    exact .inl ⟨_, rfl, rfl⟩
  | str s =>
    refine ⟨fun t h => ?_, fun x h => by simp [typeOf] at h⟩
    simp only [typeOf, Except.ok.injEq] at h; subst h
    exact .inl ⟨_, rfl, rfl⟩
  | var n =>
    refine ⟨fun t h => ?_, fun x h => by simp [typeOf] at h⟩
    simp only [typeOf, Except.ok.injEq] at h; subst h
    exact .inl ⟨_, rfl, kindOf_env henv n⟩
  | paren e ih => exact ih
  | un op e ih =>
    obtain ⟨ih1, ih2⟩ := ih
    cases hte : typeOf e with
    | error y =>
      have hf := ih2 y hte
      refine ⟨fun t h => by simp [typeOf, hte] at h, fun x _ => ?_⟩
      rcases hf with hf | hf
      · exact .inl (by simp only [foldE, hf])
      · exact .inr (by simp only [foldE, hf])
    | ok a =>
      rcases ih1 a hte with ⟨v, hv, hk⟩ | hdz
      · have hag := unop_agrees op v
        rw [hk] at hag
        have hfold : foldE env (.un op e) = op.eval v := by simp only [foldE, hv]
        rw [hfold]
        cases hu : unaryRule op a with
        | none =>
          refine ⟨fun t h => by simp [typeOf, hte, hu] at h, fun x _ => .inl (hag.1.2 hu)⟩
        | some t' =>
          refine ⟨fun t h => ?_, fun x h => by simp [typeOf, hte, hu] at h⟩
          simp only [typeOf, hte, hu, Except.ok.injEq] at h; subst h
          cases hop : op.eval v with
          | error x =>
            have hx := hag.2.2 x hop
            subst hx
            rw [hag.1.1 hop] at hu
            cases hu
          | ok w =>
            have := hag.2.1 w hop
            rw [hu] at this
            simp only [Option.some.injEq] at this
            exact .inl ⟨w, rfl, this.symm⟩
      · have hfold : foldE env (.un op e) = .error .divisionByZero := by simp only [foldE, hdz]
        exact ⟨fun _ _ => .inr hfold, fun _ _ => .inr hfold⟩
  | bin op l r ihl ihr =>
    obtain ⟨ihl1, ihl2⟩ := ihl
    obtain ⟨ihr1, ihr2⟩ := ihr
    cases htl : typeOf l with
    | error y =>
      have hf := ihl2 y htl
      refine ⟨fun t h => by simp [typeOf, htl] at h, fun x _ => ?_⟩
      rcases hf with hf | hf
      · exact .inl (by simp only [foldE, hf])
      · exact .inr (by simp only [foldE, hf])
    | ok a =>
      rcases ihl1 a htl with ⟨va, hva, hka⟩ | hdz
      · cases htr : typeOf r with
        | error y =>
          have hf := ihr2 y htr
          refine ⟨fun t h => by simp [typeOf, htl, htr] at h, fun x _ => ?_⟩
          rcases hf with hf | hf
          · exact .inl (by simp only [foldE, hva, hf])
          · exact .inr (by simp only [foldE, hva, hf])
        | ok b =>
          rcases ihr1 b htr with ⟨vb, hvb, hkb⟩ | hdz
          · have hag := binop_agrees op va vb
            rw [hka, hkb] at hag
            have hfold : foldE env (.bin op l r) = op.eval va vb := by simp only [foldE, hva, hvb]
            rw [hfold]
            cases hu : tierRule (tierOf op) a b with
            | none =>
              refine ⟨fun t h => by simp [typeOf, htl, htr, hu] at h, fun x _ => .inl (hag.1.2 hu)⟩
            | some t' =>
              refine ⟨fun t h => ?_, fun x h => by simp [typeOf, htl, htr, hu] at h⟩
              simp only [typeOf, htl, htr, hu, Except.ok.injEq] at h; subst h
              cases hop : op.eval va vb with
              | error x =>
                rcases hag.2.2 x hop with hx | hx
                · subst hx
                  rw [hag.1.1 hop] at hu
                  cases hu
                · subst hx; exact .inr rfl
              | ok w =>
                have := hag.2.1 w hop
                rw [hu] at this
                simp only [Option.some.injEq] at this
                exact .inl ⟨w, rfl, this.symm⟩
          · have hfold : foldE env (.bin op l r) = .error .divisionByZero := by
              simp only [foldE, hva, hdz]
            exact ⟨fun _ _ => .inr hfold, fun _ _ => .inr hfold⟩
      · have hfold : foldE env (.bin op l r) = .error .divisionByZero := by simp only [foldE, hdz]
        exact ⟨fun _ _ => .inr hfold, fun _ _ => .inr hfold⟩
  | abs e ih =>
    obtain ⟨ih1, ih2⟩ := ih
    cases hte : typeOf e with
    | error y =>
      have hf := ih2 y hte
      refine ⟨fun t h => by simp [typeOf, hte] at h, fun x _ => ?_⟩
      rcases hf with hf | hf
      · exact .inl (by simp only [foldE, hf])
      · exact .inr (by simp only [foldE, hf])
    | ok a =>
      rcases ih1 a hte with ⟨v, hv, hk⟩ | hdz
      · cases v with
        | num y =>
          have : a = .num := hk.symm
          subst this
          refine ⟨fun t h => ?_, fun x h => by simp [typeOf, hte] at h⟩
          simp only [typeOf, hte, Except.ok.injEq] at h; subst h
          exact .inl ⟨.num (NumOps.abs y), by simp only [foldE, hv], rfl⟩
        | str s =>
          have : a = .str := hk.symm
          subst this
          refine ⟨fun t h => by simp [typeOf, hte] at h, fun x _ => .inl (by simp only [foldE, hv])⟩
      · have hfold : foldE env (.abs e) = .error .divisionByZero := by simp only [foldE, hdz]
        exact ⟨fun _ _ => .inr hfold, fun _ _ => .inr hfold⟩
  | int e ih =>
    obtain ⟨ih1, ih2⟩ := ih
    cases hte : typeOf e with
    | error y =>
      have hf := ih2 y hte
      refine ⟨fun t h => by simp [typeOf, hte] at h, fun x _ => ?_⟩
      rcases hf with hf | hf
      · exact .inl (by simp only [foldE, hf])
      · exact .inr (by simp only [foldE, hf])
    | ok a =>
      rcases ih1 a hte with ⟨v, hv, hk⟩ | hdz
      · cases v with
        | num y =>
          have : a = .num := hk.symm
          subst this
          refine ⟨fun t h => ?_, fun x h => by simp [typeOf, hte] at h⟩
          simp only [typeOf, hte, Except.ok.injEq] at h; subst h
          exact .inl ⟨.num (NumOps.floor y), by simp only [foldE, hv], rfl⟩
        | str s =>
          have : a = .str := hk.symm
          subst this
          refine ⟨fun t h => by simp [typeOf, hte] at h, fun x _ => .inl (by simp only [foldE, hv])⟩
      · have hfold : foldE env (.int e) = .error .divisionByZero := by simp only [foldE, hdz]
        exact ⟨fun _ _ => .inr hfold, fun _ _ => .inr hfold⟩

/-- **Typed trees have typed values.**  If the spec types `e` as `t` and every
    variable holds a value of the kind its name announces, then the fold of `e`
    is never TYPE MISMATCH, and when it is a value, the value has kind `t`.
    (Third clause: the only error a typed tree can fold to is DIVISION BY ZERO.) -/
theorem typed_value (env : Str → Value F) (henv : WellTypedEnv env) (e : Expr F) (t : VT)
    (h : typeOf e = .ok t) :
    foldE env e ≠ .error .typeMismatch ∧
    (∀ v, foldE env e = .ok v → kindOf v = t) ∧
    (∀ x, foldE env e = .error x → x = .divisionByZero) := by
  rcases (fold_typeOf env henv e).1 t h with ⟨v, hv, hk⟩ | hdz
  · rw [hv]
    refine ⟨by simp, fun w hw => ?_, fun x hx => by simp at hx⟩
    simp only [Except.ok.injEq] at hw; subst hw; exact hk
  · rw [hdz]
    refine ⟨by simp, fun w hw => by simp at hw, fun x hx => ?_⟩
    simp only [Except.error.injEq] at hx; exact hx.symm

/-- **The converse.**  If the spec rejects `e` (always with TYPE MISMATCH) and the
    environment is well-typed, the fold of `e` fails: with TYPE MISMATCH, unless a
    sub-expression evaluated earlier divides by zero first.  In particular a
    rejected tree never has a value. -/
theorem untyped_value (env : Str → Value F) (henv : WellTypedEnv env) (e : Expr F) (x : Err)
    (h : typeOf e = .error x) :
    x = .typeMismatch ∧
    (foldE env e = .error .typeMismatch ∨ foldE env e = .error .divisionByZero) :=
  ⟨typeOf_error e x h, (fold_typeOf env henv e).2 x h⟩

/-- The clean converse "rejected ⇒ the fold is TYPE MISMATCH" is false: in
    `1 / 0 + "A"` (over the degenerate carrier, where every number equals zero) the
    division fails first. -/
example :
    typeOf (F := Unit) (.bin .add (.bin .div (.num ()) (.num ())) (.str ['A'])) = .error .typeMismatch ∧
    foldE (F := Unit) (fun n => Value.defaultFor n)
      (.bin .add (.bin .div (.num ()) (.num ())) (.str ['A'])) = .error .divisionByZero := by
  constructor <;> rfl

/-- And well-typedness of the environment is needed: with `X` holding a string,
    the typed tree `X + 1` folds to TYPE MISMATCH. -/
example :
    typeOf (F := Unit) (.bin .add (.var ['X']) (.num ())) = .ok .num ∧
    foldE (F := Unit) (fun _ => Value.str []) (.bin .add (.var ['X']) (.num ())) = .error .typeMismatch := by
  constructor <;> rfl

/-! #### well-typed states -/

/-- every stored variable holds a value of the kind its name announces
    (`setVar` = `Variables::set` maintains this: it checks `matchesName`) -/
def WellTyped (σ : St F) : Prop := ∀ name v, alGet name σ.vars = some v → v.matchesName name = true

theorem defaultFor_matches (name : Str) : (Value.defaultFor (F := F) name).matchesName name = true := by
  unfold Value.defaultFor
  cases h : endsWithDollar name <;> simp [Value.matchesName, h]

theorem wellTypedEnv_getVar {σ : St F} (h : WellTyped σ) : WellTypedEnv (getVar σ) := by
  intro name
  unfold getVar
  cases hg : alGet name σ.vars with
  | none => exact defaultFor_matches name
  | some v => exact h name v hg

theorem wellTyped_empty : WellTyped ({} : St F) := by
  intro name v h
  simp [alGet] at h

theorem alGet_alSet {β : Type} (k k' : Str) (v : β) (l : List (Str × β)) :
    alGet k' (alSet k v l) = if k == k' then some v else alGet k' l := by
  induction l with
  | nil => simp [alSet, alGet]
  | cons p rest ih =>
    obtain ⟨k0, v0⟩ := p
    simp only [alSet]
    by_cases h0 : k0 = k
    · subst h0
      simp only [beq_self_eq_true, ↓reduceIte, alGet]
      cases h1 : k0 == k' <;> simp
    · have hb : (k0 == k) = false := by simpa using h0
      simp only [hb, Bool.false_eq_true, ↓reduceIte, alGet, ih]
      by_cases h1 : k0 = k'
      · subst h1
        have hb' : (k == k0) = false := by simpa using fun h => h0 h.symm
        simp only [beq_self_eq_true, ↓reduceIte, hb', Bool.false_eq_true]
      · have hb' : (k0 == k') = false := by simpa using h1
        simp only [hb', Bool.false_eq_true, ↓reduceIte]

/-- assignment keeps the variables well-typed -/
theorem setVar_wellTyped {σ σ' : St F} {name : Str} {v : Value F}
    (h : WellTyped σ) (hs : setVar name v σ = .ok () σ') : WellTyped σ' := by
  unfold setVar at hs
  cases hm : v.matchesName name with
  | false =>
    simp only [hm, Bool.false_eq_true, ↓reduceIte] at hs
    cases hs
  | true =>
    simp only [hm, ↓reduceIte] at hs
    have : σ' = { σ with vars := alSet name v σ.vars } := by
      simp only [M.modify, Res.ok.injEq, true_and] at hs
      exact hs.symm
    subst this
    intro n w hw
    simp only [alGet_alSet] at hw
    by_cases hn : name = n
    · subst hn
      simp only [beq_self_eq_true, ↓reduceIte, Option.some.injEq] at hw
      subst hw; exact hm
    · have hb : (name == n) = false := by simpa using hn
      simp only [hb, Bool.false_eq_true, ↓reduceIte] at hw
      exact h n w hw

/-! ### 4. soundness for expressions -/

/-- **C06 for expressions.**  If the analyzer accepts the rendering of `e` with
    type `t` (run from any state `σa` standing on it, on a numbered line), then the
    evaluator run on the same tokens — from any state `σ` standing on a rendering
    of `e` (C02's `Ready`) whose variables are well-typed — either yields a value
    of kind `t`, leaving `σ` untouched but for the cursor and the read counter, or
    fails with DIVISION BY ZERO.  (`typeOf e = .ok t` is the link.) -/
theorem sound_expr_strong (e : Expr F) (t : VT)
    (na ln : Nat) (σa σa' : St F) (prea resta : List (Token F))
    (ha : AReady σa ln prea e resta na) (hacc : aOrExpr (aEvalN na) σa = .ok t σa')
    (n : Nat) (σ : St F) (pre rest : List (Token F))
    (hr : C02.Ready σ pre e rest n) (hwt : WellTyped σ) :
    typeOf e = .ok t ∧
    ((∃ v r, kindOf v = t ∧ foldE (getVar σ) e = .ok v ∧ σ.reads < r ∧
        orExpr (evalN n) σ =
          .ok v { σ with loc := { σ.loc with idx := pre.length + (render e).length }, reads := r }) ∨
     (∃ σ', orExpr (evalN n) σ = .err { err := .divisionByZero } σ' ∧ σ'.nesting = σ.nesting)) := by
  have hty : typeOf e = .ok t := (analyzer_accepts_iff e na ln σa prea resta ha t).1 ⟨σa', hacc⟩
  refine ⟨hty, ?_⟩
  obtain ⟨h1, h2⟩ := C02.eval_render e n σ pre rest hr
  rcases (fold_typeOf (getVar σ) (wellTypedEnv_getVar hwt) e).1 t hty with ⟨v, hv, hk⟩ | hdz
  · obtain ⟨r, hlt, hrun⟩ := h1 v hv
    exact .inl ⟨v, r, hk, hv, hlt, hrun⟩
  · exact .inr (h2 _ hdz)

/-- **`sound_expr`.**  If the analyzer accepts the rendering, the evaluator run on
    the same tokens, from any `Ready` state whose variables are well-typed, does
    not fail with TYPE MISMATCH nor with a syntax error (nor with anything but
    DIVISION BY ZERO), and any value it returns has the kind the analyzer computed. -/
theorem sound_expr (e : Expr F) (t : VT)
    (na ln : Nat) (σa σa' : St F) (prea resta : List (Token F))
    (ha : AReady σa ln prea e resta na) (hacc : aOrExpr (aEvalN na) σa = .ok t σa')
    (n : Nat) (σ : St F) (pre rest : List (Token F))
    (hr : C02.Ready σ pre e rest n) (hwt : WellTyped σ) :
    (∀ te σ', orExpr (evalN n) σ = .err te σ' →
      te.err ≠ .typeMismatch ∧ (∀ s, te.err ≠ .syntax s) ∧ te.err = .divisionByZero) ∧
    (∀ v σ', orExpr (evalN n) σ = .ok v σ' → kindOf v = t) := by
  obtain ⟨_, h⟩ := sound_expr_strong e t na ln σa σa' prea resta ha hacc n σ pre rest hr hwt
  rcases h with ⟨v, r, hk, _, _, hrun⟩ | ⟨σ'', hrun, _⟩
  · rw [hrun]
    refine ⟨fun te σ' h => (by cases h), fun w σ' h => ?_⟩
    simp only [Res.ok.injEq] at h
    rw [← h.1]; exact hk
  · rw [hrun]
    refine ⟨fun te σ' h => ?_, fun w σ' h => by cases h⟩
    simp only [Res.err.injEq] at h
    rw [← h.1]
    exact ⟨by simp, fun s => by simp, rfl⟩

/-- The same when analyzer and evaluator start from the SAME state (a numbered
    line, no frames, warnings off — the analyzer's own `Program` is such a state). -/
theorem sound_expr_same (e : Expr F) (t : VT) (n ln : Nat) (σ σa' : St F) (pre rest : List (Token F))
    (hr : C02.Ready σ pre e rest n) (hl : σ.loc.line = some ln) (hwt : WellTyped σ)
    (hacc : aOrExpr (aEvalN n) σ = .ok t σa') :
    (∀ te σ', orExpr (evalN n) σ = .err te σ' →
      te.err ≠ .typeMismatch ∧ (∀ s, te.err ≠ .syntax s) ∧ te.err = .divisionByZero) ∧
    (∀ v σ', orExpr (evalN n) σ = .ok v σ' → kindOf v = t) :=
  sound_expr e t n ln σ σa' pre rest (AReady.of_ready hr hl) hacc n σ pre rest hr hwt

/-- Completeness at the level of expressions: if the analyzer REJECTS the
    rendering, the evaluator (well-typed variables) fails too — with TYPE MISMATCH
    unless a division by zero comes first. -/
theorem complete_expr (e : Expr F) (na ln : Nat) (σa σa' : St F) (prea resta : List (Token F)) (te : TErr)
    (ha : AReady σa ln prea e resta na) (hrej : aOrExpr (aEvalN na) σa = .err te σa')
    (n : Nat) (σ : St F) (pre rest : List (Token F))
    (hr : C02.Ready σ pre e rest n) (hwt : WellTyped σ) :
    te = { err := .typeMismatch } ∧
    ∃ σ', (orExpr (evalN n) σ = .err { err := .typeMismatch } σ' ∨
           orExpr (evalN n) σ = .err { err := .divisionByZero } σ') ∧ σ'.nesting = σ.nesting := by
  obtain ⟨a1, a2⟩ := analyze_render e na ln σa prea resta ha
  cases hty : typeOf e with
  | ok t =>
    obtain ⟨r, _, hrun⟩ := a1 t hty
    rw [hrun] at hrej
    cases hrej
  | error x =>
    obtain ⟨σ'', hrun, _⟩ := a2 x hty
    have hx := typeOf_error e x hty
    subst hx
    rw [hrun] at hrej
    simp only [Res.err.injEq] at hrej
    refine ⟨hrej.1.symm, ?_⟩
    obtain ⟨_, h2⟩ := C02.eval_render e n σ pre rest hr
    rcases (fold_typeOf (getVar σ) (wellTypedEnv_getVar hwt) e).2 _ hty with hf | hf
    · obtain ⟨σ', hσ', hn⟩ := h2 _ hf
      exact ⟨σ', .inl hσ', hn⟩
    · obtain ⟨σ', hσ', hn⟩ := h2 _ hf
      exact ⟨σ', .inr hσ', hn⟩

/-! ### non-vacuity -/

/-- a state standing at the start of numbered line `ln`, which holds just the
    rendering of `e` (followed by `rest`), with any variables -/
def lineState (ln : Nat) (ts : List (Token F)) (vars : List (Str × Value F)) : St F :=
  { lines := { map := [(ln, ts)], sorted := [ln] }, loc := { line := some ln, idx := 0 }, vars := vars }

theorem tokens_lineState (ln : Nat) (ts : List (Token F)) (vars : List (Str × Value F)) :
    tokens (lineState ln ts vars) = .ok ts (lineState ln ts vars) := by
  simp [tokens, tokensForLine, lineState, Lines.get, Lines.getMap]

theorem aready_line (e : Expr F) (ln : Nat) (rest : List (Token F)) (vars : List (Str × Value F)) (n : Nat)
    (hd : depth e < Extracted.nestingLimit) (hn : depth e + 1 ≤ n) (hrest : C02.Follows rest) :
    AReady (lineState ln ([] ++ render e ++ rest) vars) ln [] e rest n where
  line := rfl
  toks := tokens_lineState _ _ _
  idx := rfl
  nesting := by show 0 + depth e < _; omega
  fuel := hn
  follows := hrest

theorem ready_line (e : Expr F) (ln : Nat) (rest : List (Token F)) (vars : List (Str × Value F)) (n : Nat)
    (hd : depth e < Extracted.nestingLimit) (hn : depth e + 1 ≤ n) (hrest : C02.Follows rest) :
    C02.Ready (lineState ln ([] ++ render e ++ rest) vars) [] e rest n where
  toks := tokens_lineState _ _ _
  idx := rfl
  stack := rfl
  warnings := rfl
  nesting := by show 0 + depth e < _; omega
  fuel := hn
  follows := hrest

/-- On a program line holding just `render e`, with the default fuel, the
    analyzer's verdict is `typeOf e`, for every tree of depth below the nesting cap. -/
theorem analyze_render_line (e : Expr F) (ln : Nat) (vars : List (Str × Value F))
    (hd : depth e < Extracted.nestingLimit) :
    C02.outcome (aOrExpr (aEvalN defaultFuel) (lineState ln ([] ++ render e ++ []) vars)) =
      (match typeOf e with
       | .ok t => .ok t
       | .error x => .error { err := x }) :=
  analyze_render_outcome e _ ln _ [] [] (aready_line e ln [] vars defaultFuel hd (by unfold defaultFuel; omega)
    C02.follows_nil)

/-- Non-vacuity, end to end: on line 10 holding `A$ = "X" AND - B < 2` the analyzer
    answers "number" and logs the reads of `A$` (token 0) and `B` (token 5) … -/
example (x : F) :
    ∃ r, aOrExpr (aEvalN defaultFuel)
      (lineState 10 [.symbol ['A', '$'], .kw .Equals, .str ['X'], .kw .And, .kw .Minus, .symbol ['B'],
        .kw .LessThan, .num x] [] : St F)
      = .ok .num
          { (lineState 10 [.symbol ['A', '$'], .kw .Equals, .str ['X'], .kw .And, .kw .Minus, .symbol ['B'],
              .kw .LessThan, .num x] [] : St F) with
            loc := { line := some 10, idx := 8 }, reads := r,
            accesses := [(['A', '$'], 10, 0, .read), (['B'], 10, 5, .read)] } := by
  let e : Expr F := .bin .and (.bin (.cmp .eq) (.var ['A', '$']) (.str ['X']))
    (.bin (.cmp .lt) (.un .neg (.var ['B'])) (.num x))
  have hd : depth e = 0 := by simp [e, depth, Expr.prec, BinOp.prec]
  have h := (analyze_render e defaultFuel 10 _ [] []
    (aready_line e 10 [] [] defaultFuel (by rw [hd]; decide) (by rw [hd]; unfold defaultFuel; omega)
      C02.follows_nil)).1 .num (by
        simp [e, typeOf, tierRule, tierOf, unaryRule, VT.ofName, endsWithDollar])
  obtain ⟨r, _, hr⟩ := h
  refine ⟨r, ?_⟩
  simpa [e, render, renderAt, Expr.prec, BinOp.prec, BinOp.token, UnOp.token, accs, fixP, lineState] using hr

/-- … and it rejects `A$ + 1` with TYPE MISMATCH, as the evaluator would. -/
example (x : F) :
    C02.outcome (aOrExpr (aEvalN defaultFuel)
      (lineState 10 [.symbol ['A', '$'], .kw .Plus, .num x] [] : St F))
      = .error { err := .typeMismatch } := by
  have h := analyze_render_line (.bin .add (.var ['A', '$']) (.num x)) 10 []
    (by simp [depth, Expr.prec, BinOp.prec]; decide)
  simpa [render, renderAt, Expr.prec, BinOp.prec, BinOp.token, typeOf, tierRule, tierOf, VT.ofName,
    endsWithDollar] using h

/-- The line must be numbered: on the immediate line the analyzer panics at the
    first variable (`log_access` unwraps the line number) — hence `AReady.line`. -/
example :
    C02.outcome (aOrExpr (aEvalN defaultFuel) ({ imm := [.symbol ['B']] } : St Unit))
      = .error { err := .panic "log_access: unwrap on a non-numbered location" } := by
  rfl

/-- `sound_expr` applies: the typed tree `B * 2 < C` on line 10 and well-typed
    variables — the evaluator returns a number or stops with DIVISION BY ZERO. -/
example (x : F) (vars : List (Str × Value F))
    (hwt : WellTyped (lineState 10 ([] ++ render (.bin (.cmp .lt) (.bin .mul (.var ['B']) (.num x)) (.var ['C'])
      : Expr F) ++ []) vars)) (σa' : St F)
    (hacc : aOrExpr (aEvalN defaultFuel)
      (lineState 10 ([] ++ render (.bin (.cmp .lt) (.bin .mul (.var ['B']) (.num x)) (.var ['C']) : Expr F) ++ [])
        vars) = .ok .num σa') :
    ∀ v σ', orExpr (evalN defaultFuel)
      (lineState 10 ([] ++ render (.bin (.cmp .lt) (.bin .mul (.var ['B']) (.num x)) (.var ['C']) : Expr F) ++ [])
        vars) = .ok v σ' → kindOf v = .num := by
  have hd : depth (.bin (.cmp .lt) (.bin .mul (.var ['B']) (.num x)) (.var ['C']) : Expr F) = 0 := by
    simp [depth, Expr.prec, BinOp.prec]
  exact (sound_expr_same _ .num defaultFuel 10 _ σa' [] []
    (ready_line _ 10 [] vars defaultFuel (by rw [hd]; decide) (by rw [hd]; unfold defaultFuel; omega)
      C02.follows_nil) rfl hwt hacc).2

end Abasic.Props.C06
