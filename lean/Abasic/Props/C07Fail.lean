import Abasic.Props.C07Inspect
import Abasic.Props.C14More
/-
  C07: inspections that FAIL.

  The property: "inspecting state at the breakpoint with statements that assign
  nothing, including ones that fail with an error, does not change the
  continuation".

  What `inspect_then_cont` (Props/C07Inspect.lean) already covers: every line of
  PRINT statements, whatever the outcome of its turns — its hypothesis speaks of
  the FINAL state of the inspection, be it reached by `ok` or by `err`.  So a
  PRINT that fails in the middle of an expression (division by zero, type
  mismatch, a syntax error in the argument list of a function, …) after having
  evaluated and even printed other things is covered, under the same two
  provisos (no array auto-created, generator not advanced).  Restated here as
  `failing_print_then_cont`.

  What it does not cover, and is proved here (`failing_inspection_then_cont`,
  class `SafeFail`):
    * `tokfail`      — the typed line fails at tokenization (nothing is executed;
                        also when it starts with a line number: nothing is stored);
    * `unexpected`   — the first token starts no statement (a number, a string,
                        THEN, TO, `)`, …): UNEXPECTED TOKEN;
    * `nextNoLoop`   — `NEXT Q` without a loop for `Q`: NEXT WITHOUT FOR — the loop
                        stack is NOT touched;
    * `gotoNoNumber` / `gosubNoNumber` — GOTO / GOSUB not followed by a numeral
                        (`GOTO X`, `GOTO`): UNDEFINED STATEMENT before anything is done.
  For these the state after the failed inspection differs from the state at the
  breakpoint only in the dead immediate line, the cursor on it and the read
  counter (`DeadOnly`), and CONT continues exactly as without it.

  The UNSAFE failing statements — they assign nothing, fail, and yet destroy or
  alter the continuation (each a kernel-checked fact, section "unsafe"):
    * `GOTO 99999`, `GOSUB 99999`, `IF 1 THEN 99999` (undefined line): `goto_line_number`
      clears the breakpoint BEFORE it looks the line up — CONT then fails, CAN'T CONTINUE;
    * `RETURN` with an empty GOSUB stack: `return_to_last_gosub` clears the breakpoint first;
    * `FOR I$ = 1 TO 2`: `start_loop` pushes the loop record, then the assignment of the
      start value fails with TYPE MISMATCH — the loop stack has one more entry;
    * `READ X` without DATA: OUT OF DATA, but the data cursor has been created
      (`data` goes from `none` to an exhausted iterator; harmless for the continuation,
      but the state differs);
    * expressions that auto-create an array or call RND before failing (the provisos of
      `inspect_then_cont`: `inspect_then_cont_needs_arrays`, `…_needs_rng`).
-/
namespace Abasic.Props.C07
open Abasic Abasic.Proofs.NumInv Abasic.Proofs.XF Abasic.Proofs.XQ Abasic.Proofs.Inspect Abasic.Hoare

variable {F : Type} [NumOps F]

/-! ## the frame of a harmless failure -/

/-- `σ'` differs from `σ` only in the (dead) immediate line, the cursor, the read
    counter, and `extra` on top of the output queue -/
structure DeadOnly (σ σ' : St F) (extra : List Out) : Prop where
  lines : σ'.lines = σ.lines
  bp : σ'.bp = σ.bp
  stack : σ'.stack = σ.stack
  loops : σ'.loops = σ.loops
  data : σ'.data = σ.data
  fns : σ'.fns = σ.fns
  nesting : σ'.nesting = σ.nesting
  input : σ'.input = σ.input
  state : σ'.state = σ.state
  rng : σ'.rng = σ.rng
  vars : σ'.vars = σ.vars
  arrays : σ'.arrays = σ.arrays
  warnings : σ'.warnings = σ.warnings
  tracing : σ'.tracing = σ.tracing
  accesses : σ'.accesses = σ.accesses
  out : σ'.out = extra ++ σ.out

/-- **CONT cannot tell.**  From two idle states with the breakpoint `(n, i)` pending that
    differ only as `DeadOnly` allows, the CONT command (any spelling) and `j` further turns
    have the same outcome and end in states that agree but for `extra` in the queue (below
    everything printed afterwards) and the read counter. -/
theorem cont_after_deadOnly (fuel j : Nat) (cl : Str) (σ σ' : St F) (n i : Nat) (extra : List Out)
    (hidle : σ.state = .idle) (hbp : σ.bp = some (n, i))
    (hcl : (commandWord cl).bind Command.ofWord = some .cont)
    (h : DeadOnly σ σ' extra) :
    sameModOutReads σ.out extra
      ((do startEvaluating fuel cl; contTurns fuel j) σ)
      ((do startEvaluating fuel cl; contTurns fuel j) σ') := by
  rw [cont_run_eq fuel j cl σ n i hidle hbp hcl,
    cont_run_eq fuel j cl σ' n i (h.state.trans hidle) (h.bp.trans hbp) hcl]
  have hτ : ({ σ' with imm := [], loc := { line := some n, idx := i }, bp := none } : St F) =
      { ({ σ with imm := [], loc := { line := some n, idx := i }, bp := none } : St F) with
        out := extra ++ ({ σ with imm := [], loc := { line := some n, idx := i }, bp := none } : St F).out,
        reads := σ'.reads } := by
    obtain ⟨h1, _, h2, h3, h4, h5, h6, h7, h8, h9, h10, h11, h12, h13, h14, h15⟩ := h
    clear hidle hbp
    obtain ⟨lines, imm, loc, bp, stack, loops, data, fns, nesting, input, out, state, rng, vars, arrays,
      warnings, tracing, accesses, reads⟩ := σ
    obtain ⟨lines', imm', loc', bp', stack', loops', data', fns', nesting', input', out', state', rng', vars', arrays',
      warnings', tracing', accesses', reads'⟩ := σ'
    simp only at h1 h2 h3 h4 h5 h6 h7 h8 h9 h10 h11 h12 h13 h14 h15
    subst h1 h2 h3 h4 h5 h6 h7 h8 h9 h10 h11 h12 h13 h14 h15
    rfl
  rw [hτ]
  exact acc_two_runs (fun d => acc_contRun d fuel j) _ extra σ'.reads

/-! ## the starting turn of a failing line -/

/-- a line that fails at tokenization: nothing is executed (and, with a line number in
    front, nothing is stored); the error is the tokenizer's -/
theorem start_tokfail (fuel : Nat) (line : Str) (σ : St F) (e : TokErr)
    (hidle : σ.state = .idle)
    (hcmd : (commandWord line).bind Command.ofWord = none)
    (htok : tokenize (F := F) line (match parseLineNumber line with | some (_, k) => k | none => 0) = .error e) :
    startEvaluating fuel line σ =
      .err { err := .syntax (.tokenization e), loc := some { line := none, idx := 0 } }
        { σ.setImmediate [] with state := .idle } := by
  have hne : (σ.state != .idle) = false := by simp [hidle]
  unfold startEvaluating postprocess
  cases hp : parseLineNumber line with
  | none =>
    rw [hp] at htok
    simp only [evaluateImpl, bind, M.bindM, M.get, hne, Bool.false_eq_true, if_false, setImmediate, M.modify,
      maybeProcessCommand, hcmd, pure, M.pureM, hp, htok, M.fail]
    rfl
  | some p =>
    obtain ⟨num, k⟩ := p
    rw [hp] at htok
    simp only [evaluateImpl, bind, M.bindM, M.get, hne, Bool.false_eq_true, if_false, setImmediate, M.modify,
      maybeProcessCommand, hcmd, pure, M.pureM, hp, htok, M.fail]
    rfl

/-- the state in which the first statement of an immediate line is dispatched -/
def atDispatch (σ : St F) (ts : List (Token F)) : St F :=
  { (σ.setImmediate []).setImmediate ts with state := .running, reads := σ.reads + 1 }

/-- if the dispatch of the first statement fails, the starting turn fails with that error,
    in that state made idle -/
theorem start_dispatch_err (fuel : Nat) (line : Str) (ts : List (Token F)) (t : Token F) (σ s2 : St F) (e : TErr)
    (hidle : σ.state = .idle)
    (hcmd : (commandWord line).bind Command.ofWord = none)
    (hnum : parseLineNumber line = none)
    (htok : tokenize (F := F) line 0 = .ok ts)
    (ht : ts[0]? = some t)
    (hd : dispatch (evalN fuel) (atDispatch σ ts) = .err e s2) :
    startEvaluating fuel line σ = .err (s2.populate e) { s2 with state := .idle } := by
  rw [start_immediate fuel line ts σ hidle hcmd hnum htok]
  unfold postprocess
  rw [runNextStatement_eq]
  have hm : (M.modify fun s : St F => { s with state := .running }) ((σ.setImmediate []).setImmediate ts) =
      .ok () { (σ.setImmediate []).setImmediate ts with state := .running } := rfl
  rw [ExprL.bind_ok hm]
  have hl : ExprL.lineToks ({ (σ.setImmediate []).setImmediate ts with state := .running } : St F) = some ts := rfl
  have hh : headPart fuel ({ (σ.setImmediate []).setImmediate ts with state := .running } : St F) = .err e s2 := by
    unfold headPart
    have hn : hasNext ({ (σ.setImmediate []).setImmediate ts with state := .running } : St F) =
        .ok true (atDispatch σ ts) := by
      unfold hasNext
      rw [ExprL.bind_ok (Proofs.Cursor.peek_eq _ ts (ExprL.tokens_eq hl))]
      show Res.ok (ts[0]?).isSome _ = _
      rw [ht]; rfl
    rw [ExprL.bind_ok hn]
    simp only [if_true]
    unfold stmtBody
    rw [ExprL.bind_ok (traceHere_imm (atDispatch σ ts) rfl)]
    exact hd
  rw [ExprL.bind_err hh]

omit [NumOps F] in
/-- the first token under the cursor of `atDispatch` -/
theorem next_atDispatch (σ : St F) (ts : List (Token F)) (t : Token F) (ht : ts[0]? = some t) :
    next (atDispatch σ ts) = .ok (some t)
      { atDispatch σ ts with reads := σ.reads + 1 + 1, loc := { line := none, idx := 1 } } :=
  Proofs.Cursor.next_some (atDispatch σ ts) ts t (ExprL.tokens_eq rfl) ht

omit [NumOps F] in
/-- `DeadOnly` for a state reached from `atDispatch` by moving the cursor and counting reads -/
theorem deadOnly_atDispatch (σ : St F) (ts : List (Token F)) (l : Loc) (r : Nat)
    (hidle : σ.state = .idle) (hbp : σ.bp.isSome = true) :
    DeadOnly σ ({ ({ atDispatch σ ts with reads := r, loc := l } : St F) with state := .idle }) [] := by
  have hst : (if σ.bp.isNone = true then ([] : List (Frame F)) else σ.stack) = σ.stack := by
    cases hb : σ.bp with
    | none => rw [hb] at hbp; cases hbp
    | some _ => rfl
  refine ⟨rfl, rfl, ?_, rfl, rfl, rfl, rfl, rfl, hidle.symm, rfl, rfl, rfl, rfl, rfl, rfl, rfl⟩
  show (if ({ σ with stack := if σ.bp.isNone = true then [] else σ.stack, imm := [], loc := {} } : St F).bp.isNone = true
    then [] else (if σ.bp.isNone = true then [] else σ.stack)) = σ.stack
  show (if σ.bp.isNone = true then [] else (if σ.bp.isNone = true then [] else σ.stack)) = σ.stack
  rw [hst, hst]

/-- the tokens that start a statement (`evaluate_statement`'s match) -/
def stmtStart : Token F → Bool
  | .remark _ => true
  | .data _ => true
  | .symbol _ => true
  | .kw k => k == .Stop || k == .Dim || k == .Print || k == .QuestionMark || k == .Input || k == .If || k == .Goto ||
      k == .Gosub || k == .Return || k == .End || k == .For || k == .Next || k == .Restore || k == .Def ||
      k == .Read || k == .Colon || k == .Let
  | _ => false

/-- a first token that starts no statement: UNEXPECTED TOKEN, cursor behind it -/
theorem dispatch_unexpected (fuel : Nat) (σ : St F) (t : Token F) (rest : List (Token F))
    (ht : stmtStart t = false) :
    dispatch (evalN fuel) (atDispatch σ (t :: rest)) =
      .err { err := .syntax .unexpectedToken }
        { atDispatch σ (t :: rest) with reads := σ.reads + 1 + 1, loc := { line := none, idx := 1 } } := by
  unfold dispatch
  rw [ExprL.bind_ok (next_atDispatch σ (t :: rest) t rfl)]
  cases t with
  | remark s => cases ht
  | data d => cases ht
  | symbol s => cases ht
  | num x => rfl
  | str s => rfl
  | kw k => cases k <;> first | rfl | (exact absurd ht (by simp [stmtStart]))

/-- `NEXT Q` without a loop for `Q` (and `Q` a numeric variable): NEXT WITHOUT FOR, the
    loop stack untouched -/
theorem dispatch_next_noloop (fuel : Nat) (σ : St F) (q : Str) (rest : List (Token F))
    (hq : ∃ x, getVar σ q = .num x)
    (hl : removeLoop q σ.loops = none) :
    dispatch (evalN fuel) (atDispatch σ (.kw .Next :: .symbol q :: rest)) =
      .err { err := .nextWithoutFor }
        { atDispatch σ (.kw .Next :: .symbol q :: rest) with reads := σ.reads + 1 + 1 + 1, loc := { line := none, idx := 2 } } := by
  unfold dispatch
  rw [ExprL.bind_ok (next_atDispatch σ _ _ rfl)]
  show nextStatement _ = _
  unfold nextStatement
  have hn : next ({ atDispatch σ (.kw .Next :: .symbol q :: rest) with reads := σ.reads + 1 + 1, loc := { line := none, idx := 1 } } : St F) =
      .ok (some (.symbol q)) { atDispatch σ (.kw .Next :: .symbol q :: rest) with reads := σ.reads + 1 + 1 + 1, loc := { line := none, idx := 2 } } :=
    Proofs.Cursor.next_some _ (.kw .Next :: .symbol q :: rest) (.symbol q) (ExprL.tokens_eq rfl) rfl
  rw [ExprL.bind_ok hn]
  show endLoop q _ = _
  obtain ⟨x, hx⟩ := hq
  have hx : getVar ({ atDispatch σ (.kw .Next :: .symbol q :: rest) with reads := σ.reads + 1 + 1 + 1, loc := { line := none, idx := 2 } } : St F) q = .num x := hx
  simp only [endLoop, bind, M.bindM, M.get, hx]
  show (match removeLoop q σ.loops with
    | none => M.fail .nextWithoutFor
    | some (info, rest) => _) _ = _
  rw [hl]
  rfl

omit [NumOps F] in
/-- `next` at the end of the line -/
theorem next_none_at (s : St F) (ts : List (Token F)) (h : ExprL.lineToks s = some ts) (hn : ts[s.loc.idx]? = none) :
    next s = .ok none { s with reads := s.reads + 1 } := by
  simp [next, bind, M.bindM, Proofs.Cursor.peek_eq s ts (ExprL.tokens_eq h), hn, pure, M.pureM]

/-- the dispatch of the first statement fails and leaves `atDispatch` with only the
    cursor moved and reads counted -/
def HarmlessDispatch (fuel : Nat) (σ : St F) (ts : List (Token F)) : Prop :=
  ∃ e l r, dispatch (evalN fuel) (atDispatch σ ts) = .err e { atDispatch σ ts with reads := r, loc := l }

/-- GOTO / GOSUB not followed by a numeral: UNDEFINED STATEMENT before anything is done -/
theorem dispatch_jump_nonumber (fuel : Nat) (σ : St F) (k : Kw) (hk : k = .Goto ∨ k = .Gosub) (rest : List (Token F))
    (hr : ∀ x, rest[0]? ≠ some (.num x)) :
    ∃ l r, dispatch (evalN fuel) (atDispatch σ (.kw k :: rest)) =
      .err { err := .undefinedStatement } { atDispatch σ (.kw k :: rest) with reads := r, loc := l } := by
  unfold dispatch
  rw [ExprL.bind_ok (next_atDispatch σ _ _ rfl)]
  have key : ∃ l r, (do match ← next with
        | some (.num x) => (if k = .Goto then gotoLine (NumOps.toU64 x) else gosubLine (NumOps.toU64 x))
        | _ => M.fail .undefinedStatement : M F Unit)
      ({ atDispatch σ (.kw k :: rest) with reads := σ.reads + 1 + 1, loc := { line := none, idx := 1 } } : St F) =
      .err { err := .undefinedStatement } { atDispatch σ (.kw k :: rest) with reads := r, loc := l } := by
    cases hrest : rest with
    | nil =>
      have hn := next_none_at ({ atDispatch σ (.kw k :: []) with reads := σ.reads + 1 + 1, loc := { line := none, idx := 1 } } : St F)
        (.kw k :: []) rfl rfl
      exact ⟨{ line := none, idx := 1 }, σ.reads + 1 + 1 + 1, by rw [ExprL.bind_ok hn]; rfl⟩
    | cons t rest' =>
      have hn : next ({ atDispatch σ (.kw k :: t :: rest') with reads := σ.reads + 1 + 1, loc := { line := none, idx := 1 } } : St F) =
          .ok (some t) { atDispatch σ (.kw k :: t :: rest') with reads := σ.reads + 1 + 1 + 1, loc := { line := none, idx := 2 } } :=
        Proofs.Cursor.next_some _ (.kw k :: t :: rest') t (ExprL.tokens_eq rfl) rfl
      refine ⟨{ line := none, idx := 2 }, σ.reads + 1 + 1 + 1, ?_⟩
      rw [ExprL.bind_ok hn]
      cases t with
      | num x => exact absurd (by rw [hrest]; rfl) (hr x)
      | remark s => rfl
      | data d => rfl
      | symbol s => rfl
      | str s => rfl
      | kw k' => rfl
  rcases hk with rfl | rfl
  · exact key
  · exact key

/-- **The safe class of failing inspections** (besides failing PRINT lines, which
    `inspect_then_cont` covers).  `line` is what is typed at the breakpoint of `σ`. -/
inductive SafeFail (σ : St F) (line : Str) : Prop where
  /-- the line fails at tokenization (with or without a line number in front) -/
  | tokfail (e : TokErr)
      (htok : tokenize (F := F) line (match parseLineNumber line with | some (_, k) => k | none => 0) = .error e)
  /-- the first token starts no statement -/
  | unexpected (t : Token F) (rest : List (Token F)) (hnum : parseLineNumber line = none)
      (htok : tokenize (F := F) line 0 = .ok (t :: rest)) (ht : stmtStart t = false)
  /-- `NEXT Q` with no loop for the numeric variable `Q` -/
  | nextNoLoop (q : Str) (rest : List (Token F)) (hnum : parseLineNumber line = none)
      (htok : tokenize (F := F) line 0 = .ok (.kw .Next :: .symbol q :: rest))
      (hq : ∃ x, getVar σ q = .num x) (hl : removeLoop q σ.loops = none)
  /-- GOTO not followed by a numeral -/
  | gotoNoNumber (rest : List (Token F)) (hnum : parseLineNumber line = none)
      (htok : tokenize (F := F) line 0 = .ok (.kw .Goto :: rest)) (hr : ∀ x, rest[0]? ≠ some (.num x))
  /-- GOSUB not followed by a numeral -/
  | gosubNoNumber (rest : List (Token F)) (hnum : parseLineNumber line = none)
      (htok : tokenize (F := F) line 0 = .ok (.kw .Gosub :: rest)) (hr : ∀ x, rest[0]? ≠ some (.num x))

/-- a failing inspection of the safe class: the starting turn fails, and the state it
    leaves is the state at the breakpoint but for the dead immediate line, the cursor and
    the read counter; nothing is printed -/
theorem safeFail_start (fuel : Nat) (line : Str) (σ : St F)
    (hidle : σ.state = .idle) (hbp : σ.bp.isSome = true)
    (hcmd : (commandWord line).bind Command.ofWord = none)
    (hs : SafeFail σ line) :
    ∃ te σ', startEvaluating fuel line σ = .err te σ' ∧ DeadOnly σ σ' [] := by
  have hst : (if σ.bp.isNone = true then ([] : List (Frame F)) else σ.stack) = σ.stack := by
    cases hb : σ.bp with
    | none => rw [hb] at hbp; cases hbp
    | some _ => rfl
  have fromDispatch : ∀ (ts : List (Token F)) (t : Token F), parseLineNumber line = none →
      tokenize (F := F) line 0 = .ok ts → ts[0]? = some t → HarmlessDispatch fuel σ ts →
      ∃ te σ', startEvaluating fuel line σ = .err te σ' ∧ DeadOnly σ σ' [] := by
    intro ts t hnum htok ht ⟨e, l, r, hd⟩
    exact ⟨_, _, start_dispatch_err fuel line ts t σ _ e hidle hcmd hnum htok ht hd,
      deadOnly_atDispatch σ ts l r hidle hbp⟩
  cases hs with
  | tokfail e htok =>
    refine ⟨_, _, start_tokfail fuel line σ e hidle hcmd htok, ?_⟩
    refine ⟨rfl, rfl, ?_, rfl, rfl, rfl, rfl, rfl, hidle.symm, rfl, rfl, rfl, rfl, rfl, rfl, rfl⟩
    exact hst
  | unexpected t rest hnum htok ht =>
    exact fromDispatch _ t hnum htok rfl ⟨_, _, _, dispatch_unexpected fuel σ t rest ht⟩
  | nextNoLoop q rest hnum htok hq hl =>
    exact fromDispatch _ _ hnum htok rfl ⟨_, _, _, dispatch_next_noloop fuel σ q rest hq hl⟩
  | gotoNoNumber rest hnum htok hr =>
    obtain ⟨l, r, h⟩ := dispatch_jump_nonumber fuel σ .Goto (.inl rfl) rest hr
    exact fromDispatch _ _ hnum htok rfl ⟨_, l, r, h⟩
  | gosubNoNumber rest hnum htok hr =>
    obtain ⟨l, r, h⟩ := dispatch_jump_nonumber fuel σ .Gosub (.inr rfl) rest hr
    exact fromDispatch _ _ hnum htok rfl ⟨_, l, r, h⟩

/-- the host's run loop does nothing on an interpreter that is not running -/
theorem contTurns_not_running (fuel k : Nat) (s : St F) (h : s.state ≠ .running) :
    contTurns fuel k s = .ok () s := by
  cases k with
  | zero => rfl
  | succ k =>
    unfold contTurns
    have : (s.state == .running) = false := by
      cases hs : s.state <;> first | rfl | exact absurd hs h
    simp only [bind, M.bindM, M.get, this, Bool.false_eq_true, if_false]
    rfl

/-- **`failing_inspection_then_cont`.**  `σ`: an idle interpreter with the breakpoint
    `(n, i)` pending.  `line`: an immediate line of the safe class `SafeFail` (fails at
    tokenization / starts with a token that starts no statement / `NEXT Q` without a loop /
    GOTO or GOSUB without a numeral).  Then the inspection FAILS (the starting turn returns
    an error; whatever number `k` of further turns the host attempts changes nothing), the
    interpreter is idle again with the breakpoint still pending, nothing has been printed,
    and entering CONT (any spelling `cl`) followed by up to `j` further turns has the same
    outcome as without the inspection — same result, final states equal except for the read
    counter (`sameModOutReads … []`). -/
theorem failing_inspection_then_cont (fuel k j : Nat) (line cl : Str) (σ : St F) (n i : Nat)
    (hidle : σ.state = .idle) (hbp : σ.bp = some (n, i))
    (hcmd : (commandWord line).bind Command.ofWord = none)
    (hs : SafeFail σ line)
    (hcl : (commandWord cl).bind Command.ofWord = some .cont) :
    Res.isOk (startEvaluating fuel line σ) = false ∧
    (let σ' := ((do startEvaluating fuel line; contTurns fuel k) σ).final
     σ'.state = .idle ∧ σ'.bp = some (n, i) ∧ σ'.out = σ.out ∧ DeadOnly σ σ' [] ∧
     sameModOutReads σ.out []
       ((do startEvaluating fuel cl; contTurns fuel j) σ)
       ((do startEvaluating fuel cl; contTurns fuel j) σ')) := by
  have hbp' : σ.bp.isSome = true := by rw [hbp]; rfl
  obtain ⟨te, σ', hstart, hd⟩ := safeFail_start fuel line σ hidle hbp' hcmd hs
  have hfin : ((do startEvaluating fuel line; contTurns fuel k) σ).final = σ' := by
    rw [final_bind, hstart]
  refine ⟨by rw [hstart]; rfl, ?_⟩
  show ((do startEvaluating fuel line; contTurns fuel k) σ).final.state = .idle ∧ _
  rw [hfin]
  exact ⟨hd.state.trans hidle, hd.bp.trans hbp, hd.out, hd,
    cont_after_deadOnly fuel j cl σ σ' n i [] hidle hbp hcl hd⟩

/-- **Failing PRINT lines** — what `inspect_then_cont` already says, spelled out for a
    failure: the inspection is a line of PRINT statements some turn of which fails (in the
    middle of an expression: division by zero, type mismatch, a syntax error in an argument
    list, … — after other expressions have been evaluated and other PRINTs have printed).
    If no array has been auto-created and the generator has not been advanced, CONT
    continues as without the inspection; what was printed before the failure stays in the
    queue as `extra`. -/
theorem failing_print_then_cont (fuel k j : Nat) (line cl : Str) (ts : List (Token F)) (σ σ' : St F) (n i : Nat)
    (hidle : σ.state = .idle) (hbp : σ.bp = some (n, i))
    (hcmd : (commandWord line).bind Command.ofWord = none)
    (hnum : parseLineNumber line = none)
    (htok : tokenize (F := F) line 0 = .ok ts)
    (hpl : PrintLine ts) (hk : ts.length ≤ k + 1)
    (hσ' : σ' = ((do startEvaluating fuel line; contTurns fuel k) σ).final)
    (_hfail : Res.isOk ((do startEvaluating fuel line; contTurns fuel k) σ) = false)
    (hcl : (commandWord cl).bind Command.ofWord = some .cont)
    (harr : σ'.arrays = σ.arrays) (hrng : σ'.rng = σ.rng) :
    σ'.state = .idle ∧ σ'.bp = some (n, i) ∧
    ∃ extra, σ'.out = extra ++ σ.out ∧ (∀ x ∈ extra, isPW x = true) ∧
      sameModOutReads σ.out extra
        ((do startEvaluating fuel cl; contTurns fuel j) σ)
        ((do startEvaluating fuel cl; contTurns fuel j) σ') := by
  have hbp' : σ.bp.isSome = true := by rw [hbp]; rfl
  refine ⟨?_, ?_, inspect_then_cont fuel k j line cl ts σ σ' n i hidle hbp hcmd hnum htok hpl hk hσ' hcl harr hrng⟩
  · rw [hσ']; exact inspect_returns fuel k line ts σ hidle hbp' hcmd hnum htok hpl hk
  · rw [hσ']; exact ((inspect_pure fuel k line ts σ hidle hbp' hcmd hnum htok hpl).1).bp.trans hbp

/-! ## checked examples: the safe class is inhabited, the unsafe statements are unsafe -/

omit [NumOps F] in
theorem sameModOutReads_bp_data {α : Type} {base extra : List Out} {r r' : Res F α}
    (h : sameModOutReads base extra r r') :
    r'.final.bp = r.final.bp ∧ r'.final.data.isSome = r.final.data.isSome ∧ r'.final.loops.length = r.final.loops.length := by
  cases r with
  | ok a s =>
    cases r' with
    | ok a' s' => obtain ⟨_, pre, rd, _, rfl⟩ := h; exact ⟨rfl, rfl, rfl⟩
    | err e s' => exact h.elim
  | err e s =>
    cases r' with
    | ok a' s' => exact h.elim
    | err e' s' => obtain ⟨_, pre, rd, _, rfl⟩ := h; exact ⟨rfl, rfl, rfl⟩

omit [NumOps F] in
theorem not_same_of_isOk {α : Type} {base extra : List Out} {r r' : Res F α}
    (h0 : Res.isOk r = true) (h1 : Res.isOk r' = false) : ¬ sameModOutReads base extra r r' := by
  intro h
  have := sameModOutReads_isOk h
  rw [h0, h1] at this
  cases this

omit [NumOps F] in
theorem not_same_of_data {α : Type} {base extra : List Out} {r r' : Res F α}
    (h0 : r.final.data.isSome = false) (h1 : r'.final.data.isSome = true) : ¬ sameModOutReads base extra r r' := by
  intro h
  have := (sameModOutReads_bp_data h).2.1
  rw [h0, h1] at this
  cases this

omit [NumOps F] in
theorem not_deadOnly_of_loops {σ σ' : St F} {extra : List Out} {a b : Nat}
    (h0 : σ.loops.length = a) (h1 : σ'.loops.length = b) (hab : a ≠ b) : ¬ DeadOnly σ σ' extra := by
  intro h
  have := congrArg List.length h.loops
  rw [h0, h1] at this
  exact hab this.symm

omit [NumOps F] in
theorem not_deadOnly_of_data {σ σ' : St F} {extra : List Out}
    (h0 : σ.data.isSome = false) (h1 : σ'.data.isSome = true) : ¬ DeadOnly σ σ' extra := by
  intro h
  have := congrArg Option.isSome h.data
  rw [h0, h1] at this
  cases this

section demo
attribute [local instance] Abasic.Props.C14.natOps

/-- `10 FOR I = 1 TO 3`, `20 PRINT I`, `30 NEXT I`, stopped in front of line 20 in the first
    round (carrier `Nat` with decimal numerals, `C14.natOps`) -/
def bpDemo : St Nat :=
  { lines := { map := [(10, [.kw .For, .symbol ['I'], .kw .Equals, .num 1, .kw .To, .num 3]),
                       (20, [.kw .Print, .symbol ['I']]), (30, [.kw .Next, .symbol ['I']])],
               sorted := [10, 20, 30] },
    bp := some (20, 0),
    loops := [{ loc := { line := some 10, idx := 6 }, sym := ['I'], toV := 3, stepV := 1 }],
    vars := [(['I'], .num 1)] }

/-- the state after typing `l` at the breakpoint (and up to 5 further turns) -/
def inspected (l : String) : St Nat := ((do startEvaluating 8 l.toList; contTurns 8 5) bpDemo).final

/-- CONT and up to 8 further turns -/
def contFrom (s : St Nat) : Res Nat Unit := (do startEvaluating 8 "CONT".toList; contTurns 8 8) s

/-- the error of a run -/
def errKind {α : Type} : Res Nat α → Option Err
  | .ok _ _ => none
  | .err e _ => some e.err

/-- CONT alone: the program runs to its end and prints 1, 2, 3 -/
theorem bpDemo_cont :
    errKind (contFrom bpDemo) = none ∧
    (contFrom bpDemo).final.out = [.print "3\n".toList, .print "2\n".toList, .print "1\n".toList] := by
  decide +kernel

/-- **The safe class is inhabited**, one line per constructor: an unterminated string (also
    behind a line number: nothing is stored), a line starting with THEN, `NEXT Q`, `GOTO X`,
    a bare GOSUB. -/
theorem safeFail_examples :
    SafeFail bpDemo "PRINT \"abc".toList ∧ SafeFail bpDemo "10 PRINT \"abc".toList ∧
    SafeFail bpDemo "THEN".toList ∧ SafeFail bpDemo "NEXT Q".toList ∧
    SafeFail bpDemo "GOTO X".toList ∧ SafeFail bpDemo "GOSUB".toList :=
  ⟨.tokfail (.unterminated 6) (by rfl), .tokfail (.unterminated 9) (by rfl),
   .unexpected (.kw .Then) [] (by rfl) (by rfl) (by rfl),
   .nextNoLoop ['Q'] [] (by rfl) (by rfl) ⟨0, by rfl⟩ (by rfl),
   .gotoNoNumber [.symbol ['X']] (by rfl) (by rfl) (fun x h => by cases h),
   .gosubNoNumber [] (by rfl) (by rfl) (fun x h => by cases h)⟩

/-- … with the errors they raise, replayed: the breakpoint survives and CONT prints 1, 2, 3 -/
theorem safeFail_replayed :
    (["PRINT \"abc", "10 PRINT \"abc", "THEN", "NEXT Q", "GOTO X", "GOSUB"].map fun l =>
      (errKind (startEvaluating 8 l.toList bpDemo), (inspected l).bp, (inspected l).out,
       errKind (contFrom (inspected l)), (contFrom (inspected l)).final.out.length)) =
    [(some (.syntax (.tokenization (.unterminated 6))), some (20, 0), [], none, 3),
     (some (.syntax (.tokenization (.unterminated 9))), some (20, 0), [], none, 3),
     (some (.syntax .unexpectedToken), some (20, 0), [], none, 3),
     (some .nextWithoutFor, some (20, 0), [], none, 3),
     (some .undefinedStatement, some (20, 0), [], none, 3),
     (some .undefinedStatement, some (20, 0), [], none, 3)] := by
  decide +kernel

/-- failing PRINTs (covered by `inspect_then_cont` / `failing_print_then_cont`): division
    by zero and a type mismatch after `I` has been evaluated; nothing is printed (the text
    of a PRINT is emitted at its end), no array, no draw; CONT prints 1, 2, 3 -/
theorem failing_print_replayed :
    (["PRINT I; 1/0", "PRINT I; 1 + \"A\""].map fun l =>
      (errKind (startEvaluating 8 l.toList bpDemo), (inspected l).bp, (inspected l).out)) =
    [(some .divisionByZero, some (20, 0), []), (some .typeMismatch, some (20, 0), [])] ∧
    (["PRINT I; 1/0", "PRINT I; 1 + \"A\""].map fun l =>
      ((inspected l).arrays.length, (inspected l).rng,
       errKind (contFrom (inspected l)), (contFrom (inspected l)).final.out.length)) =
    [(0, 0, none, 3), (0, 0, none, 3)] := by
  refine ⟨by decide +kernel, by decide +kernel⟩

/-- **The unsafe class, replayed.**  `GOTO 99999`, `GOSUB 99999`, `IF 1 THEN 99999` (no such
    line) and `RETURN` (no GOSUB pending) assign nothing and fail — UNDEFINED STATEMENT /
    RETURN WITHOUT GOSUB — but `goto_line_number` / `return_to_last_gosub` clear the breakpoint
    before they fail: afterwards CONT fails with CAN'T CONTINUE and nothing more is printed,
    whereas CONT alone finishes the program (`bpDemo_cont`). -/
theorem failing_jump_destroys_cont :
    (["GOTO 99999", "GOSUB 99999", "IF 1 THEN 99999", "RETURN"].map fun l =>
      ((commandWord l.toList).bind Command.ofWord, parseLineNumber l.toList,
       errKind (startEvaluating 8 l.toList bpDemo), (inspected l).bp)) =
    [(none, none, some .undefinedStatement, none), (none, none, some .undefinedStatement, none),
     (none, none, some .undefinedStatement, none), (none, none, some .returnWithoutGosub, none)] ∧
    (["GOTO 99999", "GOSUB 99999", "IF 1 THEN 99999", "RETURN"].map fun l =>
      ((inspected l).state, (inspected l).vars.length, (inspected l).arrays.length,
       errKind (contFrom (inspected l)), (contFrom (inspected l)).final.out)) =
    [(.idle, 1, 0, some .cannotContinue, []), (.idle, 1, 0, some .cannotContinue, []),
     (.idle, 1, 0, some .cannotContinue, []), (.idle, 1, 0, some .cannotContinue, [])] := by
  refine ⟨by decide +kernel, by decide +kernel⟩

/-- … hence the conclusion of `failing_inspection_then_cont` is false for them -/
theorem failing_jump_not_same (extra : List Out) :
    ¬ sameModOutReads bpDemo.out extra (contFrom bpDemo) (contFrom (inspected "GOTO 99999")) ∧
    ¬ sameModOutReads bpDemo.out extra (contFrom bpDemo) (contFrom (inspected "GOSUB 99999")) ∧
    ¬ sameModOutReads bpDemo.out extra (contFrom bpDemo) (contFrom (inspected "IF 1 THEN 99999")) ∧
    ¬ sameModOutReads bpDemo.out extra (contFrom bpDemo) (contFrom (inspected "RETURN")) := by
  have h0 : Res.isOk (contFrom bpDemo) = true := by decide +kernel
  have h1 : Res.isOk (contFrom (inspected "GOTO 99999")) = false := by decide +kernel
  have h2 : Res.isOk (contFrom (inspected "GOSUB 99999")) = false := by decide +kernel
  have h3 : Res.isOk (contFrom (inspected "IF 1 THEN 99999")) = false := by decide +kernel
  have h4 : Res.isOk (contFrom (inspected "RETURN")) = false := by decide +kernel
  exact ⟨not_same_of_isOk h0 h1, not_same_of_isOk h0 h2, not_same_of_isOk h0 h3, not_same_of_isOk h0 h4⟩

/-- `FOR I$ = 1 TO 2` fails with TYPE MISMATCH after `start_loop` has pushed its record:
    the loop stack has one more entry (here the next `NEXT I` drops it again, so this run
    ends as without it; the difference shows at the 32-loop cap).  `READ X` without DATA
    fails with OUT OF DATA after the data cursor has been created, and keeps it.  Neither
    state is `DeadOnly`-related to the state at the breakpoint; after `READ X` the final
    states of CONT differ (in the data cursor only). -/
theorem failing_for_read_change_state :
    errKind (startEvaluating 8 "FOR I$ = 1 TO 2".toList bpDemo) = some .typeMismatch ∧
    bpDemo.loops.length = 1 ∧ (inspected "FOR I$ = 1 TO 2").loops.length = 2 ∧
    (inspected "FOR I$ = 1 TO 2").bp = some (20, 0) ∧
    (∀ extra, ¬ DeadOnly bpDemo (inspected "FOR I$ = 1 TO 2") extra) ∧
    errKind (startEvaluating 8 "READ X".toList bpDemo) = some .outOfData ∧
    bpDemo.data.isSome = false ∧ (inspected "READ X").data.isSome = true ∧
    (inspected "READ X").bp = some (20, 0) ∧ (inspected "READ X").vars.length = 1 ∧
    (∀ extra, ¬ DeadOnly bpDemo (inspected "READ X") extra) ∧
    errKind (contFrom (inspected "READ X")) = none ∧ (contFrom (inspected "READ X")).final.out.length = 3 ∧
    (∀ extra, ¬ sameModOutReads bpDemo.out extra (contFrom bpDemo) (contFrom (inspected "READ X"))) := by
  have hl : (inspected "FOR I$ = 1 TO 2").loops.length = 2 := by decide +kernel
  have hl0 : bpDemo.loops.length = 1 := by decide +kernel
  have hd : (inspected "READ X").data.isSome = true := by decide +kernel
  have hd0 : bpDemo.data.isSome = false := by decide +kernel
  have h3 : (contFrom (inspected "READ X")).final.data.isSome = true := by decide +kernel
  have h4 : (contFrom bpDemo).final.data.isSome = false := by decide +kernel
  exact ⟨by decide +kernel, hl0, hl, by decide +kernel, fun _ => not_deadOnly_of_loops hl0 hl (by decide),
    by decide +kernel, hd0, hd, by decide +kernel, by decide +kernel, fun _ => not_deadOnly_of_data hd0 hd,
    by decide +kernel, by decide +kernel, fun _ => not_same_of_data h4 h3⟩

/-- `failing_inspection_then_cont` instantiated on the demo: typing `NEXT Q` at the
    breakpoint and then CONT is CONT -/
example (j : Nat) :
    sameModOutReads bpDemo.out []
      ((do startEvaluating 8 "CONT".toList; contTurns 8 j) bpDemo)
      ((do startEvaluating 8 "CONT".toList; contTurns 8 j) (inspected "NEXT Q")) :=
  (failing_inspection_then_cont 8 5 j "NEXT Q".toList "CONT".toList bpDemo 20 0 rfl rfl (by rfl)
    safeFail_examples.2.2.2.1 (by decide)).2.2.2.2.2

end demo

end Abasic.Props.C07
