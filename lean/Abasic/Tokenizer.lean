import Abasic.Data
/-
  tokenizer.rs + line_cruncher.rs.

  Every matcher works on the remaining characters and returns the characters
  left after the last one it consumed; byte positions are recovered by the main
  loop as differences of `len8`.  All byte tests the Rust code makes are ASCII
  tests, so a non-ASCII character is never consumed piecewise (DESIGN.md 2.3).
-/
namespace Abasic
variable {F : Type} [NumOps F]

inductive TokErr where
  /-- byte index of the illegal character -/
  | illegalChar (i : Nat)
  /-- byte index of the opening quote -/
  | unterminated (i : Nat)
  /-- byte span of the invalid number -/
  | invalidNumber (a b : Nat)
  /-- the model's iteration budget ran out (proved unreachable) -/
  | outOfFuel
  deriving DecidableEq, Repr, Inhabited

/-- `LineCruncher`: skip BASIC white space -/
def skipWs : Str → Str
  | [] => []
  | c :: cs => if isBasicWs c then skipWs cs else c :: cs

/-- `chomp_keyword`: the characters left after the keyword's last letter -/
def chompKeyword : Str → Str → Option Str
  | [], cs => some cs
  | k :: ks, cs =>
    match skipWs cs with
    | [] => none
    | c :: r => if asciiUpper c == k then chompKeyword ks r else none

def chompKeywordTable : List (String × Kw) → Str → Option (Kw × Str)
  | [], _ => none
  | (w, k) :: rest, cs =>
    match chompKeyword w.toList cs with
    | some r => some (k, r)
    | none => chompKeywordTable rest cs

/-- `chomp_any_keyword` -/
def chompAnyKeyword (cs : Str) : Option (Kw × Str) :=
  chompKeywordTable Extracted.keywords cs

def lookupTwo : List (Kw × Char × Kw) → Kw → Char → Option Kw
  | [], _, _ => none
  | (a, c, r) :: rest, k, ch => if a == k && c == ch then some r else lookupTwo rest k ch

/-- `chomp_one_or_two_characters` -/
def chompOneOrTwo (cs : Str) : Option (Kw × Str) :=
  match skipWs cs with
  | [] => none
  | c :: r =>
    match Extracted.oneChar.lookup c with
    | none => none
    | some k =>
      match skipWs r with
      | [] => some (k, r)
      | c2 :: r2 =>
        match lookupTwo Extracted.twoChar k c2 with
        | some k2 => some (k2, r2)
        | none => some (k, r)

/-- split at the first double quote: text before it, text after it -/
def splitAtQuote : Str → Option (Str × Str)
  | [] => none
  | c :: cs =>
    if c == '"' then some ([], cs)
    else match splitAtQuote cs with
      | some (a, r) => some (c :: a, r)
      | none => none

/-- digits-and-dots scan of `chomp_number`: the collected characters and the
    text after the last collected one (the input itself if none). -/
def numLoop : Str → Str × Str
  | [] => ([], [])
  | c :: cs =>
    if isBasicWs c then
      let (d, r) := numLoop cs
      if d.isEmpty then ([], c :: cs) else (d, r)
    else if isAsciiDigit c || c == '.' then
      let (d, r) := numLoop cs
      (c :: d, r)
    else ([], c :: cs)

/-- identifier scan of `chomp_symbol` (upper-cased characters, rest). -/
def symLoop (first : Bool) : Str → Str × Str
  | [] => ([], [])
  | c :: cs =>
    if isBasicWs c then
      let (d, r) := symLoop first cs
      if d.isEmpty then ([], c :: cs) else (d, r)
    else
      let valid := if first then isAsciiAlpha c else (isAsciiAlnum c || c == '$')
      if !valid then ([], c :: cs)
      else if c == '$' then ([c], cs)
      else if (chompAnyKeyword cs).isSome then ([asciiUpper c], cs)
      else
        let (d, r) := symLoop false cs
        (asciiUpper c :: d, r)

def dropBytes : Nat → Str → Str
  | 0, cs => cs
  | _, [] => []
  | n + 1, c :: cs => dropBytes (n + 1 - c.utf8Size) cs

/-- Relative outcome of one `chomp_next_token` at the start of `cs`
    (which begins with a non-blank character). -/
inductive Chomp (F : Type) where
  | tok (t : Token F) (rest : Str)
  | illegalChar
  | unterminated
  /-- the rest after the last digit -/
  | invalidNumber (rest : Str)

/-- `chomp_next_token` -/
def nextToken (cs : Str) : Chomp F :=
  match chompAnyKeyword cs with
  | some (k, r) => .tok (.kw k) r
  | none =>
  match chompOneOrTwo cs with
  | some (k, r) => .tok (.kw k) r
  | none =>
  match cs with
  | '"' :: q =>
    (match splitAtQuote q with
     | some (s, r) => .tok (.str s) r
     | none => .unterminated)
  | _ =>
  match numLoop cs with
  | (c :: d, r) =>
    (match NumOps.parse (F := F) (c :: d) with
     | some x => if NumOps.isFinite x then .tok (.num x) r else .invalidNumber r
     | none => .invalidNumber r)
  | ([], _) =>
  match chompKeyword Extracted.remKeyword.toList cs with
  | some r => .tok (.remark r) []
  | none =>
  match chompKeyword Extracted.dataKeyword.toList cs with
  | some r =>
    let (items, n) := parseData (F := F) r
    .tok (.data items) (dropBytes n r)
  | none =>
  match symLoop true cs with
  | (c :: d, r) => .tok (.symbol (c :: d)) r
  | ([], _) => .illegalChar

abbrev RangedToken (F : Type) := Token F × Nat × Nat

/-- `Tokenizer::next` in a loop: tokens with byte ranges, or the tokens so far
    and the error. -/
def tokLoop : Nat → Str → Nat → List (RangedToken F) → List (RangedToken F) × Option TokErr
  | 0, _, _, acc => (acc.reverse, some .outOfFuel)
  | fuel + 1, cs, idx, acc =>
    let r := skipWs cs
    let start := idx + (len8 cs - len8 r)
    match r with
    | [] => (acc.reverse, none)
    | _ :: _ =>
      match nextToken (F := F) r with
      | .tok t r' =>
        let stop := start + (len8 r - len8 r')
        tokLoop fuel r' stop ((t, start, stop) :: acc)
      | .illegalChar => (acc.reverse, some (.illegalChar start))
      | .unterminated => (acc.reverse, some (.unterminated start))
      | .invalidNumber r' => (acc.reverse, some (.invalidNumber start (start + (len8 r - len8 r'))))

/-- `Tokenizer::new(line).skip_bytes(skip)` run to the end. -/
def tokenizeRanges (line : Str) (skip : Nat) : List (RangedToken F) × Option TokErr :=
  let cs := dropBytes skip line
  tokLoop cs.length.succ cs skip []

/-- `remaining_tokens` -/
def tokenize (line : Str) (skip : Nat) : Except TokErr (List (Token F)) :=
  match tokenizeRanges (F := F) line skip with
  | (ts, none) => .ok (ts.map (·.1))
  | (_, some e) => .error e

/-- the character that starts exactly at byte offset `i` (`str::get(i..)` then `chars().next()`) -/
def charAtByte : Nat → Str → Option Char
  | _, [] => none
  | 0, c :: _ => some c
  | n + 1, c :: cs => if n + 1 < c.utf8Size then none else charAtByte (n + 1 - c.utf8Size) cs

/-- `TokenizationError::string_range` (given the line text) -/
def TokErr.range (e : TokErr) (line : Str) : Nat × Nat :=
  match e with
  | .illegalChar i =>
    match charAtByte i line with
    | some c => (i, i + c.utf8Size)
    | none => (i, i + 1)
  | .unterminated i => (i, len8 line)
  | .invalidNumber a b => (a, b)
  | .outOfFuel => (0, 0)

end Abasic
