/-
  Numbers.  The model is generic in the carrier `F` of BASIC numbers; every
  theorem holds for whatever these operations compute (in particular for IEEE
  doubles).  `Exec/FloatInst.lean` instantiates `F := Float` for the
  correspondence check; nothing outside `Exec/` mentions `Float`.
-/
namespace Abasic

class NumOps (F : Type) where
  zero : F
  one : F
  add : F → F → F
  sub : F → F → F
  mul : F → F → F
  div : F → F → F
  pow : F → F → F
  neg : F → F
  abs : F → F
  floor : F → F
  /-- IEEE `<`, `<=`, `==` (so `eq nan nan = false`). -/
  lt : F → F → Bool
  le : F → F → Bool
  eq : F → F → Bool
  /-- Rust `x as i64` (truncating, saturating, NaN ↦ 0). -/
  toI64 : F → Int
  /-- Rust `x as u64`. -/
  toU64 : F → Nat
  /-- Rust `n as f64` for `n < 2^64`. -/
  ofNat : Nat → F
  /-- Rust `str::parse::<f64>`. -/
  parse : List Char → Option F
  /-- Rust `Display for f64`. -/
  render : F → List Char
  isFinite : F → Bool

namespace NumOps
variable {F : Type} [NumOps F]
def ne (a b : F) : Bool := !(eq a b)
def ge (a b : F) : Bool := le b a
def gt (a b : F) : Bool := lt b a
def ofBool (b : Bool) : F := if b then one else zero
end NumOps

/-- A degenerate carrier, used only by non-vacuity examples that never look at numbers. -/
instance : NumOps Unit where
  zero := ()
  one := ()
  add := fun _ _ => ()
  sub := fun _ _ => ()
  mul := fun _ _ => ()
  div := fun _ _ => ()
  pow := fun _ _ => ()
  neg := fun _ => ()
  abs := fun _ => ()
  floor := fun _ => ()
  lt := fun _ _ => false
  le := fun _ _ => true
  eq := fun _ _ => true
  toI64 := fun _ => 0
  toU64 := fun _ => 0
  ofNat := fun _ => ()
  parse := fun _ => none
  render := fun _ => ['0']
  isFinite := fun _ => true

end Abasic
