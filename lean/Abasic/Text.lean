/-
  Text helpers.  Text is `List Char`; a byte position is the sum of
  `Char.utf8Size` over the characters before it (DESIGN.md 2.3).
-/
namespace Abasic

abbrev Str := List Char

/-- number of UTF-8 bytes of a text -/
def len8 : Str → Nat
  | [] => 0
  | c :: cs => c.utf8Size + len8 cs

/-- `u8::is_ascii_whitespace` / `char::is_ascii_whitespace`:
    space, TAB, LF, FF, CR (not VT). -/
def isAsciiWs (c : Char) : Bool :=
  c == ' ' || c == '\t' || c == '\n' || c == '\x0c' || c == '\r'

/-- `LineCruncher::is_basic_whitespace` -/
def isBasicWs (c : Char) : Bool := isAsciiWs c && c != '\n'

def isAsciiDigit (c : Char) : Bool := '0' ≤ c && c ≤ '9'
def isAsciiUpperAlpha (c : Char) : Bool := 'A' ≤ c && c ≤ 'Z'
def isAsciiLowerAlpha (c : Char) : Bool := 'a' ≤ c && c ≤ 'z'
def isAsciiAlpha (c : Char) : Bool := isAsciiUpperAlpha c || isAsciiLowerAlpha c
def isAsciiAlnum (c : Char) : Bool := isAsciiAlpha c || isAsciiDigit c

/-- `u8::to_ascii_uppercase` -/
def asciiUpper (c : Char) : Char :=
  if isAsciiLowerAlpha c then Char.ofNat (c.toNat - 32) else c

/-- Unicode `White_Space` (what `str::trim` and `char::is_whitespace` use). -/
def isUnicodeWs (c : Char) : Bool :=
  let n := c.toNat
  (0x9 ≤ n && n ≤ 0xD) || n == 0x20 || n == 0x85 || n == 0xA0 || n == 0x1680 ||
  (0x2000 ≤ n && n ≤ 0x200A) || n == 0x2028 || n == 0x2029 || n == 0x202F ||
  n == 0x205F || n == 0x3000

def trimStart : Str → Str
  | [] => []
  | c :: cs => if isUnicodeWs c then trimStart cs else c :: cs

/-- `str::trim` -/
def trim (s : Str) : Str := (trimStart (trimStart s).reverse).reverse

/-- Non-ASCII characters whose full Unicode upper-casing (`str::to_uppercase`)
    consists of ASCII letters only.  Every other non-ASCII character keeps at
    least one non-ASCII character after upper-casing, so it cannot take part in
    one of the (pure ASCII) command words.  Validated against Rust's std over
    all of Unicode by the harness (`upper` slice). -/
def upperToAscii (c : Char) : Option Str :=
  match c.toNat with
  | 0xDF => some ['S', 'S']          -- ß
  | 0x131 => some ['I']              -- ı
  | 0x17F => some ['S']              -- ſ
  | 0xFB00 => some ['F', 'F']
  | 0xFB01 => some ['F', 'I']
  | 0xFB02 => some ['F', 'L']
  | 0xFB03 => some ['F', 'F', 'I']
  | 0xFB04 => some ['F', 'F', 'L']
  | 0xFB05 => some ['S', 'T']
  | 0xFB06 => some ['S', 'T']
  | _ => none

/-- What `line.to_uppercase()` followed by `split_ascii_whitespace().next()`
    and `to_ascii_uppercase()` yields, as far as comparison with an ASCII
    command word can tell: `none` marks "contains a non-ASCII character". -/
def commandWordChars : Str → Option Str
  | [] => some []
  | c :: cs =>
    if isAsciiWs c then some []
    else
      let here : Option Str :=
        if c.toNat < 128 then some [asciiUpper c] else upperToAscii c
      match here, commandWordChars cs with
      | some a, some b => some (a ++ b)
      | _, _ => none

def skipAsciiWs : Str → Str
  | [] => []
  | c :: cs => if isAsciiWs c then skipAsciiWs cs else c :: cs

/-- First word of the upper-cased line, if it is pure ASCII. -/
def commandWord (line : Str) : Option Str := commandWordChars (skipAsciiWs line)

/-- byte-wise (= code-point-wise) lexicographic `<` on strings -/
def strLt : Str → Str → Bool
  | [], [] => false
  | [], _ :: _ => true
  | _ :: _, [] => false
  | a :: as, b :: bs => if a.toNat < b.toNat then true else if b.toNat < a.toNat then false else strLt as bs

def strLe (a b : Str) : Bool := !(strLt b a)

def endsWithDollar (s : Str) : Bool := s.getLast? == some '$'

def natToStr (n : Nat) : Str := (toString n).toList

end Abasic
