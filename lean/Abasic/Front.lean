import Abasic.Analyzer
/-
  The logic of the front ends:
  * error / output `Display` texts (interpreter_error.rs, interpreter_output.rs),
  * abasic-lsp/src/main.rs: protocol line splitting, byte → UTF-16 columns,
    semantic-token delta encoding, diagnostics,
  * abasic-web/src/lib.rs: the JavaScript-facing adapter,
  * abasic-web/ts/main.ts: class `Interpreter` (loader and state handler),
  * abasic-cli: how a file is loaded and how options reach the interpreter.
  Transport (JSON-RPC, stdio, wasm-bindgen, DOM) is not modelled.
-/
namespace Abasic
variable {F : Type} [NumOps F]

def dropLast (s : Str) : Str := s.dropLast

def synText : SynErr → Str
  | .tokenization (.illegalChar _) => Extracted.msgIllegalCharacter.toList
  | .tokenization (.unterminated _) => Extracted.msgUnterminatedString.toList
  | .tokenization (.invalidNumber _ _) => Extracted.msgInvalidNumber.toList
  | .tokenization .outOfFuel => "OUT OF FUEL".toList
  | .unexpectedToken => "UNEXPECTED TOKEN".toList
  | .expectedToken k => "EXPECTED TOKEN '".toList ++ (Extracted.kwSpelling k).toList ++ ['\'']
  | .unexpectedEnd => "UNEXPECTED END OF INPUT".toList

/-- `Display for TracedInterpreterError` (no backtrace) -/
def errText (e : TErr) : Str :=
  let base : Str :=
    match e.err with
    | .syntax s => "SYNTAX ERROR (".toList ++ synText s ++ [')']
    | .typeMismatch => Extracted.msgTypeMismatch.toList
    | .dataTypeMismatch => Extracted.msgDataTypeMismatch.toList
    | .undefinedStatement => Extracted.msgUndefinedStatement.toList
    | .oomStack => "OUT OF MEMORY ERROR (".toList ++ Extracted.msgStackOverflow.toList ++ [')']
    | .oomArray => "OUT OF MEMORY ERROR (".toList ++ Extracted.msgArrayTooLarge.toList ++ [')']
    | .outOfData => Extracted.msgOutOfData.toList
    | .returnWithoutGosub => Extracted.msgReturnWithoutGosub.toList
    | .nextWithoutFor => Extracted.msgNextWithoutFor.toList
    | .badSubscript => Extracted.msgBadSubscript.toList
    | .illegalQuantity => Extracted.msgIllegalQuantity.toList
    | .unimplemented => Extracted.msgUnimplemented.toList
    | .divisionByZero => Extracted.msgDivisionByZero.toList
    | .redimensionedArray => Extracted.msgRedimensionedArray.toList
    | .cannotContinue => Extracted.msgCannotContinue.toList
    | .illegalDirect => Extracted.msgIllegalDirect.toList
    | .panic site => "PANIC ".toList ++ site.toList
    | .outOfFuel => "OUT OF FUEL".toList
  match e.loc with
  | some { line := some n, .. } => base ++ " IN ".toList ++ natToStr n
  | _ => base

/-- `Display for InterpreterOutput` -/
def outText : Out → Str
  | .print s => s
  | .warning m l => "WARNING".toList ++ (match l with | some n => " IN ".toList ++ natToStr n | none => []) ++ ": ".toList ++ m
  | .brk l => "BREAK".toList ++ (match l with | some n => " IN ".toList ++ natToStr n | none => [])
  | .extraIgnored => "EXTRA IGNORED".toList
  | .reenter => "REENTER".toList
  | .trace n => '#' :: natToStr n
  | .opaque => "<opaque>".toList

/-! ### language server -/

/-- `split_document_lines`: "\r\n", "\n" and "\r" each end a line -/
def splitDocumentLines : Str → List Str
  | [] => [[]]
  | '\r' :: '\n' :: cs => [] :: splitDocumentLines cs
  | c :: cs =>
    if c == '\n' || c == '\r' then [] :: splitDocumentLines cs
    else
      match splitDocumentLines cs with
      | [] => [[c]]
      | l :: ls => (c :: l) :: ls

def utf16Units (c : Char) : Nat := if c.toNat ≥ 0x10000 then 2 else 1

def utf16Len (s : Str) : Nat := (s.map utf16Units).sum

/-- `utf16_col`: UTF-16 length of the prefix that ends at the byte offset
    (clamped to the line, rounded up to a character boundary) -/
def utf16Col : Str → Nat → Nat
  | [], _ => 0
  | _ :: _, 0 => 0
  | c :: cs, n + 1 => utf16Units c + utf16Col cs (n + 1 - c.utf8Size)

structure SemTok where
  deltaLine : Nat
  deltaStart : Nat
  length : Nat
  tokenType : Nat
  deriving Repr, DecidableEq

/-- tokens of one line; `none` = an unsigned subtraction underflowed (debug panic) -/
def semTokLine (text : Str) (lineNo : Nat) : List (TokenType × Nat × Nat) → Nat → Nat → Option (List SemTok × Nat)
  | [], prevLine, _ => some ([], prevLine)
  | (tt, a, b) :: rest, prevLine, prevStart =>
    let s := utf16Col text a
    let e := utf16Col text b
    if lineNo < prevLine || s < prevStart || e < s then none
    else
      match semTokLine text lineNo rest lineNo s with
      | none => none
      | some (toks, pl) =>
        some ({ deltaLine := lineNo - prevLine, deltaStart := s - prevStart, length := e - s,
                tokenType := Extracted.lspIndex tt } :: toks, pl)

def semTokLines : List Str → List (List (TokenType × Nat × Nat)) → Nat → Nat → Option (List SemTok)
  | _, [], _, _ => some []
  | [], _ :: _, _, _ => none  -- `lines[line_number]` out of bounds
  | text :: texts, lt :: lts, lineNo, prevLine =>
    match semTokLine text lineNo lt prevLine 0 with
    | none => none
    | some (toks, pl) =>
      match semTokLines texts lts (lineNo + 1) pl with
      | none => none
      | some more => some (toks ++ more)

/-- `get_semantic_tokens` -/
def semanticTokens (a : Analysis F) : Option (List SemTok) := semTokLines a.lines a.lineTokens 0 0

structure LspDiag where
  line : Nat
  startCol : Nat
  endCol : Nat
  isError : Bool
  text : Str

/-- `analyze_source_file`; `none` = index panic -/
def lspDiagnostics (a : Analysis F) : Option (List LspDiag) :=
  a.messages.foldl (fun acc d =>
    match acc with
    | none => none
    | some ds =>
      match a.map.mapDiag d with
      | none => none
      | some none => some ds
      | some (some (f, x, y)) =>
        match a.lines[f]? with
        | none => none
        | some text =>
          let (isErr, msg) : Bool × Str := match d with
            | .warning _ _ m => (false, m)
            | .error _ e => (true, errText e)
          some (ds ++ [{ line := f, startCol := utf16Col text x, endCol := utf16Col text y, isError := isErr, text := msg }]))
    (some [])

/-! ### command line: how a program gets into the interpreter that runs it -/

/-- `CliArgs::configure_interpreter` (the seed is time-based in the real CLI; a parameter here) -/
def cliConfigure (w t : Bool) (seed : Nat) (s : St F) : St F :=
  { s with warnings := w, tracing := t, rng := rngNew seed }

/-- interactive mode: `create_interpreter`, then the lines are typed one by one -/
def cliCreate (w t : Bool) (seed : Nat) : St F := cliConfigure w t seed {}

/-- file mode: `load_source_file` — analyse the file, turn the analyzer's program into an
    interpreter, apply the command-line options to it -/
def cliLoad (fuel : Nat) (w t : Bool) (seed : Nat) (text : Str) : St F :=
  cliConfigure w t seed (analyzeText (F := F) fuel text).intoInterpreter

/-- does file mode refuse to run (static errors and no --skip-check)? -/
def cliRefuses (fuel : Nat) (skipCheck : Bool) (text : Str) : Bool :=
  !skipCheck && (analyzeText (F := F) fuel text).messages.any fun d => match d with | .error _ _ => true | _ => false

/-- typing the lines of a file one by one (each is a host call from Idle) -/
def typeLines (fuel : Nat) : List Str → St F → St F
  | [], s => s
  | l :: ls, s =>
    match startEvaluating fuel l s with
    | .ok _ s' => typeLines fuel ls s'
    | .err _ s' => typeLines fuel ls s'

/-! ### Web adapter (abasic-web/src/lib.rs) and page script (abasic-web/ts/main.ts, class `Interpreter`)

`none` everywhere below is a trap: a Rust `assert!`/`panic!` (which aborts the wasm instance) or the
page's own "assertion failure" exception. -/

structure Js (F : Type) where
  core : St F := {}
  latest : Option Str := none

inductive JsState where
  | idle | running | awaitingInput | errored
  deriving DecidableEq, Repr

namespace Js

/-- `maybe_replace_interpreter` -/
def maybeReplace (s : St F) : St F := if s.state == .newRequested then {} else s

/-- `JsInterpreter::start_evaluating` -/
def startEvaluating (fuel : Nat) (line : Str) (j : Js F) : Option (Js F) :=
  if j.latest.isSome then none
  else
    match Abasic.startEvaluating fuel line j.core with
    | .ok _ s => some { core := maybeReplace s, latest := none }
    | .err e s =>
      if e.err.isPanic then none
      else
        match caretLines s e (some line) with
        | none => none
        | some ls => some { core := s, latest := some (joinWith ['\n'] (errText e :: ls)) }

/-- `JsInterpreter::continue_evaluating` -/
def continueEvaluating (fuel : Nat) (j : Js F) : Option (Js F) :=
  if j.latest.isSome then none
  else
    match Abasic.continueEvaluating fuel j.core with
    | .ok _ s => some { core := maybeReplace s, latest := none }
    | .err e s => if e.err.isPanic then none else some { core := s, latest := some (errText e) }

/-- `JsInterpreter::get_state` -/
def getState (j : Js F) : Option JsState :=
  if j.latest.isSome then some .errored
  else
    match j.core.state with
    | .idle => some .idle
    | .running => some .running
    | .awaitingInput => some .awaitingInput
    | .newRequested => none

/-- `JsInterpreter::provide_input` -/
def provideInput (text : Str) (j : Js F) : Option (Js F) :=
  match Abasic.provideInput text j.core with
  | .ok _ s => some { j with core := s }
  | .err _ _ => none

/-- `JsInterpreter::break_at_current_location` -/
def breakAt (j : Js F) : Js F :=
  match breakAtCurrentLocation j.core with
  | .ok _ s => { j with core := s }
  | .err _ s => { j with core := s }

/-- `take_latest_output`: (type, text) of every record, in order -/
def takeOutput (j : Js F) : List Out × Js F :=
  let (outs, s) := Abasic.takeOutput j.core
  (outs, { j with core := s })

end Js

/-- what the page shows: (css class or "print"/"prompt", text) -/
abbrev Ui := List (String × Str)

structure Page (F : Type) where
  js : Js F := {}
  interactive : Bool := true
  /-- timer callbacks scheduled by `window.setTimeout(handleCurrentState, 5)` and not yet fired -/
  ticks : Nat := 0
  /-- everything printed so far, oldest first -/
  ui : Ui := []

/-- `showOutput` -/
def showRecord : Out → String × Str
  | .print s => ("print", s)
  | .trace n => ("info", outText (.trace n) ++ [' '])
  | o => ("warning", outText o ++ ['\n'])

def splitOnLF (s : Str) : List Str := splitLF s

/-- `handleCurrentState` (the recursion after showing an error is bounded by `n`) -/
def Page.handle (fuel : Nat) : Nat → Page F → Option (Page F)
  | 0, _ => none
  | n + 1, p =>
    let (outs, js) := p.js.takeOutput
    let p := { p with js := js, ui := p.ui ++ outs.map showRecord }
    match js.getState with
    | none => none
    | some .idle => some { p with ui := p.ui ++ [("prompt", if p.interactive then "] ".toList else "<disabled>".toList)] }
    | some .awaitingInput => some { p with ui := p.ui ++ [("prompt", "? ".toList)] }
    | some .errored =>
      match js.latest with
      | none => none
      | some err =>
        let ls := splitOnLF err
        let shown : Ui := ls.zipIdx.map fun (l, i) => (if i == 0 then "error" else "error-context", l ++ ['\n'])
        Page.handle fuel n { p with js := { js with latest := none }, ui := p.ui ++ shown }
    | some .running =>
      match js.continueEvaluating fuel with
      | none => none
      | some js' => some { p with js := js', ticks := p.ticks + 1 }

/-- JavaScript `String.prototype.trim` leaves nothing -/
def jsBlank (line : Str) : Bool := line.all fun c => isUnicodeWs c || c.toNat == 0xFEFF

def loadLines (fuel : Nat) : List Str → Js F → Option (Js F × Bool)
  | [], j => some (j, false)
  | l :: ls, j =>
    if jsBlank l then loadLines fuel ls j
    else
      match l with
      | c :: _ =>
        if !isAsciiDigit c then loadLines fuel ls j
        else
          match j.startEvaluating fuel l with
          | none => none
          | some j' => if j'.getState == some .errored then some (j', true) else loadLines fuel ls j'
      | [] => loadLines fuel ls j

/-- page start-up with a program file: `loadAndRunSourceCode` then `start()` -/
def Page.load (fuel : Nat) (text : Str) (p : Page F) : Option (Page F) :=
  match loadLines fuel (splitLF text) p.js with
  | none => none
  | some (j, stopped) =>
    let j' := if stopped then some j else j.startEvaluating fuel "RUN".toList
    match j' with
    | none => none
    | some j' => Page.handle fuel 4 { p with js := j', interactive := false }

/-- `onSubmitInput` + `submitUserInput` -/
def Page.submit (fuel : Nat) (input : Str) (p : Page F) : Option (Page F) :=
  match p.js.getState with
  | none => none
  | some .idle =>
    match p.js.startEvaluating fuel input with
    | none => none
    | some j => Page.handle fuel 4 { p with js := j }
  | some .awaitingInput =>
    match p.js.provideInput input with
    | none => none
    | some j => Page.handle fuel 4 { p with js := j }
  | some _ => some p

/-- `breakAtCurrentLocation` -/
def Page.break (fuel : Nat) (p : Page F) : Option (Page F) :=
  match p.js.getState with
  | none => none
  | some .awaitingInput => Page.handle fuel 4 { p with js := p.js.breakAt, interactive := true }
  | some .running => Page.handle fuel 4 { p with js := p.js.breakAt, interactive := true }
  | some _ => some p

/-- a scheduled timer callback fires -/
def Page.tick (fuel : Nat) (p : Page F) : Option (Page F) :=
  if p.ticks == 0 then some p else Page.handle fuel 4 { p with ticks := p.ticks - 1 }

/-- what the server does with a document -/
def lspAnalyze (fuel : Nat) (doc : Str) : Analysis F := analyzeFile fuel (splitDocumentLines doc)

end Abasic
