import Abasic.Num
import Abasic.Exec.Dec
/-
  The executable instance of `NumOps`: IEEE doubles.  Only this directory
  mentions `Float`; no theorem does.  Arithmetic uses the same IEEE operations
  (and, for `pow`, the same libm) as Rust on this machine; decimal conversion is
  exact (`Dec.lean`, validated against Rust's std).
-/
namespace Abasic

instance : NumOps Float where
  zero := 0.0
  one := 1.0
  add := (· + ·)
  sub := (· - ·)
  mul := (· * ·)
  div := (· / ·)
  pow := Float.pow
  neg := fun x => -x
  abs := Float.abs
  floor := Float.floor
  lt := fun a b => decide (a < b)
  le := fun a b => decide (a ≤ b)
  eq := fun a b => a == b
  toI64 := Dec.f64ToI64
  toU64 := Dec.f64ToU64
  ofNat := Dec.u64ToF64
  parse := Dec.parseF64
  render := Dec.showF64
  isFinite := Float.isFinite

end Abasic
