import Abasic.Interp
import Abasic.Exec.FloatInst
/-
  Canonical text encodings shared with the Rust hooks (abasic-core
  `verif_hooks.rs`): tokens, values, errors, output records, state snapshots.
-/
namespace Abasic.Exec
open Abasic

def hexDigit (n : Nat) : Char := if n < 10 then Char.ofNat (48 + n) else Char.ofNat (87 + n)

def hexByte (b : UInt8) : List Char := [hexDigit (b.toNat / 16), hexDigit (b.toNat % 16)]

def hexOfStr (s : Str) : String :=
  String.ofList ((String.ofList s).toUTF8.toList.flatMap hexByte)

def hexVal (c : Char) : Nat :=
  if '0' ≤ c && c ≤ '9' then c.toNat - 48
  else if 'a' ≤ c && c ≤ 'f' then c.toNat - 87
  else if 'A' ≤ c && c ≤ 'F' then c.toNat - 55
  else 0

def unhexBytes : List Char → ByteArray → ByteArray
  | a :: b :: r, acc => unhexBytes r (acc.push (UInt8.ofNat (hexVal a * 16 + hexVal b)))
  | _, acc => acc

/-- hex-encoded UTF-8 → text (`none` if not valid UTF-8) -/
def unhex (s : String) : Option Str :=
  (String.fromUTF8? (unhexBytes s.toList ByteArray.empty)).map (·.toList)

def hex16 (n : Nat) : String :=
  let ds := Nat.toDigits 16 n
  String.ofList (List.replicate (16 - ds.length) '0' ++ ds)

def encF (x : Float) : String := if x.isNaN then "nan" else hex16 x.toBits.toNat

def parseHexNat (s : String) : Nat := s.foldl (fun a c => a * 16 + hexVal c) 0

def decF (s : String) : Float :=
  if s == "nan" then Float.ofBits 0x7ff8000000000000 else Float.ofBits (UInt64.ofNat (parseHexNat s))

def str (s : Str) : String := String.ofList s

def encDataElement : DataElement Float → String
  | .str s => "s" ++ hexOfStr s
  | .num x => "n" ++ encF x

def encToken : Token Float → String
  | .kw k => "K:" ++ Extracted.kwName k
  | .remark s => "R:" ++ hexOfStr s
  | .symbol s => "Y:" ++ hexOfStr s
  | .str s => "S:" ++ hexOfStr s
  | .num x => "N:" ++ encF x
  | .data items => "D:" ++ ",".intercalate (items.map encDataElement)

def encTokens (ts : List (Token Float)) : String := " ".intercalate (ts.map encToken)

def encTokErr : TokErr → String
  | .illegalChar i => s!"I:{i}"
  | .unterminated i => s!"U:{i}"
  | .invalidNumber a b => s!"N:{a}-{b}"
  | .outOfFuel => "OUTOFFUEL"

def encTokenize (line : Str) (skip : Nat) : String :=
  let (ts, e) := tokenizeRanges (F := Float) line skip
  let parts := ts.map (fun (t, a, b) => s!"{encToken t}@{a}-{b}")
  let parts := match e with
    | some e => parts ++ ["!" ++ encTokErr e]
    | none => parts
  " ".intercalate parts

def encParseData (text : Str) : String :=
  let (items, n) := parseData (F := Float) text
  ",".intercalate (items.map encDataElement) ++ s!" /{n}"

def encValue : Value Float → String
  | .str s => "s" ++ hexOfStr s
  | .num x => "n" ++ encF x

def encLoc (l : Loc) : String :=
  match l.line with
  | none => s!"imm:{l.idx}"
  | some n => s!"{n}:{l.idx}"

def encErrKind : Err → String
  | .syntax (.tokenization t) => "Syntax.Tokenization." ++ encTokErr t
  | .syntax (.expectedToken k) => "Syntax.ExpectedToken." ++ Extracted.kwName k
  | .syntax .unexpectedToken => "Syntax.UnexpectedToken"
  | .syntax .unexpectedEnd => "Syntax.UnexpectedEndOfInput"
  | .typeMismatch => "TypeMismatch"
  | .dataTypeMismatch => "DataTypeMismatch"
  | .undefinedStatement => "UndefinedStatement"
  | .oomStack => "OutOfMemory.StackOverflow"
  | .oomArray => "OutOfMemory.ArrayTooLarge"
  | .outOfData => "OutOfData"
  | .returnWithoutGosub => "ReturnWithoutGosub"
  | .nextWithoutFor => "NextWithoutFor"
  | .badSubscript => "BadSubscript"
  | .illegalQuantity => "IllegalQuantity"
  | .unimplemented => "Unimplemented"
  | .divisionByZero => "DivisionByZero"
  | .redimensionedArray => "RedimensionedArray"
  | .cannotContinue => "CannotContinue"
  | .illegalDirect => "IllegalDirect"
  | .panic site => "PANIC:" ++ site.replace " " "_"
  | .outOfFuel => "OUTOFFUEL"

def encErr (e : TErr) : String :=
  encErrKind e.err ++ "@" ++ (match e.loc with | none => "-" | some l => encLoc l)

def encOptNat : Option Nat → String
  | none => "-"
  | some n => toString n

def encOut : Out → String
  | .print s => "P:" ++ hexOfStr s
  | .brk l => "B:" ++ encOptNat l
  | .warning m l => "W:" ++ hexOfStr m ++ ":" ++ encOptNat l
  | .trace n => s!"T:{n}"
  | .extraIgnored => "X"
  | .reenter => "R"
  | .opaque => "O"

def encState : IState → String
  | .idle => "Idle"
  | .running => "Running"
  | .awaitingInput => "AwaitingInput"
  | .newRequested => "NewInterpreterRequested"

/-- byte-wise order on Lean strings, as Rust's `sort()` on `String`s -/
def sortStrings (l : List String) : List String :=
  l.mergeSort (fun a b => strLe a.toList b.toList)

def encVars (vs : List (Str × Value Float)) : String :=
  ",".intercalate (sortStrings (vs.map fun (k, v) => str k ++ "=" ++ encValue v))

def encArray (name : Str) (a : ArrayV Float) : String :=
  let dimsS (d : List Nat) := "x".intercalate (d.map toString)
  match a with
  | .strs dims cells =>
    let nd := (cells.zipIdx).filterMap fun (v, i) =>
      if v.isEmpty then none else some s!"{i}=s{hexOfStr v}"
    s!"{str name}:S:{dimsS dims}:{cells.length}:\{{",".intercalate nd}}"
  | .nums dims cells =>
    let nd := (cells.zipIdx).filterMap fun (v, i) =>
      if !v.isNaN && v.toBits == 0 then none else some s!"{i}=n{encF v}"
    s!"{str name}:N:{dimsS dims}:{cells.length}:\{{",".intercalate nd}}"

def sortNatKeys (l : List (Nat × List (Token Float))) : List (Nat × List (Token Float)) :=
  l.mergeSort (fun a b => a.1 ≤ b.1)

def encLines (l : Lines Float) : String :=
  let m := "|".intercalate ((sortNatKeys l.map).map fun (n, ts) => s!"{n}:{encTokens ts}")
  let s := ",".intercalate (l.sorted.map toString)
  "{" ++ m ++ "} sorted=[" ++ s ++ "]"

def encSnapshot (s : St Float) : String :=
  let frames := "".intercalate (s.stack.map fun f => s!"[ret={encLoc f.ret} vars={encVars f.vars}]")
  let loops := "".intercalate (s.loops.map fun l =>
    s!"[{str l.sym}@{encLoc l.loc} to={encF l.toV} step={encF l.stepV}]")
  let data := match s.data with
    | none => "-"
    | some it => s!"{it.ci}:{it.ii}/" ++ ",".intercalate (it.chunks.map fun (c : Loc × List (DataElement Float)) => encLoc c.1)
  let fns := " ".intercalate (sortStrings (s.fns.map fun (n, d) =>
    s!"{str n}({",".intercalate (d.args.map str)})@{d.line}:{d.idx}"))
  let bp := match s.bp with
    | none => "-"
    | some (n, i) => s!"{n}:{i}"
  let input := match s.input with
    | none => "-"
    | some t => "h" ++ hexOfStr t
  let arrays := " ".intercalate (sortStrings (s.arrays.map fun (n, a) => encArray n a))
  s!"state={encState s.state} ; input={input} ; warn={if s.warnings then 1 else 0} ; trace={if s.tracing then 1 else 0} ; rng={s.rng} ; " ++
  s!"nesting={s.nesting} ; loc={encLoc s.loc} ; bp={bp} ; imm={encTokens s.imm} ; stack={frames} ; loops={loops} ; data={data} ; fns={fns} ; lines={encLines s.lines}" ++
  s!" ; vars={encVars s.vars} ; arrays={arrays}"

end Abasic.Exec
