/-
  Abasic.Dec — bit-exact reproduction of Rust's standard-library conversions
  between `f64` and decimal text / 64-bit integers.

  * `parseF64`  = `str::parse::<f64>`            (core::num::dec2flt)
  * `showF64`   = `format!("{}", x)` for `f64`   (core::num::flt2dec, shortest mode)
  * `f64ToI64`  = `x as i64`
  * `f64ToU64`  = `x as u64`
  * `u64ToF64`  = `n as f64`

  Only core Lean is used (no Mathlib / Batteries).  All arithmetic is exact
  `Nat` / `Int` arithmetic on the IEEE-754 bit pattern; Lean's own
  `Float` operations are never used except `Float.ofBits` / `Float.toBits`.
-/

namespace Abasic.Dec

/-! ## IEEE-754 binary64 decoding / encoding -/

def pow2_52 : Nat := 4503599627370496        -- 2^52
def pow2_53 : Nat := 9007199254740992        -- 2^53
def pow2_63 : Nat := 9223372036854775808     -- 2^63
def pow2_64 : Nat := 18446744073709551616    -- 2^64

/-- Classification of a double.  `fin neg m e` denotes `(-1)^neg * m * 2^e`
    with `m < 2^53`; for normal numbers `2^52 ≤ m`, for subnormals/zero
    `e = -1074`.  `normalPow2` records whether the 52 stored fraction bits are all
    zero *and* the number is normal (Rust's "mant == minnorm.0" test). -/
inductive Cls where
  | nan
  | inf (neg : Bool)
  | fin (neg : Bool) (m : Nat) (e : Int) (normalPow2 : Bool)

def classify (x : Float) : Cls :=
  let b := x.toBits.toNat
  let neg := b / pow2_63 == 1
  let be := (b / pow2_52) % 2048
  let frac := b % pow2_52
  if be == 2047 then (if frac == 0 then .inf neg else .nan)
  else if be == 0 then .fin neg frac (-1074) false
  else .fin neg (frac + pow2_52) (Int.ofNat be - 1075) (frac == 0)

/-- Build the double `(-1)^neg * q * 2^e2`, where `q ≤ 2^53` and either
    `2^52 ≤ q` or `e2 = -1074`.  Overflow gives an infinity. -/
def encode (neg : Bool) (q : Nat) (e2 : Int) : Float :=
  let (q, e2) := if q == pow2_53 then (pow2_52, e2 + 1) else (q, e2)
  let signBit : Nat := if neg then pow2_63 else 0
  let mag : Nat :=
    if q < pow2_52 then q
    else
      let be := e2 + 1075
      if be ≥ 2047 then 2047 * pow2_52
      else be.toNat * pow2_52 + (q - pow2_52)
  Float.ofBits (signBit + mag).toUInt64

def mkInf (neg : Bool) : Float := encode neg pow2_52 2000
def mkZero (neg : Bool) : Float := encode neg 0 (-1074)
def mkNaN (neg : Bool) : Float :=
  Float.ofBits ((if neg then pow2_63 else 0) + 0x7ff8000000000000).toUInt64

/-- Correctly rounded (nearest, ties to even) double of `(-1)^neg * num / den`
    (`den > 0`). -/
def roundRat (neg : Bool) (num den : Nat) : Float :=
  if num == 0 then mkZero neg else
  let d : Int := Int.ofNat num.log2 - Int.ofNat den.log2
  -- 2^(d-1) < num/den < 2^(d+1); decide whether num/den ≥ 2^d
  let ge : Bool :=
    if d ≥ 0 then num ≥ den <<< d.toNat else num <<< (-d).toNat ≥ den
  let fl : Int := if ge then d else d - 1          -- floor(log2(num/den))
  if fl > 1100 then mkInf neg else
  if fl < -1200 then mkZero neg else
  let e2 : Int := if fl - 52 < -1074 then -1074 else fl - 52
  let num' := if e2 < 0 then num <<< (-e2).toNat else num
  let den' := if e2 > 0 then den <<< e2.toNat else den
  let q := num' / den'
  let r := num' % den'
  let q := if 2 * r > den' || (2 * r == den' && q % 2 == 1) then q + 1 else q
  encode neg q e2

/-! ## parseF64 — Rust `str::parse::<f64>` -/

def isDig (c : Char) : Bool := '0' ≤ c && c ≤ '9'
def digVal (c : Char) : Nat := c.toNat - 48

/-- Consume a run of digits: returns (accumulated value, number of digits, rest). -/
def takeDigits : List Char → Nat → Nat → Nat × Nat × List Char
  | c :: cs, acc, n =>
    if isDig c then takeDigits cs (acc * 10 + digVal c) (n + 1) else (acc, n, c :: cs)
  | [], acc, n => (acc, n, [])

/-- Exponent digits, with Rust's saturation (`if exp < 0x10000 { exp = 10*exp + d }`). -/
def takeExpDigits : List Char → Nat → Nat → Nat × Nat × List Char
  | c :: cs, acc, n =>
    if isDig c then
      takeExpDigits cs (if acc < 0x10000 then acc * 10 + digVal c else acc) (n + 1)
    else (acc, n, c :: cs)
  | [], acc, n => (acc, n, [])

def lowerAscii (c : Char) : Char :=
  if 'A' ≤ c && c ≤ 'Z' then Char.ofNat (c.toNat + 32) else c

/-- `some (D, E)` with value `D * 10^E`, or `none` if not a decimal number. -/
def parseDecimal (s : List Char) : Option (Nat × Int) :=
  let (ip, n1, rest) := takeDigits s 0 0
  let (mant, n2, rest) :=
    match rest with
    | '.' :: r => takeDigits r ip 0
    | _ => (ip, 0, rest)
  if n1 + n2 == 0 then none else
  match rest with
  | [] => some (mant, - Int.ofNat n2)
  | c :: r =>
    if c == 'e' || c == 'E' then
      let (eneg, r) :=
        match r with
        | '-' :: r' => (true, r')
        | '+' :: r' => (false, r')
        | _ => (false, r)
      let (ev, en, r) := takeExpDigits r 0 0
      if en == 0 then none
      else if !r.isEmpty then none
      else
        let e : Int := if eneg then - Int.ofNat ev else Int.ofNat ev
        some (mant, e - Int.ofNat n2)
    else none

/-- The exact value `D * 10^E`, correctly rounded. -/
def decToF64 (neg : Bool) (D : Nat) (E : Int) : Float :=
  if D == 0 then mkZero neg else
  -- number of decimal digits of D is within [lo, lo+1] where:
  let nd : Int := Int.ofNat (D.log2 * 30103 / 100000) + 1
  -- 10^(nd-2+E) ≤ value < 10^(nd+1+E)
  if nd + E > 330 then mkInf neg
  else if nd + E < -345 then mkZero neg
  else if E ≥ 0 then roundRat neg (D * 10 ^ E.toNat) 1
  else roundRat neg D (10 ^ (-E).toNat)

def parseF64 (s : List Char) : Option Float :=
  match s with
  | [] => none
  | c :: cs =>
    let neg := c == '-'
    let body := if c == '-' || c == '+' then cs else s
    if body.isEmpty then none else
    match parseDecimal body with
    | some (D, E) => some (decToF64 neg D E)
    | none =>
      let low := body.map lowerAscii
      if low == ['n', 'a', 'n'] then some (mkNaN neg)
      else if low == ['i', 'n', 'f'] || low == ['i', 'n', 'f', 'i', 'n', 'i', 't', 'y'] then
        some (mkInf neg)
      else none

/-! ## showF64 — Rust `format!("{}", x)` (shortest round-trip digits, Dragon4) -/

/-- Digit generation loop of `flt2dec::strategy::dragon::format_shortest`.
    Returns the digits (most significant first) and whether to round up. -/
def digitLoop : Nat → Bool → Nat → Nat → Nat → Nat → List Nat → List Nat × Bool
  | 0, _, _, _, _, _, acc => (acc.reverse, false)
  | fuel + 1, incl, mant, minus, plus, scale, acc =>
    let d := mant / scale
    let mant := mant % scale
    let acc := d :: acc
    let down := if incl then mant ≤ minus else mant < minus
    let up := if incl then scale ≤ mant + plus else scale < mant + plus
    if down || up then
      (acc.reverse, up && (!down || 2 * mant ≥ scale))
    else
      digitLoop fuel incl (mant * 10) (minus * 10) (plus * 10) scale acc

/-- Increment a reversed digit list; returns (reversed result, carriedOut). -/
def incRev : List Nat → List Nat × Bool
  | [] => ([], true)
  | d :: ds =>
    if d == 9 then
      let (r, c) := incRev ds
      (0 :: r, c)
    else ((d + 1) :: ds, false)

/-- Rust's `round_up`: returns new digits and whether the exponent grows. -/
def roundUpDigits (ds : List Nat) : List Nat × Bool :=
  let (r, carry) := incRev ds.reverse
  if carry then
    -- all nines: "99..9" -> "10..0" plus one extra trailing '0'
    match r.reverse with
    | [] => ([1], true)
    | _ :: tl => (1 :: tl ++ [0], true)
  else (r.reverse, false)

/-- Adjust `k` upward while `high ≥ 10^k` (inclusive) / `high > 10^k` (exclusive). -/
def fixUp : Nat → Bool → Nat → Nat → Int → Nat × Int
  | 0, _, _, scale, k => (scale, k)
  | fuel + 1, incl, hi, scale, k =>
    if (if incl then scale ≤ hi else scale < hi) then
      fixUp fuel incl hi (scale * 10) (k + 1)
    else (scale, k)

/-- Adjust downward while `high*10 < 10^k` (resp. `≤`), multiplying the numerators. -/
def fixDown : Nat → Bool → Nat → Nat → Nat → Nat → Int → Nat × Nat × Nat × Int
  | 0, _, mant, minus, plus, _, k => (mant, minus, plus, k)
  | fuel + 1, incl, mant, minus, plus, scale, k =>
    let hi10 := (mant + plus) * 10
    if (if incl then scale ≤ hi10 else scale < hi10) then (mant, minus, plus, k)
    else fixDown fuel incl (mant * 10) (minus * 10) (plus * 10) scale (k - 1)

/-- Shortest digits `d₀d₁…` and exponent `k` with value `0.d₀d₁… × 10^k`
    for the positive finite double `m * 2^e` (`m > 0`). -/
def shortestDigits (m : Nat) (e : Int) (normalPow2 : Bool) : List Nat × Int :=
  let incl := m % 2 == 0
  -- Rust `decode`: value = mant*2^exp, low = (mant-minus)*2^exp, high = (mant+plus)*2^exp
  let (mant, minus, plus, exp) : Nat × Nat × Nat × Int :=
    if normalPow2 then (m * 4, 1, 2, e - 2) else (m * 2, 1, 1, e - 1)
  -- estimate k ≈ ceil(log10 value)
  let nbits : Int := Int.ofNat (mant.log2 + 1)
  let k0 : Int := ((nbits + exp) * 1292913986) / 4294967296   -- Int `/` is Euclidean = floor for a positive divisor; fixUp/fixDown below correct any off-by-one
  -- set up mant/scale = value / 10^k0
  let sh := exp.toNat          -- 0 when exp < 0
  let mant := mant <<< sh
  let minus := minus <<< sh
  let plus := plus <<< sh
  let scale : Nat := 1 <<< (-exp).toNat
  let (mant, minus, plus, scale) :=
    if k0 ≥ 0 then (mant, minus, plus, scale * 10 ^ k0.toNat)
    else
      let p := 10 ^ (-k0).toNat
      (mant * p, minus * p, plus * p, scale)
  -- make k minimal with high < 10^k (inclusive) / high ≤ 10^k (exclusive)
  let (scale, k) := fixUp 8 incl (mant + plus) scale k0
  let (mant, minus, plus, k) := fixDown 8 incl mant minus plus scale k
  -- now scale/10 ≤ high (<) scale; first digit comes from mant*10/scale
  let (ds, up) := digitLoop 40 incl (mant * 10) (minus * 10) (plus * 10) scale []
  if up then
    let (ds, grow) := roundUpDigits ds
    (ds, if grow then k + 1 else k)
  else (ds, k)

def digitChar (d : Nat) : Char := Char.ofNat (48 + d)

/-- Rust's `digits_to_dec_str` with `frac_digits = 0`. -/
def layoutDec (ds : List Nat) (k : Int) : List Char :=
  let cs := ds.map digitChar
  if k ≤ 0 then
    '0' :: '.' :: (List.replicate (-k).toNat '0' ++ cs)
  else
    let kn := k.toNat
    if kn < cs.length then cs.take kn ++ '.' :: cs.drop kn
    else cs ++ List.replicate (kn - cs.length) '0'

def showF64 (x : Float) : List Char :=
  match classify x with
  | .nan => ['N', 'a', 'N']
  | .inf neg => if neg then ['-', 'i', 'n', 'f'] else ['i', 'n', 'f']
  | .fin neg m e np2 =>
    let body :=
      if m == 0 then ['0']
      else
        let (ds, k) := shortestDigits m e np2
        layoutDec ds k
    if neg then '-' :: body else body

/-! ## Integer conversions -/

/-- Truncated magnitude of a finite double, capped at `2^64` (anything ≥ 2^64
    is reported as `2^64`). -/
def truncMag (m : Nat) (e : Int) : Nat :=
  if e ≥ 0 then
    if e > 64 then (if m == 0 then 0 else pow2_64)
    else
      let v := m <<< e.toNat
      if v > pow2_64 then pow2_64 else v
  else
    let s := (-e).toNat
    if s ≥ 64 then 0 else m >>> s

/-- Rust `x as i64`. -/
def f64ToI64 (x : Float) : Int :=
  match classify x with
  | .nan => 0
  | .inf neg => if neg then - Int.ofNat pow2_63 else Int.ofNat pow2_63 - 1
  | .fin neg m e _ =>
    let v := truncMag m e
    if neg then
      if v ≥ pow2_63 then - Int.ofNat pow2_63 else - Int.ofNat v
    else
      if v ≥ pow2_63 then Int.ofNat pow2_63 - 1 else Int.ofNat v

/-- Rust `x as u64`. -/
def f64ToU64 (x : Float) : Nat :=
  match classify x with
  | .nan => 0
  | .inf neg => if neg then 0 else pow2_64 - 1
  | .fin neg m e _ =>
    if neg then 0
    else
      let v := truncMag m e
      if v ≥ pow2_64 then pow2_64 - 1 else v

/-- Rust `n as f64` for `n < 2^64` (round to nearest, ties to even);
    defined (as the correctly rounded value) for every `Nat`. -/
def u64ToF64 (n : Nat) : Float := roundRat false n 1

end Abasic.Dec
