import Abasic.Exec.Codec
/-
  Line-protocol driver: one operation per input line, one reply line per
  operation (DESIGN.md 3.2).  Payloads are hex-encoded UTF-8.
-/
namespace Abasic.Exec
open Abasic

structure Session where
  st : St Float := {}
  lastErr : Option TErr := none
  fuel : Nat := defaultFuel

def runM (sess : Session) (m : M Float Unit) : Session × String :=
  match m sess.st with
  | .ok _ s => ({ sess with st := s, lastErr := none }, "ok")
  | .err e s => ({ sess with st := s, lastErr := some e }, "err " ++ encErr e)

def encOptStrs : Option (List Str) → String
  | none => "PANIC"
  | some ls => if ls.isEmpty then "-" else " ".intercalate (ls.map hexOfStr)

def step (sess : Session) (line : String) : Session × String :=
  match line.trimAscii.toString.splitOn " " with
  | ["new", w, t] =>
    ({ sess with st := { warnings := w == "1", tracing := t == "1" }, lastErr := none }, "ok")
  | ["fuel", n] => ({ sess with fuel := n.toNat! }, "ok")
  | ["flags", w, t] =>
    ({ sess with st := { sess.st with warnings := w == "1", tracing := t == "1" } }, "ok")
  | ["seed", n] => runM sess (randomize n.toNat!)
  | ["start", h] =>
    (match unhex h with
     | some text => runM sess (startEvaluating sess.fuel text)
     | none => (sess, "bad-utf8"))
  | ["start"] => runM sess (startEvaluating sess.fuel [])
  | ["cont"] => runM sess (continueEvaluating sess.fuel)
  | ["reply", h] =>
    (match unhex h with
     | some text => runM sess (provideInput text)
     | none => (sess, "bad-utf8"))
  | ["reply"] => runM sess (provideInput [])
  | ["break"] => runM sess breakAtCurrentLocation
  | ["replace"] =>
    -- what every host does after NEW: a fresh interpreter (flags and seed are the host's business)
    ({ sess with st := {}, lastErr := none }, "ok")
  | ["take"] =>
    let (outs, s) := takeOutput sess.st
    ({ sess with st := s }, if outs.isEmpty then "-" else " ".intercalate (outs.map encOut))
  | ["state"] => (sess, encState sess.st.state)
  | ["reads"] => (sess, toString sess.st.reads)
  | ["nesting"] => (sess, toString sess.st.nesting)
  | ["snap"] => (sess, encSnapshot sess.st)
  | ["caret", h] =>
    (match sess.lastErr with
     | none => (sess, "no-error")
     | some e =>
       let line : Option Str := if h == "-" then none else if h == "e" then some [] else unhex h
       (sess, encOptStrs (caretLines sess.st e line)))
  | ["tok", h, skip] =>
    (match unhex h with
     | some text => (sess, encTokenize text skip.toNat!)
     | none => (sess, "bad-utf8"))
  | ["tok", skip] => (sess, encTokenize [] skip.toNat!)
  | ["data", h] =>
    (match unhex h with
     | some text => (sess, encParseData text)
     | none => (sess, "bad-utf8"))
  | ["data"] => (sess, encParseData [])
  | ["linenum", h] =>
    (match unhex h with
     | some text =>
       (sess, match parseLineNumber text with
         | some (n, e) => s!"{n} {e}"
         | none => "-")
     | none => (sess, "bad-utf8"))
  | ["linenum"] => (sess, "-")
  | ["fmt", bits] => (sess, hexOfStr (NumOps.render (decF bits)))
  | ["parse", h] =>
    (match unhex h with
     | some text =>
       (sess, match NumOps.parse (F := Float) text with
         | some x => encF x
         | none => "ERR")
     | none => (sess, "bad-utf8"))
  | ["parse"] => (sess, "ERR")
  | ["rng", seed, arg] =>
    let s0 : St Float := { rng := rngNew seed.toNat! }
    (match rnd (decF arg) s0 with
     | .ok v s => (sess, s!"{encF v} {s.rng}")
     | .err e s => (sess, s!"{encErrKind e.err} {s.rng}"))
  | ["upper", h] =>
    (match unhex h with
     | some text =>
       (sess, match commandWord text with
         | some w => "w" ++ hexOfStr w
         | none => "-")
     | none => (sess, "bad-utf8"))
  | _ => (sess, "bad-op")

partial def loop (h : IO.FS.Stream) (out : IO.FS.Stream) (sess : Session) : IO Unit := do
  let line ← h.getLine
  if line.isEmpty then return ()
  let (sess', reply) := step sess line
  out.putStrLn reply
  loop h out sess'

end Abasic.Exec
