import Abasic.Exec.Codec
import Abasic.Ref.Expr
import Abasic.Front
/-
  Line-protocol driver: one operation per input line, one reply line per
  operation (DESIGN.md 3.2).  Payloads are hex-encoded UTF-8.
-/
namespace Abasic.Exec
open Abasic

def unOpOf : String → Option UnOp
  | "pos" => some .pos | "neg" => some .neg | "not" => some .not | _ => none

def binOpOf : String → Option BinOp
  | "pow" => some .pow | "mul" => some .mul | "div" => some .div | "add" => some .add | "sub" => some .sub
  | "and" => some .and | "or" => some .or
  | "eq" => some (.cmp .eq) | "lt" => some (.cmp .lt) | "le" => some (.cmp .le)
  | "gt" => some (.cmp .gt) | "ge" => some (.cmp .ge) | "ne" => some (.cmp .ne)
  | _ => none

/-- Polish notation: `n<bits>`, `s<hex>`, `v<hex>`, `u<op> e`, `b<op> l r`, `p e`, `a e`, `i e`. -/
def parseExpr : Nat → List String → Option (Ref.Expr Float × List String)
  | 0, _ => none
  | _, [] => none
  | fuel + 1, t :: rest =>
    let tag := t.take 1
    let arg := (t.drop 1).toString
    if tag == "n" then some (.num (decF arg), rest)
    else if tag == "s" then (unhex arg).map fun s => (.str s, rest)
    else if tag == "v" then (unhex arg).map fun s => (.var s, rest)
    else if tag == "u" then
      match unOpOf arg, parseExpr fuel rest with
      | some op, some (e, r) => some (.un op e, r)
      | _, _ => none
    else if tag == "b" then
      match binOpOf arg, parseExpr fuel rest with
      | some op, some (l, r1) =>
        (match parseExpr fuel r1 with
         | some (r, r2) => some (.bin op l r, r2)
         | none => none)
      | _, _ => none
    else if tag == "p" then (parseExpr fuel rest).map fun (e, r) => (.paren e, r)
    else if tag == "a" then (parseExpr fuel rest).map fun (e, r) => (.abs e, r)
    else if tag == "i" then (parseExpr fuel rest).map fun (e, r) => (.int e, r)
    else none

def tokenTypeName : TokenType → String
  | .Symbol => "Symbol" | .String => "String" | .Number => "Number" | .Operator => "Operator"
  | .Comment => "Comment" | .Keyword => "Keyword" | .Delimiter => "Delimiter" | .Data => "Data"

def encMapped : Option (Option (Nat × Nat × Nat)) → String
  | none => "PANIC"
  | some none => "-"
  | some (some (f, a, b)) => s!"{f}:{a}-{b}"

def encDiag (m : FileMap) (d : Diag) : String :=
  match d with
  | .warning f loc msg =>
    let l := match loc with | some (n, i) => s!"{n}:{i}" | none => "-"
    s!"W:{f}:{l}:{hexOfStr msg}>{encMapped (m.mapDiag d)}"
  | .error f e => s!"E:{f}:{encErr e}>{encMapped (m.mapDiag d)}"

def encAnalysis (a : Analysis Float) : String :=
  match a.panicked with
  | some site => "PANIC:" ++ site.replace " " "_"
  | none =>
    let toks := "|".intercalate (a.lineTokens.map fun lt =>
      ",".intercalate (lt.map fun (tt, x, y) => s!"{tokenTypeName tt}@{x}-{y}"))
    let msgs := " ".intercalate (sortStrings (a.messages.map (encDiag a.map)))
    s!"T {toks} ; M {msgs}"

def encLsp (a : Analysis Float) : String :=
  match a.panicked with
  | some site => "PANIC:" ++ site.replace " " "_"
  | none =>
    let d := match lspDiagnostics a with
      | none => "PANIC"
      | some ds => " ".intercalate (sortStrings (ds.map fun (x : LspDiag) =>
          s!"{x.line}:{x.startCol}-{x.endCol}:{if x.isError then "E" else "W"}:{hexOfStr x.text}"))
    let t := match semanticTokens a with
      | none => "PANIC"
      | some ts => " ".intercalate (ts.map fun (x : SemTok) => s!"{x.deltaLine},{x.deltaStart},{x.length},{x.tokenType}")
    s!"D {d} ; S {t}"

/-- keep a program going until the interpreter is idle (or the step budget is spent): the records it
    produced and how it ended -/
def runToIdle (fuel : Nat) : Nat → St Float → List String → List String × St Float
  | 0, s, acc => (acc ++ ["BUDGET"], s)
  | n + 1, s, acc =>
    let (outs, s) := takeOutput s
    let acc := acc ++ outs.map encOut
    match s.state with
    | .running =>
      (match continueEvaluating fuel s with
       | .ok _ s' => runToIdle fuel n s' acc
       | .err e s' =>
         let (outs, s') := takeOutput s'
         (acc ++ outs.map encOut ++ ["E:" ++ encErr e], s'))
    | _ => (acc, s)

def runCommand (fuel : Nat) (s : St Float) : List String × St Float :=
  match startEvaluating fuel "RUN".toList s with
  | .ok _ s' => runToIdle fuel 3000 s' []
  | .err e s' =>
    let (outs, s') := takeOutput s'
    (outs.map encOut ++ ["E:" ++ encErr e], s')

structure Session where
  page : Option (Page Float) := some {}
  uiSeen : Nat := 0
  st : St Float := {}
  lastErr : Option TErr := none
  fuel : Nat := defaultFuel

def argText : List String → Str
  | [h] => (unhex h).getD []
  | _ => []

def encJsState : Option JsState → String
  | none => "TRAP"
  | some .idle => "Idle"
  | some .running => "Running"
  | some .awaitingInput => "AwaitingInput"
  | some .errored => "Errored"

/-- apply a page event; reply = adapter state, pending timer callbacks, interactivity, and what the page printed -/
def webEvent (sess : Session) (f : Page Float → Option (Page Float)) : Session × String :=
  match sess.page with
  | none => (sess, "TRAPPED")
  | some p =>
    match f p with
    | none => ({ sess with page := none }, "TRAP")
    | some p' =>
      let fresh := p'.ui.drop sess.uiSeen
      let ui := " ".intercalate (fresh.map fun (c, t) => c ++ ":" ++ hexOfStr t)
      ({ sess with page := some p', uiSeen := p'.ui.length },
       s!"{encJsState p'.js.getState} t={p'.ticks} i={if p'.interactive then 1 else 0} F:ok ui={ui}")

def runM (sess : Session) (m : M Float Unit) : Session × String :=
  match m sess.st with
  | .ok _ s => ({ sess with st := s, lastErr := none }, "ok")
  | .err e s => ({ sess with st := s, lastErr := some e }, "err " ++ encErr e)

def encOptStrs : Option (List Str) → String
  | none => "PANIC"
  | some ls => if ls.isEmpty then "-" else " ".intercalate (ls.map hexOfStr)

def step (sess : Session) (line : String) : Session × String :=
  match line.trimAscii.toString.splitOn " " with
  | ["new", w, t] =>
    ({ sess with st := { warnings := w == "1", tracing := t == "1" }, lastErr := none }, "ok")
  | ["fuel", n] => ({ sess with fuel := n.toNat! }, "ok")
  | ["flags", w, t] =>
    ({ sess with st := { sess.st with warnings := w == "1", tracing := t == "1" } }, "ok")
  | ["seed", n] => runM sess (randomize n.toNat!)
  | ["start", h] =>
    (match unhex h with
     | some text => runM sess (startEvaluating sess.fuel text)
     | none => (sess, "bad-utf8"))
  | ["start"] => runM sess (startEvaluating sess.fuel [])
  | ["cont"] => runM sess (continueEvaluating sess.fuel)
  | ["reply", h] =>
    (match unhex h with
     | some text => runM sess (provideInput text)
     | none => (sess, "bad-utf8"))
  | ["reply"] => runM sess (provideInput [])
  | ["break"] => runM sess breakAtCurrentLocation
  | ["replace"] =>
    -- what every host does after NEW: a fresh interpreter (flags and seed are the host's business)
    ({ sess with st := {}, lastErr := none }, "ok")
  | ["take"] =>
    let (outs, s) := takeOutput sess.st
    ({ sess with st := s }, if outs.isEmpty then "-" else " ".intercalate (outs.map encOut))
  | "fold" :: toks =>
    (match parseExpr (toks.length + 1) toks with
     | some (e, []) =>
       let env : Str → Value Float := fun n => getVar sess.st n
       let res := match Ref.foldE env e with
         | .ok v => "v:" ++ encValue v
         | .error err => "e:" ++ encErrKind err
       (sess, hexOfStr e.text ++ " " ++ res)
     | _ => (sess, "bad-expr"))
  | ["analyze", h] =>
    (match unhex h with
     | some text => (sess, encAnalysis (analyzeText sess.fuel text))
     | none => (sess, "bad-utf8"))
  | ["analyze"] => (sess, encAnalysis (analyzeText sess.fuel []))
  -- the client's handshake (what it offers in `initialize`) does not change what the server must answer
  | ["lsphello", _] => (sess, "ok")
  | ["lsp", h] =>
    (match unhex h with
     | some text => (sess, encLsp (lspAnalyze sess.fuel text))
     | none => (sess, "bad-utf8"))
  | ["lsp"] => (sess, encLsp (lspAnalyze sess.fuel []))
  -- several documents side by side: the server keeps them apart, so the answer for document k depends on its own text only
  | ["lspu", _, h] =>
    (match unhex h with
     | some text => (sess, encLsp (lspAnalyze sess.fuel text))
     | none => (sess, "bad-utf8"))
  | ["lspu", _] => (sess, encLsp (lspAnalyze sess.fuel []))
  -- the document is opened AGAIN (with or without a close in between): answered for the text the new open carries
  | ["lspo", _, h] =>
    (match unhex h with
     | some text => (sess, encLsp (lspAnalyze sess.fuel text))
     | none => (sess, "bad-utf8"))
  | ["lspo", _] => (sess, encLsp (lspAnalyze sess.fuel []))
  | "lspq" :: _ :: rest =>
    let a := lspAnalyze (F := Float) sess.fuel (argText rest)
    (sess, match semanticTokens a with
      | none => "PANIC"
      | some ts => "S " ++ " ".intercalate (ts.map fun (x : SemTok) => s!"{x.deltaLine},{x.deltaStart},{x.length},{x.tokenType}"))
  | ["load", h] =>
    -- SourceFileAnalyzer::analyze(text).into_interpreter(): replaces the interpreter
    (match unhex h with
     | some text =>
       let a := analyzeText (F := Float) sess.fuel text
       (match a.panicked with
        | some site => (sess, "PANIC:" ++ site.replace " " "_")
        | none => ({ sess with st := a.intoInterpreter, lastErr := none }, "ok"))
     | none => (sess, "bad-utf8"))
  | ["cli", w, t, sk, h] =>
    -- file mode vs the same lines piped into an interactive session followed by RUN, in the model
    (match unhex h with
     | some text =>
       let (w, t, sk) := (w == "1", t == "1", sk == "1")
       if cliRefuses (F := Float) sess.fuel sk text then (sess, "refused")
       else
         let fileSt := cliLoad (F := Float) sess.fuel w t 0 text
         let (fileOut, _) := runCommand sess.fuel fileSt
         let typed := typeLines sess.fuel ((splitLF text).filter (fun l => !l.isEmpty)) (cliCreate (F := Float) w t 0)
         let (pipeOut, _) := runCommand sess.fuel typed
         (sess, if fileOut == pipeOut then "same" else "DIFF")
     | none => (sess, "bad-utf8"))
  | "wnew" :: _ => ({ sess with page := some {}, uiSeen := 0 }, "ok")
  | ["wseed", n] =>
    (match sess.page with
     | some p => ({ sess with page := some { p with js := { p.js with core := { p.js.core with rng := rngNew n.toNat! } } } }, "ok")
     | none => (sess, "TRAPPED"))
  | "wload" :: rest => webEvent sess (fun p => Page.load sess.fuel (argText rest) p)
  | "wsubmit" :: rest => webEvent sess (fun p => Page.submit sess.fuel (argText rest) p)
  | ["wbreak"] => webEvent sess (fun p => Page.break sess.fuel p)
  | ["wtick"] => webEvent sess (fun p => Page.tick sess.fuel p)
  -- the same events sent to the page script itself (main.ts under node): the model of the page is the same
  | "rnew" :: _ => ({ sess with page := some {}, uiSeen := 0 }, "ok")
  | ["rstart"] => (sess, "ok")
  | ["rseed", n] =>
    (match sess.page with
     | some p => ({ sess with page := some { p with js := { p.js with core := { p.js.core with rng := rngNew n.toNat! } } } }, "ok")
     | none => (sess, "TRAPPED"))
  | "rload" :: rest => webEvent sess (fun p => Page.load sess.fuel (argText rest) p)
  | "rsubmit" :: rest => webEvent sess (fun p => Page.submit sess.fuel (argText rest) p)
  | ["rbreak"] => webEvent sess (fun p => Page.break sess.fuel p)
  | ["rtick"] => webEvent sess (fun p => Page.tick sess.fuel p)
  | ["state"] => (sess, encState sess.st.state)
  | ["reads"] => (sess, toString sess.st.reads)
  | ["nesting"] => (sess, toString sess.st.nesting)
  | ["snap"] => (sess, encSnapshot sess.st)
  | ["caret", h] =>
    (match sess.lastErr with
     | none => (sess, "no-error")
     | some e =>
       let line : Option Str := if h == "-" then none else if h == "e" then some [] else unhex h
       (sess, encOptStrs (caretLines sess.st e line)))
  | ["tok", h, skip] =>
    (match unhex h with
     | some text => (sess, encTokenize text skip.toNat!)
     | none => (sess, "bad-utf8"))
  | ["tok", skip] => (sess, encTokenize [] skip.toNat!)
  | ["data", h] =>
    (match unhex h with
     | some text => (sess, encParseData text)
     | none => (sess, "bad-utf8"))
  | ["data"] => (sess, encParseData [])
  | ["linenum", h] =>
    (match unhex h with
     | some text =>
       (sess, match parseLineNumber text with
         | some (n, e) => s!"{n} {e}"
         | none => "-")
     | none => (sess, "bad-utf8"))
  | ["linenum"] => (sess, "-")
  | ["fmt", bits] => (sess, hexOfStr (NumOps.render (decF bits)))
  | ["parse", h] =>
    (match unhex h with
     | some text =>
       (sess, match NumOps.parse (F := Float) text with
         | some x => encF x
         | none => "ERR")
     | none => (sess, "bad-utf8"))
  | ["parse"] => (sess, "ERR")
  | ["rng", seed, arg] =>
    let s0 : St Float := { rng := rngNew seed.toNat! }
    (match rnd (decF arg) s0 with
     | .ok v s => (sess, s!"{encF v} {s.rng}")
     | .err e s => (sess, s!"{encErrKind e.err} {s.rng}"))
  | ["upper", h] =>
    (match unhex h with
     | some text =>
       (sess, match commandWord text with
         | some w => "w" ++ hexOfStr w
         | none => "-")
     | none => (sess, "bad-utf8"))
  | _ => (sess, "bad-op")

partial def loop (h : IO.FS.Stream) (out : IO.FS.Stream) (sess : Session) : IO Unit := do
  let line ← h.getLine
  if line.isEmpty then return ()
  let (sess', reply) := step sess line
  out.putStrLn reply
  loop h out sess'

end Abasic.Exec
