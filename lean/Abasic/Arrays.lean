import Abasic.Program
/- arrays.rs, random.rs, operators.rs -/
namespace Abasic
variable {F : Type} [NumOps F]
open M

/-- `DimArray::new`: dimension sizes and the total cell count
    (checked arithmetic: anything that would exceed `usize` is ARRAY TOO LARGE). -/
def dimSizes : List Nat → Nat → List Nat → Except Err (List Nat × Nat)
  | [], total, dims => .ok (dims.reverse, total)
  | m :: rest, total, dims =>
    let size := m + 1
    if size ≥ 2 ^ 64 then .error .oomArray
    else
      let total' := total * size
      if total' ≥ 2 ^ 64 then .error .oomArray
      else dimSizes rest total' (size :: dims)

def ArrayV.create (name : Str) (maxIndices : List Nat) : Except Err (ArrayV F) :=
  if maxIndices.isEmpty then .error .badSubscript
  else
    match dimSizes maxIndices 1 [] with
    | .error e => .error e
    | .ok (dims, total) =>
      if total > Extracted.maxDimTotalElements then .error .oomArray
      else if endsWithDollar name then .ok (.strs dims (List.replicate total []))
      else .ok (.nums dims (List.replicate total NumOps.zero))

/-- `get_linear_index` -/
def linearIndexAux : List Nat → List Nat → Nat → Nat → Except Err Nat
  | [], [], lin, _ => .ok lin
  | i :: is, d :: ds, lin, stride =>
    if i ≥ d then .error .badSubscript else linearIndexAux is ds (lin + i * stride) (stride * d)
  | _, _, _, _ => .error .badSubscript

def linearIndex (index dims : List Nat) : Except Err Nat :=
  if index.length != dims.length then .error .badSubscript
  else linearIndexAux index dims 0 1

def ArrayV.dims : ArrayV F → List Nat
  | .strs d _ => d
  | .nums d _ => d

def ArrayV.cellCount : ArrayV F → Nat
  | .strs _ c => c.length
  | .nums _ c => c.length

/-- `maybe_create_default_array` -/
def ensureArray (name : Str) (arity : Nat) : M F Unit := do
  let s ← get
  if alHas name s.arrays then pure ()
  else
    match ArrayV.create (F := F) name (List.replicate arity Extracted.defaultArraySize) with
    | .ok a => set { s with arrays := alSet name a s.arrays }
    | .error e => fail e

/-- `Arrays::get_value_at_index` -/
def arrayGet (name : Str) (index : List Nat) : M F (Value F) := do
  ensureArray name index.length
  let s ← get
  match alGet name s.arrays with
  | none => rpanic "arrays: unwrap on None"
  | some a =>
    match linearIndex index a.dims with
    | .error e => fail e
    | .ok i =>
      match a with
      | .strs _ cells =>
        (match cells[i]? with
         | some v => pure (.str v)
         | none => rpanic "arrays: index out of bounds")
      | .nums _ cells =>
        (match cells[i]? with
         | some v => pure (.num v)
         | none => rpanic "arrays: index out of bounds")

/-- `Arrays::set_value_at_index` -/
def arraySet (name : Str) (index : List Nat) (v : Value F) : M F Unit := do
  if !v.matchesName name then fail .typeMismatch
  else
    ensureArray name index.length
    let s ← get
    match alGet name s.arrays with
    | none => rpanic "arrays: unwrap on None"
    | some a =>
      match a, v with
      | .strs dims cells, .str x =>
        (match linearIndex index dims with
         | .error e => fail e
         | .ok i =>
           if i < cells.length then set { s with arrays := alSet name (.strs dims (cells.set i x)) s.arrays }
           else rpanic "arrays: index out of bounds")
      | .nums dims cells, .num x =>
        (match linearIndex index dims with
         | .error e => fail e
         | .ok i =>
           if i < cells.length then set { s with arrays := alSet name (.nums dims (cells.set i x)) s.arrays }
           else rpanic "arrays: index out of bounds")
      | _, _ => fail .typeMismatch

/-- `Arrays::create` (DIM) -/
def arrayCreate (name : Str) (maxIndices : List Nat) : M F Unit := do
  let s ← get
  if alHas name s.arrays then fail .redimensionedArray
  else
    match ArrayV.create (F := F) name maxIndices with
    | .ok a => set { s with arrays := alSet name a s.arrays }
    | .error e => fail e

/-! ### random.rs -/

def rngStep (seed : Nat) : Nat :=
  (Extracted.rngMultiplier * seed + Extracted.rngIncrement) % Extracted.rngModulus

def rngValue (seed : Nat) : F :=
  NumOps.div (NumOps.ofNat seed) (NumOps.ofNat Extracted.rngModulus)

/-- `Rng::new` (the seed is reduced modulo the modulus) -/
def rngNew (seed : Nat) : Nat := seed % Extracted.rngModulus

/-- `Rng::rnd` -/
def rnd (x : F) : M F F := do
  let s ← get
  if NumOps.lt x NumOps.zero then fail .unimplemented
  else if NumOps.eq x NumOps.zero then pure (rngValue s.rng)
  else
    let prod := Extracted.rngMultiplier * s.rng + Extracted.rngIncrement
    if prod ≥ 2 ^ 64 then rpanic "rng: attempt to multiply with overflow"
    else
      let seed := prod % Extracted.rngModulus
      set { s with rng := seed }
      pure (rngValue seed)

/-! ### operators.rs -/

inductive UnOp where | pos | neg | not
  deriving DecidableEq, Repr
inductive CmpOp where | eq | lt | le | gt | ge | ne
  deriving DecidableEq, Repr
inductive BinOp where
  | pow | mul | div | add | sub | cmp (c : CmpOp) | and | or
  deriving DecidableEq, Repr

def UnOp.ofToken : Token F → Option UnOp
  | .kw .Plus => some .pos
  | .kw .Minus => some .neg
  | .kw .Not => some .not
  | _ => none

def UnOp.eval (op : UnOp) (v : Value F) : Except Err (Value F) :=
  match op with
  | .pos => .ok v
  | .neg =>
    (match v with
     | .num x => .ok (.num (NumOps.neg x))
     | .str _ => .error .typeMismatch)
  | .not => .ok (Value.ofBool (!v.toBool))

def CmpOp.ofToken : Token F → Option CmpOp
  | .kw .Equals => some .eq
  | .kw .LessThan => some .lt
  | .kw .LessThanOrEqualTo => some .le
  | .kw .GreaterThan => some .gt
  | .kw .GreaterThanOrEqualTo => some .ge
  | .kw .NotEquals => some .ne
  | _ => none

def CmpOp.onNum (op : CmpOp) (a b : F) : Bool :=
  match op with
  | .eq => NumOps.eq a b
  | .lt => NumOps.lt a b
  | .le => NumOps.le a b
  | .gt => NumOps.gt a b
  | .ge => NumOps.ge a b
  | .ne => NumOps.ne a b

def CmpOp.onStr (op : CmpOp) (a b : Str) : Bool :=
  match op with
  | .eq => a == b
  | .lt => strLt a b
  | .le => strLe a b
  | .gt => strLt b a
  | .ge => strLe b a
  | .ne => a != b

def BinOp.eval (op : BinOp) (l r : Value F) : Except Err (Value F) :=
  match op with
  | .pow =>
    (match l, r with
     | .num a, .num b => .ok (.num (NumOps.pow a b))
     | _, _ => .error .typeMismatch)
  | .mul =>
    (match l, r with
     | .num a, .num b => .ok (.num (NumOps.mul a b))
     | _, _ => .error .typeMismatch)
  | .div =>
    (match l, r with
     | .num a, .num b =>
       if NumOps.eq b NumOps.zero then .error .divisionByZero else .ok (.num (NumOps.div a b))
     | _, _ => .error .typeMismatch)
  | .add =>
    (match l, r with
     | .num a, .num b => .ok (.num (NumOps.add a b))
     | _, _ => .error .typeMismatch)
  | .sub =>
    (match l, r with
     | .num a, .num b => .ok (.num (NumOps.sub a b))
     | _, _ => .error .typeMismatch)
  | .cmp c =>
    (match l, r with
     | .num a, .num b => .ok (Value.ofBool (c.onNum a b))
     | .str a, .str b => .ok (Value.ofBool (c.onStr a b))
     | _, _ => .error .typeMismatch)
  | .and => .ok (Value.ofBool (l.toBool && r.toBool))
  | .or => .ok (Value.ofBool (l.toBool || r.toBool))

end Abasic
