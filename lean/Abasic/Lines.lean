import Abasic.State
/- program_lines.rs -/
namespace Abasic
variable {F : Type}

namespace Lines

def getMap (n : Nat) : List (Nat × List (Token F)) → Option (List (Token F))
  | [] => none
  | (k, v) :: rest => if k == n then some v else getMap n rest

def setMap (n : Nat) (v : List (Token F)) : List (Nat × List (Token F)) → List (Nat × List (Token F))
  | [] => [(n, v)]
  | (k, v') :: rest => if k == n then (n, v) :: rest else (k, v') :: setMap n v rest

def eraseMap (n : Nat) : List (Nat × List (Token F)) → List (Nat × List (Token F))
  | [] => []
  | (k, v) :: rest => if k == n then eraseMap n rest else (k, v) :: eraseMap n rest

/-- `BTreeSet::insert` on an ascending list -/
def insertSorted (n : Nat) : List Nat → List Nat
  | [] => [n]
  | k :: rest => if n < k then n :: k :: rest else if n == k then k :: rest else k :: insertSorted n rest

def eraseSorted (n : Nat) : List Nat → List Nat
  | [] => []
  | k :: rest => if k == n then eraseSorted n rest else k :: eraseSorted n rest

def get (l : Lines F) (n : Nat) : Option (List (Token F)) := getMap n l.map
def has (l : Lines F) (n : Nat) : Bool := (l.get n).isSome
def first (l : Lines F) : Option Nat := l.sorted.head?

/-- `after`: the least stored line number greater than `n` -/
def afterList (n : Nat) : List Nat → Option Nat
  | [] => none
  | k :: rest => if n < k then some k else afterList n rest
def after (l : Lines F) (n : Nat) : Option Nat := afterList n l.sorted

/-- `set`: an empty token list deletes the line -/
def set (l : Lines F) (n : Nat) (ts : List (Token F)) : Lines F :=
  if ts.isEmpty then { map := eraseMap n l.map, sorted := eraseSorted n l.sorted }
  else { map := setMap n ts l.map, sorted := insertSorted n l.sorted }

/-- `list_tokens`: `none` stands for the `unwrap()` panic when the two indexes disagree -/
def listTokens (l : Lines F) : Option (List (Nat × List (Token F))) :=
  l.sorted.mapM (fun n => (l.get n).map (fun ts => (n, ts)))

end Lines

variable [NumOps F]

def renderTokens (ts : List (Token F)) : Str := joinWith [' '] (ts.map Token.render)

/-- how `ProgramLines::list` spells the tokens of a line: like `Display`, except
    that a numeral right after an identifier (which can only have been written
    with a leading decimal point) is listed without its leading zero, so that it
    is not absorbed into the identifier when the listing is read back; such a
    numeral can round up to 1, which is listed as a leading-point numeral that
    rounds the same way. -/
def listSpellings : Option (Token F) → List (Token F) → List Str
  | _, [] => []
  | prev, t :: rest =>
    let s := t.render
    let s :=
      match prev, t with
      | some (.symbol sym), .num _ =>
        if endsWithDollar sym then s
        else if s == ['0'] then ['.', '0']
        else if s == ['1'] then ".99999999999999999999".toList
        else if s.head? == some '0' then s.tail else s
      | _, _ => s
    s :: listSpellings (some t) rest

def listLine (ts : List (Token F)) : Str := joinWith [' '] (listSpellings none ts)

/-- `ProgramLines::list`: one text per line, each ending in a newline -/
def Lines.list (l : Lines F) : Option (List Str) :=
  l.listTokens.map (fun ls => ls.map (fun (n, ts) => natToStr n ++ ' ' :: listLine ts ++ ['\n']))

/-- `data_iterator`: the DATA chunks in line order -/
def Lines.dataChunks (l : Lines F) : Option (List (Loc × List (DataElement F))) :=
  l.listTokens.map (fun ls =>
    ls.flatMap (fun (n, ts) =>
      (ts.zipIdx).filterMap (fun (t, i) =>
        match t with
        | .data items => some ({ line := some n, idx := i }, items)
        | _ => none)))

end Abasic
