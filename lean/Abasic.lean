-- This module serves as the root of the `Abasic` library.
-- Import modules here that should be built as part of the library.
import Abasic.Basic
