import Abasic.Extracted
import Abasic.Num
import Abasic.Text
import Abasic.Token
import Abasic.LineNumber
import Abasic.Data
import Abasic.Tokenizer
