import Abasic.Exec.Driver

def main : IO Unit := do
  let stdin ← IO.getStdin
  let stdout ← IO.getStdout
  Abasic.Exec.loop stdin stdout {}
