import Q.Basic
namespace Q

inductive Expr | num (n : Int) | neg (e : Expr) | bin (k id : Nat) (l r : Expr) | paren (e : Expr)
deriving Repr

def Expr.eval : Expr → Except Err Int
  | .num n => .ok n
  | .paren e => e.eval
  | .neg e => match e.eval with | .ok v => .ok (-v) | .error x => .error x
  | .bin k id l r =>
    match l.eval with
    | .error x => .error x
    | .ok a => match r.eval with
      | .error x => .error x
      | .ok b => applyOp k id a b

def Expr.prec : Expr → Nat
  | .num _ => 0 | .paren _ => 0 | .neg _ => 0 | .bin k _ _ _ => k + 1

def Expr.isAtom : Expr → Bool
  | .num _ => true | .paren _ => true | _ => false

def Expr.depth : Expr → Nat
  | .num _ => 0
  | .paren e => e.depth + 1
  | .neg e => e.depth + 1
  | .bin _ _ l r => max l.depth r.depth + 1

/-- all operator levels used are real levels -/
def Expr.WF : Expr → Prop
  | .num _ => True
  | .paren e => e.WF
  | .neg e => e.WF
  | .bin k _ l r => k < nLevels ∧ l.WF ∧ r.WF

mutual
def Expr.raw : Expr → List Tok
  | .num n => [Tok.num n]
  | .paren e => Tok.lp :: (e.raw ++ [Tok.rp])
  | .neg e => Tok.neg :: (if e.isAtom then e.raw else Tok.lp :: (e.raw ++ [Tok.rp]))
  | .bin k id l r =>
      (if l.prec ≤ k + 1 then l.raw else Tok.lp :: (l.raw ++ [Tok.rp]))
      ++ Tok.op k id ::
      (if r.prec ≤ k then r.raw else Tok.lp :: (r.raw ++ [Tok.rp]))
end

def renderAt (j : Nat) (e : Expr) : List Tok :=
  if e.prec ≤ j then e.raw else Tok.lp :: (e.raw ++ [Tok.rp])

/-- head of `rest` is not a binary operator of level < j -/
def Ends (j : Nat) (rest : List Tok) : Prop :=
  ∀ k id, rest.head? = some (Tok.op k id) → j ≤ k

def spine (k : Nat) : Expr → Nat
  | .bin k' _ l _ => if k' = k then spine k l + 1 else 0
  | _ => 0

#eval evalTop 5 { toks := (Expr.bin 1 0 (.num 1) (.bin 0 0 (.num 2) (.neg (.bin 1 1 (.num 3) (.num 4))))).raw, idx := 0 }
end Q
