import Q.Spec
namespace Q

def At (σ : St) (pre mid rest : List Tok) : Prop :=
  σ.toks = pre ++ (mid ++ rest) ∧ σ.idx = pre.length

def St.after (σ : St) (n : Nat) : St := { σ with idx := σ.idx + n }

def Agrees (r : Res Int) (ev : Except Err Int) (k : Int → Res Int) : Prop :=
  match ev with
  | .ok v => r = k v
  | .error x => ∃ σ', r = .err x σ'

theorem peek_cons {σ pre t mid rest} (h : At σ pre (t :: mid) rest) : peek σ = some t := by
  obtain ⟨h1, h2⟩ := h
  simp [peek, h1, h2]

theorem peek_nil {σ pre rest} (h : At σ pre [] rest) : peek σ = rest.head? := by
  obtain ⟨h1, h2⟩ := h
  simp [peek, h1, h2, List.head?_eq_getElem?, List.getElem?_append_right]

theorem at_adv {σ pre t mid rest} (h : At σ pre (t :: mid) rest) :
    At (adv σ) (pre ++ [t]) mid rest := by
  obtain ⟨h1, h2⟩ := h
  simp [At, adv, h1, h2]

theorem at_split {σ pre a b rest} (h : At σ pre (a ++ b) rest) : At σ pre a (b ++ rest) := by
  obtain ⟨h1, h2⟩ := h
  simp [At, h1, h2]

theorem at_after {σ pre a b rest} (h : At σ pre (a ++ b) rest) :
    At (σ.after a.length) (pre ++ a) b rest := by
  obtain ⟨h1, h2⟩ := h
  simp [At, St.after, h1, h2]

theorem after_after (σ : St) (a b : Nat) : (σ.after a).after b = σ.after (a + b) := by
  simp [St.after, Nat.add_assoc]

theorem adv_eq_after (σ : St) : adv σ = σ.after 1 := rfl

theorem after_toks (σ : St) (n : Nat) : (σ.after n).toks = σ.toks := rfl

/-- a loop at level `k` stops immediately if the head of the rest is not an op of level `k`. -/
theorem loop_stop {next k n acc σ pre rest} (h : At σ pre [] rest)
    (hne : ∀ id, rest.head? ≠ some (Tok.op k id)) :
    loopLevel next k (n+1) acc σ = .ok acc σ := by
  have hp := peek_nil h
  unfold loopLevel
  rw [hp]
  cases hr : rest.head? with
  | none => rfl
  | some t =>
    cases t with
    | op k' id =>
      by_cases hk : k' = k
      · subst hk; exact absurd hr (hne id)
      · simp [hk]
    | _ => rfl

end Q

namespace Q

def fixP (j : Nat) (x : Expr) : Expr := if x.prec ≤ j then x else .paren x
def fixA (x : Expr) : Expr := if x.isAtom then x else .paren x

theorem raw_paren (x : Expr) : (Expr.paren x).raw = Tok.lp :: (x.raw ++ [Tok.rp]) := by
  simp [Expr.raw]

theorem raw_bin (k id : Nat) (l r : Expr) :
    (Expr.bin k id l r).raw = (fixP (k+1) l).raw ++ Tok.op k id :: (fixP k r).raw := by
  simp only [Expr.raw, fixP]
  split <;> split <;> simp [Expr.raw]

theorem raw_neg (x : Expr) : (Expr.neg x).raw = Tok.neg :: (fixA x).raw := by
  simp only [Expr.raw, fixA]
  split <;> simp [Expr.raw]

def PStmt (e : Expr) : Prop :=
  ∀ (f j : Nat) (σ : St) (pre rest : List Tok),
    e.depth ≤ f → e.WF → e.prec ≤ j → j ≤ nLevels → Ends j rest → At σ pre e.raw rest →
    Agrees (parseLevel (evalTop f) j σ) e.eval (fun v => .ok v (σ.after e.raw.length))

def SStmt (e : Expr) : Prop :=
  ∀ (f k n : Nat) (σ : St) (pre rest : List Tok),
    e.depth ≤ f → e.WF → e.prec ≤ k + 1 → k < nLevels → Ends k rest → At σ pre e.raw rest →
    Agrees ((parseLevel (evalTop f) k σ).bind
              (loopLevel (parseLevel (evalTop f) k) k (n + spine k e)))
      e.eval (fun v => loopLevel (parseLevel (evalTop f) k) k n v (σ.after e.raw.length))

/-- lifting a result at level `i` to level `j ≥ i` when nothing looser-or-equal follows -/
theorem lift_level (top : St → Res Int) (ev : Except Err Int) (σ σe : St) (pre' rest : List Tok)
    (i j : Nat) (hij : i ≤ j) (hE : Ends j rest) (hAt : At σe pre' [] rest)
    (h : Agrees (parseLevel top i σ) ev (fun v => .ok v σe)) :
    Agrees (parseLevel top j σ) ev (fun v => .ok v σe) := by
  induction j with
  | zero => have : i = 0 := by omega
            subst this; exact h
  | succ j ih =>
    by_cases hi : i = j + 1
    · subst hi; exact h
    · have hij' : i ≤ j := by omega
      have hE' : Ends j rest := fun k id hk => by have := hE k id hk; omega
      have ih' := ih hij' hE'
      cases ev with
      | error x =>
        obtain ⟨σ', hσ'⟩ := ih'
        exact ⟨σ', by simp [parseLevel, hσ', Res.bind]⟩
      | ok v =>
        simp only [Agrees] at ih' ⊢
        simp only [parseLevel, ih', Res.bind]
        apply loop_stop hAt
        intro id hc
        have := hE j id hc
        omega

end Q

namespace Q

theorem ends_rp (j : Nat) (rest : List Tok) : Ends j (Tok.rp :: rest) := by
  intro k id h; simp at h

theorem at_nil_after {σ pre mid rest} (h : At σ pre mid rest) :
    At (σ.after mid.length) (pre ++ mid) [] rest := by
  have := at_after (a := mid) (b := []) (rest := rest) (σ := σ) (pre := pre) (by simpa using h)
  simpa using this

/-- parenthesised atom, given the statement for the inside -/
theorem atom_paren (x : Expr) (hx : PStmt x) (f : Nat) (σ : St) (pre rest : List Tok)
    (hd : x.depth + 1 ≤ f) (hwf : x.WF) (hAt : At σ pre (Tok.lp :: (x.raw ++ [Tok.rp])) rest) :
    Agrees (atom (evalTop f) σ) x.eval (fun v => .ok v (σ.after (x.raw.length + 2))) := by
  obtain ⟨f', rfl⟩ : ∃ f', f = f' + 1 := ⟨f - 1, by omega⟩
  have hpk := peek_cons hAt
  have hAt1 := at_adv hAt
  have hAt1' : At (adv σ) (pre ++ [Tok.lp]) x.raw (Tok.rp :: rest) := by
    have := at_split hAt1; simpa using this
  have hprec : x.prec ≤ nLevels := by
    cases x <;> simp [Expr.prec, Expr.WF] at hwf ⊢
    omega
  have hP := hx f' nLevels (adv σ) _ _ (by omega) hwf hprec (Nat.le_refl _) (ends_rp _ _) hAt1'
  have hAt2 := at_nil_after hAt1'
  have hpk2 : peek ((adv σ).after x.raw.length) = some Tok.rp := by
    have := peek_nil hAt2; simpa using this
  unfold atom
  rw [hpk]
  simp only [evalTop]
  cases hev : x.eval with
  | error e =>
    rw [hev] at hP
    obtain ⟨σ', hσ'⟩ := hP
    exact ⟨σ', by simp [hσ', Res.bind]⟩
  | ok v =>
    rw [hev] at hP
    simp only [Agrees] at hP ⊢
    simp only [hP, Res.bind, hpk2]
    simp only [adv_eq_after, after_after]
    have e1 : 1 + x.raw.length + 1 = x.raw.length + 2 := by omega
    first | rw [e1] | (congr 1; simp only [St.after]; congr 1; omega)

theorem atom_num (top : St → Res Int) (n : Int) (σ : St) (pre rest : List Tok)
    (hAt : At σ pre [Tok.num n] rest) : atom top σ = .ok n (σ.after 1) := by
  have hpk := peek_cons hAt
  simp [atom, hpk, adv_eq_after]

end Q

namespace Q

theorem ends_zero (rest : List Tok) : Ends 0 rest := fun _ _ _ => Nat.zero_le _

theorem ends_mono {i j rest} (h : Ends j rest) (hij : i ≤ j) : Ends i rest :=
  fun k id hk => Nat.le_trans hij (h k id hk)

theorem fixP_eval (j x) : (fixP j x).eval = x.eval := by
  unfold fixP; split <;> simp [Expr.eval]
theorem fixA_eval (x) : (fixA x).eval = x.eval := by
  unfold fixA; split <;> simp [Expr.eval]
theorem fixP_prec (j x) : (fixP j x).prec ≤ j := by
  unfold fixP; split <;> simp_all [Expr.prec]
theorem fixP_depth (j x) : (fixP j x).depth ≤ x.depth + 1 := by
  unfold fixP; split <;> simp [Expr.depth]
theorem fixA_depth (x) : (fixA x).depth ≤ x.depth + 1 := by
  unfold fixA; split <;> simp [Expr.depth]
theorem fixP_wf (j x) (h : x.WF) : (fixP j x).WF := by
  unfold fixP; split <;> simp_all [Expr.WF]
theorem fixA_wf (x) (h : x.WF) : (fixA x).WF := by
  unfold fixA; split <;> simp_all [Expr.WF]

theorem wf_prec {x : Expr} (h : x.WF) : x.prec ≤ nLevels := by
  cases x <;> simp [Expr.prec, Expr.WF] at h ⊢
  omega

theorem agrees_after_congr {r : Res Int} {ev σ a b} (h : Agrees r ev (fun v => .ok v (St.after σ a)))
    (hab : a = b) : Agrees r ev (fun v => .ok v (St.after σ b)) := by subst hab; exact h

/-- level-0 statement for a parenthesised expression -/
theorem P0_paren (x : Expr) (hx : PStmt x) (f : Nat) (σ : St) (pre rest : List Tok)
    (hd : x.depth + 1 ≤ f) (hwf : x.WF) (hAt : At σ pre (Expr.paren x).raw rest) :
    Agrees (parseLevel (evalTop f) 0 σ) x.eval (fun v => .ok v (σ.after (Expr.paren x).raw.length)) := by
  rw [raw_paren] at hAt
  have hpk := peek_cons hAt
  have := atom_paren x hx f σ pre rest hd hwf hAt
  simp only [parseLevel, unary, hpk, raw_paren]
  exact agrees_after_congr this (by simp)

theorem P_paren (x : Expr) (hx : PStmt x) : PStmt (.paren x) := by
  intro f j σ pre rest hd hwf _ _ hE hAt
  have h0 := P0_paren x hx f σ pre rest (by simpa [Expr.depth] using hd) (by simpa [Expr.WF] using hwf) hAt
  have hAt' := at_nil_after hAt
  exact lift_level _ _ _ _ _ _ 0 j (Nat.zero_le _) hE hAt' (by simpa [Expr.eval] using h0)

theorem P_num (n : Int) : PStmt (.num n) := by
  intro f j σ pre rest _ _ _ _ hE hAt
  have hAt0 : At σ pre [Tok.num n] rest := by simpa [Expr.raw] using hAt
  have hpk := peek_cons hAt0
  have h0 : Agrees (parseLevel (evalTop f) 0 σ) (Expr.num n).eval
      (fun v => .ok v (σ.after (Expr.num n).raw.length)) := by
    simp [Agrees, Expr.eval, parseLevel, unary, hpk, atom, Expr.raw, adv_eq_after]
  exact lift_level _ _ _ _ _ _ 0 j (Nat.zero_le _) hE (at_nil_after hAt) h0

/-- `atom` on the rendering of an atom-shaped expression -/
theorem atom_of_atom (x : Expr) (hx : PStmt x) (hat : x.isAtom = true) (f : Nat) (σ : St)
    (pre rest : List Tok) (hd : x.depth ≤ f) (hwf : x.WF) (hAt : At σ pre x.raw rest) :
    Agrees (atom (evalTop f) σ) x.eval (fun v => .ok v (σ.after x.raw.length)) := by
  have h := hx f 0 σ pre rest hd hwf (by cases x <;> simp_all [Expr.isAtom, Expr.prec])
    (Nat.zero_le _) (ends_zero _) hAt
  cases x with
  | num n =>
    have hAt0 : At σ pre [Tok.num n] rest := by simpa [Expr.raw] using hAt
    simpa [parseLevel, unary, peek_cons hAt0] using h
  | paren y =>
    have hAt0 := hAt
    rw [raw_paren] at hAt0
    simpa [parseLevel, unary, peek_cons hAt0] using h
  | neg _ => simp [Expr.isAtom] at hat
  | bin _ _ _ _ => simp [Expr.isAtom] at hat

theorem fixA_isAtom (x) : (fixA x).isAtom = true := by
  unfold fixA; split <;> simp_all [Expr.isAtom]

theorem P_fixA (x : Expr) (hx : PStmt x) : PStmt (fixA x) := by
  unfold fixA; split
  · exact hx
  · exact P_paren x hx

theorem P_fixP (j : Nat) (x : Expr) (hx : PStmt x) : PStmt (fixP j x) := by
  unfold fixP; split
  · exact hx
  · exact P_paren x hx

theorem P_neg (x : Expr) (hx : PStmt x) : PStmt (.neg x) := by
  intro f j σ pre rest hd hwf _ _ hE hAt
  have hd' : x.depth + 1 ≤ f := by simpa [Expr.depth] using hd
  have hwf' : x.WF := by simpa [Expr.WF] using hwf
  have hAt0 := hAt
  rw [raw_neg] at hAt0
  have hpk := peek_cons hAt0
  have hAt1 := at_adv hAt0
  have ha := atom_of_atom (fixA x) (P_fixA x hx) (fixA_isAtom x) f (adv σ) _ rest
    (Nat.le_trans (fixA_depth x) hd') (fixA_wf x hwf') hAt1
  have h0 : Agrees (parseLevel (evalTop f) 0 σ) (Expr.neg x).eval
      (fun v => .ok v (σ.after (Expr.neg x).raw.length)) := by
    simp only [parseLevel, unary, hpk, raw_neg]
    rw [fixA_eval] at ha
    cases hev : x.eval with
    | error e =>
      rw [hev] at ha
      obtain ⟨σ', hσ'⟩ := ha
      simp only [Agrees, Expr.eval, hev]
      exact ⟨σ', by simp [hσ', Res.bind]⟩
    | ok v =>
      rw [hev] at ha
      simp only [Agrees, adv_eq_after, after_after] at ha
      simp only [Agrees, Expr.eval, hev, Res.bind, adv_eq_after, List.length_cons, ha]
      have e1 : 1 + (fixA x).raw.length = (fixA x).raw.length + 1 := by omega
      rw [e1]
  exact lift_level _ _ _ _ _ _ 0 j (Nat.zero_le _) hE (at_nil_after hAt) h0

end Q

namespace Q

theorem spine_le_raw (k : Nat) (e : Expr) : spine k e ≤ e.raw.length := by
  induction e with
  | num n => simp [spine]
  | neg x _ => simp [spine]
  | paren x _ => simp [spine]
  | bin k' id l r ihl _ =>
    simp only [spine]
    split
    · rw [raw_bin]
      have : (fixP (k'+1) l).raw.length ≥ l.raw.length := by
        unfold fixP; split <;> simp [Expr.raw] <;> omega
      simp; omega
    · omega

theorem spine_fixP (k : Nat) (l : Expr) : spine k (fixP (k+1) l) = spine k l := by
  unfold fixP
  split
  · rfl
  · rename_i h
    cases l with
    | bin k' id a b =>
      simp [Expr.prec] at h
      have : k' ≠ k := by omega
      simp [spine, this]
    | _ => simp [Expr.prec] at h

/-- S from P when `e` is tighter than level `k` (no spine at level k). -/
theorem S_of_P (e : Expr) (hP : PStmt e) (f k n : Nat) (σ : St) (pre rest : List Tok)
    (hd : e.depth ≤ f) (hwf : e.WF) (hprec : e.prec ≤ k) (hk : k < nLevels)
    (hE : Ends k rest) (hAt : At σ pre e.raw rest) (hs : spine k e = 0) :
    Agrees ((parseLevel (evalTop f) k σ).bind
              (loopLevel (parseLevel (evalTop f) k) k (n + spine k e)))
      e.eval (fun v => loopLevel (parseLevel (evalTop f) k) k n v (σ.after e.raw.length)) := by
  have h := hP f k σ pre rest hd hwf hprec (Nat.le_of_lt hk) hE hAt
  rw [hs]
  cases hev : e.eval with
  | error x =>
    rw [hev] at h; obtain ⟨σ', hσ'⟩ := h
    exact ⟨σ', by simp [hσ', Res.bind]⟩
  | ok v =>
    rw [hev] at h
    simp only [Agrees] at h ⊢
    simp [h, Res.bind]

theorem spine_zero_of_prec {k : Nat} {e : Expr} (h : e.prec ≤ k) : spine k e = 0 := by
  cases e with
  | bin k' id l r =>
    simp [Expr.prec] at h
    have : k' ≠ k := by omega
    simp [spine, this]
  | _ => simp [spine]

theorem S_paren (x : Expr) (hx : PStmt x) : SStmt (.paren x) := by
  intro f k n σ pre rest hd hwf _ hk hE hAt
  exact S_of_P _ (P_paren x hx) f k n σ pre rest hd hwf (by simp [Expr.prec]) hk hE hAt (by simp [spine])

theorem S_fixP (x : Expr) (hP : PStmt x) (hS : SStmt x) (j : Nat) : SStmt (fixP j x) := by
  unfold fixP; split
  · exact hS
  · exact S_paren x hP

/-- The spine case: `bin k id l r` parsed by the level-`k` loop. -/
theorem S_bin_same (k id : Nat) (l r : Expr)
    (hPl : PStmt l) (hSl : SStmt l) (hPr : PStmt r)
    (f n : Nat) (σ : St) (pre rest : List Tok)
    (hd : (Expr.bin k id l r).depth ≤ f) (hwf : (Expr.bin k id l r).WF) (hk : k < nLevels)
    (hE : Ends k rest) (hAt : At σ pre (Expr.bin k id l r).raw rest) :
    Agrees ((parseLevel (evalTop f) k σ).bind
              (loopLevel (parseLevel (evalTop f) k) k (n + spine k (Expr.bin k id l r))))
      (Expr.bin k id l r).eval
      (fun v => loopLevel (parseLevel (evalTop f) k) k n v (σ.after (Expr.bin k id l r).raw.length)) := by
  obtain ⟨_, hwl, hwr⟩ : k < nLevels ∧ l.WF ∧ r.WF := by simpa [Expr.WF] using hwf
  have hdl : l.depth + 1 ≤ f := by simp [Expr.depth] at hd; omega
  have hdr : r.depth + 1 ≤ f := by simp [Expr.depth] at hd; omega
  rw [raw_bin] at hAt
  -- left operand, with budget n+1
  have hAtL : At σ pre (fixP (k+1) l).raw (Tok.op k id :: (fixP k r).raw ++ rest) := by
    have := at_split hAt; simpa using this
  have hEL : Ends k (Tok.op k id :: (fixP k r).raw ++ rest) := by
    intro k' id' h; simp at h; omega
  have hL := S_fixP l hPl hSl (k+1) f k (n+1) σ pre _
    (Nat.le_trans (fixP_depth _ _) hdl) (fixP_wf _ _ hwl) (fixP_prec _ _) hk hEL hAtL
  rw [spine_fixP, fixP_eval] at hL
  have hsp : n + spine k (Expr.bin k id l r) = n + 1 + spine k l := by simp [spine]; omega
  rw [hsp]
  -- position after the left operand
  have hAtL' : At (σ.after (fixP (k+1) l).raw.length) (pre ++ (fixP (k+1) l).raw)
      (Tok.op k id :: (fixP k r).raw) rest := by
    have := at_after hAt; simpa using this
  have hpk := peek_cons hAtL'
  have hAtR := at_adv hAtL'
  have hR := P_fixP k r hPr f k (adv (σ.after (fixP (k+1) l).raw.length)) _ rest
    (Nat.le_trans (fixP_depth _ _) hdr) (fixP_wf _ _ hwr) (fixP_prec _ _) (Nat.le_of_lt hk) hE hAtR
  rw [fixP_eval] at hR
  cases hel : l.eval with
  | error x =>
    rw [hel] at hL; obtain ⟨σ', hσ'⟩ := hL
    simp only [Agrees, Expr.eval, hel]
    exact ⟨σ', hσ'⟩
  | ok a =>
    rw [hel] at hL
    simp only [Agrees] at hL
    rw [hL]
    -- one iteration of the loop
    cases her : r.eval with
    | error x =>
      rw [her] at hR; obtain ⟨σ', hσ'⟩ := hR
      simp only [Agrees, Expr.eval, hel, her]
      exact ⟨σ', by simp [loopLevel, hpk, hσ', Res.bind]⟩
    | ok b =>
      rw [her] at hR
      simp only [Agrees] at hR
      simp only [Agrees, Expr.eval, hel, her]
      cases hop : applyOp k id a b with
      | error x =>
        refine ⟨(adv (σ.after (fixP (k + 1) l).raw.length)).after (fixP k r).raw.length, ?_⟩
        simp [loopLevel, hpk, hR, Res.bind, hop]
      | ok c =>
        simp only [loopLevel, hpk, hR, Res.bind, hop, if_true]
        simp only [adv_eq_after, after_after, raw_bin, List.length_append, List.length_cons]
        congr 2; omega

end Q

namespace Q

theorem at_len {σ pre mid rest} (h : At σ pre mid rest) : mid.length ≤ σ.toks.length := by
  obtain ⟨h1, _⟩ := h; simp [h1]; omega

/-- P for a binary node from its own spine statement. -/
theorem P_bin_of_S (k id : Nat) (l r : Expr)
    (hS : ∀ (f n : Nat) (σ : St) (pre rest : List Tok),
      (Expr.bin k id l r).depth ≤ f → (Expr.bin k id l r).WF → k < nLevels → Ends k rest →
      At σ pre (Expr.bin k id l r).raw rest →
      Agrees ((parseLevel (evalTop f) k σ).bind
              (loopLevel (parseLevel (evalTop f) k) k (n + spine k (Expr.bin k id l r))))
        (Expr.bin k id l r).eval
        (fun v => loopLevel (parseLevel (evalTop f) k) k n v (σ.after (Expr.bin k id l r).raw.length))) :
    PStmt (.bin k id l r) := by
  intro f j σ pre rest hd hwf hprec hj hE hAt
  have hk : k < nLevels := by simp [Expr.WF] at hwf; exact hwf.1
  have hkj : k + 1 ≤ j := by simpa [Expr.prec] using hprec
  -- budget bookkeeping
  have hlen := at_len hAt
  have hsp := spine_le_raw k (Expr.bin k id l r)
  obtain ⟨n, hn⟩ : ∃ n, σ.toks.length + 1 = (n + 1) + spine k (Expr.bin k id l r) :=
    ⟨σ.toks.length - spine k (Expr.bin k id l r), by omega⟩
  have h := hS f (n+1) σ pre rest hd hwf hk (ends_mono hE (by omega)) hAt
  have hAt' := at_nil_after hAt
  have hstop : ∀ v, loopLevel (parseLevel (evalTop f) k) k (n+1) v
      (σ.after (Expr.bin k id l r).raw.length) = .ok v (σ.after (Expr.bin k id l r).raw.length) := by
    intro v
    apply loop_stop hAt'
    intro id' hc
    have := hE k id' hc
    omega
  have h1 : Agrees (parseLevel (evalTop f) (k+1) σ) (Expr.bin k id l r).eval
      (fun v => .ok v (σ.after (Expr.bin k id l r).raw.length)) := by
    simp only [parseLevel]
    rw [hn]
    cases hev : (Expr.bin k id l r).eval with
    | error x => rw [hev] at h; exact h
    | ok v =>
      rw [hev] at h
      simp only [Agrees] at h ⊢
      rw [h, hstop]
  exact lift_level _ _ _ _ _ _ (k+1) j hkj hE hAt' h1

theorem main (e : Expr) : PStmt e ∧ SStmt e := by
  induction e with
  | num n =>
    refine ⟨P_num n, ?_⟩
    intro f k m σ pre rest hd hwf _ hk hE hAt
    exact S_of_P _ (P_num n) f k m σ pre rest hd hwf (by simp [Expr.prec]) hk hE hAt (by simp [spine])
  | paren x ih => exact ⟨P_paren x ih.1, S_paren x ih.1⟩
  | neg x ih =>
    refine ⟨P_neg x ih.1, ?_⟩
    intro f k m σ pre rest hd hwf _ hk hE hAt
    exact S_of_P _ (P_neg x ih.1) f k m σ pre rest hd hwf (by simp [Expr.prec]) hk hE hAt (by simp [spine])
  | bin k id l r ihl ihr =>
    have hP : PStmt (.bin k id l r) :=
      P_bin_of_S k id l r (fun f n σ pre rest hd hwf hk hE hAt =>
        S_bin_same k id l r ihl.1 ihl.2 ihr.1 f n σ pre rest hd hwf hk hE hAt)
    refine ⟨hP, ?_⟩
    intro f k' m σ pre rest hd hwf hprec hk' hE hAt
    by_cases hkk : k = k'
    · subst hkk
      exact S_bin_same k id l r ihl.1 ihl.2 ihr.1 f m σ pre rest hd hwf hk' hE hAt
    · have hp : (Expr.bin k id l r).prec ≤ k' := by
        simp [Expr.prec] at hprec ⊢; omega
      exact S_of_P _ hP f k' m σ pre rest hd hwf hp hk' hE hAt (spine_zero_of_prec hp)

/-- The calibration theorem: for every well-formed expression tree, evaluating its rendering
    (followed by anything that is not a binary operator) with enough fuel yields exactly the
    fold of the tree, errors included, and leaves the cursor just after the rendering. -/
theorem eval_render (e : Expr) (σ : St) (pre rest : List Tok) (f : Nat)
    (hwf : e.WF) (hf : e.depth < f) (hE : Ends nLevels rest) (hAt : At σ pre e.raw rest) :
    Agrees (evalTop f σ) e.eval (fun v => .ok v (σ.after e.raw.length)) := by
  obtain ⟨f', rfl⟩ : ∃ f', f = f' + 1 := ⟨f - 1, by omega⟩
  simp only [evalTop]
  exact (main e).1 f' nLevels σ pre rest (by omega) hwf (wf_prec hwf) (Nat.le_refl _) hE hAt

end Q

#print axioms Q.eval_render
