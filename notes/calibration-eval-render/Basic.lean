/-! Calibration prototype (not part of the deliverable). -/
namespace Q

inductive Tok | num (n : Int) | op (k : Nat) (id : Nat) | lp | rp | neg
deriving DecidableEq, Repr

inductive Err | syntax | fuel | div | iter
deriving DecidableEq, Repr

structure St where
  toks : List Tok
  idx  : Nat
  reads : Nat := 0
deriving Repr

inductive Res (α : Type) | ok (a : α) (σ : St) | err (e : Err) (σ : St)
deriving Repr

@[inline] def Res.bind {α β} (r : Res α) (f : α → St → Res β) : Res β :=
  match r with | .ok a σ => f a σ | .err e σ => .err e σ

def peek (σ : St) : Option Tok := σ.toks[σ.idx]?
def adv (σ : St) : St := { σ with idx := σ.idx + 1 }

def applyOp (k id : Nat) (a b : Int) : Except Err Int :=
  if k = 0 then (if id = 1 then (if b = 0 then .error .div else .ok (a / b)) else .ok (a * b))
  else if id = 1 then .ok (a - b) else .ok (a + b)

/-- `while let Some(op) = try_next_token(level k)` loop, budget `n` iterations. -/
def loopLevel (next : St → Res Int) (k : Nat) : Nat → Int → St → Res Int
  | 0, _, σ => .err .iter σ
  | n+1, acc, σ =>
    match peek σ with
    | some (Tok.op k' id) =>
      if k' = k then
        (next (adv σ)).bind fun v σ' =>
          match applyOp k id acc v with
          | .error e => .err e σ'
          | .ok acc' => loopLevel next k n acc' σ'
      else .ok acc σ
    | _ => .ok acc σ

def atom (top : St → Res Int) (σ : St) : Res Int :=
  match peek σ with
  | some (Tok.num n) => .ok n (adv σ)
  | some Tok.lp =>
    (top (adv σ)).bind fun v σ' =>
      match peek σ' with
      | some Tok.rp => .ok v (adv σ')
      | _ => .err .syntax σ'
  | _ => .err .syntax σ

def unary (top : St → Res Int) (σ : St) : Res Int :=
  match peek σ with
  | some Tok.neg => (atom top (adv σ)).bind fun v σ' => .ok (-v) σ'
  | _ => atom top σ

/-- parseLevel j : j = 0 is the unary level; level j+1 handles binary ops with k = j. -/
def parseLevel (top : St → Res Int) : Nat → St → Res Int
  | 0, σ => unary top σ
  | j+1, σ => (parseLevel top j σ).bind fun v σ' =>
      loopLevel (parseLevel top j) j (σ.toks.length + 1) v σ'

def nLevels : Nat := 2

def evalTop : Nat → St → Res Int
  | 0, σ => .err .fuel σ
  | f+1, σ => parseLevel (evalTop f) nLevels σ

end Q
