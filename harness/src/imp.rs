//! The implementation side of the line protocol: the same operation lines the
//! Lean driver reads are executed against the real crate, in-process, and
//! produce the same canonical reply lines.
use abasic_core::verif_hooks as hooks;
use abasic_core::{Interpreter, InterpreterOutput, InterpreterState, TracedInterpreterError};
use std::panic::{catch_unwind, AssertUnwindSafe};

pub fn hex(s: &str) -> String {
    hooks::hex(s.as_bytes())
}

pub fn unhex(h: &str) -> Option<String> {
    let b = h.as_bytes();
    if b.len() % 2 != 0 {
        return None;
    }
    let mut out = Vec::with_capacity(b.len() / 2);
    for i in (0..b.len()).step_by(2) {
        let hi = (b[i] as char).to_digit(16)?;
        let lo = (b[i + 1] as char).to_digit(16)?;
        out.push((hi * 16 + lo) as u8);
    }
    String::from_utf8(out).ok()
}

pub fn state_name(state: InterpreterState) -> &'static str {
    match state {
        InterpreterState::Idle => "Idle",
        InterpreterState::Running => "Running",
        InterpreterState::AwaitingInput => "AwaitingInput",
        InterpreterState::NewInterpreterRequested => "NewInterpreterRequested",
    }
}

pub fn enc_out(o: &InterpreterOutput, opaque: bool) -> String {
    fn optn(n: &Option<u64>) -> String {
        match n {
            None => "-".to_string(),
            Some(n) => n.to_string(),
        }
    }
    match o {
        InterpreterOutput::Print(s) => {
            if opaque {
                "O".to_string()
            } else {
                format!("P:{}", hex(s))
            }
        }
        InterpreterOutput::Break(n) => format!("B:{}", optn(n)),
        InterpreterOutput::Warning(m, n) => format!("W:{}:{}", hex(m), optn(n)),
        InterpreterOutput::Trace(n) => format!("T:{}", n),
        InterpreterOutput::ExtraIgnored => "X".to_string(),
        InterpreterOutput::Reenter => "R".to_string(),
    }
}

pub fn enc_f64(x: f64) -> String {
    hooks::enc_f64(x)
}

pub fn dec_f64(s: &str) -> f64 {
    if s == "nan" {
        f64::NAN
    } else {
        f64::from_bits(u64::from_str_radix(s, 16).unwrap_or(0))
    }
}

/// the text printed by INTERNALS / STATS is not modelled: the command emits exactly one Print record, the last one of
/// the event (records still pending from an earlier tick come before it); show it as the model's opaque record
fn opaque_prints(r: &str) -> String {
    let mut parts: Vec<String> = r.split(' ').map(|p| p.to_string()).collect();
    if let Some(k) = parts.iter().rposition(|p| p.starts_with("print:") || p.starts_with("ui=print:")) {
        let lead = if parts[k].starts_with("ui=") { "ui=" } else { "" };
        parts[k] = format!("{}warning:{}", lead, hex("<opaque>\n"));
    }
    parts.join(" ")
}

fn first_word_is(line: &str, words: &[&str]) -> bool {
    match line.to_uppercase().split_ascii_whitespace().next() {
        Some(w) => words.contains(&w.to_ascii_uppercase().as_str()),
        None => false,
    }
}

/// A running `abasic-lsp` server spoken to over stdio (Content-Length framed JSON-RPC).
pub struct LspServer {
    child: std::process::Child,
    stdin: std::process::ChildStdin,
    stdout: std::io::BufReader<std::process::ChildStdout>,
    opened_uris: Vec<usize>,
    /// the version the client last sent for each open document: it grows with every change and starts again at 1 when the
    /// document is opened again, as editors do
    versions: std::collections::HashMap<usize, u64>,
    next_id: u64,
}

impl LspServer {
    pub fn start() -> Option<LspServer> {
        Self::start_with(0)
    }
    /// the client's side of the handshake varies (what it offers is only an offer: the server's answer did not announce a
    /// position encoding, so UTF-16 is in force whatever the client listed)
    pub fn start_with(variant: usize) -> Option<LspServer> {
        let params = match variant % 5 {
            0 => r#"{"capabilities":{}}"#,
            1 => r#"{"capabilities":{"general":{"positionEncodings":["utf-8"]}}}"#,
            2 => r#"{"capabilities":{"general":{"positionEncodings":["utf-8","utf-16"]}}}"#,
            3 => r#"{"capabilities":{"general":{"positionEncodings":["utf-16","utf-8"]}}}"#,
            _ => r#"{"processId":1,"clientInfo":{"name":"probe","version":"1"},"rootUri":null,"capabilities":{"textDocument":{"semanticTokens":{"requests":{"full":true},"tokenTypes":["variable"],"tokenModifiers":[],"formats":["relative"],"multilineTokenSupport":true,"overlappingTokenSupport":true},"publishDiagnostics":{"relatedInformation":true}},"general":{"positionEncodings":["utf-32","utf-8","utf-16"]}},"trace":"verbose","workspaceFolders":null}"#,
        };
        let bin = std::env::var("VERIF_LSP_BIN").unwrap_or_else(|_| "/verif/.cache/target-repo/debug/abasic-lsp".to_string());
        let mut child = std::process::Command::new(bin)
            .stdin(std::process::Stdio::piped())
            .stdout(std::process::Stdio::piped())
            .stderr(std::process::Stdio::null())
            .env("RUST_BACKTRACE", "0")
            .spawn()
            .ok()?;
        let stdin = child.stdin.take()?;
        let stdout = std::io::BufReader::new(child.stdout.take()?);
        let mut s = LspServer { child, stdin, stdout, opened_uris: vec![], versions: Default::default(), next_id: 1 };
        s.send(&format!(r#"{{"jsonrpc":"2.0","id":0,"method":"initialize","params":{}}}"#, params));
        // the initialize response; a server that announces another position encoding than UTF-16 is not what this harness measures
        let hello = s.read_message()?;
        if let Some(enc) = hello["result"]["capabilities"]["positionEncoding"].as_str() {
            if enc != "utf-16" {
                return None;
            }
        }
        s.send(r#"{"jsonrpc":"2.0","method":"initialized","params":{}}"#);
        Some(s)
    }
    fn send(&mut self, body: &str) {
        use std::io::Write;
        let _ = write!(self.stdin, "Content-Length: {}\r\n\r\n{}", body.len(), body);
        let _ = self.stdin.flush();
    }
    fn read_message(&mut self) -> Option<serde_json::Value> {
        use std::io::{BufRead, Read};
        let mut len = 0usize;
        loop {
            let mut line = String::new();
            if self.stdout.read_line(&mut line).ok()? == 0 {
                return None;
            }
            let l = line.trim();
            if l.is_empty() {
                break;
            }
            if let Some(v) = l.strip_prefix("Content-Length:") {
                len = v.trim().parse().ok()?;
            }
        }
        let mut buf = vec![0u8; len];
        self.stdout.read_exact(&mut buf).ok()?;
        serde_json::from_slice(&buf).ok()
    }
    /// open (first time) or change the document, then ask for semantic tokens;
    /// returns (diagnostics JSON, tokens JSON) or None if the server died
    pub fn document(&mut self, text: &str) -> Option<(serde_json::Value, serde_json::Value)> {
        self.document_at(0, text)
    }
    /// the documents a session may have open side by side: distinct URIs, some differing only in case or escaping
    pub const URIS: [&'static str; 5] = ["file:///t.bas", "file:///T.BAS", "file:///dir/t.bas", "file:///c%3A/x.bas", "file:///C:/x.bas"];
    /// semantic tokens of document `k` as the server has it now (no update)
    pub fn tokens_of(&mut self, k: usize) -> Option<serde_json::Value> {
        let uri = Self::URIS[k % Self::URIS.len()];
        let id = self.next_id;
        self.next_id += 1;
        self.send(&format!(r#"{{"jsonrpc":"2.0","id":{},"method":"textDocument/semanticTokens/full","params":{{"textDocument":{{"uri":"{}"}}}}}}"#, id, uri));
        loop {
            let m = self.read_message()?;
            if m.get("id").and_then(|x| x.as_u64()) == Some(id) {
                return Some(m["result"]["data"].clone());
            }
        }
    }
    /// the client opens document k again: the next `document_at` sends didOpen (after a didClose when `close` is set)
    pub fn forget(&mut self, k: usize, close: bool) {
        if self.opened_uris.contains(&k) {
            if close {
                let uri = Self::URIS[k % Self::URIS.len()];
                self.send(&format!(r#"{{"jsonrpc":"2.0","method":"textDocument/didClose","params":{{"textDocument":{{"uri":"{}"}}}}}}"#, uri));
            }
            self.opened_uris.retain(|x| *x != k);
            self.versions.remove(&k);
        }
    }
    pub fn document_at(&mut self, k: usize, text: &str) -> Option<(serde_json::Value, serde_json::Value)> {
        let uri = Self::URIS[k % Self::URIS.len()];
        let t = serde_json::Value::String(text.to_string()).to_string();
        if !self.opened_uris.contains(&k) {
            self.send(&format!(r#"{{"jsonrpc":"2.0","method":"textDocument/didOpen","params":{{"textDocument":{{"uri":"{}","languageId":"abasic","version":1,"text":{}}}}}}}"#, uri, t));
            self.opened_uris.push(k);
            self.versions.insert(k, 1);
        } else {
            let v = self.versions.get(&k).copied().unwrap_or(1) + 1 + (text.len() % 2) as u64;
            self.versions.insert(k, v);
            // a notification may carry several changes; they apply in order, so the last one is the document
            let stale = if text.len() % 3 == 0 { r#"{"text":"10 PRINT \"stale\n20 GOTO 77"},"# } else { "" };
            self.send(&format!(r#"{{"jsonrpc":"2.0","method":"textDocument/didChange","params":{{"textDocument":{{"uri":"{}","version":{}}},"contentChanges":[{}{{"text":{}}}]}}}}"#, uri, v, stale, t));
        }
        let id = self.next_id;
        self.next_id += 1;
        self.send(&format!(r#"{{"jsonrpc":"2.0","id":{},"method":"textDocument/semanticTokens/full","params":{{"textDocument":{{"uri":"{}"}}}}}}"#, id, uri));
        let mut diags = None;
        let mut toks = None;
        while diags.is_none() || toks.is_none() {
            let m = self.read_message()?;
            if m.get("method").and_then(|x| x.as_str()) == Some("textDocument/publishDiagnostics") {
                diags = Some(m["params"]["diagnostics"].clone());
            } else if m.get("id").and_then(|x| x.as_u64()) == Some(id) {
                toks = Some(m["result"]["data"].clone());
                // the server answers in order: a reply to the request that FOLLOWED the notification with no diagnostics
                // before it means the notification was not answered at all
                if diags.is_none() {
                    diags = Some(serde_json::Value::Null);
                }
            }
        }
        Some((diags?, toks?))
    }
}

impl Drop for LspServer {
    fn drop(&mut self) {
        let _ = self.child.kill();
        let _ = self.child.wait();
    }
}

/// Run the real `abasic` binary on a program file, and on the same lines + RUN piped into an
/// interactive session with the same options; compare program output, runtime warnings, trace
/// records and errors (banner, static-analysis messages are not part of the comparison).
pub fn cli_compare(w: bool, t: bool, skip: bool, text: &str) -> String {
    use std::io::Write;
    let bin = std::env::var("VERIF_CLI_BIN").unwrap_or_else(|_| "/verif/.cache/target-repo/debug/abasic".to_string());
    let dir = "/verif/.cache/cli";
    let _ = std::fs::create_dir_all(dir);
    let path = format!("{}/p{}.bas", dir, std::process::id());
    if std::fs::write(&path, text).is_err() {
        return "NO-FILE".to_string();
    }
    let mut opts: Vec<&str> = vec![];
    if w {
        opts.push("-w");
    }
    if t {
        opts.push("-t");
    }
    if skip {
        opts.push("-s");
    }
    let run = |args: Vec<&str>, stdin_text: Option<String>| -> Option<(String, String, i32)> {
        let mut child = std::process::Command::new(&bin)
            .args(&args)
            .env("RUST_BACKTRACE", "0")
            .env("HOME", dir)
            .stdin(std::process::Stdio::piped())
            .stdout(std::process::Stdio::piped())
            .stderr(std::process::Stdio::piped())
            .spawn()
            .ok()?;
        if let Some(mut si) = child.stdin.take() {
            if let Some(t) = stdin_text {
                let _ = si.write_all(t.as_bytes());
            }
        }
        // never wait forever: a program may not terminate
        let deadline = std::time::Instant::now() + std::time::Duration::from_secs(4);
        loop {
            match child.try_wait() {
                Ok(Some(_)) => break,
                Ok(None) => {
                    if std::time::Instant::now() > deadline {
                        let _ = child.kill();
                        let _ = child.wait();
                        return Some(("TIMEOUT".to_string(), String::new(), -2));
                    }
                    std::thread::sleep(std::time::Duration::from_millis(5));
                }
                Err(_) => return None,
            }
        }
        let out = child.wait_with_output().ok()?;
        Some((String::from_utf8_lossy(&out.stdout).to_string(), String::from_utf8_lossy(&out.stderr).to_string(), out.status.code().unwrap_or(-1)))
    };
    let mut file_args = opts.clone();
    file_args.push(&path);
    let Some((fo, fe, _frc)) = run(file_args, None) else { return "NO-BINARY".to_string() };
    let refused = fe.contains("Please fix the above errors");
    if refused {
        let _ = std::fs::remove_file(&path);
        return "refused".to_string();
    }
    let mut piped = String::new();
    for l in text.split('\n').filter(|l| !l.is_empty()) {
        piped.push_str(l);
        piped.push('\n');
    }
    piped.push_str("RUN\n");
    let Some((po, pe, _prc)) = run(opts.clone(), Some(piped)) else { return "NO-BINARY".to_string() };
    let _ = std::fs::remove_file(&path);
    if fo == "TIMEOUT" || po == "TIMEOUT" {
        // a non-terminating program: nothing to compare here (the in-process part bounds its steps)
        return "same".to_string();
    }
    let canon_out = |s: &str| -> String {
        s.lines().filter(|l| !l.starts_with("Welcome to Atul's BASIC") && !l.starts_with("Press CTRL-C to exit")).collect::<Vec<_>>().join("\n")
            + if s.ends_with('\n') { "\n" } else { "" }
    };
    let canon_err = |s: &str| -> String {
        s.lines().filter(|l| !l.starts_with("Warning on line ") && !l.starts_with("Errors were encountered")).collect::<Vec<_>>().join("\n")
    };
    // rustyline ends a piped session with a bare newline: trailing newlines are not program output
    let (a, b) = (canon_out(&fo).trim_end_matches('\n').to_string(), canon_out(&po).trim_end_matches('\n').to_string());
    let (c, d) = (canon_err(&fe), canon_err(&pe));
    if a == b && c == d {
        "same".to_string()
    } else if a != b {
        format!("DIFF:stdout:{}:{}", hex(&a), hex(&b))
    } else {
        format!("DIFF:stderr:{}:{}", hex(&c), hex(&d))
    }
}

fn enc_mapped(m: Option<(usize, std::ops::Range<usize>)>) -> String {
    match m {
        None => "-".to_string(),
        Some((f, r)) => format!("{}:{}-{}", f, r.start, r.end),
    }
}

/// canonical text of an analysis, as the Lean driver's `encAnalysis`
pub fn enc_analysis(a: &abasic_core::SourceFileAnalyzer) -> String {
    let toks = a
        .token_types()
        .iter()
        .map(|lt| lt.iter().map(|(tt, r)| format!("{:?}@{}-{}", tt, r.start, r.end)).collect::<Vec<_>>().join(","))
        .collect::<Vec<_>>()
        .join("|");
    let map = a.source_file_map();
    let mut msgs: Vec<String> = a
        .messages()
        .iter()
        .map(|m| match m {
            abasic_core::DiagnosticMessage::Warning(f, loc, msg) => format!(
                "W:{}:{}:{}>{}",
                f,
                match loc {
                    Some(l) => format!("{}:{}", l.line, l.token_index),
                    None => "-".to_string(),
                },
                hex(msg),
                enc_mapped(map.map_to_source(m))
            ),
            abasic_core::DiagnosticMessage::Error(f, e) => format!("E:{}:{}>{}", f, hooks::enc_error(e), enc_mapped(map.map_to_source(m))),
        })
        .collect();
    msgs.sort();
    format!("T {} ; M {}", toks, msgs.join(" "))
}

pub struct Session {
    pub interp: Interpreter,
    pub last_err: Option<TracedInterpreterError>,
    /// the output still to be taken comes from INTERNALS / STATS (text not modelled)
    opaque_pending: bool,
    pub panicked: Option<String>,
    pub lsp: Option<LspServer>,
    pub page: Option<crate::web::Pair>,
    pub real: Option<crate::realpage::RealPage>,
}

impl Default for Session {
    fn default() -> Self {
        Session {
            interp: Interpreter::default(),
            last_err: None,
            opaque_pending: false,
            panicked: None,
            lsp: None,
            page: None,
            real: None,
        }
    }
}

fn panic_message(p: Box<dyn std::any::Any + Send>) -> String {
    if let Some(s) = p.downcast_ref::<&str>() {
        s.to_string()
    } else if let Some(s) = p.downcast_ref::<String>() {
        s.clone()
    } else {
        "?".to_string()
    }
}

impl Session {
    fn result(&mut self, r: Result<(), TracedInterpreterError>) -> String {
        match r {
            Ok(()) => {
                self.last_err = None;
                "ok".to_string()
            }
            Err(e) => {
                let s = format!("err {}", hooks::enc_error(&e));
                self.last_err = Some(e);
                s
            }
        }
    }

    /// Execute one protocol line; a Rust panic becomes the reply `PANIC:<message>`
    /// and poisons the session (later operations reply `POISONED`).
    pub fn step(&mut self, line: &str) -> String {
        if self.panicked.is_some() {
            return "POISONED".to_string();
        }
        let r = catch_unwind(AssertUnwindSafe(|| self.step_inner(line)));
        match r {
            Ok(s) => s,
            Err(p) => {
                let msg = panic_message(p);
                self.panicked = Some(msg.clone());
                format!("PANIC:{}", msg.replace(' ', "_").replace('\n', "_"))
            }
        }
    }

    fn step_inner(&mut self, line: &str) -> String {
        let parts: Vec<&str> = line.trim().split(' ').collect();
        match parts.as_slice() {
            ["new", w, t] => {
                *self = Session::default();
                self.interp.enable_warnings = *w == "1";
                self.interp.enable_tracing = *t == "1";
                "ok".to_string()
            }
            ["fuel", _] => "ok".to_string(),
            ["fold", ..] => "SPEC".to_string(),
            ["wnew", ..] => {
                self.page = Some(crate::web::Pair::new());
                "ok".to_string()
            }
            ["wseed", n] => {
                let n: u64 = n.parse().unwrap();
                self.page.get_or_insert_with(crate::web::Pair::new).seed(n);
                "ok".to_string()
            }
            ["wload", rest @ ..] => {
                let text = rest.first().and_then(|h| unhex(h)).unwrap_or_default();
                let t2 = text.clone();
                self.page.get_or_insert_with(crate::web::Pair::new).event(move |p| p.load_and_run(&text), move |p| p.load_and_run(&t2))
            }
            ["wsubmit", rest @ ..] => {
                let text = rest.first().and_then(|h| unhex(h)).unwrap_or_default();
                let t2 = text.clone();
                let opaque = first_word_is(&text, &["INTERNALS", "STATS"]);
                let r = self.page.get_or_insert_with(crate::web::Pair::new).event(move |p| p.submit(&text), move |p| p.submit(&t2));
                if opaque { opaque_prints(&r) } else { r }
            }
            // the same events on the page script itself (main.ts under node) driving the real adapter
            ["rnew"] => match crate::realpage::RealPage::spawn() {
                Ok(mut p) => {
                    let r = p.event("new");
                    self.real = Some(p);
                    if r.starts_with("TRAP") || r.starts_with("PAGE") { r } else { "ok".to_string() }
                }
                Err(e) => format!("PAGE-DRIVER {}", hex(&e)),
            },
            ["rseed", n] => {
                let n: u64 = n.parse().unwrap();
                if let Some(p) = self.real.as_mut() {
                    p.seed(n);
                }
                "ok".to_string()
            }
            ["rstart"] => match self.real.as_mut() {
                // the welcome line and first prompt are not part of the transliteration
                Some(p) => { let r = p.event("start"); if r.starts_with("TRAP") || r.starts_with("PAGE") { r } else { "ok".to_string() } }
                None => "no-page".to_string(),
            },
            ["rload", rest @ ..] => match self.real.as_mut() {
                Some(p) => p.event(&format!("load {}", rest.first().copied().unwrap_or(""))),
                None => "no-page".to_string(),
            },
            ["rsubmit", rest @ ..] => {
                let text = rest.first().and_then(|h| unhex(h)).unwrap_or_default();
                let opaque = first_word_is(&text, &["INTERNALS", "STATS"]);
                let r = match self.real.as_mut() {
                    Some(p) => p.event(&format!("submit {}", rest.first().copied().unwrap_or(""))),
                    None => "no-page".to_string(),
                };
                if opaque { opaque_prints(&r) } else { r }
            }
            ["rbreak"] => match self.real.as_mut() {
                Some(p) => p.event("break"),
                None => "no-page".to_string(),
            },
            ["rtick"] => match self.real.as_mut() {
                Some(p) => p.event("tick"),
                None => "no-page".to_string(),
            },
            ["wbreak"] => self.page.get_or_insert_with(crate::web::Pair::new).event(|p| p.break_now(), |p| p.break_now()),
            ["wtick"] => self.page.get_or_insert_with(crate::web::Pair::new).event(|p| p.tick(), |p| p.tick()),
            ["cli", w, t, sk, h] => match unhex(h) {
                Some(text) => cli_compare(*w == "1", *t == "1", *sk == "1", &text),
                None => "bad-utf8".to_string(),
            },
            ["analyze", rest @ ..] => {
                let text = match rest {
                    [] => Some(String::new()),
                    [h] => unhex(h),
                    _ => None,
                };
                match text {
                    Some(t) => enc_analysis(&abasic_core::SourceFileAnalyzer::analyze(t)),
                    None => "bad-utf8".to_string(),
                }
            }
            ["load", h] => match unhex(h) {
                Some(t) => {
                    let a = abasic_core::SourceFileAnalyzer::analyze(t);
                    *self = Session::default();
                    self.interp = a.into_interpreter();
                    "ok".to_string()
                }
                None => "bad-utf8".to_string(),
            },
            // `lspq k [hex]`: the tokens of document k as the server has it now (the text is only there for the model)
            ["lspq", k, rest @ ..] => {
                let k: usize = k.parse().unwrap_or(0);
                if self.lsp.is_none() {
                    self.lsp = LspServer::start();
                }
                let Some(server) = self.lsp.as_mut() else { return "NO-SERVER".to_string() };
                if !server.opened_uris.contains(&(k % LspServer::URIS.len())) && !server.opened_uris.contains(&k) {
                    // (a shrunk case may ask before it opened) open it with the text the question carries
                    let text = rest.first().and_then(|h| unhex(h)).unwrap_or_default();
                    if server.document_at(k, &text).is_none() {
                        self.lsp = None;
                        return "PANIC:server-exited".to_string();
                    }
                }
                let Some(server) = self.lsp.as_mut() else { return "NO-SERVER".to_string() };
                match server.tokens_of(k) {
                    None => {
                        self.lsp = None;
                        "PANIC:server-exited".to_string()
                    }
                    Some(toks) => {
                        let ts: Vec<String> = toks.as_array().map(|a| a.chunks(5).map(|c| format!("{},{},{},{}", c[0], c[1], c[2], c[3])).collect()).unwrap_or_default();
                        format!("S {}", ts.join(" "))
                    }
                }
            }
            ["lsphello", k] => {
                self.lsp = LspServer::start_with(k.parse().unwrap_or(0));
                if self.lsp.is_some() { "ok".to_string() } else { "NO-SERVER".to_string() }
            }
            ["lsp", rest @ ..] | ["lspu", _, rest @ ..] | ["lspo", _, rest @ ..] => {
                let k: usize = if parts[0] != "lsp" { parts[1].parse().unwrap_or(0) } else { 0 };
                let reopen = parts[0] == "lspo";
                let text = match rest {
                    [] => Some(String::new()),
                    [h] => unhex(h),
                    _ => None,
                };
                let Some(text) = text else { return "bad-utf8".to_string() };
                if self.lsp.is_none() {
                    self.lsp = LspServer::start();
                }
                let Some(server) = self.lsp.as_mut() else { return "NO-SERVER".to_string() };
                if reopen {
                    server.forget(k, text.len() % 2 == 0);
                }
                match server.document_at(k, &text) {
                    None => {
                        self.lsp = None;
                        "PANIC:server-exited".to_string()
                    }
                    Some((diags, toks)) => {
                        let mut ds: Vec<String> = diags
                            .as_array()
                            .map(|a| {
                                a.iter()
                                    .map(|d| {
                                        format!(
                                            "{}:{}-{}:{}:{}",
                                            d["range"]["start"]["line"],
                                            d["range"]["start"]["character"],
                                            d["range"]["end"]["character"],
                                            if d["severity"].as_u64() == Some(1) { "E" } else { "W" },
                                            hex(d["message"].as_str().unwrap_or(""))
                                        )
                                    })
                                    .collect()
                            })
                            .unwrap_or_default();
                        ds.sort();
                        let ts: Vec<String> = toks
                            .as_array()
                            .map(|a| a.chunks(5).map(|c| format!("{},{},{},{}", c[0], c[1], c[2], c[3])).collect())
                            .unwrap_or_default();
                        if diags.is_null() {
                            format!("NODIAG ; S {}", ts.join(" "))
                        } else {
                            format!("D {} ; S {}", ds.join(" "), ts.join(" "))
                        }
                    }
                }
            }
            ["flags", w, t] => {
                self.interp.enable_warnings = *w == "1";
                self.interp.enable_tracing = *t == "1";
                "ok".to_string()
            }
            ["seed", n] => {
                self.interp.randomize(n.parse::<u64>().unwrap());
                self.last_err = None;
                "ok".to_string()
            }
            ["start", rest @ ..] => {
                let text = match rest {
                    [] => Some(String::new()),
                    [h] => unhex(h),
                    _ => None,
                };
                let Some(text) = text else {
                    return "bad-utf8".to_string();
                };
                // INTERNALS / STATS print text that is not modelled; remember which
                // output record it is so that `take` can make it opaque.
                let opaque = first_word_is(&text, &["INTERNALS", "STATS"])
                    && self.interp.get_state() == InterpreterState::Idle;
                let r = self.interp.start_evaluating(&text);
                if opaque && r.is_ok() {
                    self.opaque_pending = true;
                }
                self.result(r)
            }
            ["cont"] => {
                let r = self.interp.continue_evaluating();
                self.result(r)
            }
            ["reply", rest @ ..] => {
                let text = match rest {
                    [] => Some(String::new()),
                    [h] => unhex(h),
                    _ => None,
                };
                let Some(text) = text else {
                    return "bad-utf8".to_string();
                };
                self.interp.provide_input(text);
                self.last_err = None;
                "ok".to_string()
            }
            ["break"] => {
                self.interp.break_at_current_location();
                self.last_err = None;
                "ok".to_string()
            }
            ["replace"] => {
                *self = Session::default();
                "ok".to_string()
            }
            ["take"] => {
                let outs = self.interp.take_output();
                // The generator issues `take` right before and right after an
                // INTERNALS / STATS command, so every Print record here is opaque.
                let opaque = self.opaque_pending;
                self.opaque_pending = false;
                if outs.is_empty() {
                    return "-".to_string();
                }
                outs.iter()
                    .map(|o| enc_out(o, opaque))
                    .collect::<Vec<_>>()
                    .join(" ")
            }
            ["state"] => state_name(self.interp.get_state()).to_string(),
            ["reads"] => hooks::token_reads(&self.interp).to_string(),
            ["snap"] => hooks::snapshot(&self.interp),
            ["caret", h] => {
                let Some(err) = &self.last_err else {
                    return "no-error".to_string();
                };
                let line: Option<String> = if *h == "-" {
                    None
                } else if *h == "e" {
                    Some(String::new())
                } else {
                    unhex(h)
                };
                let lines = err.get_line_with_pointer_caret(&self.interp, line);
                if lines.is_empty() {
                    "-".to_string()
                } else {
                    lines.iter().map(|l| hex(l)).collect::<Vec<_>>().join(" ")
                }
            }
            ["tok", h, skip] => match unhex(h) {
                Some(text) => hooks::tokenize(&text, skip.parse().unwrap()),
                None => "bad-utf8".to_string(),
            },
            ["tok", skip] => hooks::tokenize("", skip.parse().unwrap()),
            ["data", h] => match unhex(h) {
                Some(text) => hooks::parse_data(&text),
                None => "bad-utf8".to_string(),
            },
            ["data"] => hooks::parse_data(""),
            ["linenum", h] => match unhex(h) {
                Some(text) => match hooks::parse_line_number(&text) {
                    Some((n, e)) => format!("{} {}", n, e),
                    None => "-".to_string(),
                },
                None => "bad-utf8".to_string(),
            },
            ["linenum"] => "-".to_string(),
            ["fmt", bits] => hex(&format!("{}", dec_f64(bits))),
            ["parse", h] => match unhex(h) {
                Some(text) => match text.parse::<f64>() {
                    Ok(x) => enc_f64(x),
                    Err(_) => "ERR".to_string(),
                },
                None => "bad-utf8".to_string(),
            },
            ["parse"] => "ERR".to_string(),
            ["rng", seed, arg] => {
                let (v, s) = hooks::rng_step(seed.parse().unwrap(), dec_f64(arg));
                match v {
                    Some(v) => format!("{} {}", enc_f64(v), s),
                    None => format!("Unimplemented {}", s),
                }
            }
            ["upper", h] => match unhex(h) {
                Some(text) => {
                    let up = text.to_uppercase();
                    match up.split_ascii_whitespace().next() {
                        Some(w) if w.is_ascii() => format!("w{}", hex(&w.to_ascii_uppercase())),
                        Some(_) => "-".to_string(),
                        None => "w".to_string(),
                    }
                }
                None => "bad-utf8".to_string(),
            },
            _ => "bad-op".to_string(),
        }
    }
}
