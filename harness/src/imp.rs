//! The implementation side of the line protocol: the same operation lines the
//! Lean driver reads are executed against the real crate, in-process, and
//! produce the same canonical reply lines.
use abasic_core::verif_hooks as hooks;
use abasic_core::{Interpreter, InterpreterOutput, InterpreterState, TracedInterpreterError};
use std::panic::{catch_unwind, AssertUnwindSafe};

pub fn hex(s: &str) -> String {
    hooks::hex(s.as_bytes())
}

pub fn unhex(h: &str) -> Option<String> {
    let b = h.as_bytes();
    if b.len() % 2 != 0 {
        return None;
    }
    let mut out = Vec::with_capacity(b.len() / 2);
    for i in (0..b.len()).step_by(2) {
        let hi = (b[i] as char).to_digit(16)?;
        let lo = (b[i + 1] as char).to_digit(16)?;
        out.push((hi * 16 + lo) as u8);
    }
    String::from_utf8(out).ok()
}

pub fn state_name(state: InterpreterState) -> &'static str {
    match state {
        InterpreterState::Idle => "Idle",
        InterpreterState::Running => "Running",
        InterpreterState::AwaitingInput => "AwaitingInput",
        InterpreterState::NewInterpreterRequested => "NewInterpreterRequested",
    }
}

pub fn enc_out(o: &InterpreterOutput, opaque: bool) -> String {
    fn optn(n: &Option<u64>) -> String {
        match n {
            None => "-".to_string(),
            Some(n) => n.to_string(),
        }
    }
    match o {
        InterpreterOutput::Print(s) => {
            if opaque {
                "O".to_string()
            } else {
                format!("P:{}", hex(s))
            }
        }
        InterpreterOutput::Break(n) => format!("B:{}", optn(n)),
        InterpreterOutput::Warning(m, n) => format!("W:{}:{}", hex(m), optn(n)),
        InterpreterOutput::Trace(n) => format!("T:{}", n),
        InterpreterOutput::ExtraIgnored => "X".to_string(),
        InterpreterOutput::Reenter => "R".to_string(),
    }
}

pub fn enc_f64(x: f64) -> String {
    hooks::enc_f64(x)
}

pub fn dec_f64(s: &str) -> f64 {
    if s == "nan" {
        f64::NAN
    } else {
        f64::from_bits(u64::from_str_radix(s, 16).unwrap_or(0))
    }
}

fn first_word_is(line: &str, words: &[&str]) -> bool {
    match line.to_uppercase().split_ascii_whitespace().next() {
        Some(w) => words.contains(&w.to_ascii_uppercase().as_str()),
        None => false,
    }
}

pub struct Session {
    pub interp: Interpreter,
    pub last_err: Option<TracedInterpreterError>,
    /// the output still to be taken comes from INTERNALS / STATS (text not modelled)
    opaque_pending: bool,
    pub panicked: Option<String>,
}

impl Default for Session {
    fn default() -> Self {
        Session {
            interp: Interpreter::default(),
            last_err: None,
            opaque_pending: false,
            panicked: None,
        }
    }
}

fn panic_message(p: Box<dyn std::any::Any + Send>) -> String {
    if let Some(s) = p.downcast_ref::<&str>() {
        s.to_string()
    } else if let Some(s) = p.downcast_ref::<String>() {
        s.clone()
    } else {
        "?".to_string()
    }
}

impl Session {
    fn result(&mut self, r: Result<(), TracedInterpreterError>) -> String {
        match r {
            Ok(()) => {
                self.last_err = None;
                "ok".to_string()
            }
            Err(e) => {
                let s = format!("err {}", hooks::enc_error(&e));
                self.last_err = Some(e);
                s
            }
        }
    }

    /// Execute one protocol line; a Rust panic becomes the reply `PANIC:<message>`
    /// and poisons the session (later operations reply `POISONED`).
    pub fn step(&mut self, line: &str) -> String {
        if self.panicked.is_some() {
            return "POISONED".to_string();
        }
        let r = catch_unwind(AssertUnwindSafe(|| self.step_inner(line)));
        match r {
            Ok(s) => s,
            Err(p) => {
                let msg = panic_message(p);
                self.panicked = Some(msg.clone());
                format!("PANIC:{}", msg.replace(' ', "_").replace('\n', "_"))
            }
        }
    }

    fn step_inner(&mut self, line: &str) -> String {
        let parts: Vec<&str> = line.trim().split(' ').collect();
        match parts.as_slice() {
            ["new", w, t] => {
                *self = Session::default();
                self.interp.enable_warnings = *w == "1";
                self.interp.enable_tracing = *t == "1";
                "ok".to_string()
            }
            ["fuel", _] => "ok".to_string(),
            ["fold", ..] => "SPEC".to_string(),
            ["flags", w, t] => {
                self.interp.enable_warnings = *w == "1";
                self.interp.enable_tracing = *t == "1";
                "ok".to_string()
            }
            ["seed", n] => {
                self.interp.randomize(n.parse::<u64>().unwrap());
                self.last_err = None;
                "ok".to_string()
            }
            ["start", rest @ ..] => {
                let text = match rest {
                    [] => Some(String::new()),
                    [h] => unhex(h),
                    _ => None,
                };
                let Some(text) = text else {
                    return "bad-utf8".to_string();
                };
                // INTERNALS / STATS print text that is not modelled; remember which
                // output record it is so that `take` can make it opaque.
                let opaque = first_word_is(&text, &["INTERNALS", "STATS"])
                    && self.interp.get_state() == InterpreterState::Idle;
                let r = self.interp.start_evaluating(&text);
                if opaque && r.is_ok() {
                    self.opaque_pending = true;
                }
                self.result(r)
            }
            ["cont"] => {
                let r = self.interp.continue_evaluating();
                self.result(r)
            }
            ["reply", rest @ ..] => {
                let text = match rest {
                    [] => Some(String::new()),
                    [h] => unhex(h),
                    _ => None,
                };
                let Some(text) = text else {
                    return "bad-utf8".to_string();
                };
                self.interp.provide_input(text);
                self.last_err = None;
                "ok".to_string()
            }
            ["break"] => {
                self.interp.break_at_current_location();
                self.last_err = None;
                "ok".to_string()
            }
            ["replace"] => {
                *self = Session::default();
                "ok".to_string()
            }
            ["take"] => {
                let outs = self.interp.take_output();
                // The generator issues `take` right before and right after an
                // INTERNALS / STATS command, so every Print record here is opaque.
                let opaque = self.opaque_pending;
                self.opaque_pending = false;
                if outs.is_empty() {
                    return "-".to_string();
                }
                outs.iter()
                    .map(|o| enc_out(o, opaque))
                    .collect::<Vec<_>>()
                    .join(" ")
            }
            ["state"] => state_name(self.interp.get_state()).to_string(),
            ["reads"] => hooks::token_reads(&self.interp).to_string(),
            ["snap"] => hooks::snapshot(&self.interp),
            ["caret", h] => {
                let Some(err) = &self.last_err else {
                    return "no-error".to_string();
                };
                let line: Option<String> = if *h == "-" {
                    None
                } else if *h == "e" {
                    Some(String::new())
                } else {
                    unhex(h)
                };
                let lines = err.get_line_with_pointer_caret(&self.interp, line);
                if lines.is_empty() {
                    "-".to_string()
                } else {
                    lines.iter().map(|l| hex(l)).collect::<Vec<_>>().join(" ")
                }
            }
            ["tok", h, skip] => match unhex(h) {
                Some(text) => hooks::tokenize(&text, skip.parse().unwrap()),
                None => "bad-utf8".to_string(),
            },
            ["tok", skip] => hooks::tokenize("", skip.parse().unwrap()),
            ["data", h] => match unhex(h) {
                Some(text) => hooks::parse_data(&text),
                None => "bad-utf8".to_string(),
            },
            ["data"] => hooks::parse_data(""),
            ["linenum", h] => match unhex(h) {
                Some(text) => match hooks::parse_line_number(&text) {
                    Some((n, e)) => format!("{} {}", n, e),
                    None => "-".to_string(),
                },
                None => "bad-utf8".to_string(),
            },
            ["linenum"] => "-".to_string(),
            ["fmt", bits] => hex(&format!("{}", dec_f64(bits))),
            ["parse", h] => match unhex(h) {
                Some(text) => match text.parse::<f64>() {
                    Ok(x) => enc_f64(x),
                    Err(_) => "ERR".to_string(),
                },
                None => "bad-utf8".to_string(),
            },
            ["parse"] => "ERR".to_string(),
            ["rng", seed, arg] => {
                let (v, s) = hooks::rng_step(seed.parse().unwrap(), dec_f64(arg));
                match v {
                    Some(v) => format!("{} {}", enc_f64(v), s),
                    None => format!("Unimplemented {}", s),
                }
            }
            ["upper", h] => match unhex(h) {
                Some(text) => {
                    let up = text.to_uppercase();
                    match up.split_ascii_whitespace().next() {
                        Some(w) if w.is_ascii() => format!("w{}", hex(&w.to_ascii_uppercase())),
                        Some(_) => "-".to_string(),
                        None => "w".to_string(),
                    }
                }
                None => "bad-utf8".to_string(),
            },
            _ => "bad-op".to_string(),
        }
    }
}
