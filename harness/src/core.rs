//! Cases, checks (oracles), comparison with the model, shrinking, reporting.
use crate::imp::{self, Session};
use crate::model::Driver;
use std::collections::BTreeMap;

#[derive(Clone, Debug)]
pub struct Case {
    /// protocol lines; a case is self-contained (starts from a fresh session)
    pub ops: Vec<String>,
    /// oracle lines, see `eval_check`
    pub checks: Vec<String>,
    /// generator bucket, for the input-distribution histogram
    pub tag: String,
    /// non-trivial by the slice's rule
    pub nontrivial: bool,
    /// human-readable form for evidence samples
    pub show: String,
}

#[derive(Clone, Debug)]
pub struct Failure {
    /// "oracle" (the implementation breaks the property), "disagreement"
    /// (implementation and model differ), "model" (the model driver failed)
    pub kind: String,
    pub detail: String,
    pub case: Case,
    pub impl_replies: Vec<String>,
    pub model_replies: Vec<String>,
}

pub fn run_impl(case: &Case) -> Vec<String> {
    if case.ops.iter().map(|o| o.len()).sum::<usize>() > 2000 {
        let _ = std::fs::write(std::env::var("VERIF_CURRENT_CASE").unwrap_or_else(|_| "/verif/.cache/current_case.txt".to_string()), case.ops.iter().map(|o| format!("op {}\n", o)).collect::<String>() + &format!("show {}\n", case.show));
    }
    let mut s = Session::default();
    case.ops.iter().map(|op| s.step(op)).collect()
}

pub fn tokens_only(reply: &str) -> Vec<String> {
    // "tok@a-b tok@a-b !err" -> ["tok", "tok", "!err"]
    reply
        .split(' ')
        .filter(|p| !p.is_empty())
        .map(|p| match p.rfind('@') {
            Some(i) if !p.starts_with('!') => p[..i].to_string(),
            // an error: keep its kind, drop its position
            _ if p.starts_with('!') => p.chars().take(2).collect(),
            _ => p.to_string(),
        })
        .collect()
}

fn op_hex_arg(op: &str) -> Option<String> {
    let parts: Vec<&str> = op.split(' ').collect();
    match parts.as_slice() {
        [_, h, _] => imp::unhex(h),
        [_, h] => imp::unhex(h).or(Some(String::new())),
        _ => None,
    }
}

fn parse_ranged(reply: &str) -> (Vec<(String, usize, usize)>, Option<String>) {
    let mut toks = vec![];
    let mut err = None;
    for p in reply.split(' ').filter(|p| !p.is_empty()) {
        if let Some(e) = p.strip_prefix('!') {
            err = Some(e.to_string());
        } else if let Some(i) = p.rfind('@') {
            let (t, r) = p.split_at(i);
            let r = &r[1..];
            let mut it = r.split('-');
            let a = it.next().unwrap().parse().unwrap();
            let b = it.next().unwrap().parse().unwrap();
            toks.push((t.to_string(), a, b));
        }
    }
    (toks, err)
}

fn is_basic_ws(b: u8) -> bool {
    b.is_ascii_whitespace() && b != b'\n'
}

/// C13 oracle on one `tok` reply of the implementation.
fn ranges_exact(op: &str, reply: &str) -> Result<(), String> {
    let line = op_hex_arg(op).ok_or("bad op")?;
    let skip: usize = op.rsplit(' ').next().unwrap().parse().unwrap_or(0);
    let bytes = line.as_bytes();
    let (toks, err) = parse_ranged(reply);
    let mut prev_end = skip;
    for (t, a, b) in &toks {
        if !(*a < *b && *b <= bytes.len()) {
            return Err(format!("range {}-{} of {} out of bounds / empty", a, b, t));
        }
        if !line.is_char_boundary(*a) || !line.is_char_boundary(*b) {
            return Err(format!("range {}-{} of {} not on char boundaries", a, b, t));
        }
        if *a < prev_end {
            return Err(format!("range {}-{} of {} overlaps / out of order", a, b, t));
        }
        prev_end = *b;
        if is_basic_ws(bytes[*a]) {
            return Err(format!("range {}-{} of {} starts on a blank", a, b, t));
        }
        let open_ended = t.starts_with("R:") || t.starts_with("D:");
        if !open_ended && is_basic_ws(bytes[*b - 1]) {
            return Err(format!("range {}-{} of {} ends on a blank", a, b, t));
        }
        if open_ended {
            // REM extends to the end of the line; DATA to the end of its text (next colon or end)
            if t.starts_with("R:") && *b != bytes.len() {
                return Err(format!("REM range {}-{} does not reach the end of the line", a, b));
            }
            if t.starts_with("D:") && !(*b == bytes.len() || bytes[*b] == b':') {
                return Err(format!("DATA range {}-{} does not end at a colon or the end", a, b));
            }
        }
        // tokenizing the text of the range on its own yields exactly that token
        let slice = &line[*a..*b];
        let again = abasic_core::verif_hooks::tokenize(slice, 0);
        let again_toks = tokens_only(&again);
        if again_toks != vec![t.clone()] {
            return Err(format!(
                "text of range {}-{} ({:?}) re-tokenizes to {:?}, not to [{}]",
                a, b, slice, again_toks, t
            ));
        }
    }
    if let Some(e) = err {
        // error position within the line; everything before it tokenized (the tokens above)
        let pos: Vec<usize> = e[2..].split('-').filter_map(|x| x.parse().ok()).collect();
        for p in &pos {
            if *p > bytes.len() {
                return Err(format!("error position {} outside the line", p));
            }
        }
        if let Some(first) = pos.first() {
            if *first < prev_end {
                return Err(format!("error position {} before the end of the last token {}", first, prev_end));
            }
            if *first >= bytes.len() {
                return Err(format!("error position {} not inside the line", first));
            }
            // what lies between the last token and the error is blank
            if !bytes[prev_end..*first].iter().all(|b| is_basic_ws(*b)) {
                return Err("non-blank text between the last token and the error position".to_string());
            }
        }
    } else {
        // whole line consumed: only blanks after the last token
        if !bytes[prev_end.min(bytes.len())..].iter().all(|b| is_basic_ws(*b)) {
            return Err("non-blank text after the last token of a line that tokenized".to_string());
        }
    }
    Ok(())
}

/// Evaluate one oracle line against the implementation's replies.
pub fn eval_check(check: &str, case: &Case, replies: &[String]) -> Result<(), String> {
    let parts: Vec<&str> = check.split(' ').collect();
    match parts.as_slice() {
        ["same-tokens", i, j] => {
            let (i, j): (usize, usize) = (i.parse().unwrap(), j.parse().unwrap());
            let (a, b) = (tokens_only(&replies[i]), tokens_only(&replies[j]));
            if a == b {
                Ok(())
            } else {
                Err(format!(
                    "token sequences differ: {:?} gives {:?} but {:?} gives {:?}",
                    op_hex_arg(&case.ops[i]).unwrap_or_default(),
                    a,
                    op_hex_arg(&case.ops[j]).unwrap_or_default(),
                    b
                ))
            }
        }
        ["same-reply", i, j] => {
            let (i, j): (usize, usize) = (i.parse().unwrap(), j.parse().unwrap());
            if replies[i] == replies[j] {
                Ok(())
            } else {
                Err(format!("replies differ: op {} gives {} but op {} gives {}", i, replies[i], j, replies[j]))
            }
        }
        ["ranges-exact", i] => {
            let i: usize = i.parse().unwrap();
            ranges_exact(&case.ops[i], &replies[i])
        }
        ["reply-is", i, expected] => {
            let i: usize = i.parse().unwrap();
            if replies[i].replace(' ', "_") == *expected {
                Ok(())
            } else {
                Err(format!("op {} ({}) replied {} instead of {}", i, case.ops[i], replies[i], expected))
            }
        }
        ["reply-starts", i, expected] => {
            let i: usize = i.parse().unwrap();
            if replies[i].replace(' ', "_").starts_with(*expected) {
                Ok(())
            } else {
                Err(format!("op {} ({}) replied {} instead of {}…", i, case.ops[i], replies[i], expected))
            }
        }
        _ => crate::oracles::eval_check(check, case, replies),
    }
}

/// Checks that apply to every case: no panic anywhere.
pub fn universal_checks(case: &Case, replies: &[String]) -> Result<(), String> {
    for (i, r) in replies.iter().enumerate() {
        if r.starts_with("PANIC:") {
            return Err(format!("op {} ({}) panicked: {}", i, case.ops[i], r));
        }
    }
    Ok(())
}

pub fn oracle_failure(case: &Case, replies: &[String]) -> Option<String> {
    if let Err(e) = universal_checks(case, replies) {
        return Some(e);
    }
    for c in &case.checks {
        if let Err(e) = eval_check(c, case, replies) {
            return Some(format!("{}: {}", c, e));
        }
    }
    None
}

pub struct SliceReport {
    pub evaluations: u64,
    pub distinct_nontrivial: u64,
    pub ops_compared: u64,
    pub histogram: BTreeMap<String, u64>,
    pub samples: Vec<String>,
    pub failures: Vec<Failure>,
    pub known: Vec<(String, String)>,
    pub exhaustive: bool,
    pub rule: String,
}

/// Which replies are compared between implementation and model: everything.
fn first_disagreement(imp: &[String], model: &[String]) -> Option<usize> {
    // `SPEC` marks an operation only the Lean side answers (the spec's fold)
    (0..imp.len()).find(|&i| imp[i] != model[i] && imp[i] != "SPEC")
}

/// Run all cases through the implementation and the model; collect failures.
pub fn run_slice(cases: Vec<Case>, driver: &Driver, rule: &str, exhaustive: bool) -> SliceReport {
    let mut report = SliceReport {
        evaluations: 0,
        distinct_nontrivial: 0,
        ops_compared: 0,
        histogram: BTreeMap::new(),
        samples: vec![],
        failures: vec![],
        known: vec![],
        exhaustive,
        rule: rule.to_string(),
    };
    let mut seen = std::collections::HashSet::new();
    let mut all_ops: Vec<String> = vec![];
    let mut impl_replies: Vec<Vec<String>> = vec![];
    for case in &cases {
        report.evaluations += 1;
        *report.histogram.entry(case.tag.clone()).or_insert(0) += 1;
        if case.nontrivial && seen.insert(case.ops.join("\n")) {
            report.distinct_nontrivial += 1;
        }
        let r = run_impl(case);
        impl_replies.push(r);
        // "impl-only" cases are probes for the implementation's oracles alone (inputs on which the executable model, whose
        // tokenizer is quadratic, would take minutes); they are not part of the correspondence
        if !case.tag.starts_with("impl-only") {
            all_ops.extend(case.ops.iter().cloned());
        }
    }
    let n = cases.len();
    for k in 0..3.min(n) {
        let idx = k * (n / 3).max(1) % n;
        report.samples.push(format!("[{}] {}", cases[idx].tag, cases[idx].show));
    }
    let model_all = match driver.run(&all_ops) {
        Ok(r) => r,
        Err(e) => {
            report.failures.push(Failure {
                kind: "model".to_string(),
                detail: e,
                case: Case { ops: vec![], checks: vec![], tag: "".into(), nontrivial: false, show: "".into() },
                impl_replies: vec![],
                model_replies: vec![],
            });
            return report;
        }
    };
    let mut off = 0;
    for (case, imp) in cases.iter().zip(impl_replies.iter()) {
        let impl_only = case.tag.starts_with("impl-only");
        let model: &[String] = if impl_only { &imp[..] } else { &model_all[off..off + case.ops.len()] };
        if !impl_only {
            off += case.ops.len();
            report.ops_compared += case.ops.len() as u64;
        }
        if let Some(detail) = oracle_failure(case, imp) {
            report.failures.push(Failure {
                kind: "oracle".into(),
                detail,
                case: case.clone(),
                impl_replies: imp.clone(),
                model_replies: model.to_vec(),
            });
        } else if let Some(i) = first_disagreement(imp, model) {
            report.failures.push(Failure {
                kind: "disagreement".into(),
                detail: format!(
                    "op {} ({}): implementation replied {} but the model replied {}",
                    i, case.ops[i], imp[i], model[i]
                ),
                case: case.clone(),
                impl_replies: imp.clone(),
                model_replies: model.to_vec(),
            });
        }
        // keep at most 4 failures per (kind, failing check, family of the case) so that one cause (e.g. a known finding, which
        // fails the same check in its own family on every run) cannot crowd out another
        if let Some(last) = report.failures.last() {
            let key = |f: &Failure| format!("{}:{}:{}", f.kind, f.detail.split(':').next().unwrap_or("").split(' ').next().unwrap_or(""), f.case.tag);
            let k = key(last);
            if report.failures.iter().filter(|f| key(f) == k).count() > 4 {
                report.failures.pop();
            }
        }
        if report.failures.len() >= 120 {
            break;
        }
    }
    report
}

/// Greedy shrinking of a failing case: drop ops (and re-index nothing: checks
/// that mention indexes are only kept for cases whose ops are untouched), so it
/// is applied to disagreements and universal failures of session-like cases.
pub fn shrink(f: &Failure, driver: &Driver) -> Failure {
    if f.kind == "model" || !f.case.checks.is_empty() && f.kind == "oracle" {
        return f.clone();
    }
    let still_fails = |ops: &Vec<String>| -> Option<Failure> {
        let case = Case { ops: ops.clone(), checks: vec![], tag: f.case.tag.clone(), nontrivial: false, show: f.case.show.clone() };
        let imp = run_impl(&case);
        if f.kind == "oracle" {
            return universal_checks(&case, &imp).err().map(|detail| Failure {
                kind: "oracle".into(), detail, case: case.clone(), impl_replies: imp.clone(), model_replies: vec![],
            });
        }
        // protocol violations introduced by shrinking are not interesting
        if imp.iter().any(|r| r.starts_with("PANIC:")) {
            return None;
        }
        let model = driver.run(ops).ok()?;
        first_disagreement(&imp, &model).map(|i| Failure {
            kind: "disagreement".into(),
            detail: format!("op {} ({}): implementation replied {} but the model replied {}", i, ops[i], imp[i], model[i]),
            case: case.clone(),
            impl_replies: imp.clone(),
            model_replies: model,
        })
    };
    let mut best = f.clone();
    // truncate after the first failing op
    let mut ops = f.case.ops.clone();
    if let Some(i) = (0..f.impl_replies.len().min(f.model_replies.len())).find(|&i| f.impl_replies[i] != f.model_replies[i] || f.impl_replies[i].starts_with("PANIC:")) {
        ops.truncate(i + 1);
        if let Some(nf) = still_fails(&ops) {
            best = nf;
        } else {
            ops = f.case.ops.clone();
        }
    }
    let mut changed = true;
    let mut budget = 400;
    while changed && budget > 0 {
        changed = false;
        let mut i = 1; // keep the `new` op
        while i < ops.len() && budget > 0 {
            let mut cand = ops.clone();
            cand.remove(i);
            budget -= 1;
            if let Some(nf) = still_fails(&cand) {
                ops = cand;
                best = nf;
                changed = true;
            } else {
                i += 1;
            }
        }
    }
    best
}

pub fn json_str(s: &str) -> String {
    let mut out = String::with_capacity(s.len() + 2);
    out.push('"');
    for c in s.chars() {
        match c {
            '"' => out.push_str("\\\""),
            '\\' => out.push_str("\\\\"),
            '\n' => out.push_str("\\n"),
            '\r' => out.push_str("\\r"),
            '\t' => out.push_str("\\t"),
            c if (c as u32) < 0x20 => out.push_str(&format!("\\u{:04x}", c as u32)),
            c => out.push(c),
        }
    }
    out.push('"');
    out
}

fn json_list(items: &[String]) -> String {
    format!("[{}]", items.iter().map(|s| json_str(s)).collect::<Vec<_>>().join(","))
}

pub fn report_json(slice: &str, seed: u64, tier: &str, r: &SliceReport) -> String {
    let hist = r
        .histogram
        .iter()
        .map(|(k, v)| format!("{}:{}", json_str(k), v))
        .collect::<Vec<_>>()
        .join(",");
    let failures = r
        .failures
        .iter()
        .map(|f| {
            format!(
                "{{\"kind\":{},\"detail\":{},\"tag\":{},\"show\":{},\"ops\":{},\"checks\":{},\"impl_replies\":{},\"model_replies\":{}}}",
                json_str(&f.kind),
                json_str(&f.detail),
                json_str(&f.case.tag),
                json_str(&f.case.show),
                json_list(&f.case.ops),
                json_list(&f.case.checks),
                json_list(&f.impl_replies),
                json_list(&f.model_replies)
            )
        })
        .collect::<Vec<_>>()
        .join(",");
    let known = r
        .known
        .iter()
        .map(|(id, what)| format!("{{\"id\":{},\"what\":{}}}", json_str(id), json_str(what)))
        .collect::<Vec<_>>()
        .join(",");
    format!(
        "{{\"slice\":{},\"seed\":{},\"tier\":{},\"evaluations\":{},\"distinct_nontrivial\":{},\"ops_compared\":{},\"exhaustive\":{},\"rule\":{},\"histogram\":{{{}}},\"samples\":{},\"failures\":[{}],\"known\":[{}]}}",
        json_str(slice),
        seed,
        json_str(tier),
        r.evaluations,
        r.distinct_nontrivial,
        r.ops_compared,
        r.exhaustive,
        json_str(&r.rule),
        hist,
        json_list(&r.samples),
        failures,
        known
    )
}
