//! Generators (all random choices come from one PRNG state).
use crate::rng::Rng;

pub const KEYWORDS: &[&str] = &[
    "DIM", "LET", "PRINT", "INPUT", "GOTO", "GOSUB", "RETURN", "IF", "THEN", "ELSE", "AND", "OR", "NOT", "END", "STOP",
    "FOR", "TO", "NEXT", "STEP", "READ", "RESTORE", "DEF",
];
pub const OPERATORS: &[&str] = &[":", ";", ",", "?", "(", ")", "+", "-", "*", "/", "^", "=", "<>", "<", "<=", ">", ">=", "< >", "< =", "> ="];
pub const IDENTS: &[&str] = &[
    "A", "B", "X", "Y", "I", "J", "N", "A$", "B$", "S$", "X1", "AB", "SCORE", "FORT", "ATOM", "TOTAL", "NOTE", "INT", "ABS", "RND", "FN",
    "ORB", "BAND", "IFX", "XIF", "LETTER", "GOT", "ENDING", "STEPS", "Z9$", "K", "FNF", "REMARK", "DATUM", "E21", "INF", "NAN",
];
pub const NUMERALS: &[&str] = &[
    "0", "1", "2", "3", "7", "10", "42", "100", "007", ".5", "1.", "1.5", "3.14159", "0.1", "00.100", "123456789", "1e5", "18446744073709551615",
    "9007199254740993", "4294967295", "0.000001", "1.7976931348623157", "99999999999999999999", "1..2", ".", "1.2.3", "4.9406564584124654",
];
pub const BLANKS: &[&str] = &[" ", " ", " ", "\t", "  ", "\r", "\x0c"];
pub const MULTIBYTE: &[&str] = &["é", "ß", "日本", "😀", "ı", "ſ", "\u{a0}", "\u{2028}", "ﬁ"];
pub const ILLEGAL: &[&str] = &["%", "&", "!", "#", "@", "\n", "\x0b", "~", "_", "é", "'"];

pub fn random_case(rng: &mut Rng, s: &str) -> String {
    match rng.below(4) {
        0 => s.to_lowercase(),
        1 => s
            .chars()
            .map(|c| if rng.chance(1, 2) { c.to_ascii_lowercase() } else { c })
            .collect(),
        _ => s.to_string(),
    }
}

/// spread BASIC blanks between the characters of a word
pub fn spread(rng: &mut Rng, s: &str) -> String {
    let mut out = String::new();
    for c in s.chars() {
        out.push(c);
        if rng.chance(1, 3) {
            out.push_str(rng.pick(BLANKS));
        }
    }
    out
}

pub fn long_numeral(rng: &mut Rng) -> String {
    let n = rng.pick(&[20usize, 40, 300, 310, 400]);
    let mut s = String::new();
    for i in 0..n {
        if i == n / 2 && rng.chance(1, 2) {
            s.push('.');
        }
        s.push((b'0' + rng.below(10) as u8) as char);
    }
    s
}

pub fn string_literal(rng: &mut Rng) -> String {
    let inner = match rng.below(8) {
        0 => "".to_string(),
        1 => "hi".to_string(),
        2 => "Hello, World: 1".to_string(),
        3 => " sp  ace ".to_string(),
        4 => format!("{}", rng.pick(MULTIBYTE)),
        5 => "REM not a comment".to_string(),
        6 => "a\tb".to_string(),
        _ => "x=1;y".to_string(),
    };
    if rng.chance(1, 25) {
        format!("\"{}", inner) // unterminated
    } else {
        format!("\"{}\"", inner)
    }
}

pub fn data_item(rng: &mut Rng) -> String {
    match rng.below(14) {
        0 => "1".to_string(),
        1 => " 2.5 ".to_string(),
        2 => "hello".to_string(),
        3 => "\"quoted, text: here\"".to_string(),
        4 => "".to_string(),
        5 => " ".to_string(),
        6 => "hello \"there\"".to_string(),
        7 => "-3".to_string(),
        8 => "1e3".to_string(),
        9 => format!("{}", rng.pick(MULTIBYTE)),
        10 => "\"\"".to_string(),
        11 => " \"a\" ".to_string(),
        12 => "inf".to_string(),
        _ => "two words".to_string(),
    }
}

pub fn data_statement(rng: &mut Rng) -> String {
    let n = rng.range(0, 4);
    let mut s = String::from("DATA");
    if rng.chance(3, 4) {
        s.push(' ');
    }
    for i in 0..n {
        if i > 0 {
            s.push(',');
        }
        s.push_str(&data_item(rng));
    }
    s
}

/// A line over the token alphabet (statement text only, no line number).
pub fn token_soup(rng: &mut Rng) -> String {
    let n = rng.range(0, 9);
    let mut s = String::new();
    for _ in 0..n {
        let piece = match rng.below(30) {
            0..=6 => {
                let w = rng.pick(KEYWORDS);
                random_case(rng, w)
            }
            7..=11 => rng.pick(OPERATORS).to_string(),
            12..=16 => {
                let w = rng.pick(IDENTS);
                random_case(rng, w)
            }
            17..=20 => rng.pick(NUMERALS).to_string(),
            21..=22 => string_literal(rng),
            23 => {
                if rng.chance(1, 3) {
                    long_numeral(rng)
                } else {
                    rng.pick(NUMERALS).to_string()
                }
            }
            24 => format!("{}{}", random_case(rng, "REM"), rng.pick(&["", " note", "x:y \"q", " é", "  two  spaces "])),
            25 => {
                let ds = data_statement(rng);
                let mut d = random_case(rng, &ds);
                if rng.chance(1, 2) {
                    d.push_str(rng.pick(&[":", " :", ": ", ":PRINT 1"]));
                }
                d
            }
            26 => rng.pick(MULTIBYTE).to_string(),
            27 => rng.pick(ILLEGAL).to_string(),
            _ => {
                let w = rng.pick(KEYWORDS).to_string();
                spread(rng, &w)
            }
        };
        s.push_str(&piece);
        match rng.below(5) {
            0 => {}
            1 => s.push_str(rng.pick(BLANKS)),
            _ => s.push(' '),
        }
    }
    s
}

// ---------------------------------------------------------------------------
// Statement-shaped text

pub fn num_var(rng: &mut Rng) -> String {
    rng.pick(&["A", "B", "X", "Y", "I", "J", "N", "T"]).to_string()
}
pub fn str_var(rng: &mut Rng) -> String {
    rng.pick(&["A$", "B$", "S$"]).to_string()
}

pub fn num_expr(rng: &mut Rng, depth: usize) -> String {
    if depth == 0 || rng.chance(2, 5) {
        return match rng.below(8) {
            0..=2 => rng.pick(&["0", "1", "2", "3", "10", "0.5", "7"]).to_string(),
            3..=5 => num_var(rng),
            6 => format!("{}({})", rng.pick(&["P", "Q"]), num_expr(rng, 0)),
            _ => rng.pick(&["1.5", "100", ".25"]).to_string(),
        };
    }
    match rng.below(12) {
        0..=4 => format!(
            "{} {} {}",
            num_expr(rng, depth - 1),
            rng.pick(&["+", "-", "*", "/", "^", "=", "<", ">", "<=", ">=", "<>", "AND", "OR"]),
            num_expr(rng, depth - 1)
        ),
        5 => format!("({})", num_expr(rng, depth - 1)),
        6 => format!("-{}", num_expr(rng, 0)),
        7 => format!("NOT {}", num_expr(rng, 0)),
        8 => format!("ABS({})", num_expr(rng, depth - 1)),
        9 => format!("INT({})", num_expr(rng, depth - 1)),
        10 => format!("{} = {}", str_expr(rng, 0), str_expr(rng, 0)),
        _ => format!("RND({})", rng.pick(&["1", "0", "X"])),
    }
}

pub fn str_expr(rng: &mut Rng, _depth: usize) -> String {
    match rng.below(4) {
        0 => str_var(rng),
        1 => "\"HI\"".to_string(),
        2 => "\"\"".to_string(),
        _ => format!("{}({})", rng.pick(&["N$", "M$"]), rng.pick(&["0", "1", "I"])),
    }
}

pub fn simple_statement(rng: &mut Rng) -> String {
    match rng.below(16) {
        0..=2 => format!("{} = {}", num_var(rng), num_expr(rng, 2)),
        3 => format!("{} = {}", str_var(rng), str_expr(rng, 1)),
        4..=6 => {
            let mut s = String::from("PRINT ");
            let n = rng.range(0, 3);
            for i in 0..n {
                if i > 0 {
                    s.push_str(rng.pick(&[";", ",", "; ", " "]));
                }
                if rng.chance(1, 4) {
                    s.push_str(&str_expr(rng, 1));
                } else {
                    s.push_str(&num_expr(rng, 2));
                }
            }
            if rng.chance(1, 4) {
                s.push(';');
            }
            s
        }
        7 => format!("LET {} = {}", num_var(rng), num_expr(rng, 1)),
        8 => format!("{}({}) = {}", rng.pick(&["P", "Q"]), num_expr(rng, 0), num_expr(rng, 1)),
        9 => format!("DIM {}({})", rng.pick(&["P", "Q", "R", "N$"]), rng.pick(&["5", "3,3", "2,2,2", "20"])),
        10 => "REM note".to_string(),
        11 => format!("READ {}", rng.pick(&["A", "A$", "A,B", "P(1)"])),
        12 => "RESTORE".to_string(),
        13 => data_statement(rng),
        14 => format!("? {}", num_expr(rng, 1)),
        _ => format!("{} = {}", num_var(rng), str_expr(rng, 0)), // ill-typed
    }
}

pub fn hexs(s: &str) -> String {
    crate::imp::hex(s)
}
