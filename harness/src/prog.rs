//! Structured program generator (numbered BASIC text) and a walker that drives
//! the real interpreter while recording protocol lines.
use crate::gen::{num_expr, num_var, str_expr, str_var, hexs};
use crate::imp::Session;
use crate::rng::Rng;

pub struct Program {
    pub lines: Vec<(u64, String)>,
    pub features: Vec<&'static str>,
}

impl Program {
    pub fn text(&self) -> String {
        self.lines.iter().map(|(n, t)| format!("{} {}", n, t)).collect::<Vec<_>>().join("\n")
    }
}

pub struct GenOpts {
    pub allow_input: bool,
    pub allow_stop: bool,
    pub allow_failures: bool,
    pub allow_rnd: bool,
    pub allow_def: bool,
    /// THEN GOSUB/INPUT/STOP ... ELSE on one line (known finding KF-ELSE-RESUME)
    pub allow_else_resume: bool,
}

impl Default for GenOpts {
    fn default() -> Self {
        GenOpts { allow_input: true, allow_stop: true, allow_failures: true, allow_rnd: true, allow_def: true, allow_else_resume: false }
    }
}

fn cond(rng: &mut Rng) -> String {
    match rng.below(6) {
        0 => format!("{} < {}", num_var(rng), rng.pick(&["2", "3", "5"])),
        1 => format!("{} = {}", num_var(rng), rng.pick(&["0", "1", "2"])),
        2 => "1".to_string(),
        3 => "0".to_string(),
        4 => format!("{} <> \"\"", str_var(rng)),
        _ => format!("{} >= {} AND {} < 4", num_var(rng), rng.pick(&["0", "1"]), num_var(rng)),
    }
}

fn expr(rng: &mut Rng, o: &GenOpts, has_fn: bool) -> String {
    let mut e = num_expr(rng, 2);
    if !o.allow_rnd {
        e = e.replace("RND(", "ABS(");
    }
    if has_fn && rng.chance(1, 4) {
        e = format!("FNA({}) + {}", num_expr(rng, 0), e);
    }
    e
}

fn leaf_statement(rng: &mut Rng, o: &GenOpts, has_fn: bool, has_data: bool) -> (String, &'static str) {
    match rng.below(20) {
        0..=3 => (format!("{} = {}", num_var(rng), expr(rng, o, has_fn)), "let"),
        4 => (format!("{} = {}", str_var(rng), str_expr(rng, 1)), "let$"),
        5..=8 => {
            let mut s = String::from("PRINT ");
            let n = rng.range(1, 3);
            for i in 0..n {
                if i > 0 {
                    s.push_str(&rng.pick(&[";", ",", "; "]));
                }
                if rng.chance(1, 4) {
                    s.push_str(&str_expr(rng, 1));
                } else {
                    s.push_str(&expr(rng, o, has_fn));
                }
            }
            if rng.chance(1, 5) {
                s.push(';');
            }
            (s, "print")
        }
        9 => (format!("{}({}) = {}", rng.pick(&["P", "Q"]), rng.pick(&["0", "1", "I", "10"]), expr(rng, o, has_fn)), "array-set"),
        10 => (format!("PRINT {}({})", rng.pick(&["P", "Q", "N$"]), rng.pick(&["0", "1", "I", "3"])), "array-get"),
        11 if has_data => (format!("READ {}", rng.pick(&["A", "B", "A$", "A,B", "P(1)"])), "read"),
        12 if has_data => ("RESTORE".to_string(), "restore"),
        13 => (format!("DIM {}({})", rng.pick(&["P", "Q", "R", "N$"]), rng.pick(&["5", "3,3", "2,2,2", "20", "12"])), "dim"),
        14 if o.allow_input => (format!("INPUT {}", rng.pick(&["A", "B", "A$", "P(2)", "X"])), "input"),
        15 if o.allow_stop => ("STOP".to_string(), "stop"),
        16 => ("REM note".to_string(), "rem"),
        17 if o.allow_failures => (
            rng.pick(&["PRINT 1/0", "A = \"x\"", "PRINT P(11)", "NEXT Z", "RETURN", "READ Z9", "DIM P(5)", "PRINT Q(1,1)", "GOTO 12345", "PRINT -\"a\"", "X = RND(-1)", "PRINT (1", "DIM W(100,100)", "P(1) = \"x\"", "N$(2) = 5", "C(1,1,1,1,1) = \"X\"", "V(1) = \"X\" : DIM V(20)", "PRINT U(1,1,1,1)", "U$(3) = 5 : U$(1,2) = \"HI\""]).to_string(),
            "failure",
        ),
        _ => (format!("{} = {} + 1", num_var(rng), num_var(rng)), "incr"),
    }
}

/// A program of a few numbered lines with loops, subroutines, conditionals, DATA, DEF FN.
pub fn program(rng: &mut Rng, o: &GenOpts) -> Program {
    let mut lines: Vec<String> = vec![];
    let mut features: Vec<&'static str> = vec![];
    let has_fn = o.allow_def && rng.chance(1, 3);
    let has_data = rng.chance(1, 2);
    let has_sub = rng.chance(1, 2);
    if has_fn {
        lines.push(format!("DEF FNA(X) = {}", rng.pick(&["X * 2 + 1", "X + Y", "ABS(X) + 1", "X / (X - 3)", "X + FNB(X)", "X * X"])));
        features.push("def");
        if rng.chance(1, 3) {
            lines.push("DEF FNB(Y) = Y + X".to_string());
        }
    }
    let n_main = rng.range(2, 8);
    let mut depth_for: Vec<String> = vec![];
    let mut i = 0;
    while i < n_main {
        i += 1;
        let choice = rng.below(14);
        let line = match choice {
            0..=1 if depth_for.len() < 2 => {
                let v = rng.pick(&["I", "J", "K"]).to_string();
                if depth_for.contains(&v) {
                    continue;
                }
                let hdr = format!(
                    "FOR {} = {} TO {}{}",
                    v,
                    rng.pick(&["1", "0", "3", "X"]),
                    rng.pick(&["3", "2", "0", "N"]),
                    rng.pick(&["", "", " STEP 2", " STEP -1", " STEP 0.5"])
                );
                depth_for.push(v);
                features.push("for");
                hdr
            }
            2 if !depth_for.is_empty() => {
                let v = depth_for.pop().unwrap();
                format!("NEXT {}", v)
            }
            3 if has_sub => {
                features.push("gosub");
                "GOSUB 900".to_string()
            }
            4..=5 => {
                features.push("if");
                let (s1, _) = leaf_statement(rng, o, has_fn, has_data);
                let then_part = match rng.below(5) {
                    0 => format!("{}", (rng.range(1, n_main + 2) * 10)),
                    1 if has_sub => "GOSUB 900".to_string(),
                    _ => s1,
                };
                let mut l = format!("IF {} THEN {}", cond(rng), then_part);
                let resumes = then_part.starts_with("GOSUB") || then_part.starts_with("INPUT") || then_part.starts_with("STOP");
                if rng.chance(1, 2) && (o.allow_else_resume || !resumes) {
                    let (s2, _) = leaf_statement(rng, o, has_fn, has_data);
                    l.push_str(&format!(" ELSE {}", if rng.chance(1, 4) { format!("{}", rng.range(1, n_main + 2) * 10) } else { s2 }));
                    features.push("else");
                }
                l
            }
            6 => {
                // forward GOTO (never backward: bounded runs come from FOR loops)
                features.push("goto");
                format!("GOTO {}", (lines.len() + 1 + rng.range(1, 2)) * 10)
            }
            7 => {
                features.push("multi");
                let (a, _) = leaf_statement(rng, o, has_fn, has_data);
                let (b, _) = leaf_statement(rng, o, has_fn, has_data);
                format!("{}: {}", a, b)
            }
            _ => {
                let (s, f) = leaf_statement(rng, o, has_fn, has_data);
                features.push(f);
                s
            }
        };
        lines.push(line);
    }
    while let Some(v) = depth_for.pop() {
        if rng.chance(4, 5) {
            lines.push(format!("NEXT {}", v));
        }
    }
    if has_data {
        let n = rng.range(1, 4);
        let mut items = vec![];
        for _ in 0..n {
            items.push(rng.pick(&["1", "2.5", "hello", "\"a, b\"", "7", "-3", "x y"]).to_string());
        }
        lines.push(format!("DATA {}", items.join(", ")));
        features.push("data");
    }
    let mut out: Vec<(u64, String)> = lines.into_iter().enumerate().map(|(i, t)| (((i + 1) * 10) as u64, t)).collect();
    if has_sub {
        out.push((890, "END".to_string()));
        let (s, _) = leaf_statement(rng, o, has_fn, false);
        out.push((900, s));
        if rng.chance(1, 4) && o.allow_failures {
            out.push((905, "GOSUB 900".to_string())); // runaway recursion: stack cap
            features.push("deep-gosub");
        }
        out.push((910, "RETURN".to_string()));
    }
    features.sort();
    features.dedup();
    Program { lines: out, features }
}

/// Drives the real interpreter while recording the protocol lines.
pub struct Walk {
    pub ops: Vec<String>,
    pub replies: Vec<String>,
    pub sess: Session,
    /// a drive loop ran out of its step budget and broke in
    pub cut: bool,
}

impl Walk {
    pub fn new(w: bool, t: bool) -> Walk {
        let mut wk = Walk { ops: vec![], replies: vec![], sess: Session::default(), cut: false };
        wk.op(&format!("new {} {}", w as u8, t as u8));
        wk
    }
    pub fn op(&mut self, line: &str) -> String {
        let r = self.sess.step(line);
        self.ops.push(line.to_string());
        self.replies.push(r.clone());
        r
    }
    pub fn last(&self) -> usize {
        self.ops.len() - 1
    }
    pub fn start(&mut self, text: &str) -> String {
        if text.is_empty() {
            self.op("start")
        } else {
            self.op(&format!("start {}", hexs(text)))
        }
    }
    pub fn reply(&mut self, text: &str) -> String {
        if text.is_empty() {
            self.op("reply")
        } else {
            self.op(&format!("reply {}", hexs(text)))
        }
    }
    pub fn state(&mut self) -> String {
        self.op("state")
    }
    pub fn load(&mut self, p: &Program) {
        for (n, t) in &p.lines {
            self.start(&format!("{} {}", n, t));
        }
    }
    /// the same program handed over as a FILE: through the static analysis into an interpreter (`abasic FILE`'s way), flags off
    pub fn load_file(&mut self, p: &Program) {
        self.op(&format!("load {}", crate::gen::hexs(&p.text())));
    }
    pub fn poisoned(&self) -> bool {
        self.sess.panicked.is_some()
    }
    /// Keep the program going until it is idle again (or the budget runs out, then break).
    /// `replies` answers INPUT requests in order (the last one repeats).
    /// Returns the indexes of the `take` ops.
    pub fn drive(&mut self, replies: &[String], next_reply: &mut usize, budget: usize, snap_each: bool) -> Vec<usize> {
        let mut takes = vec![];
        let mut steps = 0;
        loop {
            self.op("take");
            takes.push(self.last());
            if snap_each {
                self.op("snap");
            }
            let st = self.state();
            if self.poisoned() {
                break;
            }
            match st.as_str() {
                "Running" => {
                    if steps >= budget {
                        self.cut = true;
                        self.op("break");
                        self.op("take");
                        takes.push(self.last());
                        break;
                    }
                    self.op("cont");
                    steps += 1;
                }
                "AwaitingInput" => {
                    if steps >= budget {
                        self.cut = true;
                        self.op("break");
                        self.op("take");
                        takes.push(self.last());
                        break;
                    }
                    let r = if replies.is_empty() { "0".to_string() } else { replies[(*next_reply).min(replies.len() - 1)].clone() };
                    *next_reply += 1;
                    self.reply(&r);
                    steps += 1;
                }
                "NewInterpreterRequested" => {
                    self.op("replace");
                    break;
                }
                _ => break,
            }
        }
        takes
    }
}

pub fn reply_pool(rng: &mut Rng) -> Vec<String> {
    let n = rng.range(1, 4);
    (0..n)
        .map(|_| rng.pick(&["5", "0", "hello", "", "1,2", "3 : 4", "\"q\"", " 7 ", "-2.5", "x", "1e3", "é", "12abc", "\"a\" ,", " ", "\"HELLO ", "  \"sp  ", "\"open\t", "x \u{a0}", "7\u{3000}"]).to_string())
        .collect()
}
