//! C19: a transliteration of the page script (abasic-web/ts/main.ts, class `Interpreter`) driving the
//! real `JsInterpreter` natively, and, in lock step, a plain core interpreter through the same script.
use abasic_core::{Interpreter, InterpreterOutput, InterpreterState};
use abasic_web::{JsInterpreter, JsInterpreterOutputType, JsInterpreterState};

#[derive(Clone, Copy, PartialEq, Debug)]
pub enum S {
    Idle,
    Running,
    AwaitingInput,
    Errored,
}

pub trait Backend {
    fn start_evaluating(&mut self, line: String);
    fn continue_evaluating(&mut self);
    fn provide_input(&mut self, input: String);
    fn break_at_current_location(&mut self);
    fn take_latest_output(&mut self) -> Vec<(&'static str, String)>;
    fn take_latest_error(&mut self) -> Option<String>;
    fn get_state(&self) -> S;
    fn randomize(&mut self, seed: u64);
}

pub struct Web(pub JsInterpreter);

impl Backend for Web {
    fn start_evaluating(&mut self, line: String) {
        self.0.start_evaluating(line)
    }
    fn continue_evaluating(&mut self) {
        self.0.continue_evaluating()
    }
    fn provide_input(&mut self, input: String) {
        self.0.provide_input(input)
    }
    fn break_at_current_location(&mut self) {
        self.0.break_at_current_location()
    }
    fn take_latest_output(&mut self) -> Vec<(&'static str, String)> {
        self.0
            .take_latest_output()
            .into_iter()
            .map(|item| {
                let ty = match item.output_type {
                    JsInterpreterOutputType::Print => "Print",
                    JsInterpreterOutputType::Break => "Break",
                    JsInterpreterOutputType::Warning => "Warning",
                    JsInterpreterOutputType::Trace => "Trace",
                    JsInterpreterOutputType::ExtraIgnored => "ExtraIgnored",
                    JsInterpreterOutputType::Reenter => "Reenter",
                };
                (ty, item.into_string())
            })
            .collect()
    }
    fn take_latest_error(&mut self) -> Option<String> {
        self.0.take_latest_error()
    }
    fn get_state(&self) -> S {
        match self.0.get_state() {
            JsInterpreterState::Idle => S::Idle,
            JsInterpreterState::Running => S::Running,
            JsInterpreterState::AwaitingInput => S::AwaitingInput,
            JsInterpreterState::Errored => S::Errored,
        }
    }
    fn randomize(&mut self, seed: u64) {
        self.0.randomize(seed)
    }
}

/// what the adapter is supposed to be: the core interpreter plus an error latch, replaced after NEW
#[derive(Default)]
pub struct Core {
    interp: Interpreter,
    latest: Option<String>,
}

impl Core {
    fn replace(&mut self) {
        if self.interp.get_state() == InterpreterState::NewInterpreterRequested {
            self.interp = Interpreter::default();
        }
    }
}

impl Backend for Core {
    fn start_evaluating(&mut self, line: String) {
        match self.interp.start_evaluating(&line) {
            Err(err) => {
                let mut lines = vec![err.to_string()];
                lines.extend(err.get_line_with_pointer_caret(&self.interp, Some(line)));
                self.latest = Some(lines.join("\n"));
            }
            Ok(()) => self.replace(),
        }
    }
    fn continue_evaluating(&mut self) {
        match self.interp.continue_evaluating() {
            Err(err) => self.latest = Some(err.to_string()),
            Ok(()) => self.replace(),
        }
    }
    fn provide_input(&mut self, input: String) {
        self.interp.provide_input(input)
    }
    fn break_at_current_location(&mut self) {
        self.interp.break_at_current_location()
    }
    fn take_latest_output(&mut self) -> Vec<(&'static str, String)> {
        self.interp
            .take_output()
            .into_iter()
            .map(|o| {
                let ty = match &o {
                    InterpreterOutput::Print(_) => "Print",
                    InterpreterOutput::Break(_) => "Break",
                    InterpreterOutput::Warning(_, _) => "Warning",
                    InterpreterOutput::Trace(_) => "Trace",
                    InterpreterOutput::ExtraIgnored => "ExtraIgnored",
                    InterpreterOutput::Reenter => "Reenter",
                };
                (ty, o.to_string())
            })
            .collect()
    }
    fn take_latest_error(&mut self) -> Option<String> {
        self.latest.take()
    }
    fn get_state(&self) -> S {
        if self.latest.is_some() {
            return S::Errored;
        }
        match self.interp.get_state() {
            InterpreterState::Idle => S::Idle,
            InterpreterState::Running => S::Running,
            InterpreterState::AwaitingInput => S::AwaitingInput,
            InterpreterState::NewInterpreterRequested => panic!("transient state exposed"),
        }
    }
    fn randomize(&mut self, seed: u64) {
        self.interp.randomize(seed)
    }
}

pub struct Page<B: Backend> {
    pub imp: B,
    pub interactive: bool,
    pub ticks: usize,
    pub ui: Vec<(String, String)>,
}

fn js_blank(line: &str) -> bool {
    line.chars().all(|c| c.is_whitespace() || c == '\u{feff}')
}

impl<B: Backend> Page<B> {
    pub fn new(imp: B) -> Self {
        Page { imp, interactive: true, ticks: 0, ui: vec![] }
    }
    fn show_output(&mut self) {
        for (ty, text) in self.imp.take_latest_output() {
            match ty {
                "Print" => self.ui.push(("print".into(), text)),
                "Trace" => self.ui.push(("info".into(), format!("{} ", text))),
                _ => self.ui.push(("warning".into(), format!("{}\n", text))),
            }
        }
    }
    pub fn handle_current_state(&mut self) {
        self.show_output();
        match self.imp.get_state() {
            S::Idle => self.ui.push(("prompt".into(), if self.interactive { "] ".to_string() } else { "<disabled>".to_string() })),
            S::AwaitingInput => self.ui.push(("prompt".into(), "? ".to_string())),
            S::Errored => {
                let err = self.imp.take_latest_error().expect("Assertion failure, take_latest_error() returned undefined!");
                for (i, line) in err.split('\n').enumerate() {
                    self.ui.push((if i == 0 { "error".into() } else { "error-context".into() }, format!("{}\n", line)));
                }
                self.handle_current_state();
            }
            S::Running => {
                self.imp.continue_evaluating();
                self.ticks += 1;
            }
        }
    }
    pub fn load_and_run(&mut self, source: &str) {
        self.interactive = false;
        let mut stopped = false;
        for line in source.split('\n') {
            if js_blank(line) {
                continue;
            }
            if !line.chars().next().map(|c| c.is_ascii_digit()).unwrap_or(false) {
                continue;
            }
            self.imp.start_evaluating(line.to_string());
            if self.imp.get_state() == S::Errored {
                stopped = true;
                break;
            }
        }
        if !stopped {
            self.imp.start_evaluating("RUN".to_string());
        }
        self.handle_current_state();
    }
    pub fn submit(&mut self, input: &str) {
        match self.imp.get_state() {
            S::Idle => {
                self.imp.start_evaluating(input.to_string());
                self.handle_current_state();
            }
            S::AwaitingInput => {
                self.imp.provide_input(input.to_string());
                self.handle_current_state();
            }
            _ => {}
        }
    }
    pub fn break_now(&mut self) {
        let st = self.imp.get_state();
        if st == S::AwaitingInput || st == S::Running {
            self.interactive = true;
            self.imp.break_at_current_location();
            self.handle_current_state();
        }
    }
    pub fn tick(&mut self) {
        if self.ticks > 0 {
            self.ticks -= 1;
            self.handle_current_state();
        }
    }
}

pub struct Pair {
    pub web: Page<Web>,
    pub core: Page<Core>,
    pub seen: usize,
    pub trapped: bool,
}

impl Pair {
    pub fn new() -> Pair {
        Pair { web: Page::new(Web(JsInterpreter::new())), core: Page::new(Core::default()), seen: 0, trapped: false }
    }
    pub fn seed(&mut self, n: u64) {
        self.web.imp.randomize(n);
        self.core.imp.randomize(n);
    }
    /// apply one page event to both; the reply describes the web side and whether the core side agrees
    pub fn event<FW: FnOnce(&mut Page<Web>), FC: FnOnce(&mut Page<Core>)>(&mut self, fw: FW, fc: FC) -> String {
        if self.trapped {
            return "TRAPPED".to_string();
        }
        let r = std::panic::catch_unwind(std::panic::AssertUnwindSafe(|| fw(&mut self.web)));
        if r.is_err() {
            self.trapped = true;
            return "TRAP".to_string();
        }
        let rc = std::panic::catch_unwind(std::panic::AssertUnwindSafe(|| fc(&mut self.core)));
        let st = match std::panic::catch_unwind(std::panic::AssertUnwindSafe(|| self.web.imp.get_state())) {
            Ok(s) => format!("{:?}", s),
            Err(_) => {
                self.trapped = true;
                return "TRAP".to_string();
            }
        };
        let faithful = rc.is_ok()
            && self.web.ui == self.core.ui
            && self.web.ticks == self.core.ticks
            && std::panic::catch_unwind(std::panic::AssertUnwindSafe(|| self.core.imp.get_state())).map(|s| format!("{:?}", s) == st).unwrap_or(false);
        let fresh: Vec<String> = self.web.ui[self.seen..].iter().map(|(c, t)| format!("{}:{}", c, crate::imp::hex(t))).collect();
        self.seen = self.web.ui.len();
        format!("{} t={} i={} F:{} ui={}", st, self.web.ticks, self.web.interactive as u8, if faithful { "ok" } else { "DIFF" }, fresh.join(" "))
    }
}
