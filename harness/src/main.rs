mod core;
mod gen;
mod imp;
mod model;
mod oracles;
mod prog;
mod realpage;
mod refint;
mod rng;
mod slices;
mod web;

use crate::core::{report_json, run_slice, shrink, Case};
use crate::model::Driver;
use crate::rng::Rng;

fn arg(args: &[String], name: &str) -> Option<String> {
    args.iter().position(|a| a == name).and_then(|i| args.get(i + 1).cloned())
}

fn main() {
    // panics inside the implementation are caught per op; keep them quiet
    // (VERIF_LOUD_PANICS=1 shows them: a panic of the harness itself, outside catch_unwind, ends the process with rc 101)
    if std::env::var("VERIF_LOUD_PANICS").is_err() {
        std::panic::set_hook(Box::new(|_| {}));
    }
    // error texts must not carry backtraces (the sandbox exports RUST_BACKTRACE=1)
    std::env::set_var("RUST_BACKTRACE", "0");
    let args: Vec<String> = std::env::args().collect();
    if args.len() < 2 {
        eprintln!("usage: harness <slice> [--seed N] [--tier quick|thorough] [--driver PATH] [--out FILE] [--replay OPSFILE]");
        std::process::exit(2);
    }
    let slice = args[1].clone();
    let seed: u64 = arg(&args, "--seed").and_then(|s| s.parse().ok()).unwrap_or(1);
    let tier = arg(&args, "--tier").unwrap_or_else(|| "quick".to_string());
    let driver = Driver { path: arg(&args, "--driver").unwrap_or_else(|| "/verif/lean/.lake/build/bin/abasic-driver".to_string()) };
    let out = arg(&args, "--out");
    let mut rng = Rng::new(seed);

    let (cases, exhaustive, rule): (Vec<Case>, bool, String) = if let Some(path) = arg(&args, "--replay") {
        // a replay file: lines "op <line>" and "check <line>"
        let text = std::fs::read_to_string(&path).expect("cannot read replay ops file");
        let mut ops = vec![];
        let mut checks = vec![];
        for l in text.lines() {
            if let Some(o) = l.strip_prefix("op ") {
                ops.push(o.to_string());
            } else if let Some(c) = l.strip_prefix("check ") {
                checks.push(c.to_string());
            }
        }
        (vec![Case { ops, checks, tag: "replay".into(), nontrivial: true, show: path.clone() }], false, "replay of one recorded case".to_string())
    } else {
        match slice.as_str() {
            "c13" => {
                let (c, e) = slices::tok::c13_cases(&mut rng, &tier);
                (c, e, "all strings up to length 3 (quick) / 5 (thorough) over a 17-symbol alphabet, plus random token-alphabet and statement-shaped lines with optional line-number prefix; non-trivial = not blank".into())
            }
            "c12" => {
                let (c, e) = slices::tok::c12_cases(&mut rng, &tier);
                (c, e, "random lines with 1-4 perturbations (blank insertion/deletion, case flip, all at once) at positions outside the protected regions of the line's own tokenization; all single edits of 10 short lines; DATA blank variants; non-trivial = perturbed text differs".into())
            }
            "c04" => {
                let (c, e) = slices::store::cases(&mut rng, &tier);
                (c, e, "random edit histories (add/replace/delete/failed edit/over-long number) over a pool of line numbers incl. 0, leading zeros and the u64 extremes, interleaved with LIST and RUN; non-trivial = at least two kinds of operation".into())
            }
            "c18" => {
                let (c, e) = slices::rngs::cases(&mut rng, &tier);
                (c, e, "raw generator steps from boundary and random 64-bit seeds with positive/zero/negative/NaN arguments, and PRINT RND(x) sessions after randomize(seed); non-trivial = mixes argument signs".into())
            }
            "num" => {
                let (c, e) = slices::num::cases(&mut rng, &tier);
                (c, e, "Display/parse of boundary and random doubles, odd numerals, command-word upper-casing over all of Unicode".into())
            }
            "c01" => {
                let (c, e) = slices::sess::c01_cases(&mut rng, &tier);
                (c, e, "state-aware random walks over the host protocol (submit/continue/reply/break/replace/seed) mixing generated programs, token soup, malformed text, a pool of boundary lines (u64 extremes, huge subscripts, 20 subscripts, big seeds) and nesting 30..3000 deep; after every call: output, state, full snapshot, caret rendering of every error; non-trivial = at least three kinds of event".into())
            }
            "walk" => {
                let (c, e) = slices::sess::walk_cases(&mut rng, &tier);
                (c, e, "general state-aware random walks over the host protocol: statements of every kind (FOR/NEXT/GOSUB/RETURN/GOTO/IF-ELSE/DATA/READ/RESTORE/DIM/DEF/FN calls/INPUT/STOP/END/commands/array cells/RND), alone, numbered or several per line, edits and deletions, breaks, replies, inspections at breakpoints; after every call: output, state, full snapshot, caret rendering; non-trivial = at least three kinds of event".into())
            }
            "c16" => {
                let (c, e) = slices::sess::c16_cases(&mut rng, &tier);
                (c, e, "targeted cap / re-entry / typing programs under two flag settings plus random walks, full state snapshot after every host call; non-trivial = at least three kinds of event".into())
            }
            "c10" => {
                let (c, e) = slices::sess::c10_cases(&mut rng, &tier);
                (c, e, "generated program + random history (earlier runs, failed runs, breaks incl. an unconsumed reply, immediate statements setting variables / arrays / loops / data cursor, GOTO, CONT) then RUN, against a fresh interpreter with the same lines, flags and generator state then RUN; non-trivial = at least two kinds of history event".into())
            }
            "c11" => {
                let (c, e) = slices::sess::c11_cases(&mut rng, &tier);
                (c, e, "generated program with a function, DATA, a loop, a subroutine and a STOP, suspended after k turns (breakpoint, host break, awaiting input, idle), then one edit (add/replace/delete/DATA/failed) and one probe (CONT/RETURN/NEXT/READ/FN call/GOTO)".into())
            }
            "c17" => {
                let (c, e) = slices::sess::c17_cases(&mut rng, &tier);
                (c, e, "generated program and input script run under the four warnings/tracing configurations (API fields or TRACE/NOTRACE commands)".into())
            }
            "c09" => {
                let (c, e) = slices::sess::c09_cases(&mut rng, &tier);
                (c, e, "generated programs without user functions (every fifth non-terminating, every seventh with nested IFs and a 30-item PRINT) run turn by turn with tracing on; per call: records produced and token-cursor reads (hook counter)".into())
            }
            "c07" => {
                let (c, e) = slices::sess::c07_cases(&mut rng, &tier);
                (c, e, "generated program run uninterrupted vs with host breaks at random turn boundaries (1/5 each), side-effect-free inspection statements (incl. failing ones and failing FN calls) and CONT; plus assignment at a STOP vs the assignment in place of the STOP; non-trivial = at least one break".into())
            }
            "c02" => {
                let (c, e) = slices::expr::cases(&mut rng, &tier, &driver);
                (c, e, "all expression trees with 1 and 2 binary operators over 13 operators and leaf kinds (variable, numeral, string variable, zero) (thorough: a third of the 3-operator trees), every unary/binary operator pairing, and random trees of size 1..9 over literals, variables (set, unset, string), 3 unary + 13 binary operators, ABS, INT, with and without redundant parentheses; the text is rendered by the Lean spec with minimal parentheses".into())
            }
            "c03" => {
                let (c, e) = slices::progs::cases(&mut rng, &tier);
                (c, e, "grammar-generated structured programs (LET, PRINT ; ,, IF/THEN/ELSE with statement or line targets, GOTO, GOSUB/RETURN incl. runaway recursion, nested FOR/TO/STEP/NEXT incl. NEXT of an outer variable, READ/DATA/RESTORE, DIM and 1-3-dimensional cells, DEF FN with dynamic scoping, END, RND, forced runtime failures) compiled to numbered text; printed output and (error kind, line) compared with a reference interpreter over the syntax tree; non-trivial = more than two lines".into())
            }
            "c05" => {
                let (c, e) = slices::docs::c05_cases(&mut rng, &tier);
                (c, e, "documents mixing generated programs with numbered, unnumbered, blank, duplicated, emptied (`10`) and untokenizable lines, LF/CRLF/CR endings, non-ASCII text, statements of every kind, nesting 47..300 deep, plus the shapes of earlier defects; non-trivial = more than one line".into())
            }
            "c20" => {
                let (c, e) = slices::docs::c20_cases(&mut rng, &tier);
                (c, e, "the real abasic-lsp binary over stdio: per case one server, 1-8 open/change notifications with generated documents (the C05 shapes plus non-ASCII strings/comments, CRLF/CR, U+2028) each followed by a semanticTokens/full request".into())
            }
            "c06" => {
                let (c, e) = slices::docs::c06_cases(&mut rng, &tier);
                (c, e, "straight-line single lines (well- and ill-typed/ill-formed, 1-3 statements) analysed and executed from a fresh state; generated small programs analysed and executed under three seeds / input scripts".into())
            }
            "c15" => {
                let (c, e) = slices::cli::cases(&mut rng, &tier);
                (c, e, "generated programs (all lines numbered, non-empty, tokenizable; a quarter with 40-deep nesting and statically wrong unreachable lines; a fifth ending without a newline): SourceFileAnalyzer::analyze(..).into_interpreter() vs line-by-line entry in-process (snapshot, LIST, RUN), and the real `abasic` binary in file mode vs the same lines + RUN piped into an interactive session for --warnings/--tracing/--skip-check combinations".into())
            }
            "c19" => {
                let (c, e) = slices::webs::cases(&mut rng, &tier);
                (c, e, "page event sequences (program file loaded at start-up incl. failing / unnumbered / blank / CRLF lines and NEW inside, submitted lines and replies incl. indented lines with tokenizer errors, NEW, TRACE, break, timer ticks, typing while running) through a transliteration of main.ts driving the real JsInterpreter natively and a core interpreter in lock step; plus NEW-then-probes vs fresh-then-probes; non-trivial = at least two kinds of event".into())
            }
            "c14" => {
                let (c, e) = slices::list::cases(&mut rng, &tier);
                (c, e, "1-8 storable lines (numerals in every spelling incl. hundreds of digits, DATA items quoted/unquoted/numeric/empty/with quotes/multibyte, REM text, strings, crunched keyword/identifier adjacencies, operators with inner blanks, statement-shaped lines, token soup) + a READ/PRINT tail; LIST, reload the listing into a fresh interpreter, LIST again, RUN both; non-trivial = more than one line reloaded".into())
            }
            "c08" => {
                let (c, e) = slices::sess::c08_cases(&mut rng, &tier);
                (c, e, "nine INPUT placements (after colon, own line, THEN, ELSE, loop, subroutine, array target, two inputs, THEN..ELSE) x numeric/string target x 21 reply texts, snapshot before and after every reply".into())
            }
            other => {
                eprintln!("unknown slice {}", other);
                std::process::exit(2);
            }
        }
    };
    let mut report = run_slice(cases, &driver, &rule, exhaustive);
    if slice == "c18" && tier == "thorough" && arg(&args, "--replay").is_none() {
        let threads = std::thread::available_parallelism().map(|n| n.get()).unwrap_or(4);
        match slices::rngs::exhaustive_sweep(threads, 1 << 33) {
            Ok(n) => {
                report.histogram.insert("exhaustive-states-swept".into(), n);
            }
            Err(e) => report.failures.push(core::Failure {
                kind: "oracle".into(),
                detail: format!("exhaustive sweep: {}", e),
                case: Case { ops: vec![], checks: vec![], tag: "sweep".into(), nontrivial: true, show: e.clone() },
                impl_replies: vec![],
                model_replies: vec![],
            }),
        }
    }
    // shrink what can be shrunk
    report.failures.sort_by_key(|f| if f.kind == "oracle" { 0 } else { 1 });
    let shrunk: Vec<core::Failure> = report.failures.iter().take(40).enumerate().map(|(i, f)| if i < 6 { shrink(f, &driver) } else { f.clone() }).collect();
    report.failures = shrunk;
    let json = report_json(&slice, seed, &tier, &report);
    match out {
        Some(p) => std::fs::write(p, json).expect("cannot write report"),
        None => println!("{}", json),
    }
}
