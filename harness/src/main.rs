mod core;
mod gen;
mod imp;
mod model;
mod oracles;
mod rng;
mod slices;

use crate::core::{report_json, run_slice, shrink, Case};
use crate::model::Driver;
use crate::rng::Rng;

fn arg(args: &[String], name: &str) -> Option<String> {
    args.iter().position(|a| a == name).and_then(|i| args.get(i + 1).cloned())
}

fn main() {
    // panics inside the implementation are caught per op; keep them quiet
    std::panic::set_hook(Box::new(|_| {}));
    let args: Vec<String> = std::env::args().collect();
    if args.len() < 2 {
        eprintln!("usage: harness <slice> [--seed N] [--tier quick|thorough] [--driver PATH] [--out FILE] [--replay OPSFILE]");
        std::process::exit(2);
    }
    let slice = args[1].clone();
    let seed: u64 = arg(&args, "--seed").and_then(|s| s.parse().ok()).unwrap_or(1);
    let tier = arg(&args, "--tier").unwrap_or_else(|| "quick".to_string());
    let driver = Driver { path: arg(&args, "--driver").unwrap_or_else(|| "/verif/lean/.lake/build/bin/abasic-driver".to_string()) };
    let out = arg(&args, "--out");
    let mut rng = Rng::new(seed);

    let (cases, exhaustive, rule): (Vec<Case>, bool, String) = if let Some(path) = arg(&args, "--replay") {
        // a replay file: lines "op <line>" and "check <line>"
        let text = std::fs::read_to_string(&path).expect("cannot read replay ops file");
        let mut ops = vec![];
        let mut checks = vec![];
        for l in text.lines() {
            if let Some(o) = l.strip_prefix("op ") {
                ops.push(o.to_string());
            } else if let Some(c) = l.strip_prefix("check ") {
                checks.push(c.to_string());
            }
        }
        (vec![Case { ops, checks, tag: "replay".into(), nontrivial: true, show: path.clone() }], false, "replay of one recorded case".to_string())
    } else {
        match slice.as_str() {
            "c13" => {
                let (c, e) = slices::tok::c13_cases(&mut rng, &tier);
                (c, e, "all strings up to length 3 (quick) / 5 (thorough) over a 17-symbol alphabet, plus random token-alphabet and statement-shaped lines with optional line-number prefix; non-trivial = not blank".into())
            }
            "c12" => {
                let (c, e) = slices::tok::c12_cases(&mut rng, &tier);
                (c, e, "random lines with 1-4 perturbations (blank insertion/deletion, case flip, all at once) at positions outside the protected regions of the line's own tokenization; all single edits of 10 short lines; DATA blank variants; non-trivial = perturbed text differs".into())
            }
            "c04" => {
                let (c, e) = slices::store::cases(&mut rng, &tier);
                (c, e, "random edit histories (add/replace/delete/failed edit/over-long number) over a pool of line numbers incl. 0, leading zeros and the u64 extremes, interleaved with LIST and RUN; non-trivial = at least two kinds of operation".into())
            }
            "c18" => {
                let (c, e) = slices::rngs::cases(&mut rng, &tier);
                (c, e, "raw generator steps from boundary and random 64-bit seeds with positive/zero/negative/NaN arguments, and PRINT RND(x) sessions after randomize(seed); non-trivial = mixes argument signs".into())
            }
            "num" => {
                let (c, e) = slices::num::cases(&mut rng, &tier);
                (c, e, "Display/parse of boundary and random doubles, odd numerals, command-word upper-casing over all of Unicode".into())
            }
            other => {
                eprintln!("unknown slice {}", other);
                std::process::exit(2);
            }
        }
    };
    let mut report = run_slice(cases, &driver, &rule, exhaustive);
    if slice == "c18" && tier == "thorough" && arg(&args, "--replay").is_none() {
        let threads = std::thread::available_parallelism().map(|n| n.get()).unwrap_or(4);
        match slices::rngs::exhaustive_sweep(threads, 1 << 33) {
            Ok(n) => {
                report.histogram.insert("exhaustive-states-swept".into(), n);
            }
            Err(e) => report.failures.push(core::Failure {
                kind: "oracle".into(),
                detail: format!("exhaustive sweep: {}", e),
                case: Case { ops: vec![], checks: vec![], tag: "sweep".into(), nontrivial: true, show: e.clone() },
                impl_replies: vec![],
                model_replies: vec![],
            }),
        }
    }
    // shrink what can be shrunk
    let shrunk: Vec<core::Failure> = report.failures.iter().take(5).map(|f| shrink(f, &driver)).collect();
    report.failures = shrunk;
    let json = report_json(&slice, seed, &tier, &report);
    match out {
        Some(p) => std::fs::write(p, json).expect("cannot write report"),
        None => println!("{}", json),
    }
}
