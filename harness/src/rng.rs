//! One PRNG state for every random choice (so a seed replays exactly).
#[derive(Clone)]
pub struct Rng(pub u64);

impl Rng {
    pub fn new(seed: u64) -> Self {
        let mut r = Rng(seed ^ 0x9E37_79B9_7F4A_7C15);
        r.next();
        r
    }
    pub fn next(&mut self) -> u64 {
        // splitmix64
        self.0 = self.0.wrapping_add(0x9E37_79B9_7F4A_7C15);
        let mut z = self.0;
        z = (z ^ (z >> 30)).wrapping_mul(0xBF58_476D_1CE4_E5B9);
        z = (z ^ (z >> 27)).wrapping_mul(0x94D0_49BB_1331_11EB);
        z ^ (z >> 31)
    }
    pub fn below(&mut self, n: usize) -> usize {
        if n == 0 {
            0
        } else {
            (self.next() % (n as u64)) as usize
        }
    }
    pub fn chance(&mut self, num: usize, den: usize) -> bool {
        self.below(den) < num
    }
    pub fn pick<T: Clone>(&mut self, items: &[T]) -> T {
        items[self.below(items.len())].clone()
    }
    pub fn range(&mut self, lo: usize, hi: usize) -> usize {
        lo + self.below(hi - lo + 1)
    }
    pub fn fork(&mut self) -> Rng {
        Rng::new(self.next())
    }
}
