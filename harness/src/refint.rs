//! C03 oracle: an independent reference interpreter over structured programs,
//! written from the documented semantics (README + the behaviours the property
//! names), not from the token-cursor mechanics of the implementation.
use crate::rng::Rng;
use std::collections::BTreeMap;

#[derive(Clone, Debug)]
pub enum E {
    Num(f64),
    Str(String),
    Var(String),
    Cell(String, Vec<E>),
    Neg(Box<E>),
    Not(Box<E>),
    Bin(&'static str, Box<E>, Box<E>),
    Abs(Box<E>),
    Int(Box<E>),
    Rnd(Box<E>),
    Call(String, Vec<E>),
}

#[derive(Clone, Debug)]
pub enum Then {
    Line(u64),
    Stmt(Box<S>),
}

#[derive(Clone, Debug)]
pub enum S {
    Let(String, Option<Vec<E>>, E),
    Print(Vec<(E, char)>, bool), // items each followed by separator ';' ',' or ' ' (none); trailing semicolon flag
    /// PRINT with an arbitrary run of separators after the last item (or no item at all): `PRINT A;,` `PRINT ,;` `PRINT ;;`
    PrintT(Vec<(E, char)>, String),
    If(E, Then, Option<Then>),
    Goto(u64),
    Gosub(u64),
    Return,
    For(String, E, E, Option<E>),
    Next(String),
    Read(Vec<(String, Option<Vec<E>>)>),
    Data(Vec<String>), // raw item texts as written
    Restore,
    Dim(String, Vec<E>),
    Def(String, Vec<String>, E),
    End,
    Rem,
}

pub type Program = Vec<(u64, Vec<S>)>;

// ---------------------------------------------------------------------------
// compile to BASIC text

fn prec(op: &str) -> u8 {
    match op {
        "OR" => 1,
        "AND" => 2,
        "=" | "<" | "<=" | ">" | ">=" | "<>" => 3,
        "+" | "-" => 4,
        "*" | "/" => 5,
        "^" => 6,
        _ => 8,
    }
}

fn eprec(e: &E) -> u8 {
    match e {
        E::Bin(op, _, _) => prec(op),
        E::Neg(_) | E::Not(_) => 7,
        _ => 8,
    }
}

fn num_text(x: f64) -> String {
    format!("{}", x)
}

pub fn etext(e: &E) -> String {
    let at = |e: &E, p: u8| if eprec(e) < p { format!("({})", etext(e)) } else { etext(e) };
    match e {
        E::Num(x) => num_text(*x),
        E::Str(s) => format!("\"{}\"", s),
        E::Var(v) => v.clone(),
        E::Cell(a, idx) => format!("{}({})", a, idx.iter().map(etext).collect::<Vec<_>>().join(",")),
        E::Neg(x) => format!("-{}", at(x, 8)),
        E::Not(x) => format!("NOT {}", at(x, 8)),
        E::Bin(op, l, r) => format!("{} {} {}", at(l, prec(op)), op, at(r, prec(op) + 1)),
        E::Abs(x) => format!("ABS({})", etext(x)),
        E::Int(x) => format!("INT({})", etext(x)),
        E::Rnd(x) => format!("RND({})", etext(x)),
        E::Call(f, args) => format!("{}({})", f, args.iter().map(etext).collect::<Vec<_>>().join(",")),
    }
}

fn lv_text(name: &str, idx: &Option<Vec<E>>) -> String {
    match idx {
        None => name.to_string(),
        Some(ix) => format!("{}({})", name, ix.iter().map(etext).collect::<Vec<_>>().join(",")),
    }
}

fn then_text(t: &Then) -> String {
    match t {
        Then::Line(n) => n.to_string(),
        Then::Stmt(s) => stext(s),
    }
}

pub fn stext(s: &S) -> String {
    match s {
        S::Let(n, idx, e) => format!("{} = {}", lv_text(n, idx), etext(e)),
        S::Print(items, semi) => {
            let mut t = String::from("PRINT ");
            for (i, (e, sep)) in items.iter().enumerate() {
                t.push_str(&etext(e));
                if i + 1 < items.len() {
                    match sep {
                        ';' => t.push_str("; "),
                        ',' => t.push_str(", "),
                        _ => t.push(' '),
                    }
                }
            }
            if *semi {
                t.push(';');
            }
            t
        }
        S::PrintT(items, tail) => {
            let mut t = String::from("PRINT ");
            for (i, (e, sep)) in items.iter().enumerate() {
                t.push_str(&etext(e));
                if i + 1 < items.len() {
                    t.push_str(if *sep == ',' { ", " } else { "; " });
                }
            }
            for c in tail.chars() {
                t.push(c);
                t.push(' ');
            }
            t.trim_end().to_string()
        }
        S::If(c, t, e) => {
            let mut x = format!("IF {} THEN {}", etext(c), then_text(t));
            if let Some(e) = e {
                x.push_str(&format!(" ELSE {}", then_text(e)));
            }
            x
        }
        S::Goto(n) => format!("GOTO {}", n),
        S::Gosub(n) => format!("GOSUB {}", n),
        S::Return => "RETURN".to_string(),
        S::For(v, a, b, st) => {
            let mut x = format!("FOR {} = {} TO {}", v, etext(a), etext(b));
            if let Some(st) = st {
                x.push_str(&format!(" STEP {}", etext(st)));
            }
            x
        }
        S::Next(v) => format!("NEXT {}", v),
        S::Read(lvs) => format!("READ {}", lvs.iter().map(|(n, i)| lv_text(n, i)).collect::<Vec<_>>().join(", ")),
        S::Data(items) => format!("DATA {}", items.join(", ")),
        S::Restore => "RESTORE".to_string(),
        S::Dim(a, idx) => format!("DIM {}({})", a, idx.iter().map(etext).collect::<Vec<_>>().join(",")),
        S::Def(f, ps, body) => format!("DEF {}({}) = {}", f, ps.join(","), etext(body)),
        S::End => "END".to_string(),
        S::Rem => "REM note".to_string(),
    }
}

pub fn compile(p: &Program) -> Vec<String> {
    p.iter().map(|(n, ss)| format!("{} {}", n, ss.iter().map(stext).collect::<Vec<_>>().join(" : "))).collect()
}

// ---------------------------------------------------------------------------
// the reference semantics

#[derive(Clone, Debug, PartialEq)]
pub enum V {
    N(f64),
    S(String),
}

#[derive(Debug, Clone, PartialEq)]
pub struct Outcome {
    pub output: String,
    /// None: ended normally; Some((kind, line)): failed
    pub error: Option<(String, Option<u64>)>,
    pub steps_exhausted: bool,
}

struct Arr {
    dims: Vec<usize>,
    cells: Vec<V>,
}

struct R<'a> {
    prog: &'a Program,
    vars: BTreeMap<String, V>,
    arrays: BTreeMap<String, Arr>,
    frames: Vec<Option<BTreeMap<String, V>>>, // None = GOSUB frame (with return position kept separately)
    returns: Vec<(usize, usize)>,
    loops: Vec<(String, f64, f64, (usize, usize))>,
    data: Vec<(String, u64)>,
    data_pos: usize,
    fns: BTreeMap<String, (Vec<String>, E, u64)>,
    rng: u64,
    out: String,
}

type Fail = (String, Option<u64>);

fn is_str_name(n: &str) -> bool {
    n.ends_with('$')
}

fn truthy(v: &V) -> bool {
    match v {
        V::N(x) => *x != 0.0,
        V::S(s) => !s.is_empty(),
    }
}

fn b(x: bool) -> V {
    V::N(if x { 1.0 } else { 0.0 })
}

impl<'a> R<'a> {
    fn lookup(&self, name: &str) -> V {
        for f in self.frames.iter().rev() {
            if let Some(bind) = f {
                if let Some(v) = bind.get(name) {
                    return v.clone();
                }
            }
        }
        match self.vars.get(name) {
            Some(v) => v.clone(),
            None => {
                if is_str_name(name) {
                    V::S(String::new())
                } else {
                    V::N(0.0)
                }
            }
        }
    }

    fn index(&mut self, idx: &[E]) -> Result<Vec<usize>, String> {
        let mut out = vec![];
        for e in idx {
            match self.eval(e)? {
                V::N(x) => {
                    let i = x as i64;
                    if i < 0 {
                        return Err("IllegalQuantity".into());
                    }
                    out.push(i as usize);
                }
                V::S(_) => return Err("TypeMismatch".into()),
            }
        }
        Ok(out)
    }

    fn make_array(name: &str, max: &[usize]) -> Result<Arr, String> {
        if max.is_empty() {
            return Err("BadSubscript".into());
        }
        let mut total: u128 = 1;
        let mut dims = vec![];
        for m in max {
            let d = (*m as u128) + 1;
            total = total.saturating_mul(d);
            dims.push(*m + 1);
        }
        if total > 10000 {
            return Err("OutOfMemory.ArrayTooLarge".into());
        }
        let cell = if is_str_name(name) { V::S(String::new()) } else { V::N(0.0) };
        Ok(Arr { dims, cells: vec![cell; total as usize] })
    }

    fn ensure(&mut self, name: &str, arity: usize) -> Result<(), String> {
        if !self.arrays.contains_key(name) {
            // implicit arrays have indices 0..10 in every dimension
            let a = Self::make_array(name, &vec![10; arity])?;
            self.arrays.insert(name.to_string(), a);
        }
        Ok(())
    }

    fn linear(a: &Arr, idx: &[usize]) -> Result<usize, String> {
        if idx.len() != a.dims.len() {
            return Err("BadSubscript".into());
        }
        let mut lin = 0;
        let mut stride = 1;
        for (i, d) in idx.iter().zip(&a.dims) {
            if i >= d {
                return Err("BadSubscript".into());
            }
            lin += i * stride;
            stride *= d;
        }
        Ok(lin)
    }

    fn eval(&mut self, e: &E) -> Result<V, String> {
        Ok(match e {
            E::Num(x) => V::N(*x),
            E::Str(s) => V::S(s.clone()),
            E::Var(n) => self.lookup(n),
            E::Cell(a, idx) => {
                let ix = self.index(idx)?;
                self.ensure(a, ix.len())?;
                let arr = &self.arrays[a];
                arr.cells[Self::linear(arr, &ix)?].clone()
            }
            E::Neg(x) => match self.eval(x)? {
                V::N(v) => V::N(-v),
                V::S(_) => return Err("TypeMismatch".into()),
            },
            E::Not(x) => {
                let v = self.eval(x)?;
                b(!truthy(&v))
            }
            E::Bin(op, l, r) => {
                let a = self.eval(l)?;
                let c = self.eval(r)?;
                match *op {
                    "AND" => b(truthy(&a) && truthy(&c)),
                    "OR" => b(truthy(&a) || truthy(&c)),
                    "=" | "<" | "<=" | ">" | ">=" | "<>" => match (&a, &c) {
                        (V::N(x), V::N(y)) => b(match *op {
                            "=" => x == y,
                            "<" => x < y,
                            "<=" => x <= y,
                            ">" => x > y,
                            ">=" => x >= y,
                            _ => x != y,
                        }),
                        (V::S(x), V::S(y)) => b(match *op {
                            "=" => x == y,
                            "<" => x < y,
                            "<=" => x <= y,
                            ">" => x > y,
                            ">=" => x >= y,
                            _ => x != y,
                        }),
                        _ => return Err("TypeMismatch".into()),
                    },
                    _ => match (&a, &c) {
                        (V::N(x), V::N(y)) => V::N(match *op {
                            "+" => x + y,
                            "-" => x - y,
                            "*" => x * y,
                            "/" => {
                                if *y == 0.0 {
                                    return Err("DivisionByZero".into());
                                }
                                x / y
                            }
                            _ => x.powf(*y),
                        }),
                        _ => return Err("TypeMismatch".into()),
                    },
                }
            }
            E::Abs(x) => match self.eval(x)? {
                V::N(v) => V::N(v.abs()),
                V::S(_) => return Err("TypeMismatch".into()),
            },
            E::Int(x) => match self.eval(x)? {
                V::N(v) => V::N(v.floor()),
                V::S(_) => return Err("TypeMismatch".into()),
            },
            E::Rnd(x) => match self.eval(x)? {
                V::N(v) => {
                    if v < 0.0 {
                        return Err("Unimplemented".into());
                    }
                    if v > 0.0 {
                        self.rng = ((1664525u128 * self.rng as u128 + 1013904223u128) % (1u128 << 33)) as u64;
                    }
                    V::N(self.rng as f64 / 8589934592.0)
                }
                V::S(_) => return Err("TypeMismatch".into()),
            },
            E::Call(f, args) => {
                let Some((params, body, _)) = self.fns.get(f).cloned() else {
                    // not (yet) a function: an array reference
                    let ix = self.index(args)?;
                    self.ensure(f, ix.len())?;
                    let arr = &self.arrays[f];
                    return Ok(arr.cells[Self::linear(arr, &ix)?].clone());
                };
                let mut bind = BTreeMap::new();
                for (p, a) in params.iter().zip(args) {
                    let v = self.eval(a)?;
                    if matches!(v, V::S(_)) != is_str_name(p) {
                        return Err("TypeMismatch".into());
                    }
                    bind.insert(p.clone(), v);
                }
                if self.frames.len() >= 32 {
                    return Err("OutOfMemory.StackOverflow".into());
                }
                self.frames.push(Some(bind));
                let r = self.eval(&body);
                self.frames.pop();
                match r {
                    Ok(v) => v,
                    // an error inside a function body is reported at the line of its definition
                    Err(e) => return Err(if e.contains('@') { e } else { format!("{}@{}", e, self.fns[f].2) }),
                }
            }
        })
    }

    fn assign(&mut self, name: &str, idx: &Option<Vec<E>>, v: V) -> Result<(), String> {
        match idx {
            None => {
                if matches!(v, V::S(_)) != is_str_name(name) {
                    return Err("TypeMismatch".into());
                }
                self.vars.insert(name.to_string(), v);
            }
            Some(ix) => {
                let ix = self.index(ix)?;
                self.assign_cell(name, ix, v)?;
            }
        }
        Ok(())
    }

    fn assign_cell(&mut self, name: &str, ix: Vec<usize>, v: V) -> Result<(), String> {
        if matches!(v, V::S(_)) != is_str_name(name) {
            return Err("TypeMismatch".into());
        }
        self.ensure(name, ix.len())?;
        let arr = self.arrays.get_mut(name).unwrap();
        let lin = Self::linear(arr, &ix)?;
        arr.cells[lin] = v;
        Ok(())
    }

    fn line_index(&self, n: u64) -> Option<usize> {
        self.prog.iter().position(|(l, _)| *l == n)
    }
}

pub enum Flow {
    Next,
    Jump(usize, usize),
    Stop,
}

pub fn run(prog: &Program, seed: u64, max_steps: usize) -> Outcome {
    let mut data = vec![];
    for (n, ss) in prog {
        collect_data(ss, *n, &mut data);
    }
    let mut r = R {
        prog,
        vars: BTreeMap::new(),
        arrays: BTreeMap::new(),
        frames: vec![],
        returns: vec![],
        loops: vec![],
        data,
        data_pos: 0,
        fns: BTreeMap::new(),
        rng: seed % (1 << 33),
        out: String::new(),
    };
    let (mut li, mut si) = (0usize, 0usize);
    let mut steps = 0;
    loop {
        if li >= prog.len() {
            return Outcome { output: r.out, error: None, steps_exhausted: false };
        }
        if si >= prog[li].1.len() {
            li += 1;
            si = 0;
            continue;
        }
        steps += 1;
        if steps > max_steps {
            return Outcome { output: r.out, error: None, steps_exhausted: true };
        }
        let line = prog[li].0;
        let stmt = prog[li].1[si].clone();
        match exec(&mut r, &stmt, li, si) {
            Ok(Flow::Next) => si += 1,
            Ok(Flow::Jump(a, b)) => {
                li = a;
                si = b;
            }
            Ok(Flow::Stop) => return Outcome { output: r.out, error: None, steps_exhausted: false },
            Err(e) => {
                let (kind, at) = match e.split_once('@') {
                    Some((k, l)) => (k.to_string(), l.parse::<u64>().ok()),
                    None => (e, Some(line)),
                };
                return Outcome { output: r.out, error: Some((kind, at)), steps_exhausted: false };
            }
        }
    }
}

fn collect_data(ss: &[S], line: u64, out: &mut Vec<(String, u64)>) {
    for s in ss {
        if let S::Data(items) = s {
            for it in items {
                out.push((it.clone(), line));
            }
        }
    }
}

fn exec(r: &mut R, s: &S, li: usize, si: usize) -> Result<Flow, String> {
    match s {
        S::Let(n, idx, e) => {
            // subscripts first (left of '='), then the value
            match idx {
                None => {
                    let v = r.eval(e)?;
                    r.assign(n, &None, v)?;
                }
                Some(ix) => {
                    let ix = r.index(ix)?;
                    let v = r.eval(e)?;
                    r.assign_cell(n, ix, v)?;
                }
            }
            Ok(Flow::Next)
        }
        S::Print(items, semi) => {
            let mut text = String::new();
            for (e, sep) in items {
                match r.eval(e)? {
                    V::N(x) => text.push_str(&format!("{}", x)),
                    V::S(x) => text.push_str(&x),
                }
                if *sep == ',' {
                    text.push('\t');
                }
            }
            if let Some((_, sep)) = items.last() {
                // the last item's separator is not written in the text (see stext)
                if *sep == ',' {
                    text.pop();
                }
            }
            if !*semi {
                text.push('\n');
            }
            r.out.push_str(&text);
            Ok(Flow::Next)
        }
        S::PrintT(items, tail) => {
            // a `;` suppresses the line feed only when it is the LAST thing in the statement; a `,` is a tab
            let mut text = String::new();
            for (i, (e, sep)) in items.iter().enumerate() {
                match r.eval(e)? {
                    V::N(x) => text.push_str(&format!("{}", x)),
                    V::S(x) => text.push_str(&x),
                }
                if i + 1 < items.len() && *sep == ',' {
                    text.push('\t');
                }
            }
            let mut suppress = false;
            for c in tail.chars() {
                if c == ';' {
                    suppress = true;
                } else {
                    text.push('\t');
                    suppress = false;
                }
            }
            if !suppress {
                text.push('\n');
            }
            r.out.push_str(&text);
            Ok(Flow::Next)
        }
        S::If(c, t, e) => {
            let v = r.eval(c)?;
            let branch = if truthy(&v) { Some(t) } else { e.as_ref() };
            match branch {
                None => Ok(Flow::Jump(li + 1, 0)), // a false IF without ELSE skips the rest of the line
                Some(Then::Line(n)) => match r.line_index(*n) {
                    Some(i) => Ok(Flow::Jump(i, 0)),
                    None => Err("UndefinedStatement".into()),
                },
                Some(Then::Stmt(s)) => match exec(r, s, li, si)? {
                    // after the chosen clause the rest of the line continues only for THEN without ELSE... the
                    // ELSE part (if any) is skipped with the rest of the line; a false condition that ran its ELSE
                    // clause continues with the rest of the line
                    Flow::Next => {
                        if truthy(&v) && e.is_some() {
                            Ok(Flow::Jump(li + 1, 0))
                        } else {
                            Ok(Flow::Next)
                        }
                    }
                    other => Ok(other),
                },
            }
        }
        S::Goto(n) => match r.line_index(*n) {
            Some(i) => Ok(Flow::Jump(i, 0)),
            None => Err("UndefinedStatement".into()),
        },
        S::Gosub(n) => {
            if r.frames.len() >= 32 {
                return Err("OutOfMemory.StackOverflow".into());
            }
            match r.line_index(*n) {
                Some(i) => {
                    r.frames.push(None);
                    r.returns.push((li, si + 1));
                    Ok(Flow::Jump(i, 0))
                }
                None => Err("UndefinedStatement".into()),
            }
        }
        S::Return => match r.returns.pop() {
            Some((a, b)) => {
                r.frames.pop();
                Ok(Flow::Jump(a, b))
            }
            None => Err("ReturnWithoutGosub".into()),
        },
        S::For(v, a, b, st) => {
            let from = match r.eval(a)? {
                V::N(x) => x,
                _ => return Err("TypeMismatch".into()),
            };
            let to = match r.eval(b)? {
                V::N(x) => x,
                _ => return Err("TypeMismatch".into()),
            };
            let step = match st {
                Some(e) => match r.eval(e)? {
                    V::N(x) => x,
                    _ => return Err("TypeMismatch".into()),
                },
                None => 1.0,
            };
            // re-entering a loop for the same variable forgets it and everything opened inside it
            if let Some(p) = r.loops.iter().rposition(|l| &l.0 == v) {
                r.loops.truncate(p);
            }
            if r.loops.len() >= 32 {
                return Err("OutOfMemory.StackOverflow".into());
            }
            r.loops.push((v.clone(), to, step, (li, si + 1)));
            if is_str_name(v) {
                return Err("TypeMismatch".into());
            }
            r.vars.insert(v.clone(), V::N(from));
            Ok(Flow::Next)
        }
        S::Next(v) => {
            let cur = match r.vars.get(v) {
                Some(V::N(x)) => *x,
                Some(V::S(_)) => return Err("TypeMismatch".into()),
                None => {
                    if is_str_name(v) {
                        return Err("TypeMismatch".into());
                    }
                    0.0
                }
            };
            let Some(p) = r.loops.iter().rposition(|l| &l.0 == v) else {
                return Err("NextWithoutFor".into());
            };
            // NEXT forgets the loops opened inside this one
            r.loops.truncate(p + 1);
            let (_, to, step, body) = r.loops[p].clone();
            let nv = cur + step;
            let again = if step >= 0.0 { nv <= to } else { nv >= to };
            r.vars.insert(v.clone(), V::N(nv));
            if again {
                Ok(Flow::Jump(body.0, body.1))
            } else {
                r.loops.pop();
                Ok(Flow::Next)
            }
        }
        S::Read(lvs) => {
            for (n, idx) in lvs {
                let ix = match idx {
                    Some(ix) => Some(r.index(ix)?),
                    None => None,
                };
                let Some((item, dline)) = r.data.get(r.data_pos).cloned() else {
                    return Err("OutOfData".into());
                };
                r.data_pos += 1;
                let v = data_value(&item);
                let v = if is_str_name(n) {
                    match v {
                        V::S(s) => V::S(s),
                        V::N(x) => V::S(format!("{}", x)),
                    }
                } else {
                    match v {
                        V::N(x) => V::N(x),
                        V::S(_) => return Err(format!("DataTypeMismatch@{}", dline)),
                    }
                };
                match ix {
                    None => r.assign(n, &None, v)?,
                    Some(ix) => r.assign_cell(n, ix, v)?,
                }
            }
            Ok(Flow::Next)
        }
        S::Data(_) | S::Rem => Ok(Flow::Next),
        S::Restore => {
            r.data_pos = 0;
            Ok(Flow::Next)
        }
        S::Dim(a, idx) => {
            let ix = r.index(idx)?;
            if r.arrays.contains_key(a) {
                return Err("RedimensionedArray".into());
            }
            let arr = R::make_array(a, &ix)?;
            r.arrays.insert(a.clone(), arr);
            Ok(Flow::Next)
        }
        S::Def(f, ps, body) => {
            r.fns.insert(f.clone(), (ps.clone(), body.clone(), r.prog[li].0));
            // the rest of the line after a DEF is the function body: a DEF is the last statement we put on a line
            Ok(Flow::Next)
        }
        S::End => Ok(Flow::Stop),
    }
}

/// how a DATA item as written reads: quoted text is a string, anything that parses as a number is one
fn data_value(item: &str) -> V {
    let t = item.trim();
    if t.starts_with('"') && t.ends_with('"') && t.len() >= 2 {
        return V::S(t[1..t.len() - 1].to_string());
    }
    match t.parse::<f64>() {
        Ok(x) => V::N(x),
        Err(_) => V::S(t.to_string()),
    }
}

// ---------------------------------------------------------------------------
// grammar-based program generator

fn nvar(rng: &mut Rng) -> String {
    rng.pick(&["A", "B", "X", "Y", "N", "U"]).to_string()
}
fn svar(rng: &mut Rng) -> String {
    rng.pick(&["A$", "B$", "S$"]).to_string()
}

pub fn gen_num(rng: &mut Rng, depth: usize, fns: &[String]) -> E {
    if depth == 0 || rng.chance(2, 5) {
        return match rng.below(9) {
            0..=3 => E::Num(rng.pick(&[0.0, 1.0, 2.0, 3.0, 10.0, 0.5, 7.0, 2.5])),
            4..=6 => E::Var(nvar(rng)),
            7 => E::Var(rng.pick(&["I", "J", "K"]).to_string()),
            _ => E::Cell(rng.pick(&["P", "Q"]).to_string(), vec![match rng.below(6) {
                // a subscript is truncated towards zero before its sign is looked at: -0.5 addresses cell 0
                0 => E::Bin("-", Box::new(E::Num(0.0)), Box::new(E::Num(rng.pick(&[0.5, 0.25, 0.99])))),
                1 => E::Num(rng.pick(&[0.5, 1.5, 9.99, 10.5])),
                _ => E::Num(rng.pick(&[0.0, 1.0, 2.0, 10.0])),
            }]),
        };
    }
    match rng.below(14) {
        0..=5 => {
            let op = rng.pick(&["+", "-", "*", "/", "^", "=", "<", ">", "<=", ">=", "<>", "AND", "OR"]);
            E::Bin(op, Box::new(gen_num(rng, depth - 1, fns)), Box::new(gen_num(rng, depth - 1, fns)))
        }
        6 => E::Neg(Box::new(gen_num(rng, 0, fns))),
        7 => E::Not(Box::new(gen_num(rng, 0, fns))),
        8 => E::Abs(Box::new(gen_num(rng, depth - 1, fns))),
        9 => E::Int(Box::new(gen_num(rng, depth - 1, fns))),
        10 => E::Rnd(Box::new(E::Num(rng.pick(&[1.0, 0.0, 2.0])))),
        11 if !fns.is_empty() => {
            let f = rng.pick(fns);
            E::Call(f, vec![gen_num(rng, depth - 1, fns)])
        }
        12 => E::Bin(rng.pick(&["=", "<", "<>"]), Box::new(gen_str(rng)), Box::new(gen_str(rng))),
        _ => E::Cell("M".to_string(), vec![gen_num(rng, 0, fns), E::Num(rng.pick(&[0.0, 1.0, 3.0]))]),
    }
}

pub fn gen_str(rng: &mut Rng) -> E {
    match rng.below(4) {
        0 => E::Var(svar(rng)),
        1 => E::Str(rng.pick(&["HI", "", "a b", "Z"]).to_string()),
        2 => E::Cell("N$".to_string(), vec![E::Num(rng.pick(&[0.0, 1.0, 2.0]))]),
        _ => E::Var(svar(rng)),
    }
}

/// a leaf that may be followed by more text on its line (REM would swallow it)
fn gen_leaf_inline(rng: &mut Rng, fns: &[String], has_data: bool, fail: bool) -> S {
    match gen_leaf(rng, fns, has_data, fail) {
        S::Rem => S::Let("U".to_string(), None, E::Var("U".to_string())),
        s => s,
    }
}

fn gen_leaf(rng: &mut Rng, fns: &[String], has_data: bool, fail: bool) -> S {
    match rng.below(17) {
        0..=3 => S::Let(nvar(rng), None, gen_num(rng, 2, fns)),
        4 => S::Let(svar(rng), None, gen_str(rng)),
        5..=8 => {
            let n = rng.range(1, 3);
            let mut items = vec![];
            for _ in 0..n {
                let e = if rng.chance(1, 4) { gen_str(rng) } else { gen_num(rng, 2, fns) };
                items.push((e, rng.pick(&[';', ';', ','])));
            }
            if rng.chance(1, 5) {
                // every run of separators at the end, also with no item at all
                if rng.chance(1, 5) {
                    items.clear();
                }
                for it in items.iter_mut() {
                    if it.1 == ' ' {
                        it.1 = ';';
                    }
                }
                S::PrintT(items, rng.pick(&[",", ";,", ",;", ";;", ",,", ";,,", ",;,", ";", ";,;"]).to_string())
            } else {
                S::Print(items, rng.chance(1, 5))
            }
        }
        9 => S::Let(rng.pick(&["P", "Q"]).to_string(), Some(vec![gen_num(rng, 0, fns)]), gen_num(rng, 1, fns)),
        10 => S::Let("M".to_string(), Some(vec![E::Num(rng.pick(&[0.0, 1.0, 2.0])), E::Num(rng.pick(&[0.0, 3.0]))]), gen_num(rng, 1, fns)),
        11 if has_data => {
            let n = rng.range(1, 4);
            S::Read((0..n).map(|_| if rng.chance(1, 3) { (svar(rng), None) } else { (nvar(rng), None) }).collect())
        }
        12 if has_data => S::Restore,
        13 => S::Dim(rng.pick(&["P", "Q", "R", "M", "N$"]).to_string(), match rng.below(3) {
            0 => vec![E::Num(5.0)],
            1 => vec![E::Num(3.0), E::Num(3.0)],
            _ => vec![E::Num(2.0), E::Num(2.0), E::Num(2.0)],
        }),
        15 => {
            // three-dimensional cells of an array whose extents differ
            let ix = |rng: &mut Rng| vec![E::Num(rng.pick(&[0.0, 1.0, 2.0, 3.0])), E::Num(rng.pick(&[0.0, 1.0])), E::Num(rng.pick(&[0.0, 1.0, 2.0]))];
            match rng.below(3) {
                0 => S::Dim("C".to_string(), vec![E::Num(3.0), E::Num(1.0), E::Num(2.0)]),
                1 => S::Let("C".to_string(), Some(ix(rng)), gen_num(rng, 1, fns)),
                _ => S::Print(vec![(E::Cell("C".to_string(), ix(rng)), ';'), (E::Cell("C".to_string(), ix(rng)), ';')], false),
            }
        }
        14 if fail => match rng.below(15) {
            // the subscripts of a READ target are evaluated BEFORE an item is taken: with the DATA exhausted (or absent) a failing
            // subscript is reported, not OUT OF DATA
            12 => S::Read(vec![("P".into(), Some(vec![E::Neg(Box::new(E::Num(1.0)))]))]),
            13 => S::Read(vec![("A".into(), None), ("B".into(), None), ("X".into(), None), ("Y".into(), None), ("N".into(), None), ("U".into(), None), ("P".into(), Some(vec![E::Bin("/", Box::new(E::Num(1.0)), Box::new(E::Num(0.0)))]))]),
            14 => S::Read(vec![("Q".into(), Some(vec![E::Str("s".into())]))]),
            // two faults at one statement: which error wins is part of the behaviour (an array that already exists - from
            // an earlier DIM or from a cell access - re-dimensioned with more than 10000 cells or a negative bound)
            8 => S::Dim("P".into(), vec![E::Num(100.0), E::Num(100.0)]),
            9 => S::Dim("Q".into(), vec![E::Num(10000.0)]),
            10 => S::Dim("P".into(), vec![E::Neg(Box::new(E::Num(1.0)))]),
            11 => S::Dim("N$".into(), vec![E::Num(30.0), E::Num(30.0), E::Num(30.0)]),
            0 => S::Let("A".into(), None, E::Bin("/", Box::new(E::Num(1.0)), Box::new(E::Num(0.0)))),
            1 => S::Let("A".into(), None, E::Str("x".into())),
            2 => S::Print(vec![(E::Cell("P".into(), vec![E::Num(11.0)]), ';')], false),
            3 => S::Next("Z".into()),
            4 => S::Return,
            5 => S::Read(vec![("A".into(), None), ("B".into(), None), ("X".into(), None), ("Y".into(), None), ("N".into(), None), ("U".into(), None)]),
            6 => S::Goto(12345),
            _ => S::Print(vec![(E::Cell("P".into(), vec![E::Neg(Box::new(E::Num(1.0)))]), ';')], false),
        },
        _ => S::Rem,
    }
}

/// 31..33 loops with distinct variables open at once, then a jump back into one of the FOR lines: re-entering an open
/// loop forgets it and the loops inside it first, so it never overflows, while a 33rd distinct variable does
fn gen_many_loops(rng: &mut Rng) -> (Program, Vec<&'static str>) {
    let n = rng.pick(&[31usize, 32, 32, 32, 33]);
    let var = |i: usize| format!("{}{}", (b'A' + (i / 10) as u8) as char, i % 10);
    let mut prog: Program = vec![];
    let mut ln = 10u64;
    for i in 0..n {
        prog.push((ln, vec![S::For(var(i), E::Num(1.0), E::Num(1.0), None)]));
        ln += 10;
    }
    let back = 10 + 10 * rng.below(n) as u64;
    prog.push((ln, vec![S::Print(vec![(E::Var("C".into()), ';')], false), S::Let("C".into(), None, E::Bin("+", Box::new(E::Var("C".into())), Box::new(E::Num(1.0))))]));
    ln += 10;
    prog.push((ln, vec![S::If(E::Bin("<", Box::new(E::Var("C".into())), Box::new(E::Num(3.0))), Then::Line(back), None)]));
    ln += 10;
    for i in (0..n).rev().take(rng.range(0, 3)) {
        prog.push((ln, vec![S::Next(var(i))]));
        ln += 10;
    }
    prog.push((ln, vec![S::Print(vec![(E::Str("done".into()), ';')], false)]));
    (prog, vec!["many-loops"])
}

/// an error raised two or three user-function calls deep, every DEF on its own line: the error is attributed to the
/// line of the innermost function whose body fails
fn gen_deep_fn_error(rng: &mut Rng) -> (Program, Vec<&'static str>) {
    let failing = match rng.below(4) {
        0 => E::Bin("/", Box::new(E::Num(10.0)), Box::new(E::Var("X".into()))),
        1 => E::Cell("P".into(), vec![E::Bin("+", Box::new(E::Var("X".into())), Box::new(E::Num(11.0)))]),
        2 => E::Bin("+", Box::new(E::Var("X".into())), Box::new(E::Str("s".into()))),
        _ => E::Bin("/", Box::new(E::Num(1.0)), Box::new(E::Bin("-", Box::new(E::Var("X".into())), Box::new(E::Var("X".into()))))),
    };
    let depth = rng.range(1, 3);
    let mut prog: Program = vec![(10, vec![S::Def("FNA".into(), vec!["X".into()], failing)])];
    let names = ["FNA", "FNB", "FNC", "FND"];
    for d in 1..=depth {
        let callee = names[d - 1];
        let body = E::Bin("+", Box::new(E::Call(callee.into(), vec![E::Var("Y".into())])), Box::new(E::Num(1.0)));
        prog.push((10 + 10 * d as u64, vec![S::Def(names[d].into(), vec!["Y".into()], body)]));
    }
    prog.push((100, vec![S::Print(vec![(E::Str("before".into()), ';')], false)]));
    let arg = rng.pick(&[0.0, 1.0, 3.0]);
    prog.push((110, vec![S::Print(vec![(E::Call(names[depth].into(), vec![E::Num(arg)]), ';')], false)]));
    prog.push((120, vec![S::Print(vec![(E::Str("after".into()), ';')], false)]));
    (prog, vec!["deep-fn-error"])
}

/// two failures that meet on one READ target: the DATA items run out exactly at (or one before / after) an array cell whose
/// subscript cannot be evaluated - the target is worked out first, so the subscript failure is the one reported (with the DEF
/// line when it comes out of a function body)
fn gen_read_collision(rng: &mut Rng) -> (Program, Vec<&'static str>) {
    let k = rng.below(4);
    let items = (k + rng.below(3)).saturating_sub(1);
    let bad = match rng.below(5) {
        0 => E::Neg(Box::new(E::Num(1.0))),
        1 => E::Bin("/", Box::new(E::Num(1.0)), Box::new(E::Num(0.0))),
        2 => E::Str("s".into()),
        3 => E::Call("FNA".into(), vec![E::Num(0.0)]),
        _ => E::Cell("P".into(), vec![E::Num(11.0)]),
    };
    let mut prog: Program = vec![(10, vec![S::Def("FNA".into(), vec!["X".into()], E::Bin("/", Box::new(E::Num(10.0)), Box::new(E::Var("X".into()))))])];
    if items > 0 {
        prog.push((20, vec![S::Data((0..items).map(|i| format!("{}", i + 1)).collect())]));
    }
    prog.push((30, vec![S::Print(vec![(E::Str("before".into()), ';')], false)]));
    let mut targets: Vec<(String, Option<Vec<E>>)> = ["A", "B", "U"][..k].iter().map(|v| (v.to_string(), None)).collect();
    targets.push(("Q".into(), Some(vec![bad])));
    prog.push((40, vec![S::Read(targets)]));
    prog.push((50, vec![S::Print(vec![(E::Str("after".into()), ';'), (E::Var("A".into()), ';')], false)]));
    (prog, vec!["read-collision"])
}

/// `NAME(..)` before the DEF of NAME has been executed IN THIS RUN is an array cell (0, or BAD SUBSCRIPT beyond 10); after it, a
/// call.  Whatever an earlier run - or the static analysis of the file - has seen of the DEF plays no part
fn gen_use_before_def(rng: &mut Rng) -> (Program, Vec<&'static str>) {
    let arg = rng.pick(&[2.0, 10.0, 11.0, 50.0]);
    let call = |a: f64| E::Call("FNA".into(), vec![E::Num(a)]);
    let body = E::Bin("+", Box::new(E::Bin("*", Box::new(E::Var("X".into())), Box::new(E::Num(10.0)))), Box::new(E::Var("A".into())));
    let mut prog: Program = vec![(10, vec![S::Let("A".into(), None, E::Num(7.0))])];
    match rng.below(3) {
        0 => {
            prog.push((20, vec![S::Print(vec![(call(arg), ';')], false)]));
            prog.push((30, vec![S::Def("FNA".into(), vec!["X".into()], body)]));
            prog.push((40, vec![S::Print(vec![(call(arg), ';')], false)]));
        }
        1 => {
            // the DEF stands behind an END: it never runs, the name stays an array
            prog.push((20, vec![S::Let("FNA".into(), Some(vec![E::Num(2.0)]), E::Num(5.0))]));
            prog.push((30, vec![S::Print(vec![(call(2.0), ';'), (call(arg), ';')], false)]));
            prog.push((40, vec![S::End]));
            prog.push((50, vec![S::Def("FNA".into(), vec!["X".into()], body)]));
        }
        _ => {
            // reached by a jump on the second pass only
            prog.push((20, vec![S::Let("C".into(), None, E::Bin("+", Box::new(E::Var("C".into())), Box::new(E::Num(1.0))))]));
            prog.push((30, vec![S::Print(vec![(call(arg.min(10.0)), ';')], false)]));
            prog.push((40, vec![S::If(E::Bin("=", Box::new(E::Var("C".into())), Box::new(E::Num(2.0))), Then::Line(70), None)]));
            prog.push((50, vec![S::Def("FNA".into(), vec!["X".into()], body)]));
            prog.push((60, vec![S::Goto(20)]));
            prog.push((70, vec![S::Print(vec![(E::Str("done".into()), ';')], false)]));
        }
    }
    (prog, vec!["use-before-def"])
}

/// STEP 0 and STEP -0 count as an upward step: the loop goes round while the variable is at most the limit, so a
/// start above the limit leaves after one pass and a start at or below it goes round until the program jumps out
fn gen_zero_step(rng: &mut Rng) -> (Program, Vec<&'static str>) {
    let step = match rng.below(4) {
        0 => E::Num(0.0),
        1 => E::Neg(Box::new(E::Num(0.0))),
        2 => E::Bin("*", Box::new(E::Num(0.0)), Box::new(E::Var("Z".into()))),
        _ => E::Bin("-", Box::new(E::Num(2.0)), Box::new(E::Num(2.0))),
    };
    let (a, b) = rng.pick(&[(5.0, 1.0), (1.0, 5.0), (3.0, 3.0), (0.0, -1.0), (-1.0, 0.0), (2.5, 2.0)]);
    let c = || E::Var("C".into());
    let prog: Program = vec![
        (10, vec![S::For("I".into(), E::Num(a), E::Num(b), Some(step))]),
        (20, vec![S::Print(vec![(E::Var("I".into()), ';')], false), S::Let("C".into(), None, E::Bin("+", Box::new(c()), Box::new(E::Num(1.0))))]),
        (30, vec![S::If(E::Bin(">", Box::new(c()), Box::new(E::Num(rng.pick(&[2.0, 4.0])))), Then::Line(60), None)]),
        (40, vec![S::Next("I".into())]),
        (50, vec![S::Print(vec![(E::Str("out".into()), ';')], false)]),
        (60, vec![S::Print(vec![(E::Str("done".into()), ';'), (c(), ';')], false)]),
    ];
    (prog, vec!["zero-step"])
}

/// loops that are NOT properly nested: FOR and NEXT of three variables in any order, with jumps to an outer NEXT and early
/// RETURNs out of a loop body - a NEXT that goes round forgets every loop opened inside it, one that falls through forgets
/// itself too, a NEXT for a forgotten loop is NEXT WITHOUT FOR.  A counter ends runaway programs.
fn gen_misnested(rng: &mut Rng) -> (Program, Vec<&'static str>) {
    if rng.chance(1, 2) {
        // the shapes in which a loop forgotten by an outer NEXT that went round matters afterwards: its own NEXT is reached
        // (NEXT WITHOUT FOR), or a new loop is opened and the forgotten variable is used again inside it
        let f = |v: &str, to: f64| S::For(v.into(), E::Num(1.0), E::Num(to), None);
        let n = |v: &str| S::Next(v.into());
        let p = |t: &str| S::Print(vec![(E::Str(t.into()), ';'), (E::Var("I".into()), ';'), (E::Var("J".into()), ';'), (E::Var("K".into()), ';')], false);
        let jump = |v: &str, c: f64, line: u64| S::If(E::Bin("=", Box::new(E::Var(v.into())), Box::new(E::Num(c))), Then::Line(line), None);
        let to = rng.pick(&[2.0, 3.0]);
        let prog: Program = match rng.below(4) {
            0 => vec![(10, vec![f("I", to)]), (20, vec![jump("I", 2.0, 50)]), (30, vec![f("J", 2.0)]), (40, vec![p("a"), n("I")]), (50, vec![p("b"), n("J")]), (60, vec![p("end")])],
            1 => vec![(10, vec![f("I", to)]), (20, vec![jump("I", 2.0, 60)]), (30, vec![f("J", 2.0)]), (40, vec![n("I")]), (60, vec![f("K", 2.0)]), (70, vec![f("J", 2.0)]), (80, vec![p("j"), n("J")]), (90, vec![p("k"), n("K")]), (100, vec![p("ok")])],
            2 => vec![(10, vec![f("I", to)]), (20, vec![jump("I", 2.0, 50)]), (30, vec![S::Gosub(100)]), (40, vec![n("I")]), (50, vec![p("b"), n("J")]), (60, vec![S::End]), (100, vec![f("J", 3.0)]), (110, vec![S::Return])],
            _ => vec![(10, vec![f("I", to)]), (20, vec![f("J", 2.0)]), (30, vec![f("K", 2.0)]), (40, vec![jump("K", 1.0, 70)]), (50, vec![p("k"), n("K")]), (60, vec![S::End]), (70, vec![p("i"), n("I")]), (80, vec![p("after"), n("K")]), (90, vec![n("J")])],
        };
        return (prog, vec!["misnested-shapes"]);
    }
    let vars = ["I", "J", "K"];
    let mut prog: Program = vec![(5, vec![S::Let("C".into(), None, E::Num(0.0))])];
    let n = rng.range(5, 11);
    let mut ln = 10u64;
    let guard = || S::If(E::Bin(">", Box::new(E::Var("C".into())), Box::new(E::Num(40.0))), Then::Line(900), None);
    for _ in 0..n {
        let v = rng.pick(&vars).to_string();
        let stmt = match rng.below(10) {
            0..=3 => S::For(v, E::Num(1.0), E::Num(rng.pick(&[1.0, 2.0, 3.0])), None),
            4..=7 => S::Next(v),
            8 => S::If(E::Bin("=", Box::new(E::Var(v)), Box::new(E::Num(rng.pick(&[1.0, 2.0])))), Then::Line(10 + 10 * rng.below(n) as u64), None),
            _ => S::Gosub(800),
        };
        let count = S::Let("C".into(), None, E::Bin("+", Box::new(E::Var("C".into())), Box::new(E::Num(1.0))));
        let show = S::Print(vec![(E::Var("I".into()), ';'), (E::Var("J".into()), ';'), (E::Var("K".into()), ';')], false);
        // (a false IF skips the rest of its line, so the guard stands on a line of its own)
        prog.push((ln, vec![guard()]));
        prog.push((ln + 5, vec![count, show, stmt]));
        ln += 10;
    }
    prog.push((ln, vec![S::Print(vec![(E::Str("end".into()), ';')], false)]));
    prog.push((790, vec![S::End]));
    // a subroutine that opens a loop and returns out of its middle
    prog.push((800, vec![S::For("K".into(), E::Num(1.0), E::Num(2.0), None)]));
    prog.push((810, vec![S::Return]));
    prog.push((900, vec![S::Print(vec![(E::Str("cut".into()), ';')], false)]));
    (prog, vec!["misnested-loops"])
}

/// programs that are run on every check, whatever the seed: shapes that past seeded changes needed and that the random
/// generator reaches only with luck
pub fn fixed_programs() -> Vec<(Program, Vec<&'static str>)> {
    let n = |x: f64| E::Num(x);
    let v = |s: &str| E::Var(s.into());
    let call = |f: &str, a: E| E::Call(f.into(), vec![a]);
    let bin = |op: &'static str, l: E, r: E| E::Bin(op, Box::new(l), Box::new(r));
    let pr = |es: Vec<E>| S::Print(es.into_iter().map(|e| (e, ';')).collect(), false);
    let mut out: Vec<(Program, Vec<&'static str>)> = vec![];
    // functions that call functions with the SAME parameter name, two and three deep: the innermost binding wins in the
    // callee, each caller's own binding is back after the call; a global of that name is untouched
    out.push((vec![
        (5, vec![S::Let("X".into(), None, n(100.0))]),
        (10, vec![S::Def("FNA".into(), vec!["X".into()], bin("+", bin("*", v("X"), n(2.0)), n(1.0)))]),
        (20, vec![S::Def("FNB".into(), vec!["X".into()], bin("+", call("FNA", bin("*", v("X"), n(10.0))), v("X")))]),
        (30, vec![S::Def("FNC".into(), vec!["X".into()], bin("*", call("FNB", bin("+", v("X"), n(1.0))), v("X")))]),
        (40, vec![pr(vec![call("FNA", n(3.0)), call("FNB", n(3.0)), call("FNC", n(3.0)), v("X")])]),
    ], vec!["fixed", "same-name-parameters"]));
    // different names: the callee sees the caller's parameter (dynamic scoping), not the global
    out.push((vec![
        (5, vec![S::Let("Y".into(), None, n(50.0))]),
        (10, vec![S::Def("FNA".into(), vec!["X".into()], bin("+", v("X"), v("Y")))]),
        (20, vec![S::Def("FNB".into(), vec!["Y".into()], bin("+", call("FNA", n(1.0)), v("Y")))]),
        (30, vec![pr(vec![call("FNA", n(1.0)), call("FNB", n(7.0)), v("Y")])]),
    ], vec!["fixed", "dynamic-scope"]));
    // DIM of an array that exists: REDIM'D ARRAY whatever the size asked for (also one that would be too large, or one cell)
    for size in [3.0, 20000.0, 0.0, 10.0] {
        out.push((vec![
            (10, vec![S::Dim("A".into(), vec![n(5.0)])]),
            (20, vec![S::Let("A".into(), Some(vec![n(2.0)]), n(310.0))]),
            (30, vec![pr(vec![E::Cell("A".into(), vec![n(2.0)])])]),
            (40, vec![S::Dim("A".into(), vec![n(size)])]),
            (50, vec![pr(vec![E::Str("unreached".into())])]),
        ], vec!["fixed", "dim-existing"]));
        // … and of one that exists because it was USED (11 cells)
        out.push((vec![
            (10, vec![S::Let("B".into(), Some(vec![n(2.0)]), n(1.0))]),
            (20, vec![S::Dim("B".into(), vec![n(size)])]),
            (30, vec![pr(vec![E::Str("unreached".into())])]),
        ], vec!["fixed", "dim-existing"]));
    }
    // a new array that is too large, and one of exactly the cap
    out.push((vec![(10, vec![S::Dim("C".into(), vec![n(20000.0)])]), (20, vec![pr(vec![E::Str("unreached".into())])])], vec!["fixed", "dim-too-large"]));
    out.push((vec![(10, vec![S::Dim("C".into(), vec![n(9999.0)])]), (20, vec![S::Let("C".into(), Some(vec![n(9999.0)]), n(4.0))]), (30, vec![pr(vec![E::Cell("C".into(), vec![n(9999.0)])])])], vec!["fixed", "dim-at-cap"]));
    out
}

pub fn gen_program(rng: &mut Rng, allow_else_resume: bool) -> (Program, Vec<&'static str>) {
    if rng.chance(1, 25) {
        return gen_many_loops(rng);
    }
    if rng.chance(1, 8) {
        return gen_misnested(rng);
    }
    if rng.chance(1, 25) {
        return gen_zero_step(rng);
    }
    if rng.chance(1, 20) {
        return gen_deep_fn_error(rng);
    }
    if rng.chance(1, 25) {
        return gen_read_collision(rng);
    }
    if rng.chance(1, 25) {
        return gen_use_before_def(rng);
    }
    let mut lines: Vec<Vec<S>> = vec![];
    let mut feats: Vec<&'static str> = vec![];
    let mut fns: Vec<String> = vec![];
    let fail = rng.chance(1, 3);
    let has_data = rng.chance(1, 2);
    let has_sub = rng.chance(1, 2);
    if rng.chance(1, 3) {
        // dynamic parameter scoping: the body may read variables that are parameters of a caller
        let body = match rng.below(4) {
            0 => E::Bin("+", Box::new(E::Bin("*", Box::new(E::Var("X".into())), Box::new(E::Num(2.0)))), Box::new(E::Num(1.0))),
            1 => E::Bin("+", Box::new(E::Var("X".into())), Box::new(E::Var("Y".into()))),
            2 => E::Bin("/", Box::new(E::Var("X".into())), Box::new(E::Bin("-", Box::new(E::Var("X".into())), Box::new(E::Num(3.0))))),
            _ => E::Abs(Box::new(E::Var("X".into()))),
        };
        lines.push(vec![S::Def("FNA".into(), vec!["X".into()], body)]);
        fns.push("FNA".into());
        match rng.below(4) {
            0..=1 => {
                lines.push(vec![S::Def("FNB".into(), vec!["Y".into()], E::Bin("+", Box::new(E::Call("FNA".into(), vec![E::Var("Y".into())])), Box::new(E::Var("X".into()))))]);
                fns.push("FNB".into());
            }
            2 => {
                // the caller binds the SAME parameter name to a different value: the innermost binding wins in the callee,
                // the caller's own binding is back after the call
                lines.push(vec![S::Def(
                    "FNB".into(),
                    vec!["X".into()],
                    E::Bin("+", Box::new(E::Call("FNA".into(), vec![E::Bin("*", Box::new(E::Var("X".into())), Box::new(E::Num(10.0)))])), Box::new(E::Var("X".into()))),
                )]);
                fns.push("FNB".into());
            }
            _ => {}
        }
        feats.push("def");
    }
    let n_main = rng.range(2, 9);
    let mut open: Vec<String> = vec![];
    for _ in 0..n_main {
        let target_line = |rng: &mut Rng| ((rng.range(1, n_main + 3)) * 10) as u64;
        let stmt = match rng.below(14) {
            0..=1 if open.len() < 3 => {
                let v = rng.pick(&["I", "J", "K"]).to_string();
                if open.contains(&v) {
                    continue;
                }
                open.push(v.clone());
                feats.push("for");
                let step = match rng.below(5) {
                    0 => Some(E::Num(2.0)),
                    1 => Some(E::Neg(Box::new(E::Num(1.0)))),
                    2 => Some(E::Num(0.5)),
                    3 if rng.chance(1, 3) => Some(E::Num(0.0)),
                    _ => None,
                };
                // sometimes the limit / step mention the loop variable itself (fixed at entry, from its OLD value)
                let to = match rng.below(6) {
                    0 => E::Bin("+", Box::new(E::Var(v.clone())), Box::new(E::Num(rng.pick(&[1.0, 2.0, 3.0])))),
                    1 => E::Bin("*", Box::new(E::Var(v.clone())), Box::new(E::Num(2.0))),
                    _ => gen_num(rng, 0, &fns),
                };
                let step = if rng.chance(1, 8) { Some(E::Bin("+", Box::new(E::Var(v.clone())), Box::new(E::Num(1.0)))) } else { step };
                S::For(v, gen_num(rng, 0, &fns), to, step)
            }
            2 if !open.is_empty() => {
                // usually the innermost, sometimes an outer one (NEXT forgets inner loops)
                let k = if rng.chance(1, 5) { 0 } else { open.len() - 1 };
                let v = open[k].clone();
                open.truncate(k);
                S::Next(v)
            }
            3 if has_sub => {
                feats.push("gosub");
                S::Gosub(900)
            }
            4..=5 => {
                feats.push("if");
                let c = gen_num(rng, 1, &fns);
                let t = match rng.below(5) {
                    0 => Then::Line(target_line(rng)),
                    1 if has_sub && allow_else_resume => Then::Stmt(Box::new(S::Gosub(900))),
                    _ => Then::Stmt(Box::new(gen_leaf_inline(rng, &fns, has_data, false))),
                };
                let resumes = matches!(&t, Then::Stmt(s) if matches!(**s, S::Gosub(_)));
                let e = if rng.chance(1, 2) && (!resumes || allow_else_resume) {
                    feats.push("else");
                    Some(if rng.chance(1, 4) { Then::Line(target_line(rng)) } else { Then::Stmt(Box::new(gen_leaf(rng, &fns, has_data, false))) })
                } else {
                    None
                };
                if resumes && e.is_none() {
                    feats.push("then-gosub");
                }
                // DEF, DATA, REM and FOR are not generated under IF
                S::If(c, t, e)
            }
            6 => {
                feats.push("goto");
                S::Goto(((lines.len() + 1 + rng.range(1, 2)) * 10) as u64)
            }
            _ => gen_leaf_inline(rng, &fns, has_data, fail),
        };
        // multi-statement lines
        let then_gosub = matches!(&stmt, S::If(_, Then::Stmt(s), _) if matches!(**s, S::Gosub(_)));
        if rng.chance(1, 4) && !matches!(stmt, S::If(..) | S::Goto(_)) {
            feats.push("multi");
            let second = gen_leaf(rng, &fns, has_data, false);
            lines.push(vec![stmt, second]);
        } else if rng.chance(1, 3) && matches!(stmt, S::If(..)) && !then_gosub && !stext(&stmt).contains("REM") && !stext(&stmt).contains("DATA") {
            // statements after an IF on the same line: a false IF without ELSE skips them all - including a later
            // IF ... ELSE, whose ELSE does not belong to the first IF; an IF that ran its ELSE clause goes on with them
            feats.push("if-then-more");
            let second = if rng.chance(1, 2) {
                S::If(gen_num(rng, 1, &fns), Then::Stmt(Box::new(gen_leaf_inline(rng, &fns, has_data, false))), Some(Then::Stmt(Box::new(gen_leaf(rng, &fns, has_data, false)))))
            } else {
                gen_leaf(rng, &fns, has_data, false)
            };
            lines.push(vec![stmt, second]);
        } else {
            lines.push(vec![stmt]);
        }
    }
    while let Some(v) = open.pop() {
        if rng.chance(4, 5) {
            lines.push(vec![S::Next(v)]);
        }
    }
    if has_data {
        // one to three DATA statements, possibly in the middle of the program: READ crosses from one to the next, RESTORE goes back to the first
        let k = rng.pick(&[1usize, 1, 2, 3]);
        for j in 0..k {
            let n = rng.range(1, 4);
            let items: Vec<String> = (0..n).map(|_| rng.pick(&["1", "2.5", "hello", "\"a, b\"", "7", "-3", "x y", "\"\""]).to_string()).collect();
            if j > 0 && rng.chance(1, 2) && lines.len() > 1 {
                let at = rng.range(0, lines.len() - 1);
                lines.insert(at, vec![S::Data(items)]);
            } else {
                lines.push(vec![S::Data(items)]);
            }
        }
        feats.push(if k > 1 { "data-multi" } else { "data" });
        if k > 1 && rng.chance(2, 3) {
            // read past the first DATA statement, go back, read again
            let vars = |n: usize| (0..n).map(|i| (["A$", "B$", "S$"][i % 3].to_string(), None)).collect::<Vec<_>>();
            lines.push(vec![S::Read(vars(rng.range(2, 4)))]);
            lines.push(vec![S::Restore, S::Read(vars(rng.range(1, 2)))]);
            lines.push(vec![S::Print(vec![(E::Var("A$".into()), ';'), (E::Var("B$".into()), ';')], false)]);
        }
    }
    let mut prog: Program = lines.into_iter().enumerate().map(|(i, ss)| (((i + 1) * 10) as u64, ss)).collect();
    if has_sub {
        prog.push((890, vec![S::End]));
        prog.push((900, vec![gen_leaf(rng, &fns, false, false)]));
        if rng.chance(1, 5) {
            prog.push((905, vec![S::Gosub(900)]));
            feats.push("deep-gosub");
        }
        prog.push((910, vec![S::Return]));
    }
    feats.sort();
    feats.dedup();
    (prog, feats)
}
