//! Running the Lean model: all cases of a slice are streamed through one
//! process of the compiled driver.
use std::io::Write;
use std::process::{Command, Stdio};

pub struct Driver {
    pub path: String,
}

impl Driver {
    /// Feed `ops` (one per line) and return one reply line per op.
    pub fn run(&self, ops: &[String]) -> Result<Vec<String>, String> {
        let mut child = Command::new(&self.path)
            .stdin(Stdio::piped())
            .stdout(Stdio::piped())
            .stderr(Stdio::piped())
            .spawn()
            .map_err(|e| format!("cannot start model driver {}: {}", self.path, e))?;
        let mut stdin = child.stdin.take().unwrap();
        let payload = {
            let mut s = String::with_capacity(ops.iter().map(|o| o.len() + 1).sum());
            for o in ops {
                s.push_str(o);
                s.push('\n');
            }
            s
        };
        if let Ok(path) = std::env::var("VERIF_DUMP_OPS") {
            if payload.len() > 100_000 {
                let _ = std::fs::write(path, &payload);
            }
        }
        let writer = std::thread::spawn(move || {
            let _ = stdin.write_all(payload.as_bytes());
        });
        let out = child
            .wait_with_output()
            .map_err(|e| format!("model driver failed: {}", e))?;
        let _ = writer.join();
        let text = String::from_utf8_lossy(&out.stdout).to_string();
        let lines: Vec<String> = text.lines().map(|l| l.to_string()).collect();
        if !out.status.success() || lines.len() != ops.len() {
            return Err(format!(
                "model driver: status {:?}, {} replies for {} ops, stderr: {}",
                out.status,
                lines.len(),
                ops.len(),
                String::from_utf8_lossy(&out.stderr)
            ));
        }
        Ok(lines)
    }
}
