//! C19: the Web adapter under the page's protocol.
use crate::core::Case;
use crate::gen::{self, hexs};
use crate::imp::Session;
use crate::prog::{program, reply_pool, GenOpts};
use crate::rng::Rng;

fn ev(kind: &str, text: &str) -> String {
    if text.is_empty() {
        kind.to_string()
    } else {
        format!("{} {}", kind, hexs(text))
    }
}

pub fn cases(rng: &mut Rng, tier: &str) -> (Vec<Case>, bool) {
    let n = if tier == "thorough" { 4000 } else { 350 };
    let mut cases = vec![];
    let opts = GenOpts { allow_else_resume: true, ..Default::default() };
    for _ in 0..n {
        let mut sess = Session::default();
        let mut ops: Vec<String> = vec![];
        let mut kinds = std::collections::BTreeSet::new();
        let mut push = |sess: &mut Session, ops: &mut Vec<String>, op: String| -> String {
            let r = sess.step(&op);
            ops.push(op);
            r
        };
        push(&mut sess, &mut ops, "wnew".to_string());
        push(&mut sess, &mut ops, format!("wseed {}", rng.pick(&[0u64, 12345, 1 << 33, 1 << 44, u64::MAX, 1727000000000])));
        let mut last;
        if rng.chance(1, 2) {
            // a program file loaded at start-up
            let p = program(rng, &opts);
            let mut text = p.text();
            match rng.below(8) {
                0 => text.push_str("\n20 C% = 1\n30 PRINT 2"),
                1 => text = format!("REM unnumbered\n\n   \n{}\n", text),
                2 => text.push_str("\n  40 PRINT \"indented, skipped\"\n50 PRINT \"unterminated"),
                3 => text.push_str("\r\n60 PRINT 1\r\n"),
                4 => text = format!("10 NEW\n{}", text),
                _ => {}
            }
            last = push(&mut sess, &mut ops, ev("wload", &text));
            kinds.insert("load");
        } else {
            last = push(&mut sess, &mut ops, ev("wsubmit", ""));
        }
        let steps = rng.range(3, 60);
        for _ in 0..steps {
            if last.starts_with("TRAP") {
                break;
            }
            let state = last.split(' ').next().unwrap_or("").to_string();
            let op = match state.as_str() {
                "Running" => {
                    if rng.chance(1, 10) {
                        kinds.insert("break");
                        "wbreak".to_string()
                    } else if rng.chance(1, 12) {
                        // typing while the program runs is ignored by the page
                        ev("wsubmit", "PRINT 1")
                    } else {
                        "wtick".to_string()
                    }
                }
                "AwaitingInput" => {
                    if rng.chance(1, 8) {
                        kinds.insert("break");
                        "wbreak".to_string()
                    } else {
                        kinds.insert("reply");
                        let pool = reply_pool(rng);
                        ev("wsubmit", &rng.pick(&pool))
                    }
                }
                _ => {
                    let text = match rng.below(14) {
                        0 => "RUN".to_string(),
                        1 => rng.pick(&["NEW", "NEW", "new", "NEW GAME", "new 10", "New :", "  NEW  ", "NEW\t1", "NEW NEW"]).to_string(),
                        2 => rng.pick(&["TRACE", "NOTRACE", "LIST", "CONT"]).to_string(),
                        3 => format!("{}{}", rng.pick(&["  ", "    ", "\t"]), rng.pick(&["A$ = \"", "PRINT \"x", "%", "X = 1.2.3", "PRINT 1"])),
                        4 => format!("{}{}", rng.pick(&["PRINT \"unterminated", "A$ = \"x"]), rng.pick(&["", " ", "   "])),
                        5 => format!("{} {}", rng.pick(&["10", "20", "30"]), gen::simple_statement(rng)),
                        6 => rng.pick(&["10 INPUT A", "20 PRINT A", "10 GOTO 10", "10 PRINT 1: GOTO 10", "30 STOP"]).to_string(),
                        7 => gen::token_soup(rng),
                        8 => "wtick".to_string(),
                        9 => "wbreak".to_string(),
                        10 => rng.pick(&["", " ", "\t ", "STATS", "stats", "LIST"]).to_string(),
                        _ => gen::simple_statement(rng),
                    };
                    if text == "wtick" || text == "wbreak" {
                        text
                    } else {
                        if text.trim().to_ascii_uppercase().starts_with("NEW") {
                            kinds.insert("new");
                        }
                        kinds.insert("submit");
                        ev("wsubmit", &text)
                    }
                }
            };
            last = push(&mut sess, &mut ops, op);
        }
        // after NEW the interpreter must be indistinguishable from a fresh one: the same probes on both
        let show = ops.iter().take(6).map(|o| {
            let mut it = o.splitn(2, ' ');
            let k = it.next().unwrap_or("");
            format!("{} {:?}", k, it.next().and_then(crate::imp::unhex).unwrap_or_default().chars().take(40).collect::<String>())
        }).collect::<Vec<_>>().join(" ; ");
        let checks = (0..ops.len()).filter(|i| ops[*i].starts_with('w') && !ops[*i].starts_with("wnew") && !ops[*i].starts_with("wseed")).map(|i| format!("web-ok {}", i)).collect();
        cases.push(Case { ops, checks, tag: kinds.iter().cloned().collect::<Vec<_>>().join("+"), nontrivial: kinds.len() >= 2, show });
    }
    // strings typed as INPUT replies live in the core's string pool until it collects them (on every submitted line, blank
    // ones included); STATS reports the pool: adapter and core must agree after any mix of replies, breaks and blank lines
    let g = if tier == "thorough" { 200 } else { 25 };
    for _ in 0..g {
        let mut ops = vec!["wnew".to_string(), "wseed 3".to_string(), "wsubmit".to_string()];
        ops.push(ev("wsubmit", "10 INPUT A$"));
        ops.push(ev("wsubmit", "20 GOTO 10"));
        ops.push(ev("wsubmit", "RUN"));
        for _ in 0..rng.range(1, 5) {
            ops.push("wtick".to_string());
            ops.push("wtick".to_string());
            ops.push(ev("wsubmit", &rng.pick(&["abcde", "a much longer reply text", "x", "日本語", "q,r"])));
        }
        if rng.chance(1, 2) {
            ops.push("wtick".to_string());
        }
        ops.push("wbreak".to_string());
        for _ in 0..rng.range(0, 3) {
            ops.push(ev("wsubmit", &rng.pick(&["", " ", "\t", "   "])));
        }
        ops.push(ev("wsubmit", "STATS"));
        ops.push(ev("wsubmit", &rng.pick(&["", "PRINT A$", "CONT"])));
        ops.push("wtick".to_string());
        ops.push(ev("wsubmit", "STATS"));
        let checks = (0..ops.len()).filter(|i| ops[*i].starts_with("wsubmit") || ops[*i] == "wtick" || ops[*i] == "wbreak").map(|i| format!("web-ok {}", i)).collect();
        cases.push(Case { ops, checks, tag: "string-pool".into(), nontrivial: true, show: "INPUT replies, break, blank lines, STATS".into() });
    }
    // a single output batch far larger than anything a running program produces per tick: LIST of a long program
    for len in [200usize, 257, 300, 1000] {
        let mut ops = vec!["wnew".to_string(), "wseed 3".to_string(), "wsubmit".to_string()];
        for i in 0..len {
            ops.push(ev("wsubmit", &format!("{} PRINT {}", (i + 1) * 10, i)));
        }
        ops.push(ev("wsubmit", "LIST"));
        ops.push(ev("wsubmit", "PRINT \"after\""));
        ops.push(ev("wsubmit", "NEW"));
        ops.push(ev("wsubmit", "LIST"));
        ops.push(ev("wsubmit", "RUN"));
        let checks = (0..ops.len()).filter(|i| ops[*i].starts_with("wsubmit")).map(|i| format!("web-ok {}", i)).collect();
        cases.push(Case { ops, checks, tag: "long-listing".into(), nontrivial: true, show: format!("LIST of {} lines, then NEW, LIST", len) });
    }
    // the start-up loader, line by line: blank lines, lines of blanks only, unnumbered lines, indented numbered lines, CRLF,
    // a command where a program line is due - each is skipped or entered as the page script does it (always compared with
    // the script itself)
    for text in ["REM unnumbered\n\n   \n10 PRINT 1\n", "10 PRINT 1\nPRINT 2\n20 PRINT 3", "\n\n10 PRINT \"A\"\n\t\n20 PRINT \"B\"\n", "  40 PRINT \"indented\"\n50 PRINT 5", "10 PRINT 1\r\n\r\n20 PRINT 2\r\n",
        "   \n \t \nRUN\n10 PRINT 9", "", "\n", "x", "10 PRINT 1\n\n\n\n20 PRINT 2\nLIST\n30 PRINT 3", " \n10 INPUT A\n \n20 PRINT A\n"] {
        let mut ops = vec!["wnew".to_string(), "wseed 3".to_string(), ev("wload", text)];
        for _ in 0..8 {
            ops.push("wtick".to_string());
        }
        ops.push(ev("wsubmit", "7"));
        ops.push("wtick".to_string());
        ops.push("wtick".to_string());
        ops.push(ev("wsubmit", "LIST"));
        ops.push("wtick".to_string());
        let checks = (0..ops.len()).filter(|i| ops[*i].starts_with("wsubmit") || ops[*i].starts_with("wload") || ops[*i] == "wtick").map(|i| format!("web-ok {}", i)).collect();
        cases.push(Case { ops, checks, tag: "loader-lines".into(), nontrivial: true, show: format!("start-up file {:?}", text) });
    }
    // every session so far, once more on the page script itself: `class Interpreter` and the submit handler of
    // abasic-web/ts/main.ts run under node and drive the real adapter; they must agree with the transliteration
    // node is not among the tools this sandbox guarantees: without it the sessions run on the transliteration only
    // (the evidence then shows no `+script` families)
    let node_ok = std::process::Command::new("node").arg("--version").stdout(std::process::Stdio::null()).stderr(std::process::Stdio::null()).status().map(|s| s.success()).unwrap_or(false);
    let every = if !node_ok { usize::MAX } else if tier == "thorough" { 4 } else { 12 };
    let n_cases = cases.len();
    for (ci, c) in cases.iter_mut().enumerate() {
        let fixed_family = c.tag == "string-pool" || c.tag == "long-listing";
        if !node_ok || (!(fixed_family && (tier == "thorough" || ci % 3 == 0)) && ci % every != 0 && c.tag != "loader-lines") {
            continue;
        }
        if c.tag == "long-listing" && c.ops.len() > 400 {
            continue;
        }
        let a1 = 2; // after wnew, wseed
        let a2 = c.ops.len() - 1;
        let mut r: Vec<String> = vec!["rnew".to_string()];
        let loads = c.ops.get(2).map(|o| o.starts_with("wload")).unwrap_or(false);
        if !loads {
            r.push("rstart".to_string());
        }
        r.push(c.ops[1].replacen("wseed", "rseed", 1));
        let b1 = c.ops.len() + r.len();
        for o in &c.ops[2..] {
            r.push(format!("r{}", &o[1..]));
        }
        c.ops.extend(r);
        let b2 = c.ops.len() - 1;
        c.checks.push(format!("page-script-same {}-{} {}-{}", a1, a2, b1, b2));
        c.tag = format!("{}+script", c.tag);
    }
    let _ = n_cases;
    // replies are handed to the core as typed: blanks at either end, an opening quote that is never closed (its trailing
    // blanks belong to the string), blanks that are not BASIC blanks - the value shown afterwards tells
    for reply in ["\"HELLO ", "\"HELLO  \t", "  \"sp  ", " x ", "x\u{a0}", "\"q\"  ", "7 ", " 7", "\"a, b ", "a : b ", "\u{3000}z\u{3000}", ""] {
        for target in ["A$", "A"] {
            let mut ops = vec!["wnew".to_string(), "wseed 3".to_string(), "wsubmit".to_string()];
            ops.push(ev("wsubmit", &format!("10 INPUT {}", target)));
            ops.push(ev("wsubmit", &format!("20 PRINT \"[\"; {}; \"]\"", target)));
            ops.push(ev("wsubmit", "RUN"));
            ops.push("wtick".to_string());
            ops.push("wtick".to_string());
            ops.push(ev("wsubmit", reply));
            for _ in 0..4 {
                ops.push("wtick".to_string());
            }
            ops.push(ev("wsubmit", "5"));
            for _ in 0..4 {
                ops.push("wtick".to_string());
            }
            let checks = (0..ops.len()).filter(|i| ops[*i].starts_with("wsubmit") || ops[*i] == "wtick").map(|i| format!("web-ok {}", i)).collect();
            cases.push(Case { ops, checks, tag: "reply-as-typed".into(), nontrivial: true, show: format!("INPUT {} answered {:?}", target, reply) });
        }
    }
    // the line a program was interrupted in (by a break request at a prompt, while running, or by a STOP) is deleted, or another
    // line is, and then CONT is submitted: an error message, never a trap
    for prog in [&["10 INPUT A", "20 PRINT A", "30 GOTO 10"][..], &["10 PRINT 1", "20 STOP", "30 PRINT 3"][..], &["10 GOTO 10"][..], &["10 GOSUB 100", "20 END", "100 INPUT Q", "110 RETURN"][..]] {
        for which in [0usize, 1, 2] {
            let mut ops = vec!["wnew".to_string(), "wseed 3".to_string(), "wsubmit".to_string()];
            for l in prog.iter() {
                ops.push(ev("wsubmit", l));
            }
            ops.push(ev("wsubmit", "RUN"));
            for _ in 0..4 {
                ops.push("wtick".to_string());
            }
            ops.push("wbreak".to_string());
            ops.push("wtick".to_string());
            // delete: every line in turn (one of them is the line of the break), or none
            let victim = if which < prog.len() { prog[which].split(' ').next().unwrap().to_string() } else { "99".to_string() };
            ops.push(ev("wsubmit", &victim));
            ops.push(ev("wsubmit", "CONT"));
            for _ in 0..4 {
                ops.push("wtick".to_string());
            }
            ops.push(ev("wsubmit", "5"));
            ops.push("wtick".to_string());
            let checks = (0..ops.len()).filter(|i| ops[*i].starts_with("wsubmit") || ops[*i] == "wtick" || ops[*i] == "wbreak").map(|i| format!("web-ok {}", i)).collect();
            cases.push(Case { ops, checks, tag: "delete-interrupted-line-then-cont".into(), nontrivial: true, show: format!("{} || break, delete {}, CONT", prog.join(" | "), victim) });
        }
    }
    // NEW then a fixed probe session, against the same probes on a fresh page
    let m = if tier == "thorough" { 300 } else { 40 };
    for _ in 0..m {
        let history: Vec<String> = (0..rng.range(1, 6)).map(|_| rng.pick(&["TRACE", "X = 5", "10 PRINT X", "DIM A(3)", "A$ = \"old\"", "20 INPUT Y", "RUN", "FOR I = 1 TO 3", "NOTRACE", "PRINT 1/0"]).to_string()).collect();
        let probes = ["10 PRINT X; A$", "20 PRINT 2", "RUN", "LIST", "PRINT A(5)", "CONT"];
        let mut ops = vec!["wnew".to_string(), "wseed 7".to_string(), "wsubmit".to_string()];
        for h in &history {
            ops.push(ev("wsubmit", h));
            ops.push("wtick".to_string());
            ops.push("wbreak".to_string());
        }
        // the command is the FIRST WORD of the line, in any case, whatever follows it
        ops.push(ev("wsubmit", &rng.pick(&["NEW", "new", "NEW GAME", "New 10", "NEW :", " NEW  "])));
        let a = ops.len();
        for p in probes {
            ops.push(ev("wsubmit", p));
            ops.push("wtick".to_string());
            ops.push("wtick".to_string());
        }
        let b = ops.len() - 1;
        ops.push("wnew".to_string());
        ops.push("wsubmit".to_string());
        let c = ops.len();
        for p in probes {
            ops.push(ev("wsubmit", p));
            ops.push("wtick".to_string());
            ops.push("wtick".to_string());
        }
        let d = ops.len() - 1;
        let mut checks: Vec<String> = (0..ops.len()).filter(|i| ops[*i].starts_with("wsubmit") || ops[*i] == "wtick" || ops[*i] == "wbreak").map(|i| format!("web-ok {}", i)).collect();
        checks.push(format!("same-replies {}-{} {}-{}", a, b, c, d));
        cases.push(Case { ops, checks, tag: "new-is-fresh".into(), nontrivial: true, show: format!("{:?} then NEW then probes", history) });
    }
    (cases, false)
}
