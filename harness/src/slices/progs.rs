//! C03: programs behave as the independent reference interpreter says.
use crate::core::Case;
use crate::imp::hex;
use crate::prog::Walk;
use crate::refint::{compile, fixed_programs, gen_program, run, Program, E, S};
use crate::rng::Rng;

pub fn cases(rng: &mut Rng, tier: &str) -> (Vec<Case>, bool) {
    let n = if tier == "thorough" { 8000 } else { 700 };
    let mut cases = vec![];
    let fixed = fixed_programs();
    for i in 0..n + fixed.len() {
        let allow_else_resume = i % 25 == 0;
        let (prog, feats) = if i >= n {
            fixed[i - n].clone()
        } else if i % 12 == 5 { (array_fill_program(rng), vec!["array-fill"]) } else { gen_program(rng, allow_else_resume) };
        let seed = rng.next() % 100000;
        let text = compile(&prog);
        let expected = run(&prog, seed, 2000);
        let mut w = Walk::new(false, false);
        // one program in six arrives as a FILE (through the static analysis into the interpreter) instead of being typed
        let as_file = i % 6 == 4;
        if as_file {
            w.op(&format!("load {}", crate::gen::hexs(&text.join("\n"))));
        } else {
            for l in &text {
                w.start(l);
            }
        }
        w.op(&format!("seed {}", seed));
        let a = w.ops.len();
        w.start("RUN");
        let mut nr = 0;
        w.drive(&[], &mut nr, 1500, false);
        w.state();
        let b = w.last();
        let err = match &expected.error {
            None => "-".to_string(),
            Some((k, l)) => format!("{}@{}", k, l.map(|x| x.to_string()).unwrap_or("-".into())),
        };
        let prefix = expected.steps_exhausted || w.cut;
        let mut checks = vec![format!("ref-outcome {}-{} {} {}{}", a, b, if expected.output.is_empty() { "-".to_string() } else { hex(&expected.output) }, err, if prefix { " prefix" } else { "" })];
        // RUN starts from nothing: the same program run AGAIN in the same interpreter (same generator state) does the same
        if !prefix && (feats.contains(&"use-before-def") || feats.contains(&"array-fill") || feats.contains(&"read-collision") || i % 9 == 2) {
            w.op(&format!("seed {}", seed));
            let a2 = w.ops.len();
            w.start("RUN");
            let mut nr = 0;
            w.drive(&[], &mut nr, 1500, false);
            w.state();
            let b2 = w.last();
            if !w.cut {
                checks.push(format!("ref-outcome {}-{} {} {}", a2, b2, if expected.output.is_empty() { "-".to_string() } else { hex(&expected.output) }, err));
            }
        }
        let mut feats = feats;
        if as_file {
            feats.push("as-file");
        }
        cases.push(Case { ops: w.ops, checks, tag: feats.join("+"), nontrivial: prog.len() > 2, show: text.join(" | ") });
    }
    (cases, false)
}

/// fill every cell of a 1-3 dimensional array (explicit DIM with differing extents, or implicit) with a
/// distinct value, then print every cell: any stride / aliasing error shows.
fn array_fill_program(rng: &mut Rng) -> Program {
    let nd = rng.range(1, 3);
    let explicit = rng.chance(3, 4);
    let ext: Vec<usize> = (0..nd).map(|_| if explicit { rng.range(0, 4) } else { 10 }).collect();
    let vars = ["I", "J", "K"];
    let idx: Vec<E> = (0..nd).map(|d| E::Var(vars[d].to_string())).collect();
    let mut val = E::Num(0.0);
    for d in 0..nd {
        val = E::Bin("+", Box::new(E::Bin("*", Box::new(val), Box::new(E::Num(20.0)))), Box::new(E::Var(vars[d].to_string())));
    }
    let mut prog: Program = vec![];
    let mut n = 10;
    if explicit {
        prog.push((n, vec![S::Dim("C".into(), ext.iter().map(|e| E::Num(*e as f64)).collect())]));
        n += 10;
    }
    for pass in 0..2 {
        for d in 0..nd {
            prog.push((n, vec![S::For(vars[d].to_string(), E::Num(0.0), E::Num(if explicit { ext[d] as f64 } else { rng.pick(&[2.0, 10.0]) }), None)]));
            n += 10;
        }
        if pass == 0 {
            prog.push((n, vec![S::Let("C".into(), Some(idx.clone()), E::Bin("+", Box::new(val.clone()), Box::new(E::Num(1.0))))]));
        } else {
            prog.push((n, vec![S::Print(vec![(E::Cell("C".into(), idx.clone()), ';')], false)]));
        }
        n += 10;
        for d in (0..nd).rev() {
            prog.push((n, vec![S::Next(vars[d].to_string())]));
            n += 10;
        }
    }
    // one step outside: the last index one past its extent is a BAD SUBSCRIPT
    let mut out_idx: Vec<E> = ext.iter().map(|_| E::Num(0.0)).collect();
    let last = nd - 1;
    out_idx[last] = E::Num(ext[last] as f64 + 1.0);
    prog.push((n, vec![S::Print(vec![(E::Cell("C".into(), out_idx), ';')], false)]));
    prog
}
