//! C03: programs behave as the independent reference interpreter says.
use crate::core::Case;
use crate::imp::hex;
use crate::prog::Walk;
use crate::refint::{compile, gen_program, run};
use crate::rng::Rng;

pub fn cases(rng: &mut Rng, tier: &str) -> (Vec<Case>, bool) {
    let n = if tier == "thorough" { 8000 } else { 700 };
    let mut cases = vec![];
    for i in 0..n {
        let allow_else_resume = i % 25 == 0;
        let (prog, feats) = gen_program(rng, allow_else_resume);
        let seed = rng.next() % 100000;
        let text = compile(&prog);
        let expected = run(&prog, seed, 2000);
        let mut w = Walk::new(false, false);
        w.op(&format!("seed {}", seed));
        for l in &text {
            w.start(l);
        }
        let a = w.ops.len();
        w.start("RUN");
        let mut nr = 0;
        w.drive(&[], &mut nr, 1500, false);
        w.state();
        let b = w.last();
        let err = match &expected.error {
            None => "-".to_string(),
            Some((k, l)) => format!("{}@{}", k, l.map(|x| x.to_string()).unwrap_or("-".into())),
        };
        let prefix = expected.steps_exhausted || w.cut;
        let checks = vec![format!("ref-outcome {}-{} {} {}{}", a, b, if expected.output.is_empty() { "-".to_string() } else { hex(&expected.output) }, err, if prefix { " prefix" } else { "" })];
        cases.push(Case { ops: w.ops, checks, tag: feats.join("+"), nontrivial: prog.len() > 2, show: text.join(" | ") });
    }
    (cases, false)
}
