//! C04: the program store is a last-writer-wins map, listed and run in order.
use crate::core::Case;
use crate::gen::hexs;
use crate::imp::Session;
use crate::rng::Rng;
use std::collections::BTreeMap;

const LINE_NUMBERS: &[&str] = &[
    "0", "1", "7", "007", "10", " 10", "20", "0020", "100", "65535", "4294967296", "9223372036854775807", "9223372036854775808",
    "18446744073709551614", "18446744073709551615", "00018446744073709551615",
];
const REJECTED_NUMBERS: &[&str] = &["18446744073709551616", "99999999999999999999999"];

fn start(text: &str) -> String {
    if text.is_empty() {
        "start".to_string()
    } else {
        format!("start {}", hexs(text))
    }
}

pub fn cases(rng: &mut Rng, tier: &str) -> (Vec<Case>, bool) {
    let n = if tier == "thorough" { 6_000 } else { 500 };
    let mut cases = vec![];
    for _ in 0..n {
        let mut ops = vec!["new 0 0".to_string()];
        let mut checks = vec![];
        let mut map: BTreeMap<u64, u64> = BTreeMap::new();
        let mut sess = Session::default();
        sess.step(&ops[0]);
        let mut next_id = 1u64;
        let steps = rng.range(3, 30);
        let mut kinds = std::collections::BTreeSet::new();
        for _ in 0..steps {
            match rng.below(12) {
                0..=5 => {
                    // add / replace
                    let num = rng.pick(LINE_NUMBERS).to_string();
                    let id = next_id;
                    next_id += 1;
                    let sep = rng.pick(&["", " ", "  "]);
                    if rng.chance(1, 10) {
                        // DATA bodies that differ only in the sign of a zero: a replacement is a replacement
                        let k = rng.below(4) as u64;
                        let body = ["DATA 0", "DATA -0", "DATA 0, -0", "DATA -0, 0"][k as usize];
                        let op = start(&format!("{} {}", num, body));
                        sess.step(&op);
                        ops.push(op);
                        map.insert(num.trim().parse::<u64>().unwrap(), 9_200_000_000 + k);
                        kinds.insert("add-data-zero");
                        continue;
                    }
                    if rng.chance(1, 10) {
                        // letters whose upper-case form has another UTF-8 length (dotless i, long s, ligatures, n-apostrophe)
                        // inside literal text, typed with and without a blank after the number: the body is stored as typed
                        let k = rng.below(crate::oracles::CASING_BODIES.len()) as u64;
                        let body = crate::oracles::CASING_BODIES[k as usize];
                        let op = start(&format!("{}{}{}", num, sep, body));
                        sess.step(&op);
                        ops.push(op);
                        map.insert(num.trim().parse::<u64>().unwrap(), 9_400_000_000 + k);
                        kinds.insert("add-special-casing");
                        continue;
                    }
                    if rng.chance(1, 8) {
                        // a body of statement separators only is a stored line like any other (it is not a deletion)
                        let c = rng.range(1, 3);
                        let body = vec![":"; c].join(rng.pick(&["", " "]));
                        let op = start(&format!("{}{}{}", num, sep, body));
                        sess.step(&op);
                        ops.push(op);
                        map.insert(num.trim().parse::<u64>().unwrap(), 9_000_000_000 + c as u64);
                        kinds.insert("add-colons");
                        continue;
                    }
                    let text = format!("{}{}PRINT {}", num, sep, id);
                    // a digit directly after the number without a blank would extend the number
                    let text = if sep.is_empty() { format!("{} PRINT {}", num, id) } else { text };
                    let op = start(&text);
                    sess.step(&op);
                    ops.push(op);
                    map.insert(num.trim().parse::<u64>().unwrap(), id);
                    kinds.insert("add");
                }
                6..=7 => {
                    // delete (bare number), possibly of an absent line
                    let num = rng.pick(LINE_NUMBERS).to_string();
                    let text = format!("{}{}", num, rng.pick(&["", " ", "\t"]));
                    let op = start(&text);
                    sess.step(&op);
                    ops.push(op);
                    map.remove(&num.trim().parse::<u64>().unwrap());
                    kinds.insert("delete");
                }
                8 => {
                    // failed edit: tokenization error, changes nothing
                    let num = rng.pick(LINE_NUMBERS).to_string();
                    // untokenizable text after the number, incl. nothing but blanks that are not BASIC blanks (a line feed a host
                    // left in, a no-break or full-width space): such a line is NOT a bare number and deletes nothing
                    let text = if rng.chance(1, 3) {
                        format!("{}{}", num, rng.pick(&["\n", "\u{a0}", " \u{3000}", "\t\x0b", "\u{2003} ", " \n"]))
                    } else if rng.chance(1, 3) {
                        // a blank that is not a BASIC blank IN FRONT of the number (no-break, full-width, vertical tab, line
                        // separator ...): the text has no line number at all - a bare number behind it deletes nothing, a
                        // statement behind it stores nothing
                        let lead = rng.pick(&["\u{a0}", "\u{3000}", "\x0b", "\u{2028}", " \u{a0}", "\u{2003}", "\u{feff}", "\u{1680}"]);
                        format!("{}{}{}", lead, num, rng.pick(&["", " PRINT 5", " REM x", "  "]))
                    } else {
                        format!("{} {}", num, rng.pick(&["PRINT \"oops", "PRINT 1 % 2", "X = 1.2.3", "é"]))
                    };
                    let op = start(&text);
                    sess.step(&op);
                    ops.push(op);
                    kinds.insert("failed-edit");
                }
                9 => {
                    // a line number that does not fit u64: not a numbered line at all (executed immediately, fails or not)
                    let num = rng.pick(REJECTED_NUMBERS).to_string();
                    let op = start(&format!("{} PRINT 1", num));
                    sess.step(&op);
                    ops.push(op);
                    ops.push("take".to_string());
                    sess.step("take");
                    kinds.insert("too-big-number");
                }
                10 => {
                    ops.push("take".to_string());
                    sess.step("take");
                    let op = start(rng.pick(&["LIST", "list", " List "]));
                    sess.step(&op);
                    ops.push(op);
                    ops.push("take".to_string());
                    sess.step("take");
                    let spec: Vec<String> = map.iter().map(|(n, k)| format!("{}:{}", n, k)).collect();
                    checks.push(format!("list-is {} {}", ops.len() - 1, if spec.is_empty() { "-".to_string() } else { spec.join(",") }));
                    kinds.insert("list");
                }
                _ => {
                    ops.push("take".to_string());
                    sess.step("take");
                    let op = start("RUN");
                    sess.step(&op);
                    ops.push(op);
                    let mut takes = vec![];
                    let mut guard = 0;
                    loop {
                        ops.push("take".to_string());
                        sess.step("take");
                        takes.push((ops.len() - 1).to_string());
                        ops.push("state".to_string());
                        let st = sess.step("state");
                        if st != "Running" {
                            break;
                        }
                        if guard > 200 {
                            // a PRINT-only program must have ended long ago: stop it so the walk can go on
                            ops.push("break".to_string());
                            sess.step("break");
                            ops.push("take".to_string());
                            sess.step("take");
                            break;
                        }
                        ops.push("cont".to_string());
                        sess.step("cont");
                        guard += 1;
                    }
                    let spec: Vec<String> = map.values().map(|k| k.to_string()).collect();
                    checks.push(format!("run-is {} {}", takes.join(","), if spec.is_empty() { "-".to_string() } else { spec.join(",") }));
                    kinds.insert("run");
                }
            }
        }
        // always end with LIST and a snapshot (both indexes visible)
        ops.push("take".to_string());
        ops.push(start("LIST"));
        ops.push("take".to_string());
        let spec: Vec<String> = map.iter().map(|(n, k)| format!("{}:{}", n, k)).collect();
        checks.push(format!("list-is {} {}", ops.len() - 1, if spec.is_empty() { "-".to_string() } else { spec.join(",") }));
        ops.push("snap".to_string());
        let show = ops
            .iter()
            .filter_map(|o| o.strip_prefix("start ").and_then(crate::imp::unhex))
            .collect::<Vec<_>>()
            .join(" | ");
        cases.push(Case {
            ops,
            checks,
            tag: kinds.iter().cloned().collect::<Vec<_>>().join("+"),
            nontrivial: kinds.len() >= 2,
            show,
        });
    }
    // a line number directly followed by a numeral that begins with a point: `10.5 PRINT 2` is line 10 with the text `.5 PRINT 2`
    for (typed, listed) in [
        (&["10 PRINT 1", "10.5 PRINT 2", "020.75", "30 .25", "0.0REM x", "18446744073709551615.125"][..], "10 0.5 PRINT 2\n20 0.75\n30 0.25\n0 0 REM x\n18446744073709551615 0.125"),
        (&["5.5", "5.5.5", "7 .", "8."][..], "5 0.5"),
    ] {
        let mut ops = vec!["new 0 0".to_string()];
        for t in typed.iter() {
            ops.push(start(t));
        }
        ops.push("take".to_string());
        ops.push(start("LIST"));
        ops.push("take".to_string());
        let mut lines: Vec<(u64, String)> = listed.split('\n').map(|l| (l.split(' ').next().unwrap().parse::<u64>().unwrap(), format!("{}\n", l))).collect();
        lines.sort();
        let want = lines.iter().map(|(_, l)| format!("P:{}", crate::gen::hexs(l))).collect::<Vec<_>>().join(" ");
        cases.push(Case { ops: ops.clone(), checks: vec![format!("take-is {} {}", ops.len() - 1, want)], tag: "number-glued-to-a-leading-point".into(), nontrivial: true, show: format!("{:?}", typed) });
    }
    (cases, false)
}
