pub mod expr;
pub mod list;
pub mod num;
pub mod progs;
pub mod rngs;
pub mod store;
pub mod tok;
pub mod sess;
