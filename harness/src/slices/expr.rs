//! C02: expressions evaluate per precedence, associativity and typing.
//! The Lean side owns the spec: the driver's `fold` op renders a tree
//! (minimal parentheses) and folds it; the implementation prints the text.
use crate::core::Case;
use crate::imp::{dec_f64, enc_f64, hex, unhex};
use crate::model::Driver;
use crate::rng::Rng;

const BIN: &[&str] = &["pow", "mul", "div", "add", "sub", "eq", "lt", "le", "gt", "ge", "ne", "and", "or"];
const UN: &[&str] = &["pos", "neg", "not"];

/// the environment every case starts from
const ENV: &[&str] = &["X = 2", "Y = 3.5", "Z = 0", "W = 0 - 1.5", "A$ = \"HI\"", "B$ = \"\"", "C$ = \"HI THERE\""];

fn leaf(rng: &mut Rng) -> String {
    match rng.below(12) {
        0..=3 => format!("n{}", enc_f64(rng.pick(&[0.0, 1.0, 2.0, 3.0, 0.5, 10.0, 7.0, 1e10, 0.1, 255.0, 1e-5, 1e-16, 2.220446049250313e-16, 1e-300, 5e-324, 0.3, 0.2,
            // around 2^53, 2^63, 2^64 and 10^19, where conversions to integers saturate or lose digits
            9007199254740993.0, 9.5e18, 9223372036854775808.0, 9223372036854777856.0, 1e19, 18446744073709551616.0, 4611686018427387904.0, 9.99e18, 2.5e15 + 0.5]))),
        4..=6 => format!("v{}", hex(rng.pick(&["X", "Y", "Z", "W", "U"]))),
        7..=8 => format!("s{}", hex(rng.pick(&["", "HI", "A", "hi", "HI THERE", "é"]))),
        _ => format!("v{}", hex(rng.pick(&["A$", "B$", "C$", "U$"]))),
    }
}

fn tree(rng: &mut Rng, size: usize, parens: bool) -> String {
    let wrap = |rng: &mut Rng, s: String| if parens && rng.chance(1, 4) { format!("p {}", s) } else { s };
    if size <= 1 {
        let l = leaf(rng);
        return wrap(rng, l);
    }
    let t = match rng.below(10) {
        0..=6 => {
            let l = rng.range(1, size - 1);
            let op = rng.pick(BIN);
            let a = tree(rng, l, parens);
            let b = tree(rng, size - 1 - l, parens);
            format!("b{} {} {}", op, a, b)
        }
        7 => {
            let op = rng.pick(UN);
            let a = tree(rng, size - 1, parens);
            format!("u{} {}", op, a)
        }
        8 => format!("a {}", tree(rng, size - 1, parens)),
        _ => format!("i {}", tree(rng, size - 1, parens)),
    };
    wrap(rng, t)
}

/// all trees with `ops` binary operators over three leaves kinds (exhaustive shapes and operator tuples)
fn exhaustive(ops: usize, out: &mut Vec<String>) {
    let leaves = ["v58", "n4000000000000000", "v4124", "n0000000000000000"]; // X, 2, A$, 0
    fn go(ops: usize, leaves: &[&str], out: &mut Vec<String>) {
        if ops == 0 {
            for l in leaves {
                out.push(l.to_string());
            }
            return;
        }
        for k in 0..ops {
            let mut ls = vec![];
            let mut rs = vec![];
            go(k, leaves, &mut ls);
            go(ops - 1 - k, leaves, &mut rs);
            for op in BIN {
                for l in &ls {
                    for r in &rs {
                        out.push(format!("b{} {} {}", op, l, r));
                    }
                }
            }
        }
    }
    go(ops, &leaves[..if ops >= 2 { 2 } else { 4 }], out);
}

fn expected_print(fold: &str) -> Option<(String, String)> {
    // -> (expected reply to `start PRINT e`, expected reply to `take`)
    if let Some(v) = fold.strip_prefix("v:") {
        let text = if let Some(b) = v.strip_prefix('n') {
            format!("{}\n", dec_f64(b))
        } else {
            format!("{}\n", unhex(&v[1..])?)
        };
        Some(("ok".to_string(), format!("P:{}", hex(&text))))
    } else {
        let kind = fold.strip_prefix("e:")?;
        Some((format!("err_{}@", kind), "-".to_string()))
    }
}

pub fn cases(rng: &mut Rng, tier: &str, driver: &Driver) -> (Vec<Case>, bool) {
    let mut trees: Vec<(String, &'static str)> = vec![];
    let mut ex = vec![];
    exhaustive(1, &mut ex);
    exhaustive(2, &mut ex);
    if tier == "thorough" {
        let mut ex3 = vec![];
        exhaustive(3, &mut ex3);
        for (i, t) in ex3.into_iter().enumerate() {
            if i % 3 == 0 {
                ex.push(t);
            }
        }
    }
    for t in ex {
        trees.push((t, "exhaustive"));
    }
    // every unary operator over every binary node and vice versa
    for u in UN {
        for b in BIN {
            trees.push((format!("u{} b{} v58 n4000000000000000", u, b), "unary-over-binary"));
            trees.push((format!("b{} u{} v58 n4000000000000000", b, u), "binary-over-unary"));
            trees.push((format!("b{} v59 u{} v58", b, u), "binary-over-unary"));
            trees.push((format!("u{} v4124", u), "unary-string"));
        }
    }
    // comparisons of every pair of string operands, incl. never-assigned variables (U$, V$), assigned-empty (B$) and literals
    let strs = ["v5524", "v5624", "v4224", "s", "v4124", "s4849", "v4324", "s6869"]; // U$ V$ B$ "" A$ "HI" C$ "hi"
    for op in ["eq", "ne", "lt", "le", "gt", "ge"] {
        for a in strs {
            for b in strs {
                trees.push((format!("b{} {} {}", op, a, b), "string-compare"));
            }
        }
    }
    // comparisons and logical operators with NaN and infinite operands (there are no such literals: they have to be computed)
    let odd = [
        "bpow uneg n4020000000000000 p bdiv n3ff0000000000000 n4008000000000000", // (-8) ^ (1/3) = NaN
        "bsub bpow n4022000000000000 n408f380000000000 bpow n4022000000000000 n408f380000000000", // 9^999 - 9^999 = NaN
        "bpow n4022000000000000 n408f380000000000",                                // inf
        "uneg bpow n4022000000000000 n408f380000000000",                           // -inf
        "uneg n0000000000000000",                                                  // -0
    ];
    for x in odd {
        for op in ["eq", "ne", "lt", "le", "gt", "ge", "and", "or", "add", "mul"] {
            trees.push((format!("b{} {} n3ff0000000000000", op, x), "nan-inf-operands"));
            trees.push((format!("b{} n3ff0000000000000 {}", op, x), "nan-inf-operands"));
            trees.push((format!("b{} {} {}", op, x, x), "nan-inf-operands"));
            trees.push((format!("unot b{} {} n3ff0000000000000", op, x), "nan-inf-operands"));
        }
        trees.push((format!("a {}", x), "nan-inf-operands"));
        trees.push((format!("i {}", x), "nan-inf-operands"));
    }
    // truthiness at the edge: tiny non-zero operands, rounding residue, empty / blank strings, in every logical context
    let tiny = ["n3c9cd2b297d889bc", "n3cb0000000000000", "n0000000000000001", "n01a56e1fc2f8f359", "bsub badd n3fb999999999999a n3fc999999999999a n3fd3333333333333", "bsub bsub n3ff0000000000000 n3feccccccccccccd n3fb999999999999a", "s", "s20", "v4224"];
    for x in tiny {
        for ctx in ["unot {x}", "band {x} n3ff0000000000000", "band n3ff0000000000000 {x}", "bor {x} n0000000000000000", "bor n0000000000000000 {x}", "unot p {x}", "bne {x} n0000000000000000"] {
            if ctx.starts_with("bne") && x.starts_with('s') || ctx.starts_with("bne") && x.starts_with('v') {
                continue;
            }
            trees.push((ctx.replace("{x}", x), "truthiness-edge"));
        }
    }
    let n = if tier == "thorough" { 40_000 } else { 3_000 };
    for _ in 0..n {
        let size = rng.range(1, 9);
        let parens = rng.chance(1, 2);
        trees.push((tree(rng, size, parens), if parens { "random+parens" } else { "random" }));
    }
    // phase 1: the spec renders and folds
    let mut fold_ops: Vec<String> = vec!["new 0 0".to_string()];
    for e in ENV {
        fold_ops.push(format!("start {}", hex(e)));
    }
    for (t, _) in &trees {
        fold_ops.push(format!("fold {}", t));
    }
    let folded = match driver.run(&fold_ops) {
        Ok(r) => r,
        Err(e) => {
            return (vec![Case { ops: vec![format!("fold-phase-failed {}", e)], checks: vec![], tag: "fold".into(), nontrivial: true, show: e }], false);
        }
    };
    // phase 2: cases of up to 40 expressions each
    let mut cases = vec![];
    let base = 1 + ENV.len();
    for (ci, chunk) in trees.chunks(40).enumerate() {
        let mut ops = vec!["new 0 0".to_string()];
        if ci % 7 == 3 {
            // a session that has DEFined functions named like the built-ins: ABS and INT stay absolute value and floor
            for l in ["1 DEF ABS(X) = X + 100", "2 DEF INT(A, B) = 7", "3 DEF RND(Q$) = 1", "4 DEF FNA(X) = X", "RUN", "cont", "cont", "cont", "cont"] {
                if l == "cont" {
                    ops.push("state".to_string());
                } else {
                    ops.push(format!("start {}", hex(l)));
                }
            }
            // run the four DEF lines to the end
            ops.retain(|o| o != "state");
            for _ in 0..3 {
                ops.push("cont".to_string());
            }
        }
        for e in ENV {
            ops.push(format!("start {}", hex(e)));
        }
        let mut checks = vec![];
        let mut shows = vec![];
        for (k, (t, _)) in chunk.iter().enumerate() {
            let reply = &folded[base + ci * 40 + k];
            let mut it = reply.split(' ');
            let (text_hex, fold) = (it.next().unwrap_or(""), it.next().unwrap_or(""));
            let Some(text) = unhex(text_hex) else { continue };
            let Some((want_start, want_take)) = expected_print(fold) else { continue };
            ops.push(format!("fold {}", t));
            ops.push(format!("start {}", hex(&format!("PRINT {}", text))));
            if want_start == "ok" {
                checks.push(format!("reply-is {} ok", ops.len() - 1));
            } else {
                checks.push(format!("reply-starts {} {}", ops.len() - 1, want_start));
            }
            ops.push("take".to_string());
            checks.push(format!("reply-is {} {}", ops.len() - 1, want_take));
            if shows.len() < 3 {
                shows.push(format!("PRINT {} => {}", text, fold));
            }
        }
        cases.push(Case { ops, checks, tag: chunk[0].1.to_string(), nontrivial: true, show: shows.join(" ; ") });
    }
    // a variable is a leaf whatever its name: a scalar named like a built-in, or like a function a DEF has defined, read
    // WITHOUT an argument list evaluates to its value (with one, it is the function)
    let named: &[(&[&str], &[(&str, &str)])] = &[
        (&["ABS = 5", "INT = 2.5", "RND = 0"], &[("PRINT ABS + 1", "6"), ("PRINT INT(INT) * INT", "5"), ("PRINT NOT ABS OR INT", "1"), ("PRINT ABS(0 - ABS) ^ 2", "25"), ("PRINT RND; ABS; INT", "052.5")]),
        (&["10 DEF F(X) = X * 2", "20 F = 7", "30 FNA = 1", "40 DEF FNA(Y) = Y + FNA", "RUN"], &[("PRINT F + F(1)", "9"), ("PRINT F * 2", "14"), ("PRINT FNA(1) + FNA", "3"), ("PRINT F(F) - F", "7")]),
    ];
    let extremes: &[(&[&str], &[(&str, &str)])] = &[
        // any non-zero number is true - however small - and a product is not a conjunction
        (&["A = .1^200", "B = 10^400", "C = 0 - B", "Z = 0"], &[("PRINT A AND A", "1"), ("PRINT B AND Z", "0"), ("PRINT Z AND B", "0"), ("PRINT A OR Z", "1"), ("PRINT NOT A", "0"), ("PRINT B AND B", "1"),
            ("PRINT A * A", "0"), ("PRINT (A AND B) + (C AND A)", "2"), ("PRINT B = B", "1"), ("PRINT C < B", "1"), ("PRINT A > Z", "1"), ("PRINT NOT (B - B)", "0"), ("PRINT (B - B) AND 1", "1"), ("PRINT INT(B) = B", "1")]),
    ];
    for (setup, probes) in named.iter().chain(extremes.iter()) {
        let mut ops = vec!["new 0 0".to_string()];
        let mut checks = vec![];
        for l in setup.iter() {
            ops.push(format!("start {}", hex(l)));
            if *l == "RUN" {
                // one host call per remaining line of the four-line program
                for _ in 0..3 {
                    ops.push("cont".to_string());
                }
            }
        }
        ops.push("take".to_string());
        for (text, want) in probes.iter() {
            ops.push(format!("start {}", hex(text)));
            checks.push(format!("reply-is {} ok", ops.len() - 1));
            ops.push("take".to_string());
            checks.push(format!("reply-is {} P:{}", ops.len() - 1, hex(&format!("{}\n", want))));
        }
        cases.push(Case { ops, checks, tag: "variable-named-like-a-function".into(), nontrivial: true, show: format!("{} || {}", setup.join(" | "), probes.iter().map(|p| p.0).collect::<Vec<_>>().join(" | ")) });
    }
    // never-assigned variables of both kinds read with the diagnostics switched ON (and off): a read yields the default of the
    // variable's kind - 0 or the empty string - and a warning record next to the value, never an error
    for warn in [1, 0] {
        let probes: &[(&str, &str)] = &[("PRINT Q$ = \"\"", "1"), ("PRINT NOT R$", "1"), ("PRINT S$ < \"A\" OR 0", "1"), ("PRINT (T$)", ""), ("PRINT \"[\"; U$; \"]\"", "[]"), ("PRINT Q + 1", "1"), ("PRINT NOT R", "1"),
            ("PRINT V$ = W$", "1"), ("PRINT V$ <> \"x\" AND W = 0", "1"), ("PRINT Q$ = \"\"", "1"), ("PRINT ABS(K) + INT(K)", "0"), ("PRINT M$(1) = \"\"", "1"), ("PRINT N(2) + 1", "1")];
        let mut ops = vec![format!("new {} 0", warn)];
        let mut checks = vec![];
        for (text, want) in probes.iter() {
            ops.push(format!("start {}", hex(text)));
            checks.push(format!("reply-is {} ok", ops.len() - 1));
            ops.push("take".to_string());
            checks.push(format!("some-take-is {} P:{}", ops.len() - 1, hex(&format!("{}\n", want))));
        }
        cases.push(Case { ops, checks, tag: "never-assigned-with-diagnostics".into(), nontrivial: true, show: format!("warnings {} || {}", warn, probes.iter().map(|p| p.0).collect::<Vec<_>>().join(" | ")) });
    }
    (cases, false)
}
