//! The `NumLaws` tests: the numeric primitives the model takes as parameters,
//! on the executable `Float` instance, against Rust's std.
use crate::core::Case;
use crate::gen::hexs;
use crate::imp::enc_f64;
use crate::rng::Rng;

pub fn cases(rng: &mut Rng, tier: &str) -> (Vec<Case>, bool) {
    let n = if tier == "thorough" { 120_000 } else { 12_000 };
    let mut values: Vec<f64> = vec![0.0, -0.0, 1.0, -1.0, 0.1, 0.5, 1e21, 1e-7, f64::MAX, f64::MIN_POSITIVE, 5e-324, f64::INFINITY, f64::NEG_INFINITY, f64::NAN, 123456789012345680.0, 0.30000000000000004, 9007199254740993.0];
    for _ in 0..n {
        values.push(match rng.below(5) {
            0 => f64::from_bits(rng.next()),
            1 => (rng.next() % (1 << 33)) as f64 / 8589934592.0,
            2 => (rng.next() % 100000) as f64 / 100.0,
            3 => (rng.next() % 1000) as f64,
            _ => f64::from_bits(rng.next()).abs().powf(0.1),
        });
    }
    let mut cases = vec![];
    for chunk in values.chunks(200) {
        let mut ops = vec![];
        let mut checks = vec![];
        for &v in chunk {
            ops.push(format!("fmt {}", enc_f64(v)));
            let text = format!("{}", v);
            ops.push(format!("parse {}", hexs(&text)));
            // NumLaws: parse (show x) = x for non-NaN x
            checks.push(format!("reply-is {} {}", ops.len() - 1, enc_f64(v)));
        }
        cases.push(Case { ops, checks, tag: "fmt+parse".into(), nontrivial: true, show: format!("{:?}…", &chunk[..chunk.len().min(4)]) });
    }
    // NumLaws.leadingPoint (C14More2): a numeral written with a leading point parses to x whose Display is "0", "1" or
    // "0."+tl, and the spelling LIST uses after an identifier (".0", ".99999999999999999999", "."+tl) parses back to x
    let mut fracs: Vec<String> = vec![".0", ".00", ".5", ".25", ".1", ".99999999999999999999", ".9999999999999999", ".99999999999999995", ".99999999999999994", ".999999999999999944488848768742172978818416595458984375", ".000000000000000000001", ".3", ".30000000000000004"].into_iter().map(String::from).collect();
    for _ in 0..(n / 6) {
        let len = rng.range(1, 40);
        let mut d = String::from(".");
        for _ in 0..len {
            d.push(rng.pick(&['0', '1', '5', '9', '9', '9', '3', '7']));
        }
        fracs.push(d);
    }
    for chunk in fracs.chunks(100) {
        let mut ops = vec![];
        let mut checks = vec![];
        for d in chunk {
            let x: f64 = d.parse().unwrap();
            ops.push(format!("parse {}", hexs(d)));
            checks.push(format!("reply-is {} {}", ops.len() - 1, enc_f64(x)));
            ops.push(format!("fmt {}", enc_f64(x)));
            let t = format!("{}", x);
            let spelling = if t == "0" {
                Some(".0".to_string())
            } else if t == "1" {
                Some(".99999999999999999999".to_string())
            } else if t.starts_with("0.") {
                Some(t[1..].to_string())
            } else {
                None
            };
            match spelling {
                Some(sp) => {
                    ops.push(format!("parse {}", hexs(&sp)));
                    checks.push(format!("reply-is {} {}", ops.len() - 1, enc_f64(x)));
                }
                None => checks.push(format!("reply-is {} leading-point-numeral-displays-as-{}", ops.len() - 1, t)),
            }
        }
        cases.push(Case { ops, checks, tag: "leading-point".into(), nontrivial: true, show: format!("{:?}…", &chunk[..chunk.len().min(3)]) });
    }
    // malformed and unusual numerals
    let odd = ["", ".", "+", "1e", "e1", "1..2", "1.2.3", "0x10", "1 ", " 1", "1_0", "inf", "INF", "Infinity", "nan", "-nan", "1e400", "1e-400", "007", ".5", "5.", "1E5", "+5", "-0", "١"];
    let mut ops = vec![];
    for o in odd {
        ops.push(if o.is_empty() { "parse".to_string() } else { format!("parse {}", hexs(o)) });
    }
    cases.push(Case { ops, checks: vec![], tag: "odd-numerals".into(), nontrivial: true, show: format!("{:?}", odd) });
    // upper-casing of command words: every char whose full upper-casing is pure ASCII (whole Unicode, exhaustive)
    let mut ops = vec![];
    for cp in 0x80u32..=0x10FFFF {
        if let Some(c) = char::from_u32(cp) {
            let up: String = c.to_uppercase().collect();
            if up.is_ascii() || tier == "thorough" && cp % 97 == 0 || cp % 4099 == 0 {
                ops.push(format!("upper {}", hexs(&format!("L{}ST", c))));
            }
        }
    }
    for w in ["run", " list extra", "LIſT", "ﬆats", "new\n", "\n", "", "10 run", "tracé", "NoTrAcE"] {
        ops.push(if w.is_empty() { "upper 20".to_string() } else { format!("upper {}", hexs(w)) });
    }
    cases.push(Case { ops, checks: vec![], tag: "upper".into(), nontrivial: true, show: "command-word upper-casing over all of Unicode".into() });
    (cases, false)
}
