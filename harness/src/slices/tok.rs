//! Tokenizer slices: C13 (ranges exact), C12 (spacing / case insensitivity).
use crate::core::Case;
use crate::gen::{self, hexs};
use crate::rng::Rng;
use abasic_core::verif_hooks as hooks;

fn statement_line(rng: &mut Rng) -> String {
    let n = rng.range(1, 3);
    let mut parts = vec![];
    for _ in 0..n {
        parts.push(gen::simple_statement(rng));
    }
    let mut s = parts.join(rng.pick(&[":", " : ", ": "]));
    if rng.chance(1, 5) {
        s = format!("IF {} THEN {}", gen::num_expr(rng, 1), s);
        if rng.chance(1, 2) {
            s.push_str(" ELSE ");
            s.push_str(&gen::simple_statement(rng));
        }
    }
    if rng.chance(1, 3) {
        s = gen::random_case(rng, &s);
    }
    s
}

fn any_line(rng: &mut Rng) -> (String, &'static str) {
    match rng.below(10) {
        0..=4 => (gen::token_soup(rng), "soup"),
        5..=7 => (statement_line(rng), "statement"),
        8 => {
            let l = statement_line(rng);
            (gen::spread(rng, &l), "spread-statement")
        }
        _ => (gen::data_statement(rng), "data"),
    }
}

fn with_line_number(rng: &mut Rng, text: &str) -> (String, usize) {
    if rng.chance(1, 3) {
        let num = rng.pick(&["10", "0", "007", " 20", "65535", "18446744073709551615"]).to_string();
        let sep = rng.pick(&["", " ", "  "]);
        let line = format!("{}{}{}", num, sep, text);
        (line, num.len())
    } else {
        (text.to_string(), 0)
    }
}

pub const SMALL_ALPHABET: &[&str] = &["A", "T", "O", "1", ".", " ", "\"", "<", "=", ">", "$", "é", ":", "R", "E", "M", "D"];

pub fn c13_cases(rng: &mut Rng, tier: &str) -> (Vec<Case>, bool) {
    let mut cases = vec![];
    // exhaustive part: all strings up to a length bound over the small alphabet
    let max_len = if tier == "thorough" { 5 } else { 3 };
    let k = SMALL_ALPHABET.len();
    let mut total = 0usize;
    for len in 0..=max_len {
        let count = k.pow(len as u32);
        for mut idx in 0..count {
            let mut s = String::new();
            for _ in 0..len {
                s.push_str(SMALL_ALPHABET[idx % k]);
                idx /= k;
            }
            total += 1;
            cases.push(Case {
                ops: vec![format!("tok {} 0", hexs(&s)).replace("tok  0", "tok 0")],
                checks: vec!["ranges-exact 0".to_string()],
                tag: format!("exhaustive-len{}", len),
                nontrivial: !s.trim().is_empty(),
                show: format!("{:?}", s),
            });
        }
    }
    let _ = total;
    // an illegal character of every UTF-8 class - first and last code point of each encoded length, each lead byte E0 / ED / EF /
    // F0 / F4 - at the start, after a token, before more text
    for ch in ["\u{80}", "\u{a3}", "\u{bf}", "\u{7ff}", "\u{800}", "\u{905}", "\u{e01}", "\u{f00}", "\u{fff}", "\u{1000}", "\u{d7ff}", "\u{e000}", "\u{fffd}", "\u{ffff}", "\u{10000}", "\u{3ffff}", "\u{40000}", "\u{fffff}", "\u{100000}", "\u{10ffff}"] {
        for tmpl in ["{}", "PRINT {}5", "PRINT 1 {}", "A{}B", "10 PRINT {} : REM x", "  {}  "] {
            let s = tmpl.replace("{}", ch);
            cases.push(Case { ops: vec![format!("tok {} 0", hexs(&s))], checks: vec!["ranges-exact 0".to_string()], tag: "illegal-character-classes".into(), nontrivial: true, show: format!("{:?}", s) });
        }
    }
    // long runs of blanks (around 255 / 256 / 65535 bytes) INSIDE every multi-character token: between the letters of each
    // keyword, the two characters of an operator, the digits of a numeral, the letters of a name
    let words = ["PRINT", "GOTO", "GOSUB", "RETURN", "INPUT", "THEN", "ELSE", "NEXT", "STEP", "RESTORE", "READ", "DATA", "REM", "DEF", "DIM", "LET", "FOR", "TO", "IF", "END", "STOP", "AND", "OR", "NOT", "<=", ">=", "<>", "123", "1.5", "AB1", "X$"];
    for wd in words {
        for gap in [254usize, 255, 256, 257, 300, 65536] {
            if gap > 1000 && (tier != "thorough" || wd.len() > 3) {
                continue;
            }
            let chars: Vec<char> = wd.chars().collect();
            for cut in 1..chars.len() {
                let a: String = chars[..cut].iter().collect();
                let b: String = chars[cut..].iter().collect();
                for tail in [" 1", " X THEN 5", ""] {
                    let s = format!("{}{}{}{}", a, " ".repeat(gap), b, tail);
                    cases.push(Case { ops: vec![format!("tok {} 0", hexs(&s))], checks: vec!["ranges-exact 0".to_string()], tag: "long-blank-run-inside-token".into(), nontrivial: true, show: format!("{:?} + {} blanks + {:?}{}", a, gap, b, tail) });
                }
            }
        }
    }
    let n = if tier == "thorough" { 120_000 } else { 6_000 };
    for _ in 0..n {
        let (text, tag) = any_line(rng);
        let (line, skip) = with_line_number(rng, &text);
        let op = if line.is_empty() { format!("tok {}", skip) } else { format!("tok {} {}", hexs(&line), skip) };
        cases.push(Case {
            ops: vec![op],
            checks: vec!["ranges-exact 0".to_string()],
            tag: tag.to_string(),
            nontrivial: !text.trim().is_empty(),
            show: format!("{:?} skip {}", line, skip),
        });
    }
    (cases, false)
}

/// byte positions in `line` at which a blank may be inserted / a byte may be
/// deleted or case-flipped without touching a protected region of `line`'s own
/// tokenization.
fn protected_map(line: &str) -> (Vec<bool>, Vec<bool>) {
    let bytes = line.as_bytes();
    let n = bytes.len();
    // insert_ok[p]: inserting before byte p (p in 0..=n); touch_ok[q]: deleting / flipping byte q
    let mut insert_ok = vec![true; n + 1];
    let mut touch_ok = vec![true; n];
    let reply = hooks::tokenize(line, 0);
    for part in reply.split(' ').filter(|p| !p.is_empty()) {
        if let Some(e) = part.strip_prefix('!') {
            // from the error position on nothing is known: protect it
            let pos: usize = e[2..].split('-').next().unwrap().parse().unwrap();
            for p in pos..=n {
                insert_ok[p] = false;
            }
            for q in pos..n {
                touch_ok[q] = false;
            }
            // an invalid number / illegal character right after blanks: also keep the blanks
            continue;
        }
        let i = part.rfind('@').unwrap();
        let (t, r) = part.split_at(i);
        let mut it = r[1..].split('-');
        let a: usize = it.next().unwrap().parse().unwrap();
        let b: usize = it.next().unwrap().parse().unwrap();
        let kw_end = |letters: usize| -> usize {
            // position just after the `letters`-th non-blank byte of the token
            let mut seen = 0;
            let mut p = a;
            while p < b && seen < letters {
                if !(bytes[p].is_ascii_whitespace() && bytes[p] != b'\n') {
                    seen += 1;
                }
                p += 1;
            }
            p
        };
        if t.starts_with("S:") {
            for p in a + 1..b {
                insert_ok[p] = false;
            }
            for q in a..b {
                touch_ok[q] = false;
            }
        } else if t.starts_with("R:") {
            let k = kw_end(3);
            for p in k..=n {
                insert_ok[p] = false;
            }
            for q in k..n {
                touch_ok[q] = false;
            }
        } else if t.starts_with("D:") {
            let k = kw_end(4);
            // the DATA text up to its end (the terminating colon is outside)
            for p in k..=b {
                insert_ok[p] = false;
            }
            for q in k..b {
                touch_ok[q] = false;
            }
        }
    }
    (insert_ok, touch_ok)
}

fn perturb(rng: &mut Rng, line: &str) -> Option<(String, &'static str)> {
    let (insert_ok, touch_ok) = protected_map(line);
    let bytes = line.as_bytes();
    let mut out: Vec<u8> = bytes.to_vec();
    let kind = rng.below(5);
    match kind {
        4 => {
            // a long run of blanks at one position
            let cands: Vec<usize> = (0..=bytes.len()).filter(|&p| insert_ok[p] && line.is_char_boundary(p)).collect();
            if cands.is_empty() {
                return None;
            }
            let p = rng.pick(&cands);
            let n = rng.range(10, 45);
            let run: Vec<u8> = (0..n).map(|_| if rng.chance(1, 4) { b'\t' } else { b' ' }).collect();
            out.splice(p..p, run);
            Some((String::from_utf8(out).ok()?, "insert-long-run"))
        }
        0 => {
            let cands: Vec<usize> = (0..=bytes.len()).filter(|&p| insert_ok[p] && line.is_char_boundary(p)).collect();
            if cands.is_empty() {
                return None;
            }
            let p = rng.pick(&cands);
            let blank = if rng.chance(1, 3) { b'\t' } else { b' ' };
            out.insert(p, blank);
            Some((String::from_utf8(out).ok()?, "insert-blank"))
        }
        1 => {
            let cands: Vec<usize> = (0..bytes.len()).filter(|&q| touch_ok[q] && (bytes[q] == b' ' || bytes[q] == b'\t')).collect();
            if cands.is_empty() {
                return None;
            }
            let q = rng.pick(&cands);
            out.remove(q);
            Some((String::from_utf8(out).ok()?, "delete-blank"))
        }
        2 => {
            let cands: Vec<usize> = (0..bytes.len()).filter(|&q| touch_ok[q] && bytes[q].is_ascii_alphabetic()).collect();
            if cands.is_empty() {
                return None;
            }
            let q = rng.pick(&cands);
            out[q] ^= 0x20;
            Some((String::from_utf8(out).ok()?, "flip-case"))
        }
        _ => {
            // everything at once: delete every unprotected blank, flip every unprotected letter with probability 1/2
            let mut res = vec![];
            for q in 0..bytes.len() {
                let c = bytes[q];
                if touch_ok[q] && (c == b' ' || c == b'\t') && rng.chance(3, 4) {
                    continue;
                }
                if touch_ok[q] && c.is_ascii_alphabetic() && rng.chance(1, 2) {
                    res.push(c ^ 0x20);
                } else {
                    res.push(c);
                }
                if q + 1 <= bytes.len() && insert_ok[q + 1] && line.is_char_boundary(q + 1) && rng.chance(1, 4) {
                    res.push(b' ');
                }
            }
            Some((String::from_utf8(res).ok()?, "many"))
        }
    }
}

fn tok_op(line: &str) -> String {
    if line.is_empty() {
        "tok 0".to_string()
    } else {
        format!("tok {} 0", hexs(line))
    }
}

fn data_op(text: &str) -> String {
    if text.is_empty() {
        "data".to_string()
    } else {
        format!("data {}", hexs(text))
    }
}

/// DATA text with insignificant blanks added: after the keyword, around commas, around quotes, before the end.
fn data_variants(rng: &mut Rng) -> (String, String, String) {
    let n = rng.range(0, 4);
    let mut items: Vec<String> = vec![];
    for _ in 0..n {
        // items without leading/trailing blanks of their own
        let it = match rng.below(9) {
            0 => "1".to_string(),
            1 => "2.5".to_string(),
            2 => "hello".to_string(),
            3 => "\"quoted, text: here\"".to_string(),
            4 => "two words".to_string(),
            5 => "\" padded \"".to_string(),
            6 => "-3".to_string(),
            7 => "\"\"".to_string(),
            _ => "x\"y".to_string(),
        };
        items.push(it);
    }
    let tail = rng.pick(&["", ":", ":PRINT 1"]).to_string();
    let base = format!("{}{}", items.join(","), tail);
    let blank = |rng: &mut Rng| -> String {
        match rng.below(4) {
            0 => "".to_string(),
            1 => " ".to_string(),
            2 => "\t".to_string(),
            _ => "  ".to_string(),
        }
    };
    let mut var = String::new();
    var.push_str(&blank(rng));
    for (i, it) in items.iter().enumerate() {
        if i > 0 {
            var.push_str(&blank(rng));
            var.push(',');
            var.push_str(&blank(rng));
        }
        var.push_str(it);
    }
    if !items.is_empty() {
        var.push_str(&blank(rng));
    }
    var.push_str(&tail);
    (base, var, format!("{} items, tail {:?}", items.len(), tail))
}

pub fn c12_cases(rng: &mut Rng, tier: &str) -> (Vec<Case>, bool) {
    let mut cases = vec![];
    // the three spellings named by the property
    cases.push(Case {
        ops: vec![format!("tok {} 2", hexs("10PRINT123")), format!("tok {} 2", hexs("10 print 123")), format!("tok {} 2", hexs("10 P R I N T 1 2 3"))],
        checks: vec!["same-tokens 0 1".into(), "same-tokens 0 2".into()],
        tag: "named-example".into(),
        nontrivial: true,
        show: "10PRINT123 / 10 print 123 / 10 P R I N T 1 2 3".into(),
    });
    let n = if tier == "thorough" { 60_000 } else { 4_000 };
    for _ in 0..n {
        let (line, tag) = any_line(rng);
        let k = rng.range(1, 4);
        let mut ops = vec![tok_op(&line)];
        let mut checks = vec![];
        let mut shows = vec![];
        let mut kinds = vec![];
        for _ in 0..k {
            if let Some((v, kind)) = perturb(rng, &line) {
                ops.push(tok_op(&v));
                checks.push(format!("same-tokens 0 {}", ops.len() - 1));
                shows.push(v);
                kinds.push(kind);
            }
        }
        if checks.is_empty() {
            continue;
        }
        cases.push(Case {
            ops,
            checks,
            tag: format!("{}:{}", tag, kinds[0]),
            nontrivial: shows.iter().any(|v| v != &line),
            show: format!("{:?} ~ {:?}", line, shows),
        });
    }
    // exhaustive single-blank insertion / deletion / case flip for short lines
    let short_lines = ["IF X THEN Y", "FORI=1TO10STEP2", "PRINT\"A B\";A B", "GO TO 10:REM x y", "A$=\"x\"+B$", "DATA 1, 2 :PRINT A", "X=1<=2<>3", "NEXTI:RETURN", "? 1 . 5", "ATOM=SCORE", "DATA 1,,2", "DATA \"A\",,B", "DATA ,,", "DATA a,,,b:X=1", "PRINT2E+3", "PRINT 2E-3", "X=1E5", "? 2 E + 3 E - 1", "PRINT1.5E+2E", "X=.5E+.5",
        // an identifier spelled exactly like text that occurs earlier on the line inside a literal / DATA item
        "?\"n\";:n=5:?N", "?\"Count\":Count=1", "DATA k:k=7", "a$=\"a\":a=1"];
    for line in short_lines {
        let (insert_ok, touch_ok) = protected_map(line);
        let bytes = line.as_bytes();
        let mut ops = vec![tok_op(line)];
        let mut checks = vec![];
        for p in 0..=bytes.len() {
            if insert_ok[p] {
                for b in [" ", "\t"] {
                    let v = format!("{}{}{}", &line[..p], b, &line[p..]);
                    ops.push(tok_op(&v));
                    checks.push(format!("same-tokens 0 {}", ops.len() - 1));
                }
            }
        }
        for q in 0..bytes.len() {
            if touch_ok[q] && (bytes[q] == b' ' || bytes[q] == b'\t') {
                let v = format!("{}{}", &line[..q], &line[q + 1..]);
                ops.push(tok_op(&v));
                checks.push(format!("same-tokens 0 {}", ops.len() - 1));
            }
            if touch_ok[q] && bytes[q].is_ascii_alphabetic() {
                let mut v = bytes.to_vec();
                v[q] ^= 0x20;
                ops.push(tok_op(&String::from_utf8(v).unwrap()));
                checks.push(format!("same-tokens 0 {}", ops.len() - 1));
            }
        }
        cases.push(Case { ops, checks, tag: "exhaustive-short-line".into(), nontrivial: true, show: format!("{:?} (all single edits)", line) });
    }
    // blanks and tabs at every item boundary of a DATA statement (after the keyword, on either side of every separating comma,
    // before the closing colon) - with items left empty, leading and trailing commas, quoted items - change no item
    for line in ["DATA 1,,2", "DATA \"A\",,B", "DATA ,,", "DATA a,,,b:X=1", "DATA ,1,", "DATA x,\"y,z\",,3:PRINT 1", "DATA 1,2,,\"\",4", "DATA", "DATA ,", "DATA a b,,c d", "DATA \"q\",", "DATA 1,, ,,2"] {
        let bytes = line.as_bytes();
        let end = {
            // the statement ends at the first colon outside a quoted item
            let (mut inq, mut at_start, mut e) = (false, true, bytes.len());
            for (i, &c) in bytes.iter().enumerate().skip(4) {
                match c {
                    b'"' if inq => inq = false,
                    b'"' if at_start => inq = true,
                    b':' if !inq => {
                        e = i;
                        break;
                    }
                    b',' if !inq => at_start = true,
                    b' ' | b'\t' => {}
                    _ if !inq => at_start = false,
                    _ => {}
                }
            }
            e
        };
        let mut positions = vec![4usize, end];
        let (mut inq, mut at_start) = (false, true);
        for i in 4..end {
            match bytes[i] {
                b'"' if inq => {
                    inq = false;
                    positions.push(i + 1);
                }
                b'"' if at_start => {
                    inq = true;
                    at_start = false;
                }
                b',' if !inq => {
                    positions.push(i);
                    positions.push(i + 1);
                    at_start = true;
                }
                b' ' | b'\t' => {}
                _ if !inq => at_start = false,
                _ => {}
            }
        }
        positions.sort();
        positions.dedup();
        let mut ops = vec![tok_op(line)];
        let mut checks = vec![];
        for &p in &positions {
            for b in [" ", "\t", "  \t "] {
                ops.push(tok_op(&format!("{}{}{}", &line[..p], b, &line[p..])));
                checks.push(format!("same-tokens 0 {}", ops.len() - 1));
            }
        }
        // and at all boundaries at once
        let mut all = String::new();
        for (i, c) in line.char_indices() {
            if positions.contains(&i) {
                all.push(' ');
            }
            all.push(c);
        }
        if positions.contains(&line.len()) {
            all.push(' ');
        }
        ops.push(tok_op(&all));
        checks.push(format!("same-tokens 0 {}", ops.len() - 1));
        cases.push(Case { ops, checks, tag: "data-item-boundaries".into(), nontrivial: true, show: format!("{:?} (a blank / tab at every item boundary)", line) });
    }
    // whole sessions: the same program typed in two spellings (case / blanks outside literals) prints the same; text inside
    // literals of EARLIER lines coincides with identifiers of later lines
    let pairs: &[(&[&str], &[&str])] = &[
        (&["10 PRINT \"Count\"", "20 Count = 5", "30 PRINT COUNT"], &["10 print \"Count\"", "20 COUNT = 5", "30 print count"]),
        (&["10 DATA k, n", "20 k = 7 : n = 8", "30 PRINT K; N"], &["10 data k, n", "20 K = 7 : N = 8", "30 PRINT k; n"]),
        (&["10 A$ = \"total\"", "20 total = 3 : PRINT TOTAL; A$"], &["10 a$ = \"total\"", "20 TOTAL = 3 : print total; A$"]),
        (&["10 REM x", "20 x = 2 : PRINT X"], &["10 rem x", "20 X = 2 : PRINT x"]),
        (&["10 INPUT n$", "20 hello = 4 : PRINT HELLO; N$"], &["10 input N$", "20 HELLO = 4 : print hello; n$"]),
        // blanks around DATA items, where an EARLIER line's literal text (a remark, a string, a reply) spells the item together
        // with those blanks
        (&["10 REM FRUIT", "20 DATA APPLE, FRUIT", "30 READ A$, B$ : PRINT \"[\"; B$; \"]\""], &["10 REM FRUIT", "20 DATA APPLE,FRUIT", "30 READ A$, B$ : PRINT \"[\"; B$; \"]\""]),
        (&["10 PRINT \"AGE \";", "20 DATA NAME,AGE :", "30 READ A$, B$ : PRINT \"[\"; B$; \"]\""], &["10 PRINT \"AGE \";", "20 DATA NAME,AGE:", "30 READ A$, B$ : PRINT \"[\"; B$; \"]\""]),
        (&["10 A$ = \" x \" : B$ = \"x \" : C$ = \" x\"", "20 DATA  x , x", "30 READ P$, Q$ : PRINT \"[\"; P$; \"|\"; Q$; \"]\""], &["10 A$ = \" x \" : B$ = \"x \" : C$ = \" x\"", "20 DATA x,x", "30 READ P$, Q$ : PRINT \"[\"; P$; \"|\"; Q$; \"]\""]),
        (&["10 INPUT n$", "20 DATA  hello , hello", "30 READ P$, Q$ : PRINT \"[\"; P$; \"|\"; Q$; \"]\""], &["10 INPUT n$", "20 DATA hello,hello", "30 READ P$, Q$ : PRINT \"[\"; P$; \"|\"; Q$; \"]\""]),
    ];
    for (a, b) in pairs {
        let mut w = crate::prog::Walk::new(false, false);
        let mut takes = vec![];
        for (k, prog) in [a, b].iter().enumerate() {
            if k == 1 {
                w.op("new 0 0");
            }
            for l in prog.iter() {
                w.start(l);
            }
            w.start("RUN");
            let mut nr = 0;
            w.drive(&[" hello ".to_string()], &mut nr, 40, false);
            w.op("take");
            w.start("LIST");
            w.op("take");
            takes.push(w.last());
        }
        let t0 = w.ops.len();
        let _ = t0;
        // compare everything printed by the two runs (collected transcripts) and the two listings
        let split = w.ops.iter().rposition(|o| o == "new 0 0").unwrap();
        cases.push(Case { ops: w.ops.clone(), checks: vec![format!("transcript-eq 0-{} {}-{}", split - 1, split, w.ops.len() - 1)], tag: "session-spelling".into(), nontrivial: true, show: format!("{:?} ~ {:?}", a, b) });
    }
    // however many blanks a line holds - 50000 after one letter of a name, 600 after each of 90 letters - a name later on the line
    // that is directly followed by a keyword is split exactly as in the line without them
    for (padded, plain) in [
        (format!("10 A{}=1:IF A THEN PRINT 7", " ".repeat(50_000)), "10 A=1:IF A THEN PRINT 7".to_string()),
        (format!("10 {}=1:IFBTHENPRINTB", "Q".repeat(90).chars().map(|c| format!("{}{}", c, " ".repeat(600))).collect::<String>()), format!("10 {}=1:IFBTHENPRINTB", "Q".repeat(90))),
        (format!("10 X{}Y=2 : FORI=XTOY", "\t".repeat(48_000)), "10 XY=2 : FORI=XTOY".to_string()),
    ] {
        cases.push(Case { ops: vec![format!("tok {} 2", hexs(&padded)), format!("tok {} 2", hexs(&plain))], checks: vec!["same-tokens 0 1".into()], tag: "impl-only:very-many-blanks".into(), nontrivial: true, show: format!("{} bytes ~ {:?}", padded.len(), plain) });
    }
    // DATA blanks
    let nd = if tier == "thorough" { 20_000 } else { 1_500 };
    for _ in 0..nd {
        let (base, var, show) = data_variants(rng);
        cases.push(Case {
            ops: vec![data_op(&base), data_op(&var), tok_op(&format!("DATA{}", base)), tok_op(&format!("DATA {}", var))],
            checks: vec!["same-data 0 1".into(), "same-tokens 2 3".into()],
            tag: "data-blanks".into(),
            nontrivial: base != var,
            show: format!("{:?} ~ {:?} ({})", base, var, show),
        });
    }
    (cases, false)
}
