//! Session slices: C01, C07, C08, C09, C10, C11, C16, C17.
use crate::core::Case;
use crate::gen;
use crate::prog::{program, reply_pool, GenOpts, Program, Walk};
use crate::rng::Rng;

fn case_from(w: Walk, checks: Vec<String>, tag: String, nontrivial: bool, show: String) -> Case {
    Case { ops: w.ops, checks, tag, nontrivial, show }
}

fn feature_tag(p: &Program) -> String {
    p.features.join("+")
}

const BOUNDARY_LINES: &[&str] = &[
    "18446744073709551615 PRINT 1",
    "18446744073709551615",
    "18446744073709551616 PRINT 1",
    "DIM A(4294967295,4294967295)",
    "DIM B(9223372036854775807)",
    "DIM C(1e300)",
    "PRINT D(1,1,1,1,1,1,1,1,1,1,1,1,1,1,1,1,1,1,1,1)",
    "E(4294967296) = 1",
    "PRINT F(-1)",
    "PRINT G(9223372036854775808)",
    "DIM H(99,100)",
    "DIM H1(1,9223372036854775807)",
    "DIM H2(9999,1844674407370956)",
    "DIM H3(2,3,9223372036854775807)",
    "DIM H4(9223372036854775807,1)",
    "DIM H5(4294967295,4294967295,4294967295)",
    "DIM H6(99,99,9223372036854775807)",
    "PRINT D4(1,1,1,1)",
    "D5(0,0,0,0,0) = 1",
    "READ D6(0,0,0,1)",
    "INPUT D7(1,1,1,1)",
    "D8$(1,1,1,1) = \"x\"",
    "P9(1) = \"x\" : DIM P9(20)",
    "N9$(2) = 5 : N9$(1,2) = \"HI\"",
    "C9(1,1,1,1,1) = \"X\"",
    "DIM I(9999)",
    "DIM J(10000)",
    "GOTO 18446744073709551615",
    "GOTO 1e30",
    "GOSUB 99999999999999999999",
    "PRINT 1e308*10, -1e308*10, 0/1, 2^1024, (-8)^(1/3)",
    "FOR I = 1 TO 1e308 STEP 1e308",
    // not-a-number and infinities made at run time (numerals are always finite) in every position of a FOR
    "FOR I = 1 TO (0-1)^.5 : PRINT I : NEXT I : PRINT \"DONE\"",
    "FOR J = 9^999 TO 1 STEP 0-9^999 : NEXT J : PRINT J",
    "N = (0-1)^.5 : FOR I = N TO 3 : NEXT I : PRINT I",
    "FOR I = 1 TO 3 STEP (0-1)^.5 : NEXT I : PRINT I",
    "FOR I = 9^999 TO 9^999 : NEXT I : PRINT I",
    "FOR I = 1 TO 9^999 STEP 9^999 : NEXT I : PRINT I",
    "FOR I = 0-9^999 TO 9^999 STEP 9^999 : NEXT I : PRINT I",
    "DIM A((0-1)^.5)", "A(9^999) = 1", "PRINT A((0-1)^.5)", "GOTO (0-1)^.5", "X = INT((0-1)^.5) : PRINT X; ABS(0-9^999); RND(9^999); RND((0-1)^.5)",
    "X = 1 : NEXT X",
    "INPUT X",
    "INPUT",
    "READ X",
    "DATA 1,2",
    "DEF FNA(X) = X",
    "CONT",
    "RETURN",
    "NEXT",
    "STOP",
    "END",
    "LIST",
    "NEW",
    "RUN",
    "TRACE",
    "NOTRACE",
    "STATS",
    "INTERNALS",
    "LIſT",
    "ﬆats",
    "",
    "   ",
    ":",
    "ELSE PRINT 1",
    "IF 1 THEN",
    "IF 1 THEN ELSE",
    "PRINT \"unterminated",
    "PRINT 1.2.3",
    "\u{0}",
    "10 \u{0}",
    "é",
    "10 é",
    "PRINT \"é\" + 1",
    "?",
    "LET",
    "LET 5 = 3",
    "A$ = 5",
    "A = \"x\"",
    "PRINT A$(1) + 1",
    "RESTORE : READ A",
    // numerals that are not ASCII digits where a line number is expected
    "20² PRINT 2",
    "10½ X = 1",
    "²",
    "１０ PRINT 1",
    "   ١ GOTO 10",
    "1２3 REM",
    "٣٣",
    "5\u{00b9}0 END",
    // every way a DEF can be malformed
    "DEF",
    "DEF 5",
    "DEF FNA",
    "DEF FNA(",
    "DEF FNA(5) = 1",
    "DEF FNA(X",
    "DEF FNA(X Y) = 1",
    "DEF FNA(X,) = 1",
    "DEF FNA() = 1",
    "DEF FNA(X) 1",
    "DEF FNA(X) =",
    "DEF FNA(X, X) = X",
    // INPUT / READ into a target that fails for another reason than the item's type
    "INPUT P8(20)",
    "10 DATA 1 : READ P8(20)",
    "10 DATA 1 : READ X : READ Y",
    "NEXT I, J",
    "FOR = 1 TO 2",
    "FOR I = \"a\" TO 2",
    "FOR I = 1 TO \"b\"",
    "FOR I = 1 TO 2 STEP \"c\"",
    "GOSUB",
    "GOTO",
    "GOTO X",
    "IF",
    "IF THEN 10",
    "PRINT ,;,",
    "DIM",
    "DIM A(",
    "DIM A(1",
    "DIM A()",
    "READ",
    "READ ,",
    "DATA",
    "LET A",
    "A(1",
    "A(1) 5",
];

/// set by the `walk` slice: no nesting deeper than ~60 (the executable model is quadratic in it)
static LIGHT: std::sync::atomic::AtomicBool = std::sync::atomic::AtomicBool::new(false);

fn deep(rng: &mut Rng) -> String {
    let light = LIGHT.load(std::sync::atomic::Ordering::Relaxed);
    let n = if light { rng.pick(&[30usize, 47, 48, 49, 50, 60]) } else { rng.pick(&[30usize, 47, 48, 49, 50, 60, 100, 200, 200, 1000]) };
    if rng.chance(1, 5) {
        // stacked unary operators: recursion that does not pass through a parenthesis
        let m = rng.pick(&[2usize, 3, 50, 2000]);
        let op = rng.pick(&["-", "+", "NOT ", "- ", "-+"]);
        return format!("PRINT {}1", op.repeat(m));
    }
    match rng.below(5) {
        0 => format!("PRINT {}1{}", "(".repeat(n), ")".repeat(n)),
        1 => format!("PRINT {}1{}", "ABS(".repeat(n), ")".repeat(n)),
        2 => format!("PRINT {}1{}", "A(".repeat(n), ")".repeat(n)),
        3 => format!("{}PRINT 1", "IF 1 THEN ".repeat(n)),
        _ => format!("10 {}PRINT {}1{}", "IF 1 THEN ".repeat(n / 2), "(".repeat(n / 2), ")".repeat(n / 2)),
    }
}

fn boundary_dim(rng: &mut Rng) -> String {
    let pool = ["0", "1", "9", "99", "100", "9999", "10000", "4294967295", "4294967296", "9223372036854775807", "1844674407370956", "1e300", "-1", "2.9"];
    let n = rng.range(1, 4);
    let subs: Vec<String> = (0..n).map(|_| rng.pick(&pool).to_string()).collect();
    match rng.below(4) {
        0 => format!("PRINT Z{}({})", n, subs.join(",")),
        1 => format!("Z{}({}) = 1", n, subs.join(",")),
        _ => format!("DIM Z{}{}({})", n, rng.pick(&["", "$"]), subs.join(",")),
    }
}

/// statements of every kind a program line or a direct-mode line can hold, with the variable / line / function names the
/// program generator uses, so that they interact with whatever the session has already built up
fn any_statement(rng: &mut Rng) -> String {
    match rng.below(24) {
        0 => format!("FOR {} = {} TO {}{}", rng.pick(&["I", "J", "K", "A1", "N$"]), rng.pick(&["1", "0", "3", "X", "-1"]), rng.pick(&["3", "0", "X", "1e9", "I + 2"]), rng.pick(&["", "", " STEP 2", " STEP -1", " STEP 0", " STEP .5"])),
        1 => format!("NEXT {}", rng.pick(&["I", "J", "K", "A1", "Z"])),
        2 => format!("GOSUB {}", rng.pick(&["900", "10", "20", "100", "12345"])),
        3 => "RETURN".to_string(),
        4 => format!("GOTO {}", rng.pick(&["10", "20", "30", "900", "20.5", "77"])),
        5 => format!("IF {} THEN {}{}", gen::num_expr(rng, 1), rng.pick(&["20", "PRINT 1", "X = X + 1", "GOSUB 900", "STOP", "INPUT Q", "NEXT I", "DEF FNA(X) = X", "END", "RETURN"]), rng.pick(&["", "", " ELSE PRINT 2", " ELSE 30", " ELSE X = 0"])),
        6 => format!("DATA {}", rng.pick(&["1, 2, 3", "a, \"b c\", 4", "0", "-0", "", "x y ,z", "1e400", "é"])),
        7 => format!("READ {}", rng.pick(&["A", "A$", "A, B$", "P(1)", "N$(2)", "X, Y, Z"])),
        8 => "RESTORE".to_string(),
        9 => format!("DIM {}", rng.pick(&["P(5)", "P(20)", "Q(2,2)", "N$(3)", "R(99,99)", "M(1,2,3)"])),
        10 => format!("DEF FN{}({}) = {}", rng.pick(&["A", "B", "R", "Z"]), rng.pick(&["X", "Y", "X, Y", "Q$"]), rng.pick(&["X + 1", "X * Y", "FNA(X) + 1", "X / 0", "\"s\"", "P(X)", "RND(1)"])),
        11 => format!("PRINT FN{}({})", rng.pick(&["A", "B", "R", "Z"]), rng.pick(&["1", "2, 3", "\"s\"", "FNA(1)", ""])),
        12 => format!("INPUT {}", rng.pick(&["A", "A$", "P(2)", "N$(1)", "P(20)"])),
        13 => rng.pick(&["STOP", "END", "CONT", "RUN", "LIST", "NEW", "TRACE", "NOTRACE"]).to_string(),
        14 => format!("PRINT {}", rng.pick(&["A; B$", "P(1); P(2)", "N$(1)", "X,", "X;,", ";", "RND(1)", "RND(0)", "RND(0*RND(1))", "1/0", "A$ + 1", "\"a\";:", "ABS(-1) INT(2.5)"])),
        15 => format!("{}({}) = {}", rng.pick(&["P", "Q", "N$", "M"]), rng.pick(&["1", "2,2", "0", "11", "1,2,3"]), rng.pick(&["5", "\"v\"", "P(1) + 1", "X"])),
        16 => rng.pick(PURE_INSPECTIONS).to_string(),
        17..=19 => gen::simple_statement(rng),
        _ => format!("{} = {}", gen::num_var(rng), gen::num_expr(rng, 2)),
    }
}

fn random_text(rng: &mut Rng) -> String {
    if LIGHT.load(std::sync::atomic::Ordering::Relaxed) && rng.chance(1, 2) {
        // the `walk` slice: mostly well-formed statements of every kind, alone, numbered, or several on a line
        let k = rng.pick(&[1usize, 1, 1, 2, 3]);
        let body = (0..k).map(|_| any_statement(rng)).collect::<Vec<_>>().join(rng.pick(&[" : ", ":", " :"]));
        return match rng.below(5) {
            0..=1 => format!("{} {}", rng.pick(&["10", "20", "30", "40", "900", "910", "5", "64000"]), body),
            2 => rng.pick(&["10", "20", "30", "900", "20 ", "0020"]).to_string(),
            _ => body,
        };
    }
    if rng.chance(1, 12) {
        return boundary_dim(rng);
    }
    match rng.below(10) {
        0..=2 => gen::token_soup(rng),
        3..=5 => gen::simple_statement(rng),
        6 => format!("{} {}", rng.pick(&["10", "20", "5", "0"]), gen::simple_statement(rng)),
        7 => rng.pick(BOUNDARY_LINES).to_string(),
        8 => format!("{} {}", rng.pick(&["10", "20", "30"]), gen::token_soup(rng)),
        _ => rng.pick(&["RUN", "CONT", "LIST", "NEW", "TRACE", "NOTRACE"]).to_string(),
    }
}

/// One state-aware random walk over the host protocol.
fn random_walk(rng: &mut Rng, steps: usize, snap: bool, opts: &GenOpts) -> (Walk, Vec<&'static str>) {
    let mut w = Walk::new(rng.chance(1, 3), rng.chance(1, 3));
    let mut kinds: Vec<&'static str> = vec![];
    if rng.chance(2, 3) {
        let p = program(rng, opts);
        w.load(&p);
        kinds.push("program");
    }
    let mut last_text = String::new();
    for _ in 0..steps {
        if w.poisoned() {
            break;
        }
        let st = w.state();
        match st.as_str() {
            "Idle" => {
                match rng.below(16) {
                    0 => {
                        let s = rng.pick(&[0u64, 1, 12345, 1 << 33, 1 << 44, (1 << 44) + 1, u64::MAX, 1 << 63]);
                        w.op(&format!("seed {}", s));
                        kinds.push("seed");
                        continue;
                    }
                    1..=2 => {
                        last_text = "RUN".to_string();
                        kinds.push("run");
                    }
                    3 => {
                        last_text = "CONT".to_string();
                        kinds.push("cont-cmd");
                    }
                    4 => {
                        last_text = deep(rng);
                        kinds.push("deep");
                    }
                    5..=6 => {
                        last_text = rng.pick(BOUNDARY_LINES).to_string();
                        kinds.push("boundary");
                    }
                    7 => {
                        // INTERNALS / STATS: output text is not modelled, take before and after
                        w.op("take");
                        last_text = rng.pick(&["STATS", "INTERNALS", "stats"]).to_string();
                        kinds.push("opaque");
                    }
                    _ => {
                        last_text = random_text(rng);
                        kinds.push("text");
                    }
                }
                let r = w.start(&last_text);
                if r.starts_with("err ") {
                    kinds.push("error");
                    // hosts render an error against the line they submitted, or against no line
                    let arg = match rng.below(3) {
                        0 => "-".to_string(),
                        _ => {
                            if last_text.is_empty() {
                                "e".to_string()
                            } else {
                                gen::hexs(&last_text)
                            }
                        }
                    };
                    w.op(&format!("caret {}", arg));
                }
                w.op("take");
                if snap {
                    w.op("snap");
                }
            }
            "Running" => {
                if rng.chance(1, 12) {
                    w.op("break");
                    kinds.push("break");
                } else {
                    let r = w.op("cont");
                    if r.starts_with("err ") {
                        kinds.push("error");
                        w.op("caret -");
                    }
                }
                w.op("take");
                if snap {
                    w.op("snap");
                }
            }
            "AwaitingInput" => {
                if rng.chance(1, 8) {
                    w.op("break");
                    kinds.push("break");
                } else {
                    let pool = reply_pool(rng);
                    let r = rng.pick(&pool);
                    w.reply(&r);
                    kinds.push("reply");
                }
            }
            "NewInterpreterRequested" => {
                w.op("replace");
                kinds.push("new");
            }
            _ => break,
        }
    }
    w.state();
    w.op("snap");
    kinds.sort();
    kinds.dedup();
    (w, kinds)
}

pub fn c01_cases(rng: &mut Rng, tier: &str) -> (Vec<Case>, bool) {
    let n = if tier == "thorough" { 6000 } else { 500 };
    let mut cases = vec![];
    let opts = GenOpts { allow_else_resume: true, ..Default::default() };
    for _ in 0..n {
        let steps = rng.range(5, 60);
        let (w, kinds) = random_walk(rng, steps, true, &opts);
        let show = w.ops.iter().filter_map(|o| o.strip_prefix("start ").and_then(crate::imp::unhex)).map(|s| if s.len() > 40 { format!("{}…", s.chars().take(40).collect::<String>()) } else { s }).collect::<Vec<_>>().join(" | ");
        cases.push(case_from(w, vec!["err-then-idle".into(), "snap-caps".into()], kinds.join("+"), kinds.len() >= 3, show));
    }
    // stale-reference scenarios: make a stored location point at a line, delete / replace that line, use the reference, render the error
    let stale: &[&[&str]] = &[
        &["10 DATA 1", "20 DATA ONE, TWO", "READ A", "20", "READ B"],
        &["10 DATA 1", "20 DATA ONE, TWO", "30 READ A : STOP", "40 READ B", "RUN", "20", "CONT", "GOTO 40"],
        &["10 DATA X", "READ A$", "10", "READ B"],
        &["10 DATA 1, Y", "20 READ A", "RUN", "10 REM gone", "READ B", "READ C"],
        &["10 GOSUB 100", "20 END", "100 STOP", "110 RETURN", "RUN", "10", "RETURN", "CONT"],
        &["10 FOR I = 1 TO 3", "20 STOP", "30 NEXT I", "RUN", "10", "NEXT I", "CONT"],
        &["10 DEF FNA(X) = X / 0", "20 STOP", "RUN", "10", "PRINT FNA(1)", "CONT"],
        &["10 DEF FNA(X) = X / 0", "20 PRINT FNA(1)", "RUN", "10", "PRINT FNA(1)"],
        &["10 INPUT A", "RUN", "10"],
        &["10 PRINT 1 : STOP : PRINT 2", "RUN", "10 PRINT 3", "CONT", "10", "CONT", "RUN"],
        &["10 X = 1/0", "RUN", "10", "LIST"],
        &["10 X = 1/0", "RUN", "10", "PRINT \"unterminated"],
        &["10 X = 1/0", "20 REM", "RUN", "20 REM edited", "10", "X = 1.2.3", "PRINT 1 %"],
        &["10 GOSUB 100", "100 X = 1/0", "RUN", "100", "é", "RETURN"],
    ];
    for (k, seq) in stale.iter().enumerate() {
        for variant in 0..3 {
            let mut w = Walk::new(variant == 1, variant == 2);
            for text in seq.iter() {
                let st = w.state();
                if st == "AwaitingInput" {
                    w.op("break");
                } else if st == "Running" {
                    let mut nr = 0;
                    w.drive(&["1".to_string()], &mut nr, 30, true);
                }
                let r = w.start(text);
                if r.starts_with("err") {
                    w.op(&format!("caret {}", gen::hexs(text)));
                    w.op("caret -");
                }
                w.op("take");
                w.op("snap");
                let mut nr = 0;
                if w.state() == "Running" {
                    w.drive(&["1".to_string()], &mut nr, 30, true);
                    if let Some(i) = (0..w.ops.len()).rev().find(|&i| w.ops[i] == "cont") {
                        if w.replies[i].starts_with("err") {
                            w.op("caret -");
                        }
                    }
                }
            }
            w.start("PRINT 7");
            w.op("take");
            cases.push(case_from(w, vec!["err-then-idle".into(), "snap-caps".into()], "stale-reference".into(), true, format!("#{}: {}", k, seq.join(" | "))));
        }
    }
    // recursion that bypasses the nesting cap would exhaust the native stack: very long operator chains, implementation only
    for op in ["-", "+", "NOT ", "- + "] {
        for stmt in ["PRINT {}1", "X = {}1", "IF {}1 THEN PRINT 2", "10 PRINT {}1"] {
            let mut w = Walk::new(false, false);
            let text = stmt.replace("{}", &op.repeat(200_000));
            w.start(&text);
            if text.starts_with("10") {
                w.start("RUN");
            }
            let mut nr = 0;
            w.drive(&[], &mut nr, 5, false);
            w.start("PRINT 7");
            w.op("take");
            cases.push(case_from(w, vec!["err-then-idle".into()], "impl-only:operator-chain".into(), true, format!("{} with 200000 x {:?}", stmt, op)));
        }
    }
    // ... and flat chains of every BINARY operator (a tier written as recursion instead of a loop costs a native frame per operator)
    for op in [" OR ", " AND ", " = ", " < ", " + ", " - ", " * ", " / ", " ^ ", " <> ", " >= "] {
        for stmt in ["PRINT {}", "10 X = {}"] {
            let mut w = Walk::new(false, false);
            let chain = vec!["1"; 100_000].join(op);
            let text = stmt.replace("{}", &chain);
            w.start(&text);
            if text.starts_with("10") {
                w.start("RUN");
            }
            let mut nr = 0;
            w.drive(&[], &mut nr, 5, false);
            w.start("PRINT 7");
            w.op("take");
            cases.push(case_from(w, vec!["err-then-idle".into()], "impl-only:binary-operator-chain".into(), true, format!("{} with 100000 operands joined by {:?}", stmt, op)));
        }
    }
    // ... and runs of empty statements
    for text in [format!("PRINT 1{}", ":".repeat(400_000)), format!("10 PRINT 1{}PRINT 2", ":".repeat(400_000)), format!("IF 1 THEN {}PRINT 3", ": ".repeat(100_000))] {
        let mut w = Walk::new(false, false);
        w.start(&text);
        if text.starts_with("10") {
            w.start("RUN");
        }
        let mut nr = 0;
        w.drive(&[], &mut nr, 5, false);
        w.op("break");
        w.start("PRINT 7");
        w.op("take");
        cases.push(case_from(w, vec!["err-then-idle".into()], "impl-only:colon-run".into(), true, format!("{}…", text.chars().take(20).collect::<String>())));
    }
    // nesting that passes through a user-function call (argument and body), around the cap
    for k in [40usize, 45, 46, 47, 48, 49] {
        for m in [0usize, 1, 2, 10, 600] {
            for body in ["X", "(((X)))"] {
                let mut w = Walk::new(false, false);
                w.start(&format!("10 DEF FNA(X) = {}", body));
                w.start("RUN");
                let mut nr = 0;
                w.drive(&[], &mut nr, 5, false);
                let text = format!("PRINT {}FNA({}1{}){}", "(".repeat(k), "(".repeat(m), ")".repeat(m), ")".repeat(k));
                w.start(&text);
                w.op("take");
                w.op("snap");
                w.start("PRINT 7");
                w.op("take");
                cases.push(case_from(w, vec!["err-then-idle".into(), "snap-caps".into()], "nesting-through-call".into(), true, format!("{} parens, FNA, {} parens, body {}", k, m, body)));
            }
        }
    }
    // every boundary line on its own, from a fresh interpreter and after a program
    for b in BOUNDARY_LINES {
        let mut w = Walk::new(true, true);
        w.start("10 GOSUB 20");
        w.start("20 PRINT 1");
        let r = w.start(b);
        if r.starts_with("err") {
            w.op(&format!("caret {}", if b.is_empty() { "e".to_string() } else { gen::hexs(b) }));
        }
        let mut nr = 0;
        w.drive(&["1".to_string()], &mut nr, 50, true);
        w.start("PRINT 7");
        w.op("take");
        cases.push(case_from(w, vec!["err-then-idle".into(), "snap-caps".into()], "boundary-line".into(), true, b.to_string()));
    }
    // a location saved while one immediate line was current (a FOR body, a GOSUB return address) and used when a later,
    // SHORTER immediate line is current: the cursor then lies beyond the end of the line
    let stale: &[&[&str]] = &[
        &["FOR I = 1 TO 3 : PRINT I", "NEXT I", "NEXT I", "NEXT I", "PRINT I"],
        &["100 STOP", "GOSUB 100", "RETURN", "PRINT 7"],
        &["100 STOP", "X = 1 : Y = 2 : GOSUB 100 : PRINT \"tail\"", "RETURN", "CONT"],
        &["FOR I = 1 TO 2 : FOR J = 1 TO 2 : PRINT I; J", "NEXT J", "NEXT I", "NEXT J", "NEXT I"],
        &["10 NEXT K", "FOR K = 1 TO 3 : PRINT \"body\"; K", "GOTO 10", "GOTO 10", "GOTO 10"],
        &["DEF FNA(X) = X", "100 STOP", "PRINT 1 : PRINT 2 : GOSUB 100", "?", "RETURN"],
    ];
    for seq in stale {
        let mut w = Walk::new(false, false);
        for t in seq.iter() {
            w.start(t);
            let mut nr = 0;
            w.drive(&[], &mut nr, 12, true);
            w.op("snap");
        }
        w.start("PRINT 7");
        w.op("take");
        cases.push(case_from(w, vec!["err-then-idle".into(), "snap-caps".into()], "stale-immediate-location".into(), true, seq.join(" | ")));
    }
    // replies and DATA items may spell what no numeral can: nan, inf, -inf, 1e999 - then used as a loop bound, a step, a
    // subscript, a jump target
    for reply in ["nan", "inf", "-inf", "1e999", "NaN", "-nan", "infinity"] {
        for prog in [&["10 INPUT N", "20 FOR I = 1 TO N", "30 PRINT I", "40 NEXT I", "50 PRINT \"DONE\""][..], &["10 INPUT N : FOR I = N TO 2 STEP N : NEXT I : PRINT I"][..], &["10 INPUT N : DIM A(N)"][..],
            &["10 INPUT N : PRINT A(N)"][..], &["10 INPUT N : GOTO N"][..], &["10 READ N : FOR I = 1 TO 3 STEP N : NEXT I : PRINT I", "20 DATA {R}"][..], &["10 INPUT N : PRINT INT(N); ABS(N); RND(N); N = N; N < N; NOT N"][..]] {
            let mut w = Walk::new(false, false);
            for l in prog.iter() {
                w.start(&l.replace("{R}", reply));
            }
            w.start("RUN");
            let mut nr = 0;
            w.drive(&[reply.to_string(), "1".to_string()], &mut nr, 40, true);
            w.start("PRINT 7");
            w.op("take");
            cases.push(case_from(w, vec!["err-then-idle".into(), "snap-caps".into()], "non-finite-reply".into(), true, format!("{} answered {}", prog.join(" | "), reply)));
        }
    }
    (cases, false)
}

/// the general walk, shared by the checks of every property about the core interpreter: it adds nothing to a property's
/// own oracles except `snap-caps` / `err-then-idle`, but every host call and every snapshot is compared with the model, so a
/// change anywhere in the core that the property's own generator does not reach still breaks the correspondence
pub fn walk_cases(rng: &mut Rng, tier: &str) -> (Vec<Case>, bool) {
    let n = if tier == "thorough" { 3000 } else { 220 };
    LIGHT.store(true, std::sync::atomic::Ordering::Relaxed);
    let mut cases = vec![];
    let opts = GenOpts { allow_else_resume: true, ..Default::default() };
    for _ in 0..n {
        let steps = rng.range(8, 70);
        let (w, kinds) = random_walk(rng, steps, true, &opts);
        let show = w.ops.iter().filter_map(|o| o.strip_prefix("start ").and_then(crate::imp::unhex)).map(|s| if s.len() > 30 { format!("{}…", s.chars().take(30).collect::<String>()) } else { s }).collect::<Vec<_>>().join(" | ");
        cases.push(case_from(w, vec!["err-then-idle".into(), "snap-caps".into()], kinds.join("+"), kinds.len() >= 3, show));
    }
    LIGHT.store(false, std::sync::atomic::Ordering::Relaxed);
    (cases, false)
}

pub fn c16_cases(rng: &mut Rng, tier: &str) -> (Vec<Case>, bool) {
    let n = if tier == "thorough" { 4000 } else { 350 };
    let mut cases = vec![];
    // targeted programs: caps and re-entry
    let targeted: &[&str] = &[
        "10 GOSUB 10",
        "10 DEF FNA(X) = FNA(X) + 1\n20 PRINT FNA(1)",
        "10 FOR I = 1 TO 2\n20 GOTO 10",
        "10 FOR I = 1 TO 3\n20 FOR J = 1 TO 3\n30 GOTO 10",
        "10 FOR A = 1 TO 2:FOR B = 1 TO 2:FOR C = 1 TO 2:FOR D = 1 TO 2:FOR E = 1 TO 2:FOR F = 1 TO 2\n20 FOR G = 1 TO 2:FOR H = 1 TO 2:FOR I = 1 TO 2:FOR J = 1 TO 2:FOR K = 1 TO 2:FOR L = 1 TO 2\n30 FOR M = 1 TO 2:FOR N = 1 TO 2:FOR O1 = 1 TO 2:FOR P = 1 TO 2:FOR Q = 1 TO 2:FOR R = 1 TO 2\n40 FOR S = 1 TO 2:FOR T1 = 1 TO 2:FOR U = 1 TO 2:FOR V = 1 TO 2:FOR W = 1 TO 2:FOR X = 1 TO 2\n50 FOR Y = 1 TO 2:FOR Z = 1 TO 2:FOR A1 = 1 TO 2:FOR B1 = 1 TO 2:FOR C1 = 1 TO 2:FOR D1 = 1 TO 2\n60 FOR E1 = 1 TO 2:FOR F1 = 1 TO 2:FOR G1 = 1 TO 2:FOR H1 = 1 TO 2\n70 PRINT 1",
        "10 DIM A(99,99)\n20 DIM B(99,100)\n30 DIM C(9999)\n40 DIM D(10000)\n50 DIM E$(21,21,20)",
        "10 A$ = 1\n20 B = \"x\"\n30 C$(1) = 2\n40 D(1) = \"y\"",
        "10 DEF FNA(X$) = 1\n20 PRINT FNA(1)\n30 DEF FNB(Y) = 2\n40 PRINT FNB(\"s\")",
        "10 FOR I = 1 TO 3\n20 FOR J = 1 TO 2\n30 NEXT I\n40 NEXT J",
        "10 FOR I$ = 1 TO 2\n20 NEXT I$",
        "10 READ A$, B\n20 DATA 1, x",
        "10 INPUT A$\n20 INPUT B\n30 INPUT C(3)\n40 INPUT D$(2)",
        "10 FOR I = 1 TO 40\n20 GOSUB 100\n30 NEXT I\n40 END\n100 IF I < 39 THEN RETURN\n110 GOSUB 100",
        // exactly 32 frames, then one more by each route
        "5 DEF FNA(X) = X + 1\n10 D = D + 1\n20 IF D < 33 THEN GOSUB 10\n30 PRINT \"depth\"; D; FNA(1)",
        "5 DEF FNA(X) = X + 1\n10 D = D + 1\n20 IF D < 32 THEN GOSUB 10\n30 PRINT \"depth\"; D; FNA(1)",
        "10 D = D + 1\n20 IF D < 33 THEN GOSUB 10\n30 GOSUB 100\n40 END\n100 PRINT \"in\"\n110 RETURN",
        "1 DEF FNA(X)=FNB(X)+1\n2 DEF FNB(X)=FNC(X)+1\n3 DEF FNC(X)=FND(X)+1\n4 DEF FND(X)=FNE(X)+1\n5 DEF FNE(X)=FNF(X)+1\n6 DEF FNF(X)=FNG(X)+1\n7 DEF FNG(X)=FNH(X)+1\n8 DEF FNH(X)=FNI(X)+1\n9 DEF FNI(X)=FNJ(X)+1\n10 DEF FNJ(X)=FNK(X)+1\n11 DEF FNK(X)=FNL(X)+1\n12 DEF FNL(X)=FNM(X)+1\n13 DEF FNM(X)=FNN(X)+1\n14 DEF FNN(X)=FNO(X)+1\n15 DEF FNO(X)=FNP(X)+1\n16 DEF FNP(X)=FNQ(X)+1\n17 DEF FNQ(X)=FNR(X)+1\n18 DEF FNR(X)=FNS(X)+1\n19 DEF FNS(X)=FNT(X)+1\n20 DEF FNT(X)=FNU(X)+1\n21 DEF FNU(X)=FNV(X)+1\n22 DEF FNV(X)=FNW(X)+1\n23 DEF FNW(X)=FNX(X)+1\n24 DEF FNX(X)=FNY(X)+1\n25 DEF FNY(X)=FNZ(X)+1\n26 DEF FNZ(X)=FNA1(X)+1\n27 DEF FNA1(X)=FNB1(X)+1\n28 DEF FNB1(X)=FNC1(X)+1\n29 DEF FNC1(X)=FND1(X)+1\n30 DEF FND1(X)=FNE1(X)+1\n31 DEF FNE1(X)=FNF1(X)+1\n32 DEF FNF1(X)=FNG1(X)+1\n33 DEF FNG1(X)=X\n40 PRINT FNA(0)\n50 PRINT FNB(0)",
        "10 PRINT A(1,1,1,1)\n20 PRINT 2",
        "10 B(0,0,0,0,0) = 1",
        "10 READ T(0,0,0,1)\n20 DATA 5",
        "10 INPUT U(1,1,1,1)",
        "10 A(1) = \"X\"\n20 DIM A(20)\n30 B$(3) = 5\n40 B$(1,2) = \"HI\"",
    ];
    for t in targeted {
        for (w_, t_) in [(false, false), (true, true)] {
            let mut w = Walk::new(w_, t_);
            for l in t.split('\n') {
                w.start(l);
            }
            w.start("RUN");
            let mut nr = 0;
            w.drive(&["5".to_string(), "x".to_string()], &mut nr, 400, true);
            w.start("PRINT 1");
            w.op("take");
            w.op("snap");
            let mut checks: Vec<String> = vec!["snap-caps".into(), "err-then-idle".into()];
            // where the outcome is known: the cap is (not) exceeded
            if t.starts_with("10 GOSUB 10") || t.contains("IF D < 33 THEN GOSUB 10") || t.starts_with("10 DEF FNA(X) = FNA(X) + 1") {
                checks.push("some-call-fails OutOfMemory.StackOverflow".into());
            }
            if t.contains("IF D < 32 THEN GOSUB 10") {
                checks.push("no-call-fails OutOfMemory".into());
            }
            if t.starts_with("1 DEF FNA(X)=FNB(X)+1") {
                // 33 nested calls from line 40 exceed the cap, 32 from line 50 do not... both lines run; at least one failure
                checks.push("some-call-fails OutOfMemory.StackOverflow".into());
            }
            if t.starts_with("10 PRINT A(1,1,1,1)") || t.starts_with("10 B(0,0,0,0,0)") || t.starts_with("10 READ T(0,0,0,1)") || t.starts_with("10 INPUT U(1,1,1,1)") {
                checks.push("some-call-fails OutOfMemory.ArrayTooLarge".into());
            }
            cases.push(case_from(w, checks, "targeted".into(), true, t.replace('\n', " | ")));
        }
    }
    // loops opened at the prompt: every immediate line has the same (immediate) location, an ill-typed FOR leaves its loop
    // record behind; neither may ever give two open loops for one variable or let re-entered loops pile up
    let prompt_loops: &[&[&str]] = &[
        &["FOR J = 1 TO 1", "FOR I = 1 TO 1 STEP 1", "FOR J = 1 TO 1 STEP 1", "NEXT J", "NEXT J"],
        &["FOR J = 1 TO 3", "FOR I = 1 TO 3", "FOR J = 1 TO 3", "FOR I = 1 TO 3", "NEXT I", "NEXT J", "NEXT J"],
        &["FOR A$ = 1 TO 2", "FOR A$ = 1 TO 2", "FOR A$ = 1 TO 2", "FOR B = 1 TO 2", "NEXT B", "NEXT A$"],
        &["10 FOR A$ = 1 TO 2", "GOTO 10", "GOTO 10", "GOTO 10", "GOTO 10", "FOR C = 1 TO 2", "NEXT C"],
        &["FOR K = 1 TO 2", "X = 1", "FOR K = 1 TO 2", "X = 2", "FOR K = 5 TO 6", "NEXT K", "NEXT K", "NEXT K"],
    ];
    for seq in prompt_loops {
        for reps in [1usize, 12] {
            let mut w = Walk::new(false, false);
            for _ in 0..reps {
                for t in seq.iter() {
                    w.start(t);
                    let mut nr = 0;
                    w.drive(&[], &mut nr, 10, true);
                    w.op("snap");
                }
            }
            cases.push(case_from(w, vec!["snap-caps".into(), "err-then-idle".into()], "loops-at-the-prompt".into(), true, format!("{} x{}", seq.join(" | "), reps)));
        }
    }
    // the same at a BREAKPOINT prompt (the stopped program's loops are kept there): a FOR typed for a variable whose loop the
    // program - or an earlier prompt line - has open replaces that loop, however often it is typed
    let stopped: &[&[&str]] = &[
        &["10 FOR I = 1 TO 3", "20 STOP", "30 NEXT I"],
        &["10 FOR I = 1 TO 3 : FOR K = 1 TO 2", "20 STOP", "30 NEXT K : NEXT I"],
        &["10 GOSUB 100", "20 END", "100 FOR K = 1 TO 9", "110 STOP", "120 NEXT K : RETURN"],
    ];
    for prog in stopped {
        for typed in [&["FOR I = 1 TO 5"][..], &["FOR K = 1 TO 5"][..], &["FOR I = 1 TO 5", "FOR K = 2 TO 3", "PRINT I"][..], &["FOR K = 1 TO 2", "X = 1"][..]] {
            for reps in [1usize, 2, 34] {
                let mut w = Walk::new(false, false);
                for l in prog.iter() {
                    w.start(l);
                }
                w.start("RUN");
                let mut nr = 0;
                w.drive(&[], &mut nr, 30, false);
                w.op("snap");
                for _ in 0..reps {
                    for t in typed.iter() {
                        w.start(t);
                        let mut nr = 0;
                        w.drive(&[], &mut nr, 10, false);
                        w.op("snap");
                    }
                }
                w.start("CONT");
                let mut nr = 0;
                w.drive(&[], &mut nr, 30, true);
                cases.push(case_from(w, vec!["snap-caps".into(), "err-then-idle".into(), "no-call-fails OutOfMemory".into()], "loops-at-a-breakpoint".into(), true, format!("{} || {} x{}", prog.join(" | "), typed.join(" | "), reps)));
            }
        }
    }
    // loops left open at the prompt count: a program entered by GOTO / GOSUB / CONT (no RUN, no edit in between) that opens
    // 32 - k .. 32 loops of its own on top of k prompt loops meets the same cap
    for k in [1usize, 2, 5] {
        for own in [32 - k, 32 - k + 1, 32] {
            for enter in ["GOTO 10", "GOSUB 10"] {
                let mut w = Walk::new(false, false);
                let fors: Vec<String> = (0..own).map(|i| format!("FOR {}{} = 1 TO 2", (b'A' + (i / 10) as u8) as char, i % 10)).collect();
                w.start(&format!("10 {}", fors.join(" : ")));
                w.start("20 PRINT \"opened\"");
                for j in 0..k {
                    w.start(&format!("FOR Z{} = 1 TO 2", j));
                }
                w.start(enter);
                let mut nr = 0;
                w.drive(&[], &mut nr, 200, true);
                w.op("snap");
                let mut checks: Vec<String> = vec!["snap-caps".into(), "err-then-idle".into()];
                checks.push(if k + own > 32 { "some-call-fails OutOfMemory.StackOverflow".into() } else { "no-call-fails OutOfMemory".into() });
                cases.push(case_from(w, checks, "prompt-loops-plus-program-loops".into(), true, format!("{} loops at the prompt, {}, program opens {}", k, enter, own)));
            }
        }
    }
    // stopped exactly at / just below the cap, then one more frame from the PROMPT (the suspended program's frames are kept
    // at a breakpoint): GOSUB and FN calls typed in direct mode meet the same cap
    for depth in [30usize, 31, 32] {
        for probe in ["GOSUB 100", "PRINT FNA(1)", "GOSUB 100 : PRINT 2", "X = FNA(FNA(1))"] {
            let mut w = Walk::new(false, false);
            for l in ["5 DEF FNA(X) = X + 1".to_string(), "10 D = D + 1".to_string(), format!("20 IF D < {} THEN GOSUB 10", depth + 1), "30 STOP".to_string(), "40 RETURN".to_string(), "100 RETURN".to_string()] {
                w.start(&l);
            }
            w.start("RUN");
            let mut nr = 0;
            w.drive(&[], &mut nr, 400, false);
            w.op("snap");
            w.start(probe);
            let pi = w.last();
            let mut nr = 0;
            w.drive(&[], &mut nr, 10, true);
            w.op("snap");
            let mut checks: Vec<String> = vec!["snap-caps".into(), "err-then-idle".into()];
            if depth == 32 && !probe.starts_with("X =") {
                checks.push(format!("reply-starts {} err_OutOfMemory.StackOverflow", pi));
            }
            cases.push(case_from(w, checks, "cap-from-the-prompt".into(), true, format!("stopped {} GOSUBs deep, then {}", depth, probe)));
        }
    }
    // every parameter of a function is bound through the checked store: an argument of the wrong kind in ANY position fails
    for (def, call) in [("DEF FNA(X, Y) = X", "PRINT FNA(1, \"boop\")"), ("DEF FNB(X, Y$, Z$) = Z$", "PRINT FNB(1, \"a\", 7)"), ("DEF FNC(A$, B) = 1", "PRINT FNC(\"s\", \"t\")"), ("DEF FND(A, B, C) = A", "X = FND(1, 2, \"z\")"), ("DEF FNE(A$, B$) = A$", "PRINT FNE(\"a\", 2)")] {
        let mut w = Walk::new(false, false);
        w.start(&format!("10 {}", def));
        w.start("RUN");
        w.start(call);
        let pi = w.last();
        w.op("snap");
        w.op("take");
        cases.push(case_from(w, vec![format!("reply-starts {} err_TypeMismatch", pi), "snap-caps".into()], "ill-typed-later-argument".into(), true, format!("{} || {}", def, call)));
    }
    // arrays whose cell count lies just around the cap of 10000, for every way of splitting it over two to four axes
    {
        let mut shapes: Vec<Vec<usize>> = vec![];
        for a in [1usize, 2, 3, 6, 7, 9, 33, 99, 100, 101, 333, 2499, 3333, 4999, 9998, 9999] {
            // b + 1 is the quotient 10000 / (a + 1) rounded down, up, and one more
            let q = 10000 / (a + 1);
            for b1 in [q.saturating_sub(1), q, q + 1, q + 2] {
                if b1 >= 1 {
                    shapes.push(vec![a, b1 - 1]);
                }
            }
        }
        shapes.push(vec![6, 6, 6, 28]);
        shapes.push(vec![6, 6, 6, 29]);
        shapes.push(vec![9, 9, 9, 9]);
        shapes.push(vec![9, 9, 9, 10]);
        shapes.push(vec![20, 20, 21]);
        shapes.push(vec![20, 20, 22]);
        for chunk in shapes.chunks(6) {
            let mut w = Walk::new(false, false);
            let mut checks: Vec<String> = vec!["snap-caps".into(), "err-then-idle".into()];
            for (k, sh) in chunk.iter().enumerate() {
                let name = ["A", "B$", "C", "D$", "E", "F"][k % 6];
                let dims = sh.iter().map(|d| d.to_string()).collect::<Vec<_>>().join(",");
                w.start(&format!("DIM {}({})", name, dims));
                let pi = w.last();
                w.op("snap");
                // which of them must be refused is known
                let cells: usize = sh.iter().map(|d| d + 1).product();
                if cells > 10000 {
                    checks.push(format!("reply-starts {} err_OutOfMemory.ArrayTooLarge", pi));
                } else {
                    checks.push(format!("reply-is {} ok", pi));
                }
            }
            cases.push(case_from(w, checks, "array-cap-neighbourhood".into(), true, format!("{:?}", chunk)));
        }
    }
    let opts = GenOpts::default();
    for _ in 0..n {
        let steps = rng.range(10, 80);
        let (w, kinds) = random_walk(rng, steps, true, &opts);
        let show = format!("{} host calls", w.ops.len());
        cases.push(case_from(w, vec!["snap-caps".into()], kinds.join("+"), kinds.len() >= 3, show));
    }
    (cases, false)
}

/// history (immediate statements, runs, breaks) then RUN  vs  fresh interpreter with the same lines and seed then RUN
pub fn c10_cases(rng: &mut Rng, tier: &str) -> (Vec<Case>, bool) {
    let n = if tier == "thorough" { 3000 } else { 300 };
    let mut cases = vec![];
    let opts = GenOpts { allow_else_resume: false, ..Default::default() };
    // programs whose RUN path does not execute everything an earlier history may have executed (a DEF that RUN
    // jumps over or reaches only for some replies), and the empty program
    let shaped: &[&[&str]] = &[
        &[],
        &["10 GOTO 40", "20 DEF FNA(X) = X * 2", "30 END", "40 PRINT FNA(3)"],
        &["10 INPUT Q", "20 IF Q = 1 THEN DEF FNA(X) = X + 100", "30 PRINT FNA(1)"],
        &["10 GOTO 30", "20 DIM P(50) : P(40) = 4 : X = 9 : A$ = \"kept\" : END", "30 PRINT P(4); X; A$"],
        &["10 GOTO 30", "20 FOR I = 1 TO 3 : GOSUB 900", "30 PRINT I : NEXT I", "900 STOP"],
        &["10 GOTO 40", "20 DATA 1, 2, 3", "30 READ A : END", "40 READ B : PRINT B"],
        &["10 READ A : PRINT A", "20 DATA 1", "30 DATA 2", "40 READ B : PRINT B"],
        &["10 DATA 7", "20 READ A : PRINT A", "30 READ B : PRINT B"],
        &["10 FOR I = 1 TO 3", "20 INPUT A(I)", "30 NEXT I", "40 PRINT A(1); \"/\"; A(2); \"/\"; A(3)"],
        &["10 INPUT P(1) : INPUT N$ : INPUT Q(2, 2)", "20 PRINT P(1); N$; Q(2, 2); P(2); A(3)"],
    ];
    // a run that dies of a cap (the 33rd frame is a function call, a GOSUB, a FOR) leaves nothing behind either: the same
    // program run again behaves like the first time
    for prog in [
        &["10 DEF F(X) = X", "20 DEF G(Y) = X + Y", "30 PRINT G(1)", "40 N = N + 1", "50 IF N = 33 THEN PRINT F(7)", "60 GOSUB 40"][..],
        &["10 DEF F(X) = X + 1", "20 DEF G(Y) = X + Y", "30 PRINT G(1)", "40 N = N + 1", "50 IF N = 32 THEN PRINT F(F(7))", "60 GOSUB 40"][..],
        &["10 DEF G(Y) = Q + Y", "20 PRINT G(1)", "30 DEF R(Q) = R(Q + 1)", "40 PRINT R(5)"][..],
        &["10 DEF G(Y) = A0 + Y + I", "20 PRINT G(1)", "30 FOR I = 1 TO 2 : GOSUB 30"][..],
    ] {
        let mut w = Walk::new(false, false);
        for l in prog.iter() {
            w.start(l);
        }
        let mut ranges = vec![];
        for _ in 0..2 {
            let a = w.ops.len();
            w.start("RUN");
            let mut nr = 0;
            w.drive(&[], &mut nr, 400, false);
            w.state();
            ranges.push((a, w.last()));
        }
        cases.push(case_from(w, vec![format!("transcript-eq {}-{} {}-{}", ranges[0].0, ranges[0].1, ranges[1].0, ranges[1].1), "err-then-idle".into()], "run-after-a-run-that-hit-a-cap".into(), true, prog.join(" | ")));
    }
    // an INPUT with a LIST of targets (not part of this dialect: the reply ends in a syntax error, or - should lists ever be
    // taken - in a request for the rest) answered in part and abandoned: the next RUN asks its own questions and gets its own
    // answers, as in a fresh interpreter
    for stmt in ["INPUT A, B$", "INPUT A$, B, C", "INPUT P(1), Q", "INPUT A"] {
        for first in ["1", "\"s\"", "1,2", "7,x,9,extra", ""] {
            for scratch in [false, true] {
                let lines = ["10 INPUT X : INPUT Y$ : PRINT X; Y$", "20 INPUT Z : PRINT Z"];
                let mut w = Walk::new(false, false);
                for l in lines.iter() {
                    w.start(l);
                }
                if scratch {
                    w.start(&format!("65000 {}", stmt));
                    w.start("GOTO 65000");
                } else {
                    w.start(stmt);
                }
                for step in 0..6 {
                    match w.state().as_str() {
                        "Running" => {
                            w.op("cont");
                        }
                        "AwaitingInput" if step < 4 => {
                            w.reply(first);
                        }
                        "AwaitingInput" => {
                            w.op("break");
                        }
                        _ => break,
                    }
                }
                if w.state() != "Idle" {
                    w.op("break");
                }
                w.op("take");
                let a = w.ops.len();
                w.start("RUN");
                let mut nr = 0;
                w.drive(&["5".to_string(), "z".to_string(), "6".to_string()], &mut nr, 40, false);
                w.state();
                let a2 = w.last();
                w.op("new 0 0");
                for l in lines.iter() {
                    w.start(l);
                }
                if scratch {
                    w.start(&format!("65000 {}", stmt));
                }
                let b = w.ops.len();
                w.start("RUN");
                let mut nr = 0;
                w.drive(&["5".to_string(), "z".to_string(), "6".to_string()], &mut nr, 40, false);
                w.state();
                let b2 = w.last();
                cases.push(case_from(w, vec![format!("transcript-eq {}-{} {}-{}", a, a2, b, b2), "err-then-idle".into()], "half-answered-list-then-run".into(), true, format!("{} <- {:?} ({}) || RUN", stmt, first, if scratch { "from a scratch line" } else { "at the prompt" })));
            }
        }
    }
    // a long history of FAILED lines of every kind (each failure repeated 1..40 times), then RUN: as in a fresh interpreter -
    // no failure leaves anything behind that counts against a later run
    let failing: &[&str] = &["PRINT FNA(1/0)", "PRINT FNA(\"X\")", "PRINT FNA(1,2)", "PRINT FNA(1", "PRINT FNA()", "PRINT FNB(FNA(1/0))", "X = 1/0", "GOSUB 99999", "NEXT", "RETURN", "DIM Z9(-1)",
        "PRINT \"a\" + 1", "FOR = 1", "PRINT ((((1)", "GOTO", "DEF", "PRINT P(50)", "PRINT ABS(", "PRINT RND(\"s\")", "READ Q9$, Q8", "IF 1 THEN PRINT 1/0", "PRINT 1 +", "PRINT FNC(1)"];
    let prog_text = ["10 DEF FNA(X) = X + 1", "20 DEF FNB(Y) = FNA(Y) * 2", "30 DEF FNC(Z) = FNB(Z) + FNA(Z) + 1 / (Z - 1)", "40 DIM P(5) : FOR I = 1 TO 3 : GOSUB 100 : NEXT I", "50 PRINT FNB(FNA(FNB(2))); FNC(3)", "60 READ D : PRINT D",
        "70 DATA 5", "80 END", "100 P(I) = FNB(I) : PRINT P(I); : RETURN"];
    for reps in [1usize, 15, 16, 17, 40] {
        let picks: Vec<&str> = if reps == 40 { failing.to_vec() } else { (0..8).map(|_| rng.pick(failing)).collect() };
        let mut w = Walk::new(false, false);
        for l in prog_text.iter() {
            w.start(l);
        }
        w.start("RUN");
        let mut nr = 0;
        w.drive(&[], &mut nr, 60, false);
        w.op("take");
        for f in &picks {
            for _ in 0..reps {
                w.start(f);
                w.drive(&[], &mut nr, 10, false);
            }
        }
        w.op("take");
        let a = w.ops.len();
        w.start("RUN");
        w.drive(&[], &mut nr, 60, false);
        w.state();
        let a2 = w.last();
        w.op("new 0 0");
        for l in prog_text.iter() {
            w.start(l);
        }
        let b = w.ops.len();
        w.start("RUN");
        w.drive(&[], &mut nr, 60, false);
        w.state();
        let b2 = w.last();
        cases.push(case_from(w, vec![format!("transcript-eq {}-{} {}-{}", a, a2, b, b2), "err-then-idle".into()], "many-failures-then-run".into(), true, format!("{} x each of {}", reps, picks.join(" | "))));
    }
    // what an earlier run stored - however large - does not count against the next run
    for (first, second) in [(40_000usize, 40_000usize), (70_000, 10), (10, 70_000), (33_000, 33_000)] {
        let mut w = Walk::new(false, false);
        w.start("10 INPUT A$ : INPUT B$");
        w.start("20 PRINT \"GOT IT\"; LEN9");
        w.start("RUN");
        let mut nr = 0;
        w.drive(&["a".repeat(first), "c".repeat(first / 2)], &mut nr, 20, false);
        w.state();
        let a = w.ops.len();
        w.start("RUN");
        let mut nr = 0;
        w.drive(&["b".repeat(second), "d".repeat(second / 2)], &mut nr, 20, false);
        w.state();
        let a2 = w.last();
        w.op("new 0 0");
        w.start("10 INPUT A$ : INPUT B$");
        w.start("20 PRINT \"GOT IT\"; LEN9");
        let b = w.ops.len();
        w.start("RUN");
        let mut nr = 0;
        w.drive(&["b".repeat(second), "d".repeat(second / 2)], &mut nr, 20, false);
        w.state();
        let b2 = w.last();
        cases.push(case_from(w, vec![format!("transcript-eq {}-{} {}-{}", a, a2, b, b2), "err-then-idle".into()], "long-replies-in-an-earlier-run".into(), true, format!("replies of {} then {} characters", first, second)));
    }
    for k in 0..n {
        let mut p = if k % 5 == 4 {
            let lines = rng.pick(shaped);
            Program { lines: lines.iter().map(|l| { let (n, t) = l.split_once(' ').unwrap(); (n.parse().unwrap(), t.to_string()) }).collect(), features: vec!["shaped"] }
        } else {
            program(rng, &opts)
        };
        let mut replies = reply_pool(rng);
        if k % 5 == 4 {
            replies.insert(0, rng.pick(&["1", "0"]).to_string());
        }
        let mut w = Walk::new(false, false);
        w.op(&format!("seed {}", rng.next() % 1000));
        w.load(&p);
        let mut kinds: Vec<&str> = vec![];
        if k % 5 == 4 {
            kinds.push("shaped-program");
            if p.lines.len() > 1 {
                // execute the part RUN jumps over
                w.start(&format!("GOTO {}", p.lines[1].0));
                let mut nr = 0;
                w.drive(&replies, &mut nr, 30, false);
            } else {
                for t in ["A = 5", "N$ = \"x\"", "DIM B(3)", "B(2) = 9"] {
                    w.start(t);
                }
            }
            // a READ has happened by now (or not); deleting a DATA line afterwards must be seen by the next RUN
            if let Some(i) = p.lines.iter().position(|l| l.1.starts_with("DATA")) {
                if rng.chance(2, 3) {
                    w.start("RUN");
                    let mut nr = 0;
                    w.drive(&replies, &mut nr, 30, false);
                    let n = p.lines[i].0;
                    w.start(&format!("{}", n));
                    p.lines.remove(i);
                    kinds.push("delete-data-line");
                }
            }
        }
        // history
        let hsteps = rng.range(1, 6);
        for _ in 0..hsteps {
            if w.poisoned() {
                break;
            }
            match rng.below(11) {
                10 => {
                    // an INPUT (one target or - not part of this dialect - a list of targets) typed at the prompt or run from
                    // a scratch line, answered with too little, too much or the wrong kind, and abandoned with a break
                    let stmt = rng.pick(&["INPUT A, B$", "INPUT A", "INPUT A$, B, C", "INPUT P(1), Q", "INPUT A$", "INPUT P(2)", "INPUT A(3)", "INPUT Q(1, 1)", "INPUT P(INT(RND(1) * 3))"]);
                    if rng.chance(1, 2) {
                        w.start(stmt);
                    } else {
                        w.start(&format!("65000 {}", stmt));
                        w.start("GOTO 65000");
                    }
                    for _ in 0..rng.range(1, 4) {
                        match w.state().as_str() {
                            "Running" => {
                                w.op("cont");
                            }
                            "AwaitingInput" => {
                                if rng.chance(1, 4) {
                                    break;
                                }
                                let r = rng.pick(&["1", "x", "1, 2", "", "\"a\", 1"]).to_string();
                                w.reply(&r);
                            }
                            _ => break,
                        }
                    }
                    let st = w.state();
                    if st == "Running" || st == "AwaitingInput" {
                        w.op("break");
                    }
                    // the scratch line is removed again so that both interpreters hold the same program
                    w.start("65000");
                    kinds.push("abandoned-input");
                }
                9 => {
                    // a failure caused by the nesting cap (49+ levels), possibly several
                    for _ in 0..rng.range(1, 3) {
                        let n = rng.range(49, 60);
                        let text = if rng.chance(1, 2) { format!("PRINT {}1{}", "(".repeat(n), ")".repeat(n)) } else { format!("{}PRINT 1", "IF 1 THEN ".repeat(n)) };
                        w.start(&text);
                    }
                    kinds.push("nesting-failure");
                }
                0 => {
                    w.start("RUN");
                    let mut nr = 0;
                    w.drive(&replies, &mut nr, rng.range(1, 60), false);
                    kinds.push("earlier-run");
                }
                1 => {
                    w.start(&rng.pick(&["X = 5", "A$ = \"old\"", "I = 99", "N = 3", "T = -1", "Y = 7"]).to_string());
                    kinds.push("set-var");
                }
                2 => {
                    w.start(&rng.pick(&["DIM P(3)", "DIM Q(2,2)", "P(1) = 9", "N$(2) = \"z\"", "DIM R(50)"]).to_string());
                    kinds.push("dim");
                }
                3 => {
                    w.start(&rng.pick(&["FOR I = 1 TO 5", "FOR J = 5 TO 1 STEP -1", "FOR K = 1 TO 2"]).to_string());
                    kinds.push("open-loop");
                }
                4 => {
                    w.start(&rng.pick(&["READ A", "READ A$", "READ A, B"]).to_string());
                    kinds.push("read");
                }
                5 => {
                    // run, suspend in the middle (break), leave it there
                    w.start("RUN");
                    let mut nr = 0;
                    for _ in 0..rng.range(0, 6) {
                        let st = w.state();
                        if st == "Running" {
                            w.op("cont");
                        } else if st == "AwaitingInput" {
                            if rng.chance(1, 2) {
                                let r = replies[nr.min(replies.len() - 1)].clone();
                                nr += 1;
                                w.reply(&r);
                                // reply given but maybe never consumed
                                if rng.chance(1, 2) {
                                    break;
                                }
                            } else {
                                break;
                            }
                        } else {
                            break;
                        }
                    }
                    let st = w.state();
                    if st == "Running" || st == "AwaitingInput" {
                        w.op("break");
                        kinds.push("break");
                    }
                }
                8 if !p.lines.is_empty() && rng.chance(1, 2) => {
                    // an edit (after whatever ran before): delete a line, or replace it; the fresh interpreter gets the edited program
                    let i = rng.below(p.lines.len());
                    let n = p.lines[i].0;
                    let is_data = p.lines[i].1.contains("DATA");
                    if rng.chance(1, 2) || is_data {
                        w.start(&format!("{}", n));
                        p.lines.remove(i);
                        kinds.push(if is_data { "delete-data-line" } else { "delete-line" });
                    } else {
                        let t = rng.pick(&["PRINT 0", "DATA 77, 88", "REM"]).to_string();
                        w.start(&format!("{} {}", n, t));
                        p.lines[i].1 = t;
                        kinds.push("replace-line");
                    }
                }
                6 if !p.lines.is_empty() => {
                    w.start(&format!("GOTO {}", rng.pick(&p.lines).0));
                    let mut nr = 0;
                    w.drive(&replies, &mut nr, rng.range(1, 30), false);
                    kinds.push("goto");
                }
                7 => {
                    w.start("CONT");
                    let mut nr = 0;
                    w.drive(&replies, &mut nr, rng.range(1, 30), false);
                    kinds.push("cont");
                }
                _ => {
                    w.start(&rng.pick(&["GOSUB 900", "PRINT FNA(2)", "X = RND(1)", "TRACE", "NOTRACE", "PRINT 1/0"]).to_string());
                    let mut nr = 0;
                    w.drive(&replies, &mut nr, 20, false);
                    kinds.push("misc");
                }
            }
        }
        if w.poisoned() {
            cases.push(case_from(w, vec![], "poisoned".into(), true, p.text().replace('\n', " | ")));
            continue;
        }
        // make sure we are idle, then note the rng state and flags
        let st = w.state();
        if st == "Running" || st == "AwaitingInput" {
            w.op("break");
        }
        if w.state() == "NewInterpreterRequested" {
            continue;
        }
        w.op("take");
        let snap = w.op("snap");
        let f = crate::oracles::snapshot_fields(&snap);
        let get = |k: &str| f.iter().find(|(a, _)| a == k).map(|(_, v)| v.clone()).unwrap_or_default();
        let (rng_state, warn, trace) = (get("rng"), get("warn"), get("trace"));
        // final RUN in the used interpreter
        let a1 = w.ops.len();
        w.start("RUN");
        let mut nr = 0;
        w.drive(&replies, &mut nr, 300, false);
        w.state();
        w.op("snap");
        let a2 = w.last();
        // the same RUN in a fresh interpreter holding the same program and generator state
        w.op(&format!("new {} {}", warn, trace));
        w.op(&format!("seed {}", rng_state));
        w.load(&p);
        let b1 = w.ops.len();
        w.start("RUN");
        let mut nr = 0;
        w.drive(&replies, &mut nr, 300, false);
        w.state();
        w.op("snap");
        let b2 = w.last();
        kinds.sort();
        kinds.dedup();
        let checks = vec![format!("transcript-eq {}-{} {}-{}", a1, a2, b1, b2), format!("snap-eq {} {} except=reads", a2, b2), format!("same-reply {} {}", a2 - 1, b2 - 1)];
        cases.push(case_from(w, checks, kinds.join("+"), kinds.len() >= 2, p.text().replace('\n', " | ")));
    }
    (cases, false)
}

/// suspend a program somewhere, edit a line, then probe
pub fn c11_cases(rng: &mut Rng, tier: &str) -> (Vec<Case>, bool) {
    let n = if tier == "thorough" { 4000 } else { 400 };
    let mut cases = vec![];
    let opts = GenOpts { allow_failures: false, allow_else_resume: false, ..Default::default() };
    // ANY number of edits between the definition and the call: the function is gone after the first and stays gone (a count
    // that comes round again - 2^8, 2^16 edits - must not bring it back)
    for edits in [1usize, 2, 255, 256, 257, 512, 65535, 65536, 65537] {
        let mut w = Walk::new(false, false);
        w.start("1 DEF FNZ(Q) = Q + 1000");
        w.start("2 FOR L9 = 1 TO 3 : GOSUB 4");
        w.start("3 END");
        w.start("4 PRINT FNZ(1) : STOP");
        w.start("RUN");
        let mut nr = 0;
        w.drive(&[], &mut nr, 20, false);
        w.op("take");
        for i in 0..edits {
            w.start(["30 REM a", "30 REM b", "40 PRINT 1", "40"][i % 4]);
        }
        w.op("snap");
        let si = w.last();
        let probe = ["PRINT FNZ(1)", "CONT", "RETURN", "NEXT L9"][edits % 4];
        w.start(probe);
        let pi = w.last();
        w.op("take");
        let ti = w.last();
        let check = match edits % 4 {
            0 => format!("reply-is {} P:{}", ti, crate::imp::hex("0\n")),
            1 => format!("reply-starts {} err_CannotContinue", pi),
            2 => format!("reply-starts {} err_ReturnWithoutGosub", pi),
            _ => format!("reply-starts {} err_NextWithoutFor", pi),
        };
        cases.push(case_from(w, vec![check, format!("snap-after-edit-clean {}", si)], "many-edits".into(), true, format!("{} edits between the run and {}", edits, probe)));
    }
    for _ in 0..n {
        let mut p = program(rng, &opts);
        // give it things to be in the middle of
        p.lines.insert(0, (1, "DEF FNZ(Q) = Q + 1000".to_string()));
        let no_data = rng.chance(1, 6);
        if !no_data {
            p.lines.insert(1, (2, "DATA 111, 222, 333".to_string()));
        } else {
            // no DATA anywhere: the READ of line 3 ends the run with OUT OF DATA; an edit may then add the first DATA line
            p.lines.retain(|l| !l.1.contains("DATA"));
        }
        p.lines.insert(2, (3, "READ D1 : ZZ = 42 : Z$ = \"kept\" : ZA(3) = 7".to_string()));
        p.lines.push((6, "REM marker".to_string()));
        p.lines.insert(3, (4, "FOR L9 = 1 TO 3 : GOSUB 950".to_string()));
        p.lines.push((940, "END".to_string()));
        p.lines.push((950, "W9 = W9 + 1".to_string()));
        let dies = rng.chance(1, 5);
        p.lines.push((951, if dies { "IF W9 = 1 THEN W7 = 1 / 0".to_string() } else { "IF W9 = 1 THEN STOP".to_string() }));
        p.lines.push((952, "W8 = 1".to_string()));
        p.lines.push((960, "RETURN".to_string()));
        p.lines.sort_by_key(|l| l.0);
        let replies = reply_pool(rng);
        let mut w = Walk::new(false, false);
        // one program in four arrives as a FILE (static analysis, then `into_interpreter`): edits invalidate all the same
        if rng.chance(1, 4) {
            w.load_file(&p);
        } else {
            w.load(&p);
        }
        w.start("RUN");
        // suspend: either at the STOP (breakpoint), or by a host break after k steps, or awaiting input
        let k = rng.range(0, 25);
        let mut nr = 0;
        let mut how = "ended";
        for _ in 0..k {
            let st = w.state();
            if st == "Running" {
                w.op("cont");
            } else if st == "AwaitingInput" {
                if rng.chance(1, 3) {
                    break;
                }
                let r = replies[nr.min(replies.len() - 1)].clone();
                nr += 1;
                w.reply(&r);
            } else {
                break;
            }
        }
        let st = w.state();
        if st == "Running" || st == "AwaitingInput" {
            w.op("break");
            how = if st == "Running" { "host-break" } else { "break-at-input" };
        } else if w.replies.iter().any(|r| r.contains("B:")) || true {
            how = "idle";
        }
        w.op("take");
        w.op("snap");
        if w.poisoned() {
            continue;
        }
        // sometimes the user opens a loop / defines a function / reads at the prompt before editing: those die with the edit too
        let direct = if rng.chance(1, 3) { rng.below(3) + 1 } else { 0 };
        match direct {
            1 => {
                w.start("FOR Q9 = 1 TO 3");
            }
            2 => {
                w.start("DEF FNY(Q) = 5");
            }
            3 => {
                w.start("GOSUB 960");
                // runs RETURN of the subroutine? no: GOSUB 960 jumps to RETURN, which returns to the prompt line
                let mut nr2 = 0;
                w.drive(&replies, &mut nr2, 5, false);
            }
            _ => {}
        }
        let st = w.state();
        if st == "Running" || st == "AwaitingInput" {
            w.op("break");
        }
        w.op("take");
        w.op("snap");
        // the edit
        let edit_kind = if no_data && rng.chance(2, 3) { 3 } else { rng.below(8) };
        let (edit, ok) = match edit_kind {
            // edits that change nothing a program could observe are edits all the same: a remark replaced by a remark, a
            // line entered again with the very same text
            5 => (format!("6 REM {}", rng.pick(&["marker", "other", "", " marker"])), true),
            6 => {
                let l = p.lines[rng.below(p.lines.len())].clone();
                (format!("{} {}", l.0, l.1), true)
            }
            7 => (rng.pick(&["6 REM", "6 rem marker", "6  REM marker", "940 END", "960 RETURN"]).to_string(), true),
            0 => ("5 REM added".to_string(), true),
            1 => (format!("{} PRINT \"replaced\"", p.lines[rng.below(p.lines.len())].0), true),
            // delete - half of the time the line the run last jumped to (the subroutine entry, the STOP line, the RETURN line)
            2 => (if rng.chance(1, 2) { rng.pick(&["950", "951", "960", "940", "1", "1", "2", "3", "4"]).to_string() } else { format!("{}", p.lines[rng.below(p.lines.len())].0) }, true),
            3 => ("2 DATA 999, 888".to_string(), true),
            _ => (format!("{} PRINT \"unterminated", p.lines[rng.below(p.lines.len())].0), false),
        };
        let before_edit_bp = {
            let f = crate::oracles::snapshot_fields(w.replies.last().unwrap());
            f.iter().find(|(a, _)| a == "bp").map(|(_, v)| v.clone()).unwrap_or_default()
        };
        w.start(&edit);
        w.op("snap");
        let mut checks: Vec<String> = vec![];
        // variable and array contents are kept by any edit (successful or not)
        w.start("PRINT ZZ; Z$; ZA(3)");
        w.op("take");
        let kept_idx = w.last();
        let ran_line3 = w.replies.iter().any(|_| true);
        let _ = ran_line3;
        let probe = if direct == 1 && rng.chance(1, 2) { 7 } else if direct == 2 && rng.chance(1, 2) { 8 } else if no_data && rng.chance(2, 3) { 3 } else { rng.below(7) };
        // after a deletion: a jump to the line that is gone must say so (also when the run had last jumped exactly there)
        let deleted: Option<String> = if edit_kind == 2 { Some(edit.trim().to_string()) } else { None };
        let jump_probe = deleted.as_ref().map(|n| format!("{} {}", rng.pick(&["GOTO", "GOSUB", "IF 1 THEN"]), n));
        let probe = if deleted.as_deref() == Some("1") && rng.chance(2, 3) { 4 } else if jump_probe.is_some() && rng.chance(1, 2) { 9 } else { probe };
        let probe_text = match probe {
            9 => jump_probe.as_deref().unwrap(),
            0 => "CONT",
            1 => "RETURN",
            2 => "NEXT L9",
            3 => "READ D2",
            4 => "PRINT FNZ(1)",
            6 => "PRINT \"unterminated",
            7 => "NEXT Q9",
            8 => "PRINT FNY(1)",
            _ => "GOTO 940",
        };
        w.start(probe_text);
        let pi = w.last();
        if probe == 6 {
            // the host renders the error against the line it submitted
            w.op(&format!("caret {}", gen::hexs(probe_text)));
            w.op("caret -");
        }
        w.op("take");
        if probe == 3 {
            w.start("PRINT D2");
            w.op("take");
        }
        let ti = w.last();
        if ok {
            match probe {
                9 => checks.push(format!("reply-starts {} err_UndefinedStatement", pi)),
                0 => checks.push(format!("reply-starts {} err_CannotContinue", pi)),
                1 => checks.push(format!("reply-starts {} err_ReturnWithoutGosub", pi)),
                2 => checks.push(format!("reply-starts {} err_NextWithoutFor", pi)),
                3 => {
                    // READ starts again from the first DATA item of the EDITED program
                    let mut lines: std::collections::BTreeMap<u64, String> = p.lines.iter().cloned().collect();
                    let en: u64 = edit.trim().split(' ').next().unwrap().parse().unwrap();
                    let body = edit.trim()[edit.trim().split(' ').next().unwrap().len()..].trim().to_string();
                    if body.is_empty() {
                        lines.remove(&en);
                    } else {
                        lines.insert(en, body);
                    }
                    let mut first: Option<String> = None;
                    'outer: for (_, t) in &lines {
                        let toks = abasic_core::verif_hooks::tokenize(t, 0);
                        for part in toks.split(' ') {
                            if let Some(d) = part.strip_prefix("D:") {
                                let items = d.rsplitn(2, '@').last().unwrap_or("");
                                first = Some(items.split(',').next().unwrap_or("").to_string());
                                break 'outer;
                            }
                        }
                    }
                    match first {
                        None => checks.push(format!("reply-starts {} err_OutOfData", pi)),
                        Some(item) if item.starts_with('n') => {
                            let v = crate::imp::dec_f64(&item[1..]);
                            checks.push(format!("reply-is {} ok", pi));
                            checks.push(format!("reply-is {} P:{}", ti, crate::imp::hex(&format!("{}\n", v))));
                        }
                        Some(_) => checks.push(format!("reply-starts {} err_DataTypeMismatch", pi)),
                    }
                }
                4 | 8 => {
                    // a former function name is now an (implicit) array reference: prints 0, no call
                    checks.push(format!("reply-is {} P:{}", ti, crate::imp::hex("0\n")));
                }
                7 => checks.push(format!("reply-starts {} err_NextWithoutFor", pi)),
                _ => {}
            }
            checks.push(format!("snap-after-edit-clean {}", pi - 3));
        } else {
            // a rejected edit invalidates nothing: CONT still continues from a breakpoint
            if probe == 0 && before_edit_bp != "-" && !before_edit_bp.is_empty() {
                checks.push(format!("reply-is {} ok", pi));
            }
        }
        let _ = kept_idx;
        w.op("snap");
        let tag = format!("{}:{}:{}", how, ["add", "replace", "delete", "data", "failed", "remark-for-remark", "same-text", "same-meaning"][edit_kind], probe_text.split(' ').next().unwrap());
        cases.push(case_from(w, checks, tag, true, format!("{} || edit {:?} || probe {}", p.text().replace('\n', " | "), edit, probe_text)));
    }
    // a program that ended on its own (END / last line / an error), leaving nothing behind but what DEF, DIM and
    // assignments did: no breakpoint, no open loop, no subroutine, no DATA cursor.  An edit still forgets the functions.
    for body in [&["1 DEF FNZ(Q) = Q + 1000", "2 PRINT FNZ(1)", "3 END"][..], &["1 DEF FNZ(Q) = Q + 1000", "2 PRINT FNZ(1)"][..], &["1 DEF FNZ(Q) = Q + 1000", "2 X = 1 / 0"][..], &["1 DEF FNZ(Q) = Q + 1000", "2 FOR I = 1 TO 2 : NEXT I", "3 GOSUB 5", "4 END", "5 RETURN"][..]] {
        for edit in ["9 REM added", "1 DEF FNZ(Q) = 5", "1", "2 PRINT 2", "2"] {
            for probe in ["PRINT FNZ(1)", "PRINT FNZ(1) + FNZ(2)", "X = FNZ(3) : PRINT X"] {
                let mut w = Walk::new(false, false);
                for l in body.iter() {
                    w.start(l);
                }
                w.start("RUN");
                let mut nr = 0;
                w.drive(&[], &mut nr, 40, false);
                w.op("take");
                w.op("snap");
                w.start(edit);
                w.op("snap");
                let si = w.last();
                w.start(probe);
                let mut nr = 0;
                w.drive(&[], &mut nr, 10, false);
                // drive takes output along the way: collect what was printed after the edit
                let printed: Vec<String> = (si + 1..w.ops.len()).filter(|&i| w.ops[i] == "take").map(|i| w.replies[i].clone()).filter(|r| r != "-").collect();
                let want = if probe.contains('+') { "0\n" } else { "0\n" };
                let ti = (si + 1..w.ops.len()).find(|&i| w.ops[i] == "take" && w.replies[i] != "-");
                let mut checks = vec![format!("snap-after-edit-clean {}", si)];
                match ti {
                    Some(i) => checks.push(format!("reply-is {} P:{}", i, crate::imp::hex(want))),
                    None => checks.push(format!("take-has {} P", w.last())),
                }
                let _ = printed;
                cases.push(case_from(w, checks, "ended-program:edit:fn".into(), true, format!("{} || edit {:?} || probe {}", body.join(" | "), edit, probe)));
            }
        }
    }
    (cases, false)
}

/// the four tracing / warnings configurations
pub fn c17_cases(rng: &mut Rng, tier: &str) -> (Vec<Case>, bool) {
    let n = if tier == "thorough" { 2500 } else { 250 };
    let mut cases = vec![];
    let opts = GenOpts { allow_else_resume: false, ..Default::default() };
    // reads that resolve to an argument of an OUTER function call, to a variable assigned later, to an array created by
    // the right-hand side of the very assignment that stores into it: when exactly is something "undeclared"?
    let shaped: &[&[&str]] = &[
        &["10 DEF FNA(X) = FNB(1)", "20 DEF FNB(Y) = X + Y", "30 PRINT FNA(5)", "40 PRINT FNB(2)"],
        &["10 DEF FNA(X) = X + Q", "20 PRINT FNA(1)", "30 Q = 1", "40 PRINT FNA(1)"],
        &["10 DEF FNA(X) = P(X) + P(X)", "20 PRINT FNA(1)", "30 PRINT P(2)"],
        &["10 C(3) = C(3) + 1", "20 A(1) = A(2)", "30 DEF FNG(K) = T(K) + 1", "40 T(2) = FNG(1)", "50 PRINT C(3); A(1); T(2)"],
        &["10 DEF FNA(X) = FNB(X) + FNC(X)", "20 DEF FNB(Y) = X * Y + Z", "30 DEF FNC(Z) = X + Y + Z", "40 PRINT FNA(2)", "50 Y = 1 : PRINT FNA(3)"],
        &["10 FOR I = 1 TO 2 : PRINT J; N$(I) : NEXT I", "20 INPUT K", "30 PRINT K + L"],
        // line number 0 is a numbered line like any other
        &["0 PRINT \"A\"", "5 N = N + 1", "10 PRINT \"B\"", "20 IF N < 2 THEN GOTO 0", "30 PRINT \"C\""],
        &["0 PRINT \"ONLY\""],
        &["0 GOSUB 18446744073709551615", "1 END", "18446744073709551615 PRINT Q : RETURN"],
    ];
    for k in 0..n + shaped.len() {
        let p = if k < shaped.len() {
            Program { lines: shaped[k].iter().map(|l| { let (n, t) = l.split_once(' ').unwrap(); (n.parse().unwrap(), t.to_string()) }).collect(), features: vec!["shaped"] }
        } else {
            program(rng, &opts)
        };
        let replies = reply_pool(rng);
        let seed = rng.next() % 100000;
        let via_command = rng.chance(1, 3);
        let mut w = Walk::new(false, false);
        w.ops.clear();
        w.replies.clear();
        let mut ranges = vec![];
        let mut finals = vec![];
        for (ww, tt) in [(false, false), (true, false), (false, true), (true, true)] {
            let a = w.ops.len();
            if via_command {
                w.op(&format!("new {} 0", ww as u8));
                // the command word in any letter case
                if tt {
                    w.start(rng.pick(&["TRACE", "trace", "Trace", "tRaCe"]));
                } else {
                    w.start(rng.pick(&["NOTRACE", "notrace", "Notrace", "nOtrace", "NoTrace", "noTRACE"]));
                }
            } else {
                w.op(&format!("new {} {}", ww as u8, tt as u8));
            }
            w.op(&format!("seed {}", seed));
            w.load(&p);
            w.start("RUN");
            let mut nr = 0;
            w.drive(&replies, &mut nr, 250, false);
            // if it stopped at a breakpoint, continue once more
            w.start("CONT");
            w.drive(&replies, &mut nr, 100, false);
            w.state();
            w.op("snap");
            ranges.push((a, w.last()));
            finals.push(w.last());
        }
        let mut checks = vec![];
        for k in 1..4 {
            checks.push(format!("transcript-eq {}-{} {}-{} drop=WT", ranges[0].0, ranges[0].1, ranges[k].0, ranges[k].1));
            checks.push(format!("snap-eq {} {} except=warn,trace,reads", finals[0], finals[k]));
        }
        // a configuration is what it was set to - through the API or through the TRACE / NOTRACE commands in any letter
        // case: no trace record where tracing is off, no warning where warnings are off, and the flags read back
        for (k, (ww, tt)) in [(false, false), (true, false), (false, true), (true, true)].iter().enumerate() {
            if !tt {
                checks.push(format!("range-lacks {}-{} T", ranges[k].0, ranges[k].1));
            }
            if !ww {
                checks.push(format!("range-lacks {}-{} W", ranges[k].0, ranges[k].1));
            }
            checks.push(format!("snap-field-is {} trace {}", finals[k], *tt as u8));
            checks.push(format!("snap-field-is {} warn {}", finals[k], *ww as u8));
        }
        // trace records name the line being executed; a warning names an undeclared variable/array use
        checks.push(format!("trace-lines-exist {}-{}", ranges[3].0, ranges[3].1));
        if k < shaped.len() {
            let want = match shaped[k][0] {
                "0 PRINT \"A\"" => "0,5,10,20,0,5,10,20,30",
                "0 PRINT \"ONLY\"" => "0",
                "0 GOSUB 18446744073709551615" => "0,18446744073709551615,1",
                _ => "",
            };
            if !want.is_empty() {
                checks.push(format!("trace-seq {}-{} {}", ranges[2].0, ranges[2].1, want));
                checks.push(format!("trace-seq {}-{} {}", ranges[3].0, ranges[3].1, want));
            }
        }
        cases.push(case_from(w, checks, format!("{}{}", if via_command { "cmd:" } else { "api:" }, feature_tag(&p)), true, p.text().replace('\n', " | ")));
    }
    // programs in which every line first prints its own number: whatever way execution takes (jumps back and forth, to the
    // lowest and the highest line number there is, subroutines), the trace names exactly the lines that print
    for _ in 0..(n / 4).max(20) {
        let pool: [u64; 10] = [0, 1, 2, 9, 10, 100, 255, 256, 65535, 18446744073709551615];
        let mut nums: Vec<u64> = pool.iter().cloned().filter(|_| rng.chance(1, 2)).collect();
        if nums.len() < 2 {
            nums = vec![0, 10];
        }
        let mut w = Walk::new(false, true);
        for (i, l) in nums.iter().enumerate() {
            let tail = match rng.below(6) {
                0 => format!(" : IF C < 7 THEN GOTO {}", rng.pick(&nums)),
                1 => format!(" : IF C < 7 THEN GOSUB {}", rng.pick(&nums)),
                2 => " : IF C > 2 THEN RETURN".to_string(),
                3 if i + 1 < nums.len() => format!(" : ON9 = 1 : GOTO {}", nums[i + 1]),
                _ => String::new(),
            };
            w.start(&format!("{} PRINT \"#{}\" : C = C + 1{}", l, l, tail));
        }
        let a = w.ops.len();
        w.start("RUN");
        let mut nr = 0;
        w.drive(&[], &mut nr, 200, false);
        w.state();
        let b = w.last();
        let show = w.ops.iter().filter_map(|o| o.strip_prefix("start ")).filter_map(crate::imp::unhex).collect::<Vec<_>>().join(" | ");
        cases.push(case_from(w, vec![format!("trace-eq-marks {}-{}", a, b)], "lines-print-their-number".into(), true, show));
    }
    // a warning exactly when an undeclared variable is read or an array that does not exist yet is touched - programs
    // whose number of warnings is known in advance (a refused INPUT reply touches nothing)
    for (prog, replies, want) in [
        (&["10 INPUT A(3)", "20 PRINT A(3)"][..], &["SEVEN", "7"][..], 1usize),
        (&["10 INPUT A(3)", "20 PRINT A(3)"][..], &["7"][..], 1),
        (&["10 INPUT A(3)", "20 PRINT A(3)"][..], &["x", "y", "z", "7"][..], 1),
        (&["10 DIM A(5)", "20 INPUT A(3)", "30 PRINT A(3)"][..], &["SEVEN", "7"][..], 0),
        (&["10 INPUT N", "20 PRINT N; M"][..], &["q", "1"][..], 1),
        (&["10 READ B(1), B(2)", "20 DATA x, 2"][..], &[][..], 0),
        (&["10 READ B(1), B(2)", "20 DATA 1, 2"][..], &[][..], 1),
        (&["10 X = Y + Z(1) + Z(2)", "20 PRINT X; Y"][..], &[][..], 3),
        (&["10 DIM X", "20 PRINT X"][..], &[][..], 1),
        (&["10 DIM N$", "20 PRINT N$; N$", "30 N$ = \"a\"", "40 PRINT N$"][..], &[][..], 2),
        (&["10 DIM Y(2) : DIM X", "20 PRINT X + Y(1)"][..], &[][..], 1),
    ] {
        let mut w = Walk::new(true, false);
        for l in prog.iter() {
            w.start(l);
        }
        let a = w.ops.len();
        w.start("RUN");
        let rs: Vec<String> = replies.iter().map(|r| r.to_string()).collect();
        let mut nr = 0;
        w.drive(&rs, &mut nr, 40, false);
        w.state();
        let b = w.last();
        cases.push(case_from(w, vec![format!("range-count {}-{} W {}", a, b, want)], "warnings-counted".into(), true, format!("{} || replies {:?}", prog.join(" | "), replies)));
    }
    (cases, false)
}

/// tracing on: per-call bounds; token-read counter
pub fn c09_cases(rng: &mut Rng, tier: &str) -> (Vec<Case>, bool) {
    let n = if tier == "thorough" { 3000 } else { 300 };
    let mut cases = vec![];
    for i in 0..n {
        // the work bound is stated for programs that call no user function; the one-statement rule for all
        let with_def = i % 2 == 1;
        let opts = GenOpts { allow_def: with_def, allow_else_resume: true, ..Default::default() };
        let mut p = program(rng, &opts);
        if i % 6 == 1 {
            p.lines.push((3, "DEF FNQ(X) = X + 1: PRINT \"ONE\": PRINT \"TWO\"".to_string()));
            p.lines.push((4, "DEF FNP(X) = X: DEF FNO(Y) = Y: DEF FNM(Z) = Z: PRINT \"after defs\"".to_string()));
            p.lines.sort_by_key(|l| l.0);
        }
        if i % 5 == 0 {
            // non-terminating programs
            p.lines.push((935, "GOTO 10".to_string()));
            p.lines.retain(|l| l.1 != "END" || l.0 != 890);
            p.lines.sort_by_key(|l| l.0);
        }
        if i % 7 == 0 {
            p.lines.push((7, "IF 1 THEN IF 1 THEN IF 1 THEN PRINT \"deep\"".to_string()));
            p.lines.push((8, "PRINT 1;2;3;4;5;6;7;8;9;10;11;12;13;14;15;16;17;18;19;20;21;22;23;24;25;26;27;28;29;30".to_string()));
            p.lines.sort_by_key(|l| l.0);
        }
        let replies = reply_pool(rng);
        let mut w = Walk::new(false, true);
        w.load(&p);
        let max_if = p.lines.iter().map(|(_, t)| t.matches("IF ").count()).max().unwrap_or(0);
        let max_len = p.lines.iter().map(|(_, t)| t.len()).max().unwrap_or(1).max(8) as u64;
        w.op("reads");
        w.start("RUN");
        let mut nr = 0;
        let mut steps = 0;
        loop {
            w.op("reads");
            w.op("take");
            let st = w.state();
            if w.poisoned() || steps > 150 {
                if st == "Running" || st == "AwaitingInput" {
                    w.op("break");
                    w.op("take");
                }
                break;
            }
            match st.as_str() {
                "Running" => {
                    if rng.chance(1, 8) {
                        // the host stops the program between two statements, then resumes it
                        w.op("break");
                        w.op("take");
                        w.op("reads");
                        w.op("snap");
                        w.start("CONT");
                    } else {
                        w.op("snap");
                        w.op("cont");
                    }
                }
                "AwaitingInput" => {
                    let r = replies[nr.min(replies.len() - 1)].clone();
                    nr += 1;
                    w.reply(&r);
                }
                "Idle" if steps < 140 && w.replies.last().map(|_| true).unwrap_or(false) && {
                    let s = w.op("snap");
                    !s.contains(" ; bp=- ; ")
                } => {
                    // stopped at a STOP: resume
                    w.op("reads");
                    w.op("snap");
                    w.start("CONT");
                }
                _ => break,
            }
            steps += 1;
        }
        // the interpreter is idle again: the host keeps control
        w.start("PRINT 1");
        w.op("take");
        let mut checks = vec![format!("calls-bounded {}", 1 + max_if), "err-then-idle".to_string(), "traced-calls".to_string()];
        if !with_def {
            checks.push(format!("reads-bounded 4 40 {}", max_len));
        }
        cases.push(case_from(w, checks, feature_tag(&p), true, p.text().replace('\n', " | ")));
    }
    // statement counts that are known in advance: every one of them costs a host call, whatever the statements are
    // (an empty FOR/NEXT on one line, a multi-statement line typed at a breakpoint, a chain of THEN <line> jumps)
    let counted: &[(&[&str], &[&str], usize)] = &[
        (&["10 FOR I = 1 TO 20 : NEXT I", "20 PRINT I"], &["RUN"], 22),
        (&["10 FOR I = 20 TO 1 STEP -1 : NEXT I : PRINT I"], &["RUN"], 22),
        (&["10 FOR I = 1 TO 5 : FOR J = 1 TO 4 : NEXT J : NEXT I"], &["RUN"], 31),
        (&["10 STOP", "20 END"], &["RUN", "PRINT \"X\";5 : A = 1 : B = 2 : PRINT \"Y\";7"], 5),
        (&["10 GOSUB 100", "20 END", "100 STOP", "110 RETURN"], &["RUN", "A = 1 : A = A + 1 : A = A + 1 : PRINT A", "FOR K = 1 TO 6 : NEXT K : PRINT K"], 14),
        (&["10 IF 1 THEN 20", "20 IF 1 THEN 30", "30 IF 1 THEN 40", "40 IF 1 THEN 50", "50 PRINT 5"], &["RUN"], 5),
        (&["10 GOTO 20", "20 DATA 1", "21 DATA 2", "22 DATA 3", "23 DATA 4", "30 GOTO 40", "40 PRINT 4"], &["RUN"], 7),
        (&["10 GOSUB 100", "20 PRINT \"M\"", "30 END", "100 GOSUB 200 : RETURN", "200 GOSUB 300 : RETURN", "300 RETURN"], &["RUN"], 10),
        (&["10 GOSUB 100 : GOSUB 100", "20 END", "100 GOSUB 200 : RETURN", "200 RETURN"], &["RUN"], 12),
        (&["10 PRINT \"A\"::PRINT \"B\":PRINT \"C\""], &["RUN"], 6),
        (&["10 :::PRINT \"X\"::::", "20 PRINT \"Y\""], &["RUN"], 9),
        (&["10 IF 1 THEN ::PRINT \"Z\"", "20 ::"], &["RUN"], 5),
        (&["10 IF 1 THEN", "20 PRINT \"A\"", "30 PRINT \"B\""], &["RUN"], 3),
        (&["10 IF 0 THEN PRINT 1 ELSE", "20 PRINT \"A\"", "30 PRINT \"B\""], &["RUN"], 3),
        (&["10 IF 1 THEN", "20 IF 1 THEN", "30 IF 0 THEN X = 1 ELSE", "40 PRINT \"C\"", "50 IF 1 THEN"], &["RUN"], 5),
    ];
    for (prog, typed, want) in counted {
        for (ww, tt) in [(false, false), (false, true)] {
            let mut w = Walk::new(ww, tt);
            for l in prog.iter() {
                w.start(l);
            }
            let a = w.ops.len();
            for t in typed.iter() {
                w.start(t);
                let mut nr = 0;
                w.drive(&[], &mut nr, 200, false);
            }
            let b = w.last();
            w.op("snap");
            cases.push(case_from(w, vec![format!("turns-at-least {}-{} {}", a, b, want), "calls-bounded 2".into()], "counted-statements".into(), true, format!("{} || {}", prog.join(" | "), typed.join(" | "))));
        }
    }
    // a one-statement line typed at a breakpoint inside a loop / subroutine - NEXT that goes round, RETURN, GOTO into the
    // program - runs THAT statement and hands control back: the program's next statement needs the next call
    for (prog, typed) in [
        (&["10 FOR I = 1 TO 3", "20 PRINT \"BODY\"; I", "30 STOP", "40 NEXT I", "50 PRINT \"DONE\""][..], "NEXT I"),
        (&["10 GOSUB 100", "20 PRINT \"BACK\"", "30 END", "100 STOP", "110 RETURN"][..], "RETURN"),
        (&["10 STOP", "20 PRINT \"TWENTY\"", "30 PRINT \"THIRTY\""][..], "GOTO 20"),
        (&["10 FOR I = 1 TO 2", "20 STOP", "30 PRINT \"B\"; I : NEXT I"][..], "NEXT I"),
    ] {
        for tt in [false, true] {
            let mut w = Walk::new(false, tt);
            for l in prog.iter() {
                w.start(l);
            }
            w.start("RUN");
            let mut nr = 0;
            w.drive(&[], &mut nr, 30, false);
            w.op("take");
            w.start(typed);
            let ti = w.last();
            w.op("take");
            let take_idx = w.last();
            w.op("snap");
            w.drive(&[], &mut nr, 30, false);
            // the typed statement itself prints nothing and is not a numbered line: no Print, no Trace record in its call
            cases.push(case_from(w, vec![format!("reply-is {} ok", ti), format!("take-lacks-kind {} P", take_idx), format!("take-lacks-kind {} T", take_idx), "calls-bounded 2".into()], "one-statement-at-a-breakpoint".into(), true, format!("{} || {}", prog.join(" | "), typed)));
        }
    }
    // a prompt printed right before the INPUT on the same line, and replies that are refused: every host call - also the
    // one that hands over an unsuitable reply - runs ONE statement (the INPUT), never the prompt again
    let prompted: &[&[&str]] = &[
        &["10 PRINT \"AGE\";: INPUT A", "20 PRINT A"],
        &["10 PRINT RND(1);: INPUT A : PRINT RND(1)"],
        &["10 ? \"N\"; : INPUT N : IF N THEN PRINT \"yes\""],
        &["10 PRINT \"A\"; : PRINT \"B\"; : INPUT Q(2)", "20 PRINT Q(2)"],
        &["10 C = C + 1 : PRINT C; : INPUT A : PRINT C"],
    ];
    for prog in prompted {
        for (ww, tt) in [(false, true), (true, true), (false, false)] {
            let mut w = Walk::new(ww, tt);
            w.op("seed 5");
            for l in prog.iter() {
                w.start(l);
            }
            w.start("RUN");
            let replies: Vec<String> = ["x", "", "abc, 1", "\"q\"", "7", "8", "9"].iter().map(|s| s.to_string()).collect();
            let mut nr = 0;
            w.drive(&replies, &mut nr, 60, false);
            w.state();
            w.op("snap");
            cases.push(case_from(w, vec!["calls-bounded 2".into(), "err-then-idle".to_string()], "prompt-then-refused-reply".into(), true, prog.join(" | ")));
        }
    }
    (cases, false)
}

const PURE_INSPECTIONS: &[&str] = &[
    "PRINT X", "PRINT A$; B$", "PRINT I; J", "PRINT 1/0", "PRINT \"x\" + 1", "REM look", "PRINT X + Y * 2", "PRINT (1", "? N", ":",
    "PRINT FNA(3)", "PRINT FNA(\"s\")", "PRINT FNQ(1) + 1/0", "PRINT NOSUCH", "PRINT RND(0)", "PRINT ABS(-1); INT(2.5)",
    "PRINT FNR(1)", "PRINT FNR(X) + 1", "PRINT FNS(2)", "PRINT ((((((((((((((((((((((((((((((((((((((((((((((((((1))))))))))))))))))))))))))))))))))))))))))))))))))",
    // statements that are refused or do nothing at the prompt: a DEF typed in direct mode (ILLEGAL DIRECT) for a function the
    // program defines, with other parameter names; END reached by an immediate line
    "DEF FNA(ZZ) = 1", "DEF FNR(Q) = 5", "DEF FNS(A, B) = 1", "DEF FNB(X1) = X1", "END", "IF 1 THEN END",
    // a syntax error INSIDE a built-in call (before its closing parenthesis): nothing was computed, nothing may have moved
    "PRINT RND(1", "PRINT RND(7, 1)", "PRINT RND(2 \"A\")", "PRINT ABS(1", "PRINT INT(1, 2)", "PRINT 1 + RND(3;", "PRINT RND(",
];

/// assigning at a STOP == the assignment written in place of the STOP (the value assigned at the prompt, or typed in as the
/// reply to an INPUT that is run at the prompt), then CONT
pub fn assign_at_stop_cases(rng: &mut Rng, m: usize, force_input: bool, cases: &mut Vec<Case>) {
    for _ in 0..m {
        let var = rng.pick(&["X", "N", "A$", "P(2)"]);
        let val = if var.ends_with('$') { "\"set\"".to_string() } else { rng.pick(&["5", "0", "-1", "X+1"]).to_string() };
        let assign = format!("{} = {}", var, val);
        let body = rng.pick(&["PRINT X; N; A$; P(2)", "FOR I = 1 TO N : PRINT I : NEXT I", "IF X > 2 THEN PRINT \"big\" ELSE PRINT \"small\""]);
        // the STOP on a line of its own, or followed on ITS line by the statements that use the value (also an IF .. ELSE,
        // also inside a subroutine); the value is assigned at the prompt - or typed in as the reply to an INPUT run at the prompt
        let same_line = rng.chance(1, 2);
        let in_sub = rng.chance(1, 4);
        let mk = |mid: &str| {
            let mut v = vec!["10 X = 2 : N = 2".to_string(), "20 PRINT \"before\"".to_string()];
            if in_sub {
                v.push("25 GOSUB 30 : PRINT \"back\" : GOTO 50".to_string());
            }
            if same_line {
                v.push(format!("30 {} : {}", mid, body));
            } else {
                v.push(format!("30 {}", mid));
                v.push(format!("40 {}", body));
            }
            if in_sub {
                v.push("45 RETURN".to_string());
            }
            v.push("50 PRINT \"after\"".to_string());
            v
        };
        let by_input = !val.contains('X') && (force_input || rng.chance(1, 3));
        let mut w = Walk::new(false, false);
        for l in mk("STOP") {
            w.start(&l);
        }
        let a1 = w.ops.len();
        w.start("RUN");
        let mut nr = 0;
        w.drive(&[], &mut nr, 100, false);
        let i0 = w.ops.len();
        if by_input {
            w.start(&format!("INPUT {}", var));
            let mut guard = 0;
            while w.state() == "Running" && guard < 5 {
                w.op("cont");
                guard += 1;
            }
            if w.state() == "AwaitingInput" {
                w.reply(val.trim_matches('"'));
                let mut guard = 0;
                while w.state() == "Running" && guard < 5 {
                    w.op("cont");
                    guard += 1;
                }
            }
        } else {
            w.start(&assign);
        }
        let ig1 = (i0..=w.last()).map(|x| x.to_string()).collect::<Vec<_>>().join(",");
        w.op("take");
        w.start("CONT");
        w.drive(&[], &mut nr, 100, false);
        w.state();
        let a2 = w.last();
        w.op("new 0 0");
        for l in mk(&assign) {
            w.start(&l);
        }
        let b1 = w.ops.len();
        w.start("RUN");
        w.drive(&[], &mut nr, 100, false);
        w.state();
        let b2 = w.last();
        cases.push(case_from(w, vec![format!("transcript-eq {}-{} {}-{} ignore={} noreply", a1, a2, b1, b2, ig1)], "assign-at-stop".into(), true, format!("{} at STOP vs in place; then {}", assign, body)));
    }
}

/// break + CONT at random turn boundaries, with side-effect-free inspection, vs the uninterrupted run
pub fn c07_cases(rng: &mut Rng, tier: &str) -> (Vec<Case>, bool) {
    let n = if tier == "thorough" { 3000 } else { 300 };
    let mut cases = vec![];
    let opts = GenOpts { allow_else_resume: rng.chance(1, 10), ..Default::default() };
    for _ in 0..n {
        let mut p = program(rng, &opts);
        // functions whose call fails for reasons other than their arguments: runaway recursion, failing body
        p.lines.insert(0, (1, "DEF FNR(X) = FNR(X) + 1".to_string()));
        p.lines.insert(1, (2, "DEF FNS(X) = X / 0".to_string()));
        let replies = reply_pool(rng);
        let seed = rng.next() % 100000;
        let mut w = Walk::new(false, false);
        // A: uninterrupted (STOPs are continued with CONT)
        w.op(&format!("seed {}", seed));
        w.load(&p);
        let a1 = w.ops.len();
        w.start("RUN");
        let mut nr = 0;
        let mut rounds = 0;
        loop {
            w.drive(&replies, &mut nr, 200, false);
            // a STOP leaves a breakpoint: continue
            let snap = w.op("snap");
            let has_bp = !snap.contains(" ; bp=- ; ");
            rounds += 1;
            if has_bp && rounds < 6 && w.state() == "Idle" {
                w.start("CONT");
            } else {
                break;
            }
        }
        w.state();
        let a2 = w.last();
        // B: same, but the host breaks in at random turn boundaries, inspects, and CONTs
        w.op("new 0 0");
        w.op(&format!("seed {}", seed));
        w.load(&p);
        let b1 = w.ops.len();
        w.start("RUN");
        let mut nr = 0;
        let mut ignore: Vec<usize> = vec![];
        let mut steps = 0;
        let mut rounds = 0;
        let mut n_breaks = 0;
        let mut inspected = false;
        loop {
            w.op("take");
            let st = w.state();
            if w.poisoned() || steps > 260 {
                if st == "Running" || st == "AwaitingInput" {
                    w.cut = true;
                    w.op("break");
                    w.op("take");
                }
                break;
            }
            let interrupt = (st == "Running" || st == "AwaitingInput") && rng.chance(1, 5);
            if interrupt {
                w.op("break");
                n_breaks += 1;
                w.op("take");
                if rng.chance(1, 2) {
                    let k = rng.range(1, 3);
                    for _ in 0..k {
                        w.start(&rng.pick(PURE_INSPECTIONS).to_string());
                        ignore.push(w.last());
                        w.op("take");
                        ignore.push(w.last());
                        inspected = true;
                    }
                }
                w.start("CONT");
                steps += 1;
                continue;
            }
            match st.as_str() {
                "Running" => {
                    w.op("cont");
                }
                "AwaitingInput" => {
                    let r = replies[nr.min(replies.len() - 1)].clone();
                    nr += 1;
                    w.reply(&r);
                }
                "Idle" => {
                    let snap = w.op("snap");
                    let has_bp = !snap.contains(" ; bp=- ; ");
                    rounds += 1;
                    if has_bp && rounds < 6 {
                        if rng.chance(1, 3) {
                            w.start(&rng.pick(PURE_INSPECTIONS).to_string());
                            ignore.push(w.last());
                            w.op("take");
                            ignore.push(w.last());
                            inspected = true;
                        }
                        w.start("CONT");
                    } else {
                        break;
                    }
                }
                _ => break,
            }
            steps += 1;
        }
        w.state();
        let b2 = w.last();
        let ig = if ignore.is_empty() { String::new() } else { format!(" ignore={}", ignore.iter().map(|x| x.to_string()).collect::<Vec<_>>().join(",")) };
        // a run cut short by the step budget is compared as a prefix
        let checks = vec![format!("transcript-eq {}-{} {}-{}{}{}", a1, a2, b1, b2, ig, if w.cut { " prefix" } else { "" })];
        let tag = format!("{}breaks{}:{}", if n_breaks == 0 { "no-" } else { "" }, if inspected { "+inspect" } else { "" }, feature_tag(&p));
        cases.push(case_from(w, checks, tag, n_breaks > 0, p.text().replace('\n', " | ")));
    }
    assign_at_stop_cases(rng, if tier == "thorough" { 600 } else { 80 }, false, &mut cases);
    (cases, false)
}

/// INPUT placements x reply texts
pub fn c08_cases(rng: &mut Rng, tier: &str) -> (Vec<Case>, bool) {
    let n = if tier == "thorough" { 4000 } else { 400 };
    let mut cases = vec![];
    let placements: &[(&str, &str)] = &[
        ("10 PRINT \"a\": INPUT {V}: PRINT \"b\"; {V}", "after-colon"),
        ("10 INPUT {V}\n20 PRINT {V}", "own-line"),
        ("10 IF 1 THEN INPUT {V}\n20 PRINT {V}", "then"),
        ("10 IF 0 THEN PRINT 1 ELSE INPUT {V}\n20 PRINT {V}", "else"),
        ("10 FOR I = 1 TO 2: INPUT {V}: PRINT I; {V}: NEXT I", "loop"),
        ("10 GOSUB 100\n20 PRINT \"back\"; {V}\n30 END\n100 INPUT {V}\n110 RETURN", "subroutine"),
        ("10 K = 2\n20 INPUT {A}(K)\n30 PRINT {A}(2)", "array-target"),
        ("10 PRINT \"x\";: INPUT {V}: INPUT {W}: PRINT {V}; {W}", "two-inputs"),
        ("10 IF 1 THEN INPUT {V} ELSE PRINT 2\n20 PRINT {V}", "then-else"),
        // a colon is only a no-op statement: one statement may follow another directly
        ("10 C = C + 1 INPUT {V}\n20 PRINT C; {V}", "juxtaposed-let"),
        ("10 GOSUB 100 INPUT {V}\n20 PRINT {V}\n30 END\n100 PRINT \"SUB\": RETURN", "juxtaposed-gosub"),
        ("10 IF 1 THEN K = K + 1 INPUT {V}\n20 PRINT K; {V}", "juxtaposed-then"),
        ("10 FOR I = 1 TO 2 INPUT {A}(I)\n20 NEXT I\n30 PRINT {A}(1); {A}(2)", "juxtaposed-for"),
        ("10 DIM Q(3) INPUT {V} PRINT {V}; Q(3)", "juxtaposed-dim"),
    ];
    let reply_texts: &[&str] = &["5", "0", "-2.5", "hello", "", " ", "1,2", "3:4", "\"q, r\"", " 7 ", "x", "1e3", "12abc", "\"a\" ,", ",", "é", "  \"sp\"  ", "1 2", ".", "inf", "nan",
        // surplus behind an unquoted colon, after text whose byte length exceeds its character count
        "日本語:x", "😊:ab", "é:", "\"über:über\":zz", "\u{3000}5:6", "\u{a0}5:", "café:crème", "日本語", "ééé:1", "\u{2003}7\u{2003}:\u{2003}"];
    // replies of any length: one item of more than a thousand characters (letters, emoji, a quoted text, a number spelled with
    // 1200 zeros and an exponent), a short item followed by thousands of blanks
    let long_a = "a".repeat(1025);
    let long_e = "😊".repeat(1500);
    let long_q = format!("\"{}\"", "q r,".repeat(700));
    let long_n = format!("1{}e-1198", "0".repeat(1200));
    let long_b = format!("7{}", " ".repeat(2000));
    let long_c = format!("{},x", "b".repeat(3000));
    let mut all_replies: Vec<&str> = reply_texts.to_vec();
    // a reply is taken as handed over: a carriage return at its end is part of an open-quoted item
    all_replies.extend(["\"abc\r", "\"\r", "abc\r", "5\r", "\"a b\"\r", "\"x\r\n", "q\n", "\"tab\t"]);
    all_replies.extend([long_a.as_str(), long_e.as_str(), long_q.as_str(), long_n.as_str(), long_b.as_str(), long_c.as_str()]);
    let reply_texts: &[&str] = &all_replies;
    for _ in 0..n {
        let (tmpl, tag) = rng.pick(placements);
        let numeric = rng.chance(2, 3);
        let (v, wv, a) = if numeric { ("X", "Y", "P") } else { ("X$", "Y$", "N$") };
        let text = tmpl.replace("{V}", v).replace("{W}", wv).replace("{A}", a);
        let mut w = Walk::new(false, rng.chance(1, 4));
        for l in text.split('\n') {
            w.start(l);
        }
        w.start("RUN");
        let mut checks = vec![];
        let mut steps = 0;
        let mut kinds = vec![tag];
        loop {
            w.op("take");
            w.op("snap");
            let st = w.state();
            if w.poisoned() || steps > 80 {
                break;
            }
            match st.as_str() {
                "Running" => {
                    w.op("cont");
                }
                "AwaitingInput" => {
                    // everything before the INPUT ran once, nothing after it: asking again without a reply changes nothing
                    let r = rng.pick(reply_texts).to_string();
                    let before = w.last() - 1;
                    w.reply(&r);
                    let ci = w.ops.len();
                    w.op("cont");
                    w.op("take");
                    let ti = w.last();
                    w.op("snap");
                    let st2 = w.state();
                    // oracle from the DATA-item reading of the reply
                    let parsed = abasic_core::verif_hooks::parse_data(&r);
                    let items: Vec<&str> = parsed.split(" /").next().unwrap_or("").split(',').collect();
                    let consumed: usize = parsed.rsplit(" /").next().unwrap_or("0").parse().unwrap_or(0);
                    let first_is_num = items.first().map(|i| i.starts_with('n')).unwrap_or(false);
                    let surplus = items.len() > 1 || consumed < r.len();
                    if tag == "then-else" {
                        // known finding KF-ELSE-RESUME: the resumed INPUT lands on ELSE
                        kinds.push("else-resume");
                    } else if numeric && !first_is_num {
                        kinds.push("reenter");
                        checks.push(format!("take-has {} R", ti));
                        checks.push(format!("reply-is {} AwaitingInput", w.last()));
                        // nothing else repeated or skipped: state as before the reply (the target's subscripts may have been evaluated)
                        checks.push(format!("snap-eq {} {} except=reads,arrays", before, ti + 1));
                    } else {
                        kinds.push(if surplus { "extra" } else { "ok" });
                        checks.push(format!("reply-is {} ok", ci));
                        checks.push(format!("take-lacks {} R", ti));
                        checks.push(format!("{} {} X", if surplus { "take-has" } else { "take-lacks" }, ti));
                    }
                    let _ = st2;
                    steps += 1;
                    continue;
                }
                _ => break,
            }
            steps += 1;
        }
        w.state();
        checks.push("no-syntax-error".to_string());
        kinds.sort();
        kinds.dedup();
        cases.push(case_from(w, checks, kinds.join("+"), true, text.replace('\n', " | ")));
    }
    // a reply handed over but never consumed (the host broke in first) is not an answer to a LATER request:
    // after RUN / after the interrupted program is continued the INPUT asks (again) and reports that it awaits input
    for prog in ["10 INPUT A : PRINT \"got\"; A", "10 PRINT \"x\" : INPUT A$ : PRINT A$", "10 IF 1 THEN INPUT A\n20 PRINT A"] {
        // (only RUN: a pending reply must survive a break for CONT, and what an immediate GOTO / INPUT typed at the
        // breakpoint does with it is not something the property speaks about)
        for then in ["RUN"] {
            let mut w = Walk::new(false, false);
            for l in prog.split('\n') {
                w.start(l);
            }
            w.start("RUN");
            let mut guard = 0;
            while w.state() == "Running" && guard < 10 {
                w.op("cont");
                guard += 1;
            }
            w.reply("7");
            w.op("break");
            w.op("take");
            w.start(then);
            let mut guard = 0;
            while w.state() == "Running" && guard < 10 {
                w.op("cont");
                guard += 1;
            }
            let si = w.last();
            w.op("take");
            w.op("snap");
            cases.push(case_from(w, vec![format!("reply-is {} AwaitingInput", si), "no-syntax-error".to_string()], "stale-reply".into(), true, format!("{} | RUN, reply, break, {}", prog.replace('\n', " | "), then)));
        }
    }
    // INPUT with a suitable reply == the same program with the assignment of that value in its place
    let equiv: &[&str] = &[
        "10 PRINT \"a\": INPUT {V}: PRINT \"b\"; {V}",
        "10 INPUT {V}: INPUT {W}: PRINT {V}; {W}",
        "10 PRINT \"NAME\": INPUT {V}: PRINT \"AGE\": INPUT {W}: PRINT {V}; {W}",
        "10 C = C + 1 INPUT {V}\n20 PRINT C; {V}",
        "10 GOSUB 100 INPUT {V}\n20 PRINT {V}\n30 END\n100 PRINT \"SUB\": C = C + 1: RETURN",
        "10 IF 1 THEN K = K + 1 INPUT {V}\n20 PRINT K; {V}",
        "10 RESTORE READ D(1) INPUT {V}\n15 PRINT D(1); {V}\n20 DATA 4, 5",
        "10 FOR I = 1 TO 3: INPUT {A}(I): NEXT I\n20 PRINT {A}(1); {A}(2); {A}(3)",
        "10 INPUT {A}(INT(RND(1)*10))\n20 FOR I = 0 TO 10: PRINT {A}(I);: NEXT I\n30 PRINT RND(1)",
        "10 I = -1\n20 INPUT {A}(I)\n30 PRINT \"after\"",
        "10 INPUT {A}(K)\n20 PRINT {A}(0); K",
        "10 IF Q THEN INPUT {V}\n20 IF Q = 0 THEN INPUT {W}\n30 PRINT {V}; {W}",
        "10 GOSUB 100: PRINT {V}\n20 END\n100 INPUT {V}: RETURN",
        "10 INPUT {V}\n20 IF {V} = {V} THEN INPUT {W}: PRINT {W}",
    ];
    for tmpl in equiv {
        for numeric in [true, false] {
            for (ww, tt) in [(false, false), (true, false), (false, true)] {
                let (v, wv, a, val, lit) = if numeric { ("X", "Y", "P", "5", "5") } else { ("X$", "Y$", "N$", "hello", "\"hello\"") };
                let text = tmpl.replace("{V}", v).replace("{W}", wv).replace("{A}", a);
                let mut w = Walk::new(ww, tt);
                w.op("seed 7");
                for l in text.split('\n') {
                    w.start(l);
                }
                let a1 = w.ops.len();
                w.start("RUN");
                let mut nr = 0;
                w.drive(&[val.to_string()], &mut nr, 120, false);
                w.state();
                w.op("snap");
                let a2 = w.last();
                // the same program with `INPUT t` replaced by `t = value`
                let mut assign = String::new();
                for l in text.split('\n') {
                    let mut out = String::new();
                    let mut rest = l;
                    while let Some(p) = rest.find("INPUT ") {
                        out.push_str(&rest[..p]);
                        let after = &rest[p + 6..];
                        // the target extends to the next ':' at depth 0 or the end
                        let mut depth = 0;
                        let mut end = after.len();
                        for (i, c) in after.char_indices() {
                            match c {
                                '(' => depth += 1,
                                ')' => depth -= 1,
                                ':' if depth == 0 => {
                                    end = i;
                                    break;
                                }
                                _ => {}
                            }
                        }
                        out.push_str(&format!("{} = {}", after[..end].trim(), lit));
                        rest = &after[end..];
                    }
                    out.push_str(rest);
                    assign.push_str(&out);
                    assign.push('\n');
                }
                w.op(&format!("new {} {}", ww as u8, tt as u8));
                w.op("seed 7");
                for l in assign.trim_end().split('\n') {
                    w.start(l);
                }
                let b1 = w.ops.len();
                w.start("RUN");
                w.drive(&[], &mut nr, 120, false);
                w.state();
                w.op("snap");
                let b2 = w.last();
                let checks = vec![
                    format!("transcript-eq {}-{} {}-{} noreply errline drop=TRX{}", a1, a2, b1, b2, if w.cut { " prefix" } else { "" }),
                    format!("snap-eq {} {} except=reads,lines,loc,fns,data,loops,stack,bp,imm", a2, b2),
                ];
                cases.push(case_from(w, checks, "input-vs-assignment".into(), true, text.replace('\n', " | ")));
            }
        }
    }
    // an INPUT that asked but never stored (the store failed, or the host broke in at the prompt) is over: the NEXT request -
    // typed at the prompt, or reached by a jump - is answered on its own terms
    for abandon in ["10 N = 50\n20 INPUT A(N)\n30 PRINT \"unreached\"", "10 PRINT \"Q\"\n20 INPUT A\n30 PRINT \"unreached\"", "10 INPUT A$(1, 2, 3, 4, 5)\n20 PRINT 2", "10 GOSUB 50\n20 END\n50 FOR I = 1 TO 2 : INPUT A(I * 20) : NEXT I : RETURN"] {
        for (next, reply, probe, want) in [("INPUT B", "8", "PRINT B", "8"), ("INPUT B$", "\"x y", "PRINT B$", "x y"), ("GOTO 900", "9", "PRINT \"-\"", "-"), ("INPUT A(2)", "4", "PRINT A(2)", "4")] {
            let mut w = Walk::new(false, false);
            for l in abandon.split('\n') {
                w.start(l);
            }
            w.start("900 INPUT C : PRINT \"C=\"; C : END");
            w.start("RUN");
            let mut guard = 0;
            while w.state() == "Running" && guard < 20 {
                w.op("cont");
                guard += 1;
            }
            w.op("take");
            if abandon.contains("INPUT A\n") {
                w.op("break");
            } else {
                w.reply("7");
                let mut guard = 0;
                while w.state() == "Running" && guard < 20 {
                    w.op("cont");
                    guard += 1;
                }
            }
            w.op("take");
            w.op("snap");
            // the next request
            w.start(next);
            let mut guard = 0;
            while w.state() == "Running" && guard < 20 {
                w.op("cont");
                guard += 1;
            }
            let asked = w.last();
            w.op("take");
            w.reply(reply);
            let mut takes = vec![];
            let mut guard = 0;
            while w.state() == "Running" && guard < 20 {
                w.op("cont");
                w.op("take");
                takes.push(w.last());
                guard += 1;
            }
            let idle = w.last();
            w.start(probe);
            w.op("take");
            let pt = w.last();
            let mut checks = vec![format!("reply-is {} AwaitingInput", asked), format!("reply-is {} Idle", idle), format!("take-is {} P:{}", pt, crate::imp::hex(&format!("{}\n", want)))];
            if next == "GOTO 900" {
                checks.push(format!("some-take-is {} P:{}", takes.iter().map(|t| t.to_string()).collect::<Vec<_>>().join(","), crate::imp::hex("C=9\n")));
            }
            cases.push(case_from(w, checks, "input-after-abandoned-input".into(), true, format!("{} || then {} <- {:?} || {}", abandon.replace('\n', " | "), next, reply, probe)));
        }
    }
    // what is stored is the first item of the reply AS HANDED OVER: an item that opens a quote and never closes it runs to the
    // very end of the reply, whatever the last character is; an unquoted item is trimmed of blanks of every kind
    for (reply, stored) in [
        ("\"abc\r", "abc\r"), ("\"\r", "\r"), ("abc\r", "abc"), ("\"a b\"\r", "a b"), ("\"x\r\n", "x\r\n"), ("\"tab\t", "tab\t"), (" \"  lead", "  lead"), ("\"q\" ", "q"),
        ("\"abc \u{a0}", "abc \u{a0}"), ("x\u{a0}", "x"), ("\"end \n", "end \n"), ("\" ", " "), ("\"\u{0}", "\u{0}"), ("\"a\u{85}", "a\u{85}"), ("\"a\u{2028}", "a\u{2028}"), ("\"a\u{c}", "a\u{c}"), ("\"a\u{b}", "a\u{b}"),
        ("  two words  ", "two words"), ("\t\"t\r", "t\r"),
    ] {
        for prog in ["10 INPUT A$ : PRINT \"[\"; A$; \"]\"", "10 INPUT N$(2)\n20 B$ = N$(2)\n30 PRINT \"[\"; B$; \"]\""] {
            let mut w = Walk::new(false, false);
            for l in prog.split('\n') {
                w.start(l);
            }
            w.start("RUN");
            let mut guard = 0;
            while w.state() == "Running" && guard < 10 {
                w.op("cont");
                guard += 1;
            }
            w.op("take");
            w.reply(reply);
            let mut guard = 0;
            let mut shown = None;
            while w.state() == "Running" && guard < 10 {
                w.op("cont");
                w.op("take");
                if w.replies.last().map(|r| r.contains("P:")).unwrap_or(false) {
                    shown = Some(w.last());
                }
                guard += 1;
            }
            let ti = shown.unwrap_or(w.last());
            cases.push(case_from(w, vec![format!("take-is {} P:{}", ti, crate::imp::hex(&format!("[{}]\n", stored)))], "stored-as-handed-over".into(), true, format!("{} || reply {:?}", prog.replace('\n', " | "), reply)));
        }
    }
    // an INPUT run at the prompt of a stopped program stores its reply like an assignment and leaves the program resumable
    assign_at_stop_cases(rng, if tier == "thorough" { 200 } else { 30 }, true, &mut cases);
    (cases, false)
}
