//! C15: loading a file equals typing it in; CLI options apply in both modes.
use crate::core::Case;
use crate::gen::hexs;
use crate::prog::{program, GenOpts, Walk};
use crate::rng::Rng;

pub fn cases(rng: &mut Rng, tier: &str) -> (Vec<Case>, bool) {
    let n = if tier == "thorough" { 1500 } else { 120 };
    let mut cases = vec![];
    let opts = GenOpts { allow_input: false, allow_stop: false, allow_else_resume: false, ..Default::default() };
    for i in 0..n {
        let p = program(rng, &opts);
        let mut text = p.text();
        if i % 4 == 0 {
            // nested expressions, some of them statically wrong but unreachable (after END)
            text.push_str("\n8000 END\n8010 X = (((\"A\" + 1)))\n8020 Y = ((((1 +))))");
            text = format!("5 PRINT ((((((((((((((((((((((((((((((((((((((((1))))))))))))))))))))))))))))))))))))))))\n{}", text);
        }
        if i % 5 == 0 {
            // output that does not end in a newline; statements after the last newline-printing PRINT
            text.push_str("\n9990 PRINT \"TOTAL\";\n9991 X = 1");
        }
        if i % 3 == 1 {
            // text that runs to the end of its line: REM text, an open-quoted DATA item — with blanks at the end,
            // indentation, CRLF-less tabs
            text.push_str("\n9992 REM trailing blanks   \n9993 DATA \"NAME   \n9994 READ N$ : PRINT N$; \"|\"\n  9996 PRINT 1\t\n9997 DATA unquoted  ,  x  ");
        }
        if i % 5 == 2 {
            // lines whose statement part is nothing but separators: a spacer, the target of a jump, and one that
            // replaces an earlier line of the same number
            text.push_str("\n9980 GOTO 9983\n9981 PRINT \"SKIPPED\"\n9983 :\n9984 : :\n9985 PRINT \"LANDED\"\n9981 :");
        }
        if i % 3 == 2 {
            // blanks that are not BASIC blanks (no-break, full-width, zero-width no-break) INSIDE literal text: part of the
            // string / remark / DATA item in both modes
            text.push_str("\n9970 PRINT \"x\u{a0}y|\u{3000}|\u{feff}z\"\n9971 REM no\u{a0}break\n9972 DATA a\u{a0}b, \"c\u{3000}\"\n9973 READ U$, V$ : PRINT U$; \"|\"; V$; \"|\"");
        }
        if i % 5 == 3 {
            // the same line number several times in one file: the LAST text wins, also when it differs from the text in force
            // only by letter case inside a string, a remark or a DATA item, or not at all, or returns to an earlier text
            text.push_str("\n9950 print \"hello\"\n9951 DATA abc, \"Def\"\n9952 rem Note\n9950 PRINT \"Hello\"\n9951 data ABC, \"def\"\n9952 REM note\n9953 READ S$, T$ : PRINT S$; T$\n9954 PRINT 1\n9954 PRINT 2\n9954 PRINT 1\n9955 X = 1\n9955 X = 1");
        }
        if i % 6 == 1 {
            // the program asks for more input than there is (both modes meet the end of their input at an INPUT, with prompt
            // text and trace records pending)
            text.push_str("\n9940 PRINT \"HOW MANY\";: INPUT N9\n9941 PRINT \"GOT\"; N9");
        }
        if i % 5 == 4 {
            // legal but rarely written: unary plus in front of a string, NOT of a string, a comparison of strings as a number
            text.push_str("\n9930 W$ = \"WORLD\" : V$ = +W$ : PRINT +\"HELLO \"; V$; NOT W$; (W$ = V$) + 1");
        }
        if i % 4 == 2 {
            // line numbers beyond what any classic BASIC allowed, up to the largest the store takes
            text.push_str("\n63999 X9 = 1\n64000 PRINT \"BIG\"; X9\n100000 Y9 = 2\n4294967296 PRINT Y9\n18446744073709551615 END");
        }
        cases.push(file_case(rng, tier, i, &text, p.features.join("+"), false));
    }
    // files that are well-formed by construction (each of the rarely written but legal forms alone, and all of them
    // together): the static check passes them, so file mode RUNS them - and shows what the piped session shows
    let forms = [
        "20 W$ = \"WORLD\" : V$ = +W$ : PRINT +\"HELLO \"; V$",
        "20 A = +1 : B = -A : C = NOT A : PRINT +A; -B; NOT C; +(A); -(-A)",
        "20 PRINT (\"a\" = \"a\") + 1; (\"a\" < \"b\") * 2; NOT (\"a\" > \"b\")",
        "20 DIM A$(2) : A$(1) = +\"x\" : PRINT A$(1); +A$(2); \"|\"",
        "20 DEF FNS$(T$) = +T$\n30 PRINT FNS$(\"hey\")",
        "20 IF +\"a\" = \"a\" THEN PRINT \"yes\" ELSE PRINT \"no\"",
        "20 FOR I = +1 TO +3 STEP +1 : PRINT I; : NEXT I : PRINT",
        "20 DATA +5, -5, \"+s\"\n30 READ A, B, C$ : PRINT A; B; C$",
        "20 X = 1 : GOSUB 40 : PRINT X : END\n40 X = X + +1 : RETURN",
        "20 PRINT 1 AND \"a\" = \"a\"; 0 OR \"b\" <> \"b\"",
    ];
    let mut all = String::from("10 PRINT \"START\"");
    for (k, f) in forms.iter().enumerate() {
        let text = format!("10 PRINT \"START\"\n{}", f);
        cases.push(file_case(rng, tier, k, &text, "curated".into(), true));
        for l in f.split('\n') {
            let (n, rest) = l.split_once(' ').unwrap();
            let n: u64 = n.parse().unwrap();
            let rest = rest.replace("GOSUB 40", &format!("GOSUB {}", 100 * (k + 1) + 40)).replace(": END", &format!(": GOTO {}", 100 * (k + 2) + 20));
            all.push_str(&format!("\n{} {}", 100 * (k as u64 + 1) + n, rest));
        }
    }
    // whole files in which a line number occurs twice and the LATER line is the longer one, with names that earn static
    // warnings only there (the later line is the program; the static check must be talking about it too)
    for (k, f) in [
        "10 A = 1\n20 PRINT A\n10 A = 1 : PRINT \"X\" : B = 2",
        "10 PRINT 1\n10 PRINT 1; 2; 3; Q; R$; S(1)\n20 PRINT \"end\"",
        "10 X = 1\n20 PRINT X\n20 PRINT X : Y = X + 1 : Z$ = \"z\" : PRINT Y\n10 X = 2 : W = 5\n30 REM done",
        "5 REM short\n5 FOR I = 1 TO 2 : PRINT I; J; K : NEXT I\n5 REM short again\n5 DATA 1, 2 : READ L, M : PRINT L + M + N",
    ].iter().enumerate() {
        cases.push(file_case(rng, tier, k, f, "curated-duplicates".into(), true));
    }
    all.push_str(&format!("\n{} PRINT \"END\"", 100 * (forms.len() + 1)));
    cases.push(file_case(rng, tier, 0, &all, "curated-all".into(), true));
    (cases, false)
}

fn file_case(rng: &mut Rng, tier: &str, i: usize, text: &str, tag: String, curated: bool) -> Case {
        // A: load the file vs type its lines, in-process (implementation vs model, and against each other)
        let mut w = Walk::new(false, false);
        w.op(&format!("load {}", hexs(text)));
        w.op("snap");
        let s1 = w.last();
        w.start("LIST");
        w.op("take");
        let l1 = w.last();
        let a1 = w.ops.len();
        w.start("RUN");
        let mut nr = 0;
        w.drive(&[], &mut nr, 300, false);
        w.state();
        w.op("snap");
        let a2 = w.last();
        w.op("new 0 0");
        for l in text.split('\n') {
            w.start(l);
        }
        w.op("snap");
        let s2 = w.last();
        w.start("LIST");
        w.op("take");
        let l2 = w.last();
        let b1 = w.ops.len();
        w.start("RUN");
        w.drive(&[], &mut nr, 300, false);
        w.state();
        w.op("snap");
        let b2 = w.last();
        let mut checks = vec![
            format!("snap-eq {} {} except=reads", s1, s2),
            format!("same-reply {} {}", l1, l2),
            format!("transcript-eq {}-{} {}-{}{}", a1, a2, b1, b2, if w.cut { " prefix" } else { "" }),
            format!("snap-eq {} {} except=reads", a2, b2),
        ];
        // B: the real binary, file mode vs piped interactive mode, for option combinations
        let combos: Vec<(bool, bool, bool)> = if tier == "thorough" || i % 6 == 0 || curated {
            (0..8).map(|k| (k & 1 != 0, k & 2 != 0, k & 4 != 0)).collect()
        } else {
            vec![(rng.chance(1, 2), rng.chance(1, 2), rng.chance(1, 2))]
        };
        // a program that did not end within the in-process step budget would only time out here
        let combos = if w.cut { vec![] } else { combos };
        for (ww, tt, ss) in combos {
            w.op(&format!("cli {} {} {} {}", ww as u8, tt as u8, ss as u8, hexs(text)));
            checks.push(format!("cli-same {}", w.last()));
            if curated {
                // a file that is well-formed by construction: the static check has nothing to refuse
                checks.push(format!("cli-ran {}", w.last()));
            }
        }
        Case { ops: w.ops, checks, tag, nontrivial: true, show: text.replace('\n', " | ") }
}
