//! C14: LIST output reloads to the same program.
use crate::core::Case;
use crate::gen;
use crate::imp::unhex;
use crate::prog::Walk;
use crate::rng::Rng;

fn storable_line(rng: &mut Rng) -> String {
    match rng.below(17) {
        // look-alike spellings from phones and word processors (typographic quotes around text that contains a straight
        // quote, full-width letters and digits, mathematical operator signs, other quote marks): not BASIC - today such a
        // line is refused; whatever a tokenizer accepts of them must still LIST to something that reads back as itself
        16 => rng.pick(&["PRINT \u{201c}say \"hi\" to \u{201d}", "PRINT \u{201c}plain\u{201d}", "A$ = \u{201c}a\"b\u{201d} + \"c\"", "PRINT \u{2018}x\u{2019}", "PRINT \u{ab}x \"y\"\u{bb}", "PRINT \u{ff02}q\u{ff02}",
            "\u{ff30}\u{ff32}\u{ff29}\u{ff2e}\u{ff34} 1", "PRINT \u{ff11}\u{ff12}", "X = 2 \u{d7} 3", "X = 6 \u{f7} 3", "IF A \u{2264} B THEN 10", "IF A \u{2260} B THEN 10", "X = 1 \u{2212} 2", "DATA \u{201c}a, b\u{201d}, \"c\"",
            "REM \u{201c}quoted\u{201d} \"straight\"", "PRINT \"a\u{201d}b\"", "PRINT \u{201c}open", "PRINT `x`", "PRINT 'x \"y\"'"]).to_string(),
        0 => format!("PRINT {}", rng.pick(&["007", ".5", "1.", "00.100", "123456789012345678901234567890", "0.000000000000000000001", "1e5", "3.14159265358979323846", "9007199254740993", "4.9406564584124654e-324", "1.7976931348623157", "100000000000000000000000", "0.1+0.2"])),
        1 => gen::data_statement(rng),
        2 => format!("DATA {}", rng.pick(&["hello \"there\"", "\"a\" ", "1,,2", " , ", "\"\"", "x\"y\"z, w", "inf, nan, -0, 1e400", "\"unterminated", "a:PRINT 1", "\"q\":PRINT 2", "é, \"日本\"", "\u{a0}\"x\"", "1,\u{3000}\"a,b\", END", "\x0b\"q, r\"", "\u{2003}\"em\" , \u{a0}7", "a\u{a0}, \u{a0}b", "  spaced  out  ", "1 2 3", "-", "+5, -.5, 5."])),
        3 => format!("REM{}", rng.pick(&["", " note", "  two  spaces ", ": not a colon \"", " é😀", "ARK"])),
        4 => format!("PRINT \"{}\"", rng.pick(&["", " ", "a  b", "REM x", "é", "x:y;z,w"])),
        5 => rng.pick(&["IFXTHENY", "FORI=1TO10STEP2", "ATOM=SCORE", "GOTO10", "GO TO 10", "X=A<=B<>C>=D", "X = A < = B", "NOTX", "PRINTNOTA", "LETTER=1", "? X;Y,Z", "NEXTI:RETURN", "ONE=TOTAL", "IF A THEN 100 ELSE 200"]).to_string(),
        6..=8 => gen::simple_statement(rng),
        9 => {
            let a = gen::simple_statement(rng);
            let b = gen::simple_statement(rng);
            format!("{}:{}", a, b)
        }
        10 => {
            // every adjacency of relational characters
            let n = rng.range(2, 4);
            let ops: String = (0..n).map(|_| rng.pick(&["=", "<", ">", " "])).collect();
            format!("X{}Y", ops)
        }
        12 => gen::long_numeral(rng),
        // a leading-point numeral right after an identifier (the only numerals that can follow one), incl. ones that round up to 1
        13 => format!(
            "{} {} {}",
            rng.pick(&["PRINT", "X =", "IF", "PRINT A$;"]),
            rng.pick(&["A", "B1", "SCORE", "N$", "Z9"]),
            rng.pick(&[".99999999999999999999", ".9999999999999999", ".99999999999999995", ".99999999999999994", ".0", ".00", ".5", ".25", ".000000000000000000001", ".1", "." , ".999999999999999999999999999999999999999", ".5 THEN 10", ".99999999999999999999 THEN 10"])
        ),
        11 => format!("X = {}", gen::long_numeral(rng)),
        _ => gen::token_soup(rng),
    }
}

pub fn cases(rng: &mut Rng, tier: &str) -> (Vec<Case>, bool) {
    let n = if tier == "thorough" { 4000 } else { 400 };
    let mut cases = vec![];
    // very long lines typed WITHOUT blanks: LIST puts a blank between tokens and re-renders DATA items, so the listing is up to
    // 2.5 times as long as what was typed - and is a line like any other for the interpreter that reloads it
    let sizes: &[usize] = if tier == "thorough" { &[600, 3000, 6000, 12000, 30000] } else { &[600, 6000] };
    for &n in sizes {
        let data = format!("DATA {}", vec!["1"; n].join(","));
        let sum = format!("IF 0 THEN PRINT {}", vec!["1"; n].join("+"));
        let strs = format!("DATA {}", vec!["ab"; n / 2].join(","));
        let prints = format!("PRINT {}", vec!["1"; n / 2].join(";"));
        for (lo, hi) in [(data.clone(), "READ A, B : PRINT A + B".to_string()), (sum, "PRINT \"after\"".to_string()), (strs, "READ A$ : PRINT A$".to_string()), (prints, "PRINT 2".to_string())] {
            let mut w = Walk::new(false, false);
            w.start(&format!("10 {}", lo));
            w.start(&format!("20 {}", hi));
            w.start("LIST");
            w.op("take");
            let l1 = w.last();
            let a1 = w.ops.len();
            w.start("RUN");
            let mut nr = 0;
            w.drive(&[], &mut nr, 20, false);
            w.state();
            let a2 = w.last();
            let listing: Vec<String> = w.replies[l1].split(' ').filter_map(|r| r.strip_prefix("P:")).filter_map(unhex).map(|l| l.trim_end_matches('\n').to_string()).collect();
            w.op("new 0 0");
            for l in &listing {
                w.start(l);
            }
            w.start("LIST");
            w.op("take");
            let l2 = w.last();
            let b1 = w.ops.len();
            w.start("RUN");
            w.drive(&[], &mut nr, 20, false);
            w.state();
            let b2 = w.last();
            cases.push(Case { ops: w.ops, checks: vec![format!("same-reply {} {}", l1, l2), format!("transcript-eq {}-{} {}-{}", a1, a2, b1, b2)], tag: "long-lines-without-blanks".into(), nontrivial: true, show: format!("{} items: {}…", n, lo.chars().take(30).collect::<String>()) });
        }
    }
    // texts of equal length that agree in their first 32 / 64 / 255 bytes, in different kinds of token (string, remark, DATA
    // item), entered in DEScending line order - the reload enters them ascending
    for prefix_len in [32usize, 33, 64, 255] {
        let pre = "-".repeat(prefix_len);
        for (hi, lo) in [
            (format!("PRINT \" {} total\"", pre), format!("REM {} notes", pre)),
            (format!("READ R$ : PRINT \"|{}| qty |\" : PRINT R$", pre), format!("DATA \"|{}|  17 |\"", pre)),
            (format!("A$ = \"{}ab\" : PRINT A$", pre), format!("B$ = \"{}cd\" : PRINT B$", pre)),
            (format!("REM{}xy", pre), format!("DATA {}zw", pre)),
        ] {
            let mut w = Walk::new(false, false);
            w.start(&format!("20 {}", hi));
            w.start(&format!("10 {}", lo));
            w.start("LIST");
            w.op("take");
            let l1 = w.last();
            let a1 = w.ops.len();
            w.start("RUN");
            let mut nr = 0;
            w.drive(&[], &mut nr, 20, false);
            w.state();
            let a2 = w.last();
            // reload what LIST printed, in listing order, into a fresh interpreter
            let listing: Vec<String> = w.replies[l1].split(' ').filter_map(|r| r.strip_prefix("P:")).filter_map(unhex).map(|l| l.trim_end_matches('\n').to_string()).collect();
            w.op("new 0 0");
            for l in &listing {
                w.start(l);
            }
            w.start("LIST");
            w.op("take");
            let l2 = w.last();
            let b1 = w.ops.len();
            w.start("RUN");
            w.drive(&[], &mut nr, 20, false);
            w.state();
            let b2 = w.last();
            cases.push(Case { ops: w.ops, checks: vec![format!("same-reply {} {}", l1, l2), format!("transcript-eq {}-{} {}-{}", a1, a2, b1, b2)], tag: "equal-prefix-texts".into(), nontrivial: true, show: format!("{}-byte common prefix: {} / {}", prefix_len, hi.chars().take(24).collect::<String>(), lo.chars().take(24).collect::<String>()) });
        }
    }
    for _ in 0..n {
        let mut w = Walk::new(false, false);
        let k = rng.range(1, 8);
        let mut kinds = std::collections::BTreeSet::new();
        for i in 0..k {
            let t = storable_line(rng);
            let r = w.start(&format!("{} {}", (i + 1) * 10, t));
            kinds.insert(if r == "ok" { "stored" } else { "rejected" });
        }
        if rng.chance(1, 4) {
            // the smallest and the largest line number there is
            w.start("0 DATA zero");
            w.start("18446744073709551615 DATA \"LAST\" : PRINT \"last line\"");
            kinds.insert("extreme-numbers");
        }
        // a tail that dumps every DATA item READ sees
        w.start("9000 READ Q$ : PRINT \"[\"; Q$; \"]\" : GOTO 9000");
        w.op("take");
        if rng.chance(1, 3) {
            // the stored program has a history: it ran (READ has executed), then lines were overwritten / deleted - in
            // particular DATA lines replaced by lines without DATA.  The listing must describe the program as it is NOW.
            w.start("GOTO 9000");
            let mut nr0 = 0;
            w.drive(&["1".to_string()], &mut nr0, 60, false);
            w.op("take");
            for _ in 0..rng.range(1, 3) {
                let n = (rng.range(1, k) as u64) * 10;
                match rng.below(4) {
                    0 => w.start(&format!("{} REM gone", n)),
                    1 => w.start(&format!("{}", n)),
                    2 => w.start(&format!("{} DATA replaced, 2", n)),
                    _ => w.start(&format!("{} PRINT \"p\"", n)),
                };
            }
            w.op("take");
            kinds.insert("edited-after-run");
        }
        w.start("LIST");
        w.op("take");
        let l1 = w.last();
        let listing = w.replies[l1].clone();
        w.op("snap");
        let s1 = w.last();
        let a1 = w.ops.len();
        w.start("RUN");
        let mut nr = 0;
        w.drive(&["1".to_string(), "x".to_string()], &mut nr, 120, false);
        w.start("GOTO 9000");
        w.drive(&["1".to_string()], &mut nr, 120, false);
        w.state();
        let a2 = w.last();
        // reload the listing into a fresh interpreter
        w.op("new 0 0");
        let mut n_lines = 0;
        for rec in listing.split(' ') {
            if let Some(h) = rec.strip_prefix("P:") {
                if let Some(text) = unhex(h) {
                    let line = text.strip_suffix('\n').unwrap_or(&text).to_string();
                    w.start(&line);
                    n_lines += 1;
                }
            }
        }
        w.op("take");
        w.start("LIST");
        w.op("take");
        let l2 = w.last();
        w.op("snap");
        let s2 = w.last();
        let b1 = w.ops.len();
        w.start("RUN");
        let mut nr = 0;
        w.drive(&["1".to_string(), "x".to_string()], &mut nr, 120, false);
        w.start("GOTO 9000");
        w.drive(&["1".to_string()], &mut nr, 120, false);
        w.state();
        let b2 = w.last();
        let checks = vec![
            format!("same-reply {} {}", l1, l2),
            format!("snap-field-eq {} {} lines", s1, s2),
            format!("transcript-eq {}-{} {}-{}{}", a1, a2, b1, b2, if w.cut { " prefix" } else { "" }),
        ];
        let show = w.ops.iter().take_while(|o| *o != "take").filter_map(|o| o.strip_prefix("start ").and_then(unhex)).collect::<Vec<_>>().join(" | ");
        cases.push(Case { ops: w.ops, checks, tag: format!("{}:{}lines", kinds.iter().cloned().collect::<Vec<_>>().join("+"), n_lines), nontrivial: n_lines > 1, show });
    }
    (cases, false)
}
