//! Analyzer / language-server slices: C05, C06, C20 (and the analyzer part of C13).
use crate::core::Case;
use crate::gen::{self, hexs};
use crate::prog::{program, GenOpts, Walk};
use crate::rng::Rng;

fn doc_line(rng: &mut Rng, numbers: &[u64]) -> String {
    let n = rng.pick(numbers);
    match rng.below(16) {
        0..=5 => format!("{} {}", n, gen::simple_statement(rng)),
        6 => format!("{}{}", n, rng.pick(&["", " ", "  "])), // emptied line
        7 => gen::simple_statement(rng), // unnumbered
        8 => String::new(),
        9 => format!("{} {}", n, gen::token_soup(rng)),
        10 => format!("{} {}", n, rng.pick(&["PRINT \"unterminated", "X = 1.2.3", "é", "PRINT 1 % 2", "A$ = \"日本", "PRINT 1 + 😀",
            // an illegal character of every UTF-8 length class and lead byte (the error range covers exactly that character)
            "PRINT \u{e01}", "\u{905} = 1", "PRINT 1 \u{f00} 2", "X = \u{800}", "PRINT \u{fff}5", "\u{80}", "PRINT \u{7ff}", "PRINT \u{1000}", "PRINT \u{ffff}", "PRINT \u{10000}", "PRINT \u{10ffff} + 1", "PRINT \u{a3}5"])),
        11 => format!("{} REM {}", n, rng.pick(&["café", "日本語", "😀 emoji", "plain", "\u{2028}sep"])),
        12 => format!("{} PRINT \"{}\" + 1", n, rng.pick(&["é", "😀", "ab", "日本"])),
        13 => format!("{}{} {}", rng.pick(&[" ", "   ", "\t", "\u{a0}", "\u{3000}", " \u{a0}", "\u{2003}\u{a0} "]), n, gen::simple_statement(rng)),
        14 => format!("{} IF {} THEN {} ELSE {}", n, gen::num_expr(rng, 1), rng.pick(&["100", "PRINT 1", "GOTO 10", "X = \"s\""]), rng.pick(&["20", "PRINT A$", "Y = 1"])),
        _ => format!("{} {}", n, rng.pick(&["GOTO 99", "GOSUB 10", "NEXT I", "FOR I = 1 TO 3", "FOR A$ = 1 TO 2", "DEF FNA(X) = X + 1", "DEF FNB(X) = \"s\"", "Y = FNA(2)", "PRINT FNA(\"x\")", "INPUT Q", "READ R, S$", "DATA 1, two", "DIM D(5)", "STOP", "END", "RETURN", "LET", "LET 5", "PRINT (1", "PRINT 1 +", "ELSE PRINT 1", "IF 1 THEN", "NEXT", "X = = 1",
            "DEF", "DEF 5", "DEF FNA(", "DEF FNA(5) = 1", "DEF FNA(X", "DEF FNA(X Y) = 1", "DEF FNA(X,) = 1", "DEF FNA() = 1", "DEF FNA(X) 1", "GOSUB", "GOTO X", "FOR = 1 TO 2", "FOR I = \"a\" TO 2", "DIM", "DIM A()", "READ ,", "INPUT", "INPUT 5", "A(1", "NEXT I, J"])),
    }
}

pub fn document(rng: &mut Rng) -> String {
    let k = rng.range(0, 9);
    let numbers: Vec<u64> = vec![10, 20, 30, 40, 50, 10, 20, 7, 65535, 63999, 64000, 100000, 18446744073709551615];
    let mut lines = vec![];
    if rng.chance(1, 3) {
        let p = program(rng, &GenOpts::default());
        for (n, t) in &p.lines {
            lines.push(format!("{} {}", n, t));
        }
    }
    for _ in 0..k {
        lines.push(doc_line(rng, &numbers));
    }
    if rng.chance(1, 6) {
        // deep nesting inside a file
        let n = rng.pick(&[47usize, 48, 49, 60, 300]);
        lines.push(match rng.below(4) {
            0 => format!("60 PRINT {}1{}", "(".repeat(n), ")".repeat(n)),
            1 => format!("60 PRINT {}1{}", "A(".repeat(n), ")".repeat(n)),
            2 => format!("60 {}PRINT 1", "IF 1 THEN ".repeat(n)),
            _ => format!("60 X = {}1{}", "ABS(".repeat(n), ")".repeat(n)),
        });
    }
    if rng.chance(1, 8) {
        // a line number that does not fit u64 (the line is not a numbered line at all), anywhere incl. last
        let at = rng.range(0, lines.len());
        lines.insert(at, format!("{} {}", rng.pick(&["18446744073709551616", "99999999999999999999", "340282366920938463463374607431768211456"]), rng.pick(&["PRINT 1", "", "X = \"s\" + 1", "PRINT \"é"])));
    }
    let sep = rng.pick(&["\n", "\n", "\n", "\r\n", "\r"]);
    let mut doc = lines.join(sep);
    if rng.chance(1, 10) {
        // a byte-order mark in front of the first line
        doc = format!("{}{}", '\u{feff}', doc);
    }
    if rng.chance(1, 3) {
        doc.push_str(sep);
    }
    doc
}

/// a long file: hundreds of lines, most of them producing a diagnostic, with good lines among and after them
/// (anything that gives up, truncates or goes quadratic after many diagnostics shows here)
pub fn long_document(rng: &mut Rng) -> String {
    let bad = rng.pick(&[60usize, 99, 100, 101, 150, 400]);
    let numbers: Vec<u64> = (1..=40).map(|i| i * 10).collect();
    let mut lines = vec![];
    for i in 0..bad {
        lines.push(match rng.below(6) {
            0 => gen::simple_statement(rng),                 // unnumbered
            1 => format!("{}", rng.pick(&numbers)),          // emptied
            2 => format!("{} PRINT \"open {}", rng.pick(&numbers), i),
            3 => format!("{} X = 1.2.3", 5000 + i),
            4 => format!("{} PRINT 1 +", 7000 + i),
            _ => format!("{} PRINT \"é\" + {}", 9000 + i, i),
        });
        if rng.chance(1, 10) {
            lines.push(format!("{} {}", 20000 + i, gen::simple_statement(rng)));
        }
    }
    for i in 0..rng.range(1, 5) {
        lines.push(format!("{} {}", 30000 + i * 10, gen::simple_statement(rng)));
    }
    let sep = rng.pick(&["\n", "\n", "\r\n"]);
    lines.join(sep)
}

/// a definition of every arity (also named like a built-in, also calling ITSELF with a wrong argument list in its body)
/// against calls of every arity and argument kind
pub fn arity_documents() -> Vec<String> {
    let defs = ["DEF FNA(X) = X + 1", "DEF FNA(X, Y) = X + Y", "DEF FNA(X, Y, Z) = X + Y * Z", "DEF FNA(A$) = 1", "DEF FNA(X, B$) = X", "DEF FNA$(X) = \"s\"", "DEF FNA(X) = \"s\"",
        // a definition named like a built-in: both walkers must resolve the call the same way
        "DEF INT(A$) = 1", "DEF ABS(X, Y) = X - Y", "DEF RND(X$) = 1", "DEF ABS(X) = X + 1",
        // the body refers to the function being defined, with too few / too many / wrongly typed arguments
        "DEF FNA(X, Y) = FNA(X) + Y", "DEF FNA(X) = FNA(X, 1)", "DEF FNA(A$) = FNA(1)", "DEF FNA(X, Y) = FNA(X, Y, 1)", "DEF FNA(X) = X + FNA()"];
    let args = ["", "1", "1,", "1, 2", "1, 2,", "1, 2, 3", "1, 2, 3, 4", "\"s\"", "1, \"s\"", "\"s\", 1", ",1", "1 2", "(1), (2)", "FNA(1), 2"];
    let mut out = vec![];
    for d in defs {
        for a in args {
            for call in ["PRINT FNA({})", "Y = FNA({}) * 2", "PRINT 1 + FNA({})"] {
                let fname = d[4..d.find('(').unwrap()].to_string();
                out.push(format!("10 {}\n20 {}", d, call.replace("{}", a).replace("FNA(", &format!("{}(", fname))));
            }
        }
    }
    out
}

/// files whose line numbers differ by a power of two (2^8 .. 2^63): anything that keys a table by a narrower integer than
/// the 64-bit line number confuses the two lines; every line carries a diagnostic or a use that locates one
pub fn aliasing_document(rng: &mut Rng) -> String {
    let k = rng.pick(&[8u32, 16, 31, 32, 32, 32, 33, 53, 63]);
    let base = rng.pick(&[0u64, 7, 10, 255, 65535]);
    let hi = base.wrapping_add(1u64 << k);
    let bodies = ["A = \"x\"", "REM HI", "PRINT 1; 2; 3; Y", "PRINT X", "PRINT \"é\" + 1", "X = 1 +", "GOTO 5", "PRINT Q(1, 2)", "NEXT Z"];
    let mut lines = vec![format!("{} {}", base, rng.pick(&bodies)), format!("{} {}", hi, rng.pick(&bodies))];
    if rng.chance(1, 2) {
        lines.swap(0, 1);
    }
    if rng.chance(1, 2) {
        lines.push(format!("{} {}", base + 1, rng.pick(&bodies)));
    }
    if rng.chance(1, 3) {
        lines.insert(0, format!("{} {}", hi.wrapping_add(1u64 << k.min(62)), rng.pick(&bodies)));
    }
    lines.join("\n")
}

fn analyze_op(doc: &str) -> String {
    if doc.is_empty() {
        "analyze".to_string()
    } else {
        format!("analyze {}", hexs(doc))
    }
}

pub fn c05_cases(rng: &mut Rng, tier: &str) -> (Vec<Case>, bool) {
    let n = if tier == "thorough" { 20_000 } else { 1_500 };
    let mut cases = vec![];
    // the shapes named by the property and by earlier defects
    let fixed = ["", "\n", "10 X = 1\n10", "10 PRINT 1 +\n10 PRINT \"", "10 PRINT X\n10 PRINT \"", "10 é", "10 PRINT 5\n10 PRINT 5 + 6 +", "10 PRINT 1\n10 PRINT 1: PRINT Q",
        "10 PRINT 1 + 2 + 3\n\n10 PRINT 1 + \"one\"", "10 print 1\n20\n30 count = 12345\n40 print count", "foo\n\n10", "10 REM x\r\n20 PRINT \"y\r\n", "  10   PRINT   1  ", "10 GOTO 10\n10 GOTO 20\n20 GOTO 10"];
    for d in fixed {
        cases.push(Case { ops: vec![analyze_op(d)], checks: vec!["analysis-wellformed 0".into()], tag: "fixed".into(), nontrivial: true, show: format!("{:?}", d) });
    }
    // nesting thousands deep, every nesting construct (an unbounded recursion aborts the process)
    for n in [1200usize, 4000] {
        for d in [
            format!("10 PRINT {}1{}", "(".repeat(n), ")".repeat(n)),
            format!("10 PRINT {}1{}", "A(".repeat(n), ")".repeat(n)),
            format!("10 PRINT {}1{}", "ABS(".repeat(n), ")".repeat(n)),
            format!("10 {}PRINT 1", "IF 1 THEN ".repeat(n)),
            format!("10 X({}1{}) = 1", "B(".repeat(n), ")".repeat(n)),
            format!("10 DEF FNA(X) = {}1{}\n20 PRINT FNA(1)", "(".repeat(n), ")".repeat(n)),
        ] {
            cases.push(Case { ops: vec![analyze_op(&d)], checks: vec!["analysis-wellformed 0".into()], tag: "very-deep".into(), nontrivial: true, show: format!("{}… ({} levels)", d.chars().take(30).collect::<String>(), n) });
        }
    }
    for d in [format!("10 PRINT 1{}", ":".repeat(400_000)), format!("10 {}PRINT 1\n20 PRINT 2", ": ".repeat(200_000)), format!("10 IF 1 THEN {}PRINT 1", ":".repeat(100_000)), format!("10 PRINT {}", vec!["1"; 100_000].join(" OR ")), format!("10 X = {}", vec!["1"; 100_000].join(" + "))] {
        cases.push(Case { ops: vec![analyze_op(&d)], checks: vec!["analysis-wellformed 0".into()], tag: "impl-only:flat-run".into(), nontrivial: true, show: format!("{}… ({} bytes)", d.chars().take(24).collect::<String>(), d.len()) });
    }
    for d in arity_documents() {
        cases.push(Case { ops: vec![analyze_op(&d)], checks: vec!["analysis-wellformed 0".into()], tag: "function-arity".into(), nontrivial: true, show: d.replace('\n', " | ") });
    }
    for _ in 0..(n / 15).max(40) {
        let d = aliasing_document(rng);
        cases.push(Case { ops: vec![analyze_op(&d)], checks: vec!["analysis-wellformed 0".into()], tag: "aliasing-line-numbers".into(), nontrivial: true, show: d.replace('\n', " | ") });
    }
    for _ in 0..(n / 150).max(6) {
        let d = long_document(rng);
        cases.push(Case { ops: vec![analyze_op(&d)], checks: vec!["analysis-wellformed 0".into()], tag: "long-file".into(), nontrivial: true, show: format!("{} lines: {:?}…", d.lines().count(), d.chars().take(80).collect::<String>()) });
    }
    for _ in 0..n {
        let d = document(rng);
        let kinds = d.split(['\n', '\r']).count();
        cases.push(Case { ops: vec![analyze_op(&d)], checks: vec!["analysis-wellformed 0".into()], tag: format!("{}-lines", kinds.min(12)), nontrivial: kinds > 1, show: format!("{:?}", d.chars().take(200).collect::<String>()) });
    }
    (cases, false)
}

pub fn c20_cases(rng: &mut Rng, tier: &str) -> (Vec<Case>, bool) {
    let n = if tier == "thorough" { 1_500 } else { 150 };
    let mut cases = vec![];
    for _ in 0..n {
        // one server, a sequence of open + change notifications
        let k = rng.range(1, 8);
        let mut ops = vec!["new 0 0".to_string()];
        if rng.chance(1, 2) {
            ops.push(format!("lsphello {}", rng.below(5)));
        }
        let mut checks = vec![];
        let mut show = vec![];
        for _ in 0..k {
            let d = match rng.below(12) {
                0 => "10 PRINT \"é\" + 1".to_string(),
                1 => "10 REM hi\r\n20 PRINT \"x".to_string(),
                2 => "10 PRINT 1\r20 GOTO 99".to_string(),
                3 => "10 A$ = \"😀é\" : PRINT A$ + 1\r\n\r\n20 REM 日本語\n".to_string(),
                4 => "10 REM café\u{2028}au lait\n20 PRINT \"x\u{2029}y\";A".to_string(),
                5 if rng.chance(1, 4) => long_document(rng),
                6 if rng.chance(1, 2) => aliasing_document(rng),
                _ => document(rng),
            };
            ops.push(if d.is_empty() { "lsp".to_string() } else { format!("lsp {}", hexs(&d)) });
            checks.push(format!("lsp-wellformed {}", ops.len() - 1));
            show.push(d.chars().take(60).collect::<String>());
        }
        cases.push(Case { ops, checks, tag: format!("{}-notifications", k), nontrivial: k > 1, show: format!("{:?}", show) });
    }
    // several documents open side by side (URIs that differ in case, escaping, directory): an update of one must not
    // change what the server answers for another
    for _ in 0..(n / 10).max(6) {
        let mut ops = vec!["new 0 0".to_string()];
        let mut checks = vec![];
        let mut texts: Vec<Option<String>> = vec![None; 5];
        let mut show = vec![];
        for _ in 0..rng.range(3, 10) {
            let k = rng.below(5);
            if texts[k].is_some() && rng.chance(1, 3) {
                // ask again for a document that was not just updated
                let t = texts[k].clone().unwrap();
                ops.push(if t.is_empty() { format!("lspq {}", k) } else { format!("lspq {} {}", k, hexs(&t)) });
            } else {
                let d = if rng.chance(1, 3) { document(rng) } else { format!("{} PRINT \"{}\" + {}", (k + 1) * 10, rng.pick(&["é", "doc", "😀"]), k) };
                // an update of an open document is a change notification or - one time in four - the document opened again
                let verb = if texts[k].is_some() && rng.chance(1, 4) { "lspo" } else { "lspu" };
                ops.push(if d.is_empty() { format!("{} {}", verb, k) } else { format!("{} {} {}", verb, k, hexs(&d)) });
                checks.push(format!("lsp-wellformed {}", ops.len() - 1));
                show.push(format!("{}{}:{}", if verb == "lspo" { "reopen " } else { "" }, k, d.chars().take(30).collect::<String>()));
                texts[k] = Some(d);
            }
        }
        // finally every open document once more
        for k in 0..5 {
            if let Some(t) = &texts[k] {
                ops.push(if t.is_empty() { format!("lspq {}", k) } else { format!("lspq {} {}", k, hexs(t)) });
            }
        }
        cases.push(Case { ops, checks, tag: "several-documents".into(), nontrivial: true, show: format!("{:?}", show) });
    }
    // a document with more than a thousand diagnostics (and one real error after them): every one is published
    for (warn_lines, tail) in [(1001usize, ""), (1000, "\n10 PRINT \"é\" + 1"), (1200, "\n20 GOTO 99")] {
        let mut d = String::new();
        for i in 0..warn_lines {
            if i > 0 {
                d.push('\n');
            }
            d.push_str(if i % 2 == 0 { "PRINT 1" } else { "X = 2" });
        }
        d.push_str(tail);
        let ops = vec!["new 0 0".to_string(), format!("lsp {}", hexs(&d))];
        cases.push(Case { ops, checks: vec!["lsp-wellformed 1".into()], tag: "thousand-diagnostics".into(), nontrivial: true, show: format!("{} unnumbered lines{}", warn_lines, tail.replace('\n', " | ")) });
    }
    // every handshake a client may open with, then documents with text outside ASCII before and inside the reported ranges
    for hello in 0..5 {
        let mut ops = vec!["new 0 0".to_string(), format!("lsphello {}", hello)];
        let mut checks = vec![];
        for d in ["10 PRINT \"é\" + 1", "10 DATA café, \"naïve\", 😀:PRINT 1 +", "10 REM 日本語\n20 A$ = \"😀é\" : PRINT A$ + 1", "10 PRINT \"ééé\"; X\n20 GOTO 99"] {
            ops.push(format!("lsp {}", hexs(d)));
            checks.push(format!("lsp-wellformed {}", ops.len() - 1));
        }
        cases.push(Case { ops, checks, tag: "handshakes".into(), nontrivial: true, show: format!("handshake {}", hello) });
    }
    // one document over two editing sessions: opened, changed several times (the version grows), opened again (the version
    // starts again at 1), changed again - every notification is answered for ITS text
    for (close, k) in [(true, 0usize), (false, 0), (true, 3), (false, 2)] {
        let texts = ["10 PRINT 1", "10 PRINT 1\n20 GOTO 99", "10 PRINT \"é\" + 1\n20 X = 1.2.3\n30 REM end", "10 A = 1 : B = 2 : C = 3", "", "10 PRINT \"open", "10 FOR I = 1 TO 3\n20 NEXT J", "10 REM done"];
        let mut ops = vec!["new 0 0".to_string()];
        let mut checks = vec![];
        for (i, t) in texts.iter().enumerate() {
            // (`lspo` sends a close first when the text has an even length)
            let t = if i == 4 { if close { "" } else { " " } } else { t };
            let word = if i == 4 { "lspo" } else { "lspu" };
            ops.push(if t.is_empty() { format!("{} {}", word, k) } else { format!("{} {} {}", word, k, hexs(t)) });
            checks.push(format!("lsp-wellformed {}", ops.len() - 1));
        }
        cases.push(Case { ops, checks, tag: "two-editing-sessions".into(), nontrivial: true, show: format!("document {}: four changes, opened again ({} close), three changes", k, if close { "after a" } else { "without" }) });
    }
    // the same document opened twice with different texts (with or without a close in between): the second open is
    // answered for ITS text - shorter, longer, clean after broken, broken after clean
    let pairs = [("10 PRINT \"é\" + 1\n20 GOTO 99\n30 X = 1.2.3", "10 PRINT 1"), ("10 PRINT 1", "10 PRINT \"é\" + 1\n20 GOTO 99"), ("10 REM a\n20 REM b\n30 PRINT \"x", ""), ("", "10 PRINT \"open")];
    for (first, second) in pairs {
        for pad in ["", " "] {
            let second = format!("{}{}", second, pad); // the padding flips whether a close is sent
            let mut ops = vec!["new 0 0".to_string()];
            ops.push(if first.is_empty() { "lspu 0".to_string() } else { format!("lspu 0 {}", hexs(first)) });
            ops.push(if second.is_empty() { "lspo 0".to_string() } else { format!("lspo 0 {}", hexs(&second)) });
            ops.push(if second.is_empty() { "lspq 0".to_string() } else { format!("lspq 0 {}", hexs(&second)) });
            cases.push(Case { ops, checks: vec!["lsp-wellformed 1".into(), "lsp-wellformed 2".into()], tag: "reopened".into(), nontrivial: true, show: format!("{:?} then open again {:?}", first, second) });
        }
    }
    (cases, false)
}

/// analyzer verdict vs execution
pub fn c06_cases(rng: &mut Rng, tier: &str) -> (Vec<Case>, bool) {
    let n = if tier == "thorough" { 6_000 } else { 500 };
    let mut cases = vec![];
    // straight-line single lines (no conditional, transfer, INPUT, DEF or call): analysis error => execution fails
    for _ in 0..n {
        let k = rng.range(1, 3);
        let mut parts = vec![];
        for _ in 0..k {
            parts.push(match rng.below(16) {
                // valid but unusual operand positions: a unary operator right after a binary one, nested unary in arguments
                14 => format!("PRINT {}", rng.pick(&["2 ^ -1", "10 ^ -N", "4 ^ +2", "7 ^ NOT F", "2 ^ 2 ^ -1", "3 * -2", "3 - -2", "1 AND NOT 0", "ABS(-3) ^ -1", "1 < -1", "\"a\" = \"a\" AND NOT \"\"", "INT(- .5)", "2 ^ -(1)", "- 2 ^ 2"])),
                0..=3 => gen::simple_statement(rng).replace("RND(", "ABS("),
                4 => format!("{} = {}", gen::num_var(rng), gen::str_expr(rng, 0)),
                5 => format!("{} = {}", gen::str_var(rng), gen::num_expr(rng, 1).replace("RND(", "ABS(")),
                6 => format!("X = {} = {}", gen::str_expr(rng, 0), gen::str_expr(rng, 0)),
                7 => format!("S$ = {} {} {}", gen::str_expr(rng, 0), rng.pick(&["=", "AND", "OR", "<"]), gen::str_expr(rng, 0)),
                8 => format!("PRINT {}{}", rng.pick(&["+", "-", "NOT "]), gen::str_expr(rng, 0)),
                9 => format!("X = {} {} {} {} {}", gen::str_expr(rng, 0), rng.pick(&["=", "<", "<>"]), gen::str_expr(rng, 0), rng.pick(&["=", ">=", "<>"]), rng.pick(&["1", "C$", "\"R\"", "0"])),
                10 => format!("PRINT {}", rng.pick(&["(1", "1 +", ")", "1 2", "\"a\" \"b\"", ",,;", "A(", "A()", "A(1,)", "ABS()", "ABS(\"s\")", "INT(1,2)"])),
                11 => format!("DIM {}", rng.pick(&["A(5)", "A$(2,2)", "A", "A(\"x\")", "5", "A(1)(2)"])),
                12 => format!("READ {}", rng.pick(&["A", "A$, B", "A(1)", "5", ""])),
                13 => {
                    // every statement that takes a variable, with every shape of target: scalar, cell, cell of a cell, string
                    // cell, parenthesised name, numeral - both walkers must accept and refuse the same shapes
                    let t = rng.pick(&["A", "A(1)", "A(1, 2)", "A(1)(2)", "A$", "A$(1)", "(A)", "5", "A(\"x\")", "A(", "A()", "K(I + 1)"]);
                    match rng.below(6) {
                        0 => format!("FOR {} = 1 TO 3", t),
                        1 => format!("READ {}", t),
                        2 => format!("LET {} = 1", t),
                        3 => format!("{} = 1", t),
                        4 => format!("DIM {}", t),
                        _ => format!("FOR I = {} TO {} STEP {}", t, t, t),
                    }
                }
                _ => format!("{} {}", rng.pick(&["LET", "LET X", "LET X =", "X", "X =", "= 1", "X = 1 = ", "FOO BAR"]), ""),
            });
        }
        let line = parts.join(" : ");
        let text = format!("10 {}", line);
        let mut w = Walk::new(false, false);
        w.op(&analyze_op(&text));
        let ai = w.last();
        // the range starts at the entry of the line: a line the interpreter refuses to store (tokenization error) fails there
        let a = w.ops.len();
        w.start(&text);
        w.start("RUN");
        let mut nr = 0;
        w.drive(&[], &mut nr, 60, false);
        w.state();
        let b = w.last();
        cases.push(Case { ops: w.ops, checks: vec![format!("agree-straight {} {}-{}", ai, a, b)], tag: "straight-line".into(), nontrivial: true, show: text });
    }
    // many rejected lines (nested to different depths) followed by a valid straight-line line: the rejection of
    // earlier lines must not make the analyzer reject the valid one
    for _ in 0..(n / 10).max(8) {
        let k = rng.range(3, 60);
        let mut lines = vec![];
        for i in 0..k {
            let depth = rng.range(0, 12);
            let bad = rng.pick(&["\"A\" + 1", "1 + \"A\"", "X$ * 2", "-\"s\"", "1 +", ")"]);
            lines.push(format!("{} X = {}{}{}", (i + 1) * 10, "(".repeat(depth), bad, ")".repeat(depth)));
        }
        let good = rng.pick(&["PRINT 1", "Y = 2 + 3", "PRINT ((1))", "Z$ = \"ok\""]);
        lines.push(format!("9000 {}", good));
        let text = lines.join("\n");
        let mut w = Walk::new(false, false);
        w.op(&analyze_op(&text));
        let ai = w.last();
        w.start(&format!("10 {}", good));
        let a = w.ops.len();
        w.start("RUN");
        let mut nr = 0;
        w.drive(&[], &mut nr, 20, false);
        w.state();
        let b = w.last();
        cases.push(Case { ops: w.ops, checks: vec![format!("no-error-on-line {} {} {}-{}", ai, k, a, b)], tag: "valid-after-rejected".into(), nontrivial: true, show: format!("{} rejected lines then {:?}", k, good) });
    }
    // user-function calls of every arity against definitions of every arity: a DEF line and one call. Only the forward
    // direction applies (accepted => no syntax / type failure): the property's converse excludes definitions and calls
    // jump targets with a fractional part: both walkers must pick the same line
    for jump in ["GOTO 20.5", "GOTO 20.9", "GOSUB 20.5", "IF 1 THEN 20.7", "IF 0 THEN 99 ELSE 20.5", "GOTO 19.5", "GOTO 20.49", "ON"] {
        for lines in [&["20 PRINT \"OK\" : END"][..], &["20 PRINT \"A\" : END", "21 PRINT \"B\" : END"][..], &["19 END", "21 END"][..]] {
            if jump == "ON" {
                continue;
            }
            let mut text = format!("10 {}", jump);
            for l in lines.iter() {
                text.push('\n');
                text.push_str(l);
            }
            let mut w = Walk::new(false, false);
            w.op(&analyze_op(&text));
            let ai = w.last();
            let a0 = w.ops.len();
            for l in text.split('\n') {
                w.start(l);
            }
            w.start("RUN");
            let mut nr = 0;
            w.drive(&[], &mut nr, 30, false);
            w.state();
            let b = w.last();
            cases.push(Case { ops: w.ops, checks: vec![format!("agree-sound {} {}-{}", ai, a0, b)], tag: "fractional-jump".into(), nontrivial: true, show: text.replace('\n', " | ") });
        }
    }
    for text in arity_documents() {
        {
            {
                let mut w = Walk::new(false, false);
                w.op(&analyze_op(&text));
                let ai = w.last();
                let a0 = w.ops.len();
                for l in text.split('\n') {
                    w.start(l);
                }
                w.start("RUN");
                let mut nr = 0;
                w.drive(&[], &mut nr, 30, false);
                w.state();
                let b = w.last();
                cases.push(Case { ops: w.ops, checks: vec![format!("agree-sound {} {}-{}", ai, a0, b)], tag: "function-arity".into(), nontrivial: true, show: text.replace('\n', " | ") });
            }
        }
    }
    // parentheses nested to just below / at / above the cap in EVERY expression position of every statement kind: both walkers
    // count the same levels (an analysis error on such a straight-line line means the execution fails too, and vice versa)
    for depth in [44usize, 45, 46, 47, 48, 49] {
        let (po, pc) = ("(".repeat(depth), ")".repeat(depth));
        for tmpl in ["A({P}1{Q}) = 5", "X = {P}1{Q}", "PRINT {P}1{Q}", "DIM A({P}1{Q})", "LET A({P}1{Q}) = 1", "FOR I = {P}1{Q} TO 2", "FOR I = 1 TO {P}2{Q}", "FOR I = 1 TO 2 STEP {P}1{Q}", "A(1, {P}1{Q}) = 2",
            "A$({P}1{Q}) = \"s\"", "PRINT A({P}1{Q})", "X = ABS({P}1{Q})", "PRINT 1; {P}2{Q}", "X = 1 + {P}1{Q}", "READ A({P}1{Q})", "INPUT A({P}1{Q})"] {
            let text = format!("10 {}", tmpl.replace("{P}", &po).replace("{Q}", &pc));
            let mut w = Walk::new(false, false);
            w.op(&analyze_op(&text));
            let ai = w.last();
            let a = w.ops.len();
            w.start(&text);
            w.start("RUN");
            let mut nr = 0;
            w.drive(&["1".to_string()], &mut nr, 30, false);
            w.state();
            let b = w.last();
            let check = if tmpl.starts_with("INPUT") { format!("agree-sound {} {}-{}", ai, a, b) } else { format!("agree-straight {} {}-{}", ai, a, b) };
            cases.push(Case { ops: w.ops, checks: vec![check], tag: "nesting-in-every-position".into(), nontrivial: true, show: format!("{} with {} parentheses", tmpl, depth) });
        }
    }
    // a function body that calls a function defined further down (known finding KF-FORWARD-FN when the later definition has
    // another parameter kind or count)
    for later in ["DEF G(X$) = 1", "DEF G(Y) = Y + 1", "DEF G(X, Y) = 1", "DEF G$(X) = \"s\""] {
        let text = format!("10 DEF F(X) = G(X)\n20 {}\n30 PRINT F(1)", later);
        let mut w = Walk::new(false, false);
        w.op(&analyze_op(&text));
        let ai = w.last();
        let a0 = w.ops.len();
        for l in text.split('\n') {
            w.start(l);
        }
        w.start("RUN");
        let mut nr = 0;
        w.drive(&[], &mut nr, 30, false);
        w.state();
        let b = w.last();
        cases.push(Case { ops: w.ops, checks: vec![format!("agree-sound {} {}-{}", ai, a0, b)], tag: "forward-function".into(), nontrivial: true, show: text.replace('\n', " | ") });
    }
    // IF with zero to three ELSE clauses (one more than the grammar has), for a true and a false condition, with clauses that
    // fall through, jump, or swallow the rest of the line
    for cond in ["X", "1", "X = 0"] {
        for then in ["PRINT 1", "30", "Y = 1", "IF 1 THEN PRINT 5"] {
            for elses in [&[][..], &["PRINT 2"][..], &["PRINT 2", "PRINT 3"][..], &["Y = 2", "30"][..], &["30", "PRINT 3"][..], &["PRINT 2", "PRINT 3", "PRINT 4"][..], &["REM r", "PRINT 3"][..]] {
                let mut line = format!("20 IF {} THEN {}", cond, then);
                for e in elses.iter() {
                    line.push_str(&format!(" ELSE {}", e));
                }
                let text = format!("10 X = 0\n{}\n30 PRINT 4", line);
                let mut w = Walk::new(false, false);
                w.op(&analyze_op(&text));
                let ai = w.last();
                let a0 = w.ops.len();
                for l in text.split('\n') {
                    w.start(l);
                }
                w.start("RUN");
                let mut nr = 0;
                w.drive(&[], &mut nr, 40, false);
                w.state();
                let b = w.last();
                cases.push(Case { ops: w.ops, checks: vec![format!("agree-sound {} {}-{}", ai, a0, b)], tag: "surplus-else".into(), nontrivial: true, show: text.replace('\n', " | ") });
            }
        }
    }
    // INPUT with every shape of target list, answered: what the analyzer lets through must not fail with a syntax error when
    // the reply arrives (this dialect reads ONE target per INPUT)
    for stmt in ["INPUT A", "INPUT A, B", "INPUT A$, B", "INPUT A,", "INPUT A B", "INPUT A; B", "INPUT \"prompt\"; A", "INPUT A(1), B(2)", "INPUT A : INPUT B", "INPUT", "INPUT 5", "INPUT A, B, C$"] {
        for wrap in ["10 {}", "10 IF X = 0 THEN PRINT 1 ELSE {}", "10 FOR I = 1 TO 2 : {} : NEXT I"] {
            let text = format!("{}\n20 PRINT \"end\"", wrap.replace("{}", stmt));
            let mut w = Walk::new(false, false);
            w.op(&analyze_op(&text));
            let ai = w.last();
            let a0 = w.ops.len();
            for l in text.split('\n') {
                w.start(l);
            }
            w.start("RUN");
            let mut nr = 0;
            w.drive(&["1".to_string(), "2".to_string(), "x".to_string(), "3".to_string()], &mut nr, 40, false);
            w.state();
            let b = w.last();
            cases.push(Case { ops: w.ops, checks: vec![format!("agree-sound {} {}-{}", ai, a0, b)], tag: "input-target-lists".into(), nontrivial: true, show: text.replace('\n', " | ") });
        }
    }
    // small programs: no analysis error => no syntax / type / undefined-line failure at run time, on several input scripts
    let opts = GenOpts { allow_else_resume: false, ..Default::default() };
    for _ in 0..n {
        let p = program(rng, &opts);
        let text = p.text();
        let mut w = Walk::new(false, false);
        w.op(&analyze_op(&text));
        let ai = w.last();
        let mut ranges = vec![];
        for variant in 0..3 {
            w.op("new 0 0");
            w.op(&format!("seed {}", rng.next() % 1000));
            w.load(&p);
            let a = w.ops.len();
            w.start("RUN");
            let replies: Vec<String> = match variant {
                0 => vec!["1".into()],
                1 => vec!["0".into(), "5".into(), "hello".into()],
                _ => vec!["-3".into(), "2".into()],
            };
            let mut nr = 0;
            w.drive(&replies, &mut nr, 200, false);
            // continue past STOPs
            w.start("CONT");
            w.drive(&replies, &mut nr, 100, false);
            w.state();
            ranges.push(format!("{}-{}", a, w.last()));
        }
        cases.push(Case { ops: w.ops, checks: ranges.iter().map(|r| format!("agree-sound {} {}", ai, r)).collect(), tag: p.features.join("+"), nontrivial: true, show: text.replace('\n', " | ") });
    }
    (cases, false)
}
