//! C18: RND is a pure, in-range function of the seed.
use crate::core::Case;
use crate::gen::hexs;
use crate::imp::enc_f64;
use crate::rng::Rng;

const M: u128 = 1 << 33;
const A: u128 = 1664525;
const C: u128 = 1013904223;

fn oracle_step(seed: u64, arg: f64) -> (Option<f64>, u64) {
    // the documented generator over unbounded integers
    let s = (seed as u128) % M;
    if arg < 0.0 {
        (None, s as u64)
    } else if arg == 0.0 {
        (Some((s as f64) / (M as f64)), s as u64)
    } else {
        let n = (A * s + C) % M;
        (Some((n as f64) / (M as f64)), n as u64)
    }
}

pub fn boundary_seeds() -> Vec<u64> {
    let mut v = vec![0u64, 1, 2, 12345, (1 << 33) - 1, 1 << 33, (1 << 33) + 1, 1 << 40, (1 << 44) - 1, 1 << 44, (1 << 44) + 12345, 1 << 53, 1 << 63, u64::MAX - 1, u64::MAX, 11081650051, 8589934591, 4294967296];
    for k in 1..8u64 {
        v.push(k * (1 << 33) + 7);
    }
    // the states whose successor is a special value (0, 1, M-1, M/2, the increment ...), and their own predecessors:
    // s = A^-1 (t - C) mod 2^33, with A^-1 by Newton iteration (A is odd)
    let mut inv: u128 = 1;
    for _ in 0..6 {
        inv = (inv * (2 + M - (A * inv) % M)) % M;
    }
    debug_assert_eq!((A * inv) % M, 1);
    for t in [0u128, 1, 2, M - 1, M - 2, M / 2, M / 2 - 1, M / 2 + 1, C, 1 << 32, (1 << 32) - 1] {
        let mut x = t;
        for _ in 0..3 {
            x = (inv * ((x + M - C % M) % M)) % M;
            v.push(x as u64);
            v.push((x + M) as u64);
        }
    }
    v
}

pub fn cases(rng: &mut Rng, tier: &str) -> (Vec<Case>, bool) {
    let mut cases = vec![];
    let args: [f64; 9] = [1.0, 0.0, -1.0, 0.5, 1e300, -0.0, f64::NAN, -1e-300, f64::INFINITY];
    let n_random = if tier == "thorough" { 200_000 } else { 20_000 };
    let mut seeds = boundary_seeds();
    for _ in 0..n_random {
        let s = match rng.below(3) {
            0 => rng.next() % (1 << 33),
            1 => rng.next(),
            _ => rng.next() >> rng.below(40),
        };
        seeds.push(s);
    }
    // raw generator steps (hook), several per case
    for chunk in seeds.chunks(50) {
        let mut ops = vec![];
        let mut checks = vec![];
        for &s in chunk {
            let a = args[rng.below(args.len())];
            let a = if rng.chance(2, 3) { 1.0 } else { a };
            ops.push(format!("rng {} {}", s, enc_f64(a)));
            let (v, ns) = oracle_step(s, a);
            let want = match v {
                Some(v) => {
                    assert!(v >= 0.0 && v < 1.0);
                    format!("{} {}", enc_f64(v), ns)
                }
                None => format!("Unimplemented {}", ns),
            };
            checks.push(format!("reply-is {} {}", ops.len() - 1, want.replace(' ', "_")));
        }
        cases.push(Case { ops, checks, tag: "raw-steps".into(), nontrivial: true, show: format!("rng steps from seeds {:?}…", &chunk[..chunk.len().min(3)]) });
    }
    // interpreter-level: seed, then an interleaving of positive / zero / negative arguments through PRINT
    let n_sessions = if tier == "thorough" { 4_000 } else { 400 };
    for _ in 0..n_sessions {
        let seed = if rng.chance(1, 3) { rng.pick(&boundary_seeds()) } else { rng.next() >> rng.below(40) };
        let mut ops = vec!["new 0 0".to_string(), format!("seed {}", seed)];
        let mut checks = vec![];
        let mut state = (seed as u128 % M) as u64;
        let steps = rng.range(2, 12);
        let mut kinds = std::collections::BTreeSet::new();
        for _ in 0..steps {
            if rng.chance(1, 6) {
                // an argument that itself draws a number: the inner call advances first, the outer one sees the new state
                let (text, outer) = rng.pick(&[("PRINT RND(0*RND(1))", 0.0), ("PRINT RND(RND(1)>2)", 0.0), ("PRINT RND(RND(1)+1)", 1.0), ("PRINT RND(1+0*RND(5))", 1.0)]);
                ops.push(format!("start {}", hexs(text)));
                let (_, s1) = oracle_step(state, 1.0);
                let (v, s2) = oracle_step(s1, outer);
                state = s2;
                kinds.insert("nested-rnd");
                checks.push(format!("reply-is {} ok", ops.len() - 1));
                ops.push("take".to_string());
                checks.push(format!("reply-is {} P:{}", ops.len() - 1, hexs(&format!("{}\n", v.unwrap()))));
                continue;
            }
            if rng.chance(1, 7) {
                // the host seeds again in the middle of the session: with 0, with the very state the generator is in, with a
                // seed congruent to an earlier one - whatever was drawn before, the sequence restarts from that seed
                let s2: u64 = match rng.below(6) {
                    0 | 1 => 0,
                    2 => state,
                    3 => seed,
                    4 => 1u64 << 33,
                    _ => rng.pick(&boundary_seeds()),
                };
                ops.push(format!("seed {}", s2));
                state = (s2 as u128 % M) as u64;
                kinds.insert("reseed");
                continue;
            }
            if rng.chance(1, 8) {
                // a line refused for a syntax error INSIDE the RND call (before its closing parenthesis): no value was
                // returned, so the generator must not have moved - the next calls show it
                let text = rng.pick(&["PRINT RND(1", "PRINT RND(1, 2)", "PRINT RND(2 \"A\")", "X = 1 + RND(3", "PRINT RND(1 A)", "PRINT RND(5;)"]);
                ops.push(format!("start {}", hexs(text)));
                kinds.insert("refused");
                checks.push(format!("reply-starts {} err_Syntax.", ops.len() - 1));
                ops.push("take".to_string());
                continue;
            }
            let (text, arg) = match rng.below(12) {
                0..=2 => ("PRINT RND(1)", 1.0),
                3 => ("PRINT RND(0)", 0.0),
                4 => ("PRINT RND(-1)", -1.0),
                5 => ("PRINT RND(2.5)", 2.5),
                6 => ("PRINT RND(.5)", 0.5),
                7 => ("PRINT RND(1/4)", 0.25),
                8 => ("PRINT RND(0.001)", 0.001),
                9 => ("PRINT RND(-.5)", -0.5),
                10 => rng.pick(&[("PRINT RND(1-1)", 0.0), ("PRINT RND(.00000000000000000001)", 1e-20), ("PRINT RND(2^-60)", 8.673617379884035e-19), ("PRINT RND(1/4600000000000000)", 2.1739130434782607e-16), ("PRINT RND(2^-1074)", 5e-324), ("PRINT RND(2^-52)", 2.220446049250313e-16)]),
                _ => rng.pick(&[("PRINT RND(100000)", 100000.0), ("PRINT RND(10^400)", f64::INFINITY), ("PRINT RND(9^999 * 2)", f64::INFINITY), ("PRINT RND(1.7976931348623157 * 10^308)", 1.7976931348623157e308)]),
            };
            ops.push(format!("start {}", hexs(text)));
            let (v, ns) = oracle_step(state, arg);
            state = ns;
            match v {
                Some(v) => {
                    kinds.insert(if arg == 0.0 { "zero" } else { "positive" });
                    checks.push(format!("reply-is {} ok", ops.len() - 1));
                    ops.push("take".to_string());
                    checks.push(format!("reply-is {} P:{}", ops.len() - 1, hexs(&format!("{}\n", v))));
                }
                None => {
                    kinds.insert("negative");
                    checks.push(format!("reply-starts {} err_Unimplemented@", ops.len() - 1));
                    ops.push("take".to_string());
                }
            }
        }
        ops.push("snap".to_string());
        cases.push(Case {
            ops,
            checks,
            tag: format!("session:{}", kinds.iter().cloned().collect::<Vec<_>>().join("+")),
            nontrivial: kinds.len() >= 2,
            show: format!("seed {} then {} RND calls", seed, steps),
        });
    }
    // the Web front end: a seed handed over while a program is suspended takes effect at once (adapter vs a core in lock step)
    for _ in 0..(n_sessions / 40).max(4) {
        let (s1, s2) = (rng.next() % 100000, rng.next() % 100000);
        let mut ops = vec!["wnew".to_string(), format!("wseed {}", s1), "wsubmit".to_string()];
        for l in ["10 PRINT RND(1)", "20 INPUT A", "30 PRINT RND(1)", "40 PRINT RND(0)", "50 PRINT RND(1)"] {
            ops.push(format!("wsubmit {}", hexs(l)));
        }
        ops.push(format!("wsubmit {}", hexs("RUN")));
        for _ in 0..rng.range(2, 4) {
            ops.push("wtick".to_string());
        }
        ops.push(format!("wseed {}", s2));
        ops.push(format!("wsubmit {}", hexs("5")));
        for _ in 0..8 {
            ops.push("wtick".to_string());
            if rng.chance(1, 4) {
                ops.push(format!("wseed {}", rng.next() % 1000));
            }
        }
        let checks = (0..ops.len()).filter(|i| ops[*i].starts_with("wsubmit") || ops[*i] == "wtick").map(|i| format!("web-ok {}", i)).collect();
        cases.push(Case { ops, checks, tag: "web-reseed-while-suspended".into(), nontrivial: true, show: format!("seed {} , reseed {} at the INPUT", s1, s2) });
    }
    // the sequence a PROGRAM sees: seed, optional earlier calls at the prompt, then RUN of a program that calls RND
    for _ in 0..(n_sessions / 10).max(10) {
        let seed = if rng.chance(1, 2) { rng.pick(&boundary_seeds()) } else { rng.next() >> rng.below(40) };
        let mut w = crate::prog::Walk::new(false, false);
        w.op(&format!("seed {}", seed));
        let mut state = (seed as u128 % M) as u64;
        for _ in 0..rng.range(0, 3) {
            w.start("X = RND(1)");
            state = oracle_step(state, 1.0).1;
        }
        let first_zero = rng.chance(1, 2);
        w.start(if first_zero { "10 A = RND(0)" } else { "10 A = RND(1)" });
        w.start("20 B = RND(1)");
        w.start("30 C = RND(0)");
        w.start("RUN");
        let mut nr = 0;
        w.drive(&[], &mut nr, 20, false);
        let mut checks = vec![];
        let (a, s1) = oracle_step(state, if first_zero { 0.0 } else { 1.0 });
        let (b, s2) = oracle_step(s1, 1.0);
        let (c, _) = oracle_step(s2, 0.0);
        for (name, v) in [("A", a), ("B", b), ("C", c)] {
            w.start(&format!("PRINT {}", name));
            w.op("take");
            checks.push(format!("reply-is {} P:{}", w.last(), hexs(&format!("{}\n", v.unwrap()))));
        }
        w.op("snap");
        cases.push(Case { ops: w.ops, checks, tag: "program-run".into(), nontrivial: true, show: format!("seed {} then RUN of a program calling RND", seed) });
    }
    // the target of an INPUT may draw numbers (a subscript with RND); a refused reply (?REENTER) runs the INPUT - and its
    // subscript - again: every draw counts, none is taken back
    for seed in [0u64, 1, 42, (1 << 33) - 1, 1 << 33, u64::MAX] {
        for refused in [1usize, 2] {
            let mut w = crate::prog::Walk::new(false, false);
            w.op(&format!("seed {}", seed));
            w.start("10 INPUT A(INT(RND(1) * 10))");
            w.start("20 PRINT RND(1)");
            w.start("30 PRINT RND(0)");
            w.start("RUN");
            let mut replies: Vec<String> = vec!["five".to_string(); refused];
            replies.push("5".to_string());
            let mut nr = 0;
            let takes = w.drive(&replies, &mut nr, 30, false);
            let mut state = (seed as u128 % M) as u64;
            for _ in 0..(refused + 1) {
                state = oracle_step(state, 1.0).1;
            }
            let (v, s2) = oracle_step(state, 1.0);
            let _ = s2;
            let want = hexs(&format!("{}\n", v.unwrap()));
            // the value appears in some take, twice (RND(1) then RND(0))
            let joined: Vec<String> = takes.iter().map(|t| t.to_string()).collect();
            cases.push(Case { ops: w.ops, checks: vec![format!("some-take-is {} P:{}", joined.join(","), want)], tag: "input-subscript-draws".into(), nontrivial: true, show: format!("seed {} , {} refused replies, INPUT A(INT(RND(1)*10))", seed, refused) });
        }
    }
    (cases, false)
}

/// Exhaustive sweep of all 2^33 generator states against the documented
/// recurrence (implementation only; support for the correspondence, not a proof).
pub fn exhaustive_sweep(threads: usize, limit: u64) -> Result<u64, String> {
    use abasic_core::verif_hooks::rng_step;
    let total: u64 = limit.min(1 << 33);
    let per = (total + threads as u64 - 1) / threads as u64;
    let mut handles = vec![];
    for t in 0..threads as u64 {
        let lo = t * per;
        let hi = ((t + 1) * per).min(total);
        handles.push(std::thread::spawn(move || -> Result<u64, String> {
            let mut n = 0;
            for s in lo..hi {
                let (v, ns) = rng_step(s, 1.0);
                let want = ((A * (s as u128) + C) % M) as u64;
                let Some(v) = v else { return Err(format!("state {}: RND(1) failed", s)); };
                if ns != want {
                    return Err(format!("state {}: next state {} instead of {}", s, ns, want));
                }
                if !(v >= 0.0 && v < 1.0) || v != (want as f64) / 8589934592.0 {
                    return Err(format!("state {}: value {} out of range or not state/2^33", s, v));
                }
                n += 1;
            }
            Ok(n)
        }));
    }
    let mut n = 0;
    for h in handles {
        match h.join() {
            Ok(Ok(k)) => n += k,
            Ok(Err(e)) => return Err(e),
            Err(_) => return Err("a sweep thread panicked (the generator panicked)".to_string()),
        }
    }
    Ok(n)
}
