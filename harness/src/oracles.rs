//! Property-specific oracle lines (evaluated on the implementation's replies).
use crate::core::Case;
use crate::imp::hex;

fn prints(expected: &[String]) -> String {
    if expected.is_empty() {
        "-".to_string()
    } else {
        expected.iter().map(|s| format!("P:{}", hex(s))).collect::<Vec<_>>().join(" ")
    }
}

pub fn eval_check(check: &str, case: &Case, replies: &[String]) -> Result<(), String> {
    let parts: Vec<&str> = check.split(' ').collect();
    match parts.as_slice() {
        ["same-data", i, j] => {
            let (i, j): (usize, usize) = (i.parse().unwrap(), j.parse().unwrap());
            let a = replies[i].split(" /").next().unwrap_or("");
            let b = replies[j].split(" /").next().unwrap_or("");
            if a == b {
                Ok(())
            } else {
                Err(format!("DATA items differ: op {} gives [{}], op {} gives [{}]", i, a, j, b))
            }
        }
        // C04: LIST shows exactly these (line, id) pairs, ascending
        ["list-is", i, spec] => {
            let i: usize = i.parse().unwrap();
            let expected: Vec<String> = spec
                .split(',')
                .filter(|x| !x.is_empty() && *x != "-")
                .map(|kv| {
                    let mut it = kv.split(':');
                    let n = it.next().unwrap();
                    let k = it.next().unwrap();
                    format!("{} PRINT {}\n", n, k)
                })
                .collect();
            let want = prints(&expected);
            if replies[i] == want {
                Ok(())
            } else {
                Err(format!("LIST shows {} but the last-writer-wins map says {}", replies[i], want))
            }
        }
        // C04: RUN prints these ids in this order (collected over several `take`s: indexes i..)
        ["run-is", idxs, spec] => {
            let mut got: Vec<String> = vec![];
            for ix in idxs.split(',') {
                let ix: usize = ix.parse().unwrap();
                for part in replies[ix].split(' ') {
                    if part.starts_with("P:") {
                        got.push(part.to_string());
                    }
                }
            }
            let expected: Vec<String> = spec
                .split(',')
                .filter(|x| !x.is_empty() && *x != "-")
                .map(|k| format!("P:{}", hex(&format!("{}\n", k))))
                .collect();
            if got == expected {
                Ok(())
            } else {
                Err(format!("RUN printed {:?} but line order says {:?}", got, expected))
            }
        }
        _ => {
            let _ = case;
            Err(format!("unknown check {:?}", check))
        }
    }
}
