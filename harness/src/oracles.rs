//! Property-specific oracle lines (evaluated on the implementation's replies).
use crate::core::Case;
use crate::imp::hex;

fn prints(expected: &[String]) -> String {
    if expected.is_empty() {
        "-".to_string()
    } else {
        expected.iter().map(|s| format!("P:{}", hex(s))).collect::<Vec<_>>().join(" ")
    }
}

pub fn eval_check(check: &str, case: &Case, replies: &[String]) -> Result<(), String> {
    let parts: Vec<&str> = check.split(' ').collect();
    match parts.as_slice() {
        ["same-data", i, j] => {
            let (i, j): (usize, usize) = (i.parse().unwrap(), j.parse().unwrap());
            let a = replies[i].split(" /").next().unwrap_or("");
            let b = replies[j].split(" /").next().unwrap_or("");
            if a == b {
                Ok(())
            } else {
                Err(format!("DATA items differ: op {} gives [{}], op {} gives [{}]", i, a, j, b))
            }
        }
        // C04: LIST shows exactly these (line, id) pairs, ascending
        ["list-is", i, spec] => {
            let i: usize = i.parse().unwrap();
            let expected: Vec<String> = spec
                .split(',')
                .filter(|x| !x.is_empty() && *x != "-")
                .map(|kv| {
                    let mut it = kv.split(':');
                    let n = it.next().unwrap();
                    let k = it.next().unwrap();
                    // ids from 9_000_000_000 stand for a body made of that many statement separators only
                    match k.parse::<u64>() {
                        Ok(v) if v >= 9_400_000_000 => format!("{} {}\n", n, CASING_BODIES[(v - 9_400_000_000) as usize]),
                        Ok(v) if v >= 9_200_000_000 => format!("{} {}\n", n, ["DATA 0", "DATA -0", "DATA 0, -0", "DATA -0, 0"][(v - 9_200_000_000) as usize]),
                        Ok(v) if v >= 9_000_000_000 => format!("{} {}\n", n, vec![":"; (v - 9_000_000_000) as usize].join(" ")),
                        _ => format!("{} PRINT {}\n", n, k),
                    }
                })
                .collect();
            let want = prints(&expected);
            if replies[i] == want {
                Ok(())
            } else {
                Err(format!("LIST shows {} but the last-writer-wins map says {}", replies[i], want))
            }
        }
        // C04: RUN prints these ids in this order (collected over several `take`s: indexes i..)
        ["run-is", idxs, spec] => {
            let mut got: Vec<String> = vec![];
            for ix in idxs.split(',') {
                let ix: usize = ix.parse().unwrap();
                for part in replies[ix].split(' ') {
                    if part.starts_with("P:") {
                        got.push(part.to_string());
                    }
                }
            }
            let expected: Vec<String> = spec
                .split(',')
                .filter(|x| !x.is_empty() && *x != "-" && x.parse::<u64>().map(|v| v < 9_000_000_000).unwrap_or(true))
                .map(|k| format!("P:{}", hex(&format!("{}\n", k))))
                .collect();
            if got == expected {
                Ok(())
            } else {
                Err(format!("RUN printed {:?} but line order says {:?}", got, expected))
            }
        }
        _ => match eval_session_check(check, case, replies) {
            Some(r) => r,
            None => Err(format!("unknown check {:?}", check)),
        },
    }
}

// ---------------------------------------------------------------------------
// session oracles

/// line bodies (in their LIST spelling) with letters whose `to_uppercase` has another byte length than the letter
pub const CASING_BODIES: &[&str] = &["REM \u{131}\u{131} \u{17f} \u{149}", "REM \u{fb01}sh \u{fb06}ats \u{2c65}", "A$ = \"\u{131}\u{131}\"", "A$ = \"\u{149}\u{1f0}\u{250}\u{390}\"", "DATA \"\u{131}\u{17f}\", \"\u{fb02}\"", "REM \u{df}\u{df}\u{df} \u{149}\u{149}"];

fn is_call(op: &str) -> bool {
    op == "cont" || op == "start" || op.starts_with("start ")
}

pub fn snapshot_fields(snap: &str) -> Vec<(String, String)> {
    snap.split(" ; ")
        .filter_map(|kv| kv.find('=').map(|i| (kv[..i].to_string(), kv[i + 1..].to_string())))
        .collect()
}

fn field<'a>(fields: &'a [(String, String)], key: &str) -> &'a str {
    fields.iter().find(|(k, _)| k == key).map(|(_, v)| v.as_str()).unwrap_or("")
}

/// C16 oracle on one snapshot.
pub fn snap_caps(snap: &str) -> Result<(), String> {
    let f = snapshot_fields(snap);
    // snapshots are taken between host calls: every nested evaluation has returned, so the nesting counter is 0
    // (model theorem C01.nesting_zero_of_reachable); a leak eats into the cap of 48 until nothing can be evaluated
    let nesting = field(&f, "nesting");
    if !nesting.is_empty() && nesting != "0" {
        return Err(format!("the nesting counter is {} between host calls (leaked by an earlier call)", nesting));
    }
    let stack = field(&f, "stack");
    let frames = stack.matches("[ret=").count();
    if frames > 32 {
        return Err(format!("{} stack frames held (cap 32)", frames));
    }
    // function parameter bindings obey suffix typing
    for fr in stack.split("[ret=").skip(1) {
        if let Some(v) = fr.split(" vars=").nth(1) {
            let v = v.trim_end_matches(']');
            for kv in v.split(',').filter(|x| !x.is_empty()) {
                check_suffix(kv)?;
            }
        }
    }
    let loops = field(&f, "loops");
    let names: Vec<&str> = loops.split('[').skip(1).map(|l| l.split('@').next().unwrap_or("")).collect();
    if names.len() > 32 {
        return Err(format!("{} open FOR loops held (cap 32)", names.len()));
    }
    let mut sorted = names.clone();
    sorted.sort();
    sorted.dedup();
    if sorted.len() != names.len() {
        return Err(format!("two open FOR loops for the same variable: {:?}", names));
    }
    for kv in field(&f, "vars").split(',').filter(|x| !x.is_empty()) {
        check_suffix(kv)?;
    }
    for a in field(&f, "arrays").split(' ').filter(|x| !x.is_empty()) {
        // name:K:d1xd2:count:{...}
        let parts: Vec<&str> = a.splitn(5, ':').collect();
        if parts.len() < 5 {
            return Err(format!("unparsable array entry {}", a));
        }
        let (name, kind, dims, count) = (parts[0], parts[1], parts[2], parts[3]);
        let prod: u128 = dims.split('x').map(|d| d.parse::<u128>().unwrap_or(0)).product();
        let count: u128 = count.parse().unwrap_or(u128::MAX);
        if prod != count {
            return Err(format!("array {} has {} cells but dimensions {} (product {})", name, count, dims, prod));
        }
        if count > 10000 {
            return Err(format!("array {} has {} cells (cap 10000)", name, count));
        }
        let want = if name.ends_with('$') { "S" } else { "N" };
        if kind != want {
            return Err(format!("array {} stores kind {} against its name suffix", name, kind));
        }
    }
    Ok(())
}

fn check_suffix(kv: &str) -> Result<(), String> {
    let mut it = kv.splitn(2, '=');
    let name = it.next().unwrap_or("");
    let val = it.next().unwrap_or("");
    let is_str = val.starts_with('s');
    if name.ends_with('$') != is_str {
        return Err(format!("{} holds a {} against its name suffix", name, if is_str { "string" } else { "number" }));
    }
    Ok(())
}

fn parse_range(s: &str) -> (usize, usize) {
    let mut it = s.split('-');
    (it.next().unwrap().parse().unwrap(), it.next().unwrap().parse().unwrap())
}

/// The observable transcript of ops[a..=b]: output records (minus the filtered
/// kinds), input replies, and errors of host calls.
pub fn transcript(case: &Case, replies: &[String], a: usize, b: usize, drop: &str, ignore: &[usize]) -> Vec<String> {
    let mut ev = vec![];
    for i in a..=b.min(case.ops.len() - 1) {
        if ignore.contains(&i) {
            continue;
        }
        let op = &case.ops[i];
        let r = &replies[i];
        if op == "take" {
            for rec in r.split(' ').filter(|x| !x.is_empty() && *x != "-") {
                let k = &rec[..1];
                if k == "B" || drop.contains(k) {
                    continue;
                }
                ev.push(rec.to_string());
            }
        } else if op == "reply" || op.starts_with("reply ") {
            ev.push(format!("?{}", op));
        } else if is_call(op) && r.starts_with("err ") {
            ev.push(format!("E:{}", &r[4..]));
        }
    }
    ev
}

pub fn eval_session_check(check: &str, case: &Case, replies: &[String]) -> Option<Result<(), String>> {
    let parts: Vec<&str> = check.split(' ').collect();
    Some(match parts.as_slice() {
        ["err-then-idle"] => {
            let mut res = Ok(());
            for i in 0..case.ops.len() {
                if is_call(&case.ops[i]) && replies[i].starts_with("err ") {
                    if let Some(j) = (i + 1..case.ops.len()).find(|&j| case.ops[j] == "state" || is_call(&case.ops[j]) || case.ops[j] == "break") {
                        if case.ops[j] == "state" && replies[j] != "Idle" {
                            res = Err(format!("after the error at op {} ({}) the interpreter is {} instead of Idle", i, replies[i], replies[j]));
                            break;
                        }
                    }
                }
            }
            res
        }
        ["snap-caps"] => {
            let mut res = Ok(());
            for i in 0..case.ops.len() {
                if case.ops[i] == "snap" && !replies[i].starts_with("PANIC") && replies[i] != "POISONED" {
                    if let Err(e) = snap_caps(&replies[i]) {
                        res = Err(format!("snapshot at op {}: {}", i, e));
                        break;
                    }
                }
            }
            res
        }
        ["transcript-eq", ra, rb, rest @ ..] => {
            let (a1, a2) = parse_range(ra);
            let (b1, b2) = parse_range(rb);
            let mut drop = String::new();
            let mut ignore: Vec<usize> = vec![];
            let mut prefix = false;
            let mut noreply = false;
            let mut errline = false;
            for r in rest {
                if *r == "prefix" {
                    prefix = true;
                } else if *r == "noreply" {
                    noreply = true;
                } else if *r == "errline" {
                    errline = true;
                } else if let Some(d) = r.strip_prefix("drop=") {
                    drop = d.to_string();
                } else if let Some(ig) = r.strip_prefix("ignore=") {
                    ignore = ig.split(',').filter_map(|x| x.parse().ok()).collect();
                }
            }
            let mut ta = transcript(case, replies, a1, a2, &drop, &ignore);
            let mut tb = transcript(case, replies, b1, b2, &drop, &ignore);
            if errline {
                // compare errors by kind and line, not by token index
                let strip = |e: &mut String| {
                    if e.starts_with("E:") {
                        if let Some(i) = e.rfind(':') {
                            if e[..i].contains('@') {
                                e.truncate(i);
                            }
                        }
                    }
                };
                ta.iter_mut().for_each(strip);
                tb.iter_mut().for_each(strip);
            }
            if noreply {
                ta.retain(|e| !e.starts_with('?'));
                tb.retain(|e| !e.starts_with('?'));
            }
            if prefix {
                let n = ta.len().min(tb.len());
                // only when a run did not end on its own (still has a pending breakpoint) may it be shorter
                ta.truncate(n);
                tb.truncate(n);
            }
            if ta == tb {
                Ok(())
            } else {
                let k = (0..ta.len().min(tb.len())).find(|&k| ta[k] != tb[k]).unwrap_or(ta.len().min(tb.len()));
                Err(format!(
                    "transcripts differ at event {}: {:?} vs {:?} (lengths {} and {})",
                    k,
                    ta.get(k),
                    tb.get(k),
                    ta.len(),
                    tb.len()
                ))
            }
        }
        ["snap-eq", i, j, rest @ ..] => {
            let (i, j): (usize, usize) = (i.parse().unwrap(), j.parse().unwrap());
            let except: Vec<&str> = rest.iter().filter_map(|r| r.strip_prefix("except=")).flat_map(|e| e.split(',')).collect();
            let fa = snapshot_fields(&replies[i]);
            let fb = snapshot_fields(&replies[j]);
            let mut res = Ok(());
            for (k, v) in &fa {
                if except.contains(&k.as_str()) {
                    continue;
                }
                if field(&fb, k) != v {
                    res = Err(format!("state field {} differs: {} vs {}", k, v, field(&fb, k)));
                    break;
                }
            }
            res
        }
        // C09: per host call at most one Print record and at most `max_t` Trace records
        ["calls-bounded", max_t] => {
            let max_t: usize = max_t.parse().unwrap();
            let mut res = Ok(());
            for i in 0..case.ops.len() {
                if is_call(&case.ops[i]) {
                    if let Some(j) = (i + 1..case.ops.len()).find(|&j| case.ops[j] == "take" || is_call(&case.ops[j])) {
                        if case.ops[j] == "take" {
                            let recs: Vec<&str> = replies[j].split(' ').collect();
                            let p = recs.iter().filter(|r| r.starts_with("P:")).count();
                            let t = recs.iter().filter(|r| r.starts_with("T:")).count();
                            let is_list = case.ops[i].starts_with("start ") && crate::imp::unhex(&case.ops[i][6..]).map(|s| s.trim().to_uppercase().starts_with("LIST")).unwrap_or(false);
                            if p > 0 && recs.iter().any(|r| *r == "R" || r.starts_with("R:")) {
                                res = Err(format!("host call at op {} refused a reply (REENTER) and also produced {} Print record(s): more than the INPUT statement ran", i, p));
                                break;
                            }
                            if p > 1 && !is_list {
                                res = Err(format!("host call at op {} produced {} Print records (more than one statement ran)", i, p));
                                break;
                            }
                            if t > max_t {
                                res = Err(format!("host call at op {} produced {} Trace records (more than one statement chain ran)", i, t));
                                break;
                            }
                        }
                    }
                }
            }
            res
        }
        // C09: token-cursor reads per call bounded by K * (longest line length) + K'
        ["reads-bounded", k, k0, len] => {
            let (k, k0, len): (u64, u64, u64) = (k.parse().unwrap(), k0.parse().unwrap(), len.parse().unwrap());
            let mut prev: Option<u64> = None;
            let mut res = Ok(());
            for i in 0..case.ops.len() {
                if case.ops[i] == "reads" {
                    if let Ok(v) = replies[i].parse::<u64>() {
                        if let Some(p) = prev {
                            if v.saturating_sub(p) > k * len + k0 {
                                res = Err(format!("{} token reads in the host call before op {} (bound {}*{}+{})", v - p, i, k, len, k0));
                                break;
                            }
                        }
                        prev = Some(v);
                    }
                } else if case.ops[i].starts_with("new ") || case.ops[i] == "replace" {
                    prev = None;
                }
            }
            res
        }
        ["snap-after-edit-clean", i] => {
            let i: usize = i.parse().unwrap();
            let f = snapshot_fields(&replies[i]);
            let mut res = Ok(());
            for (k, want) in [("bp", "-"), ("stack", ""), ("loops", ""), ("data", "-"), ("fns", "")] {
                if field(&f, k) != want {
                    res = Err(format!("after a successful edit the runtime reference `{}` is still {:?}", k, field(&f, k)));
                    break;
                }
            }
            res
        }
        ["trace-lines-exist", r] => {
            let (a, b) = parse_range(r);
            let mut lines: Vec<String> = vec![];
            let mut res = Ok(());
            for i in a..=b.min(case.ops.len() - 1) {
                if let Some(h) = case.ops[i].strip_prefix("start ") {
                    if let Some(t) = crate::imp::unhex(h) {
                        let d: String = t.trim_start().chars().take_while(|c| c.is_ascii_digit()).collect();
                        if !d.is_empty() {
                            lines.push(d.trim_start_matches('0').to_string());
                        }
                    }
                }
                if case.ops[i] == "take" {
                    for rec in replies[i].split(' ') {
                        if let Some(n) = rec.strip_prefix("T:") {
                            if !lines.iter().any(|l| l == n || (l.is_empty() && n == "0")) {
                                res = Err(format!("trace record #{} names a line that was never entered", n));
                            }
                        }
                    }
                }
            }
            res
        }
        // no output record of the kind (first letter) anywhere in the range
        ["range-lacks", r, kind] => {
            let (a, b) = parse_range(r);
            match (a..=b.min(case.ops.len() - 1)).find(|&i| case.ops[i] == "take" && replies[i].split(' ').any(|x| x.starts_with(kind))) {
                None => Ok(()),
                Some(i) => Err(format!("the output taken at op {} ({}) has a {} record although that kind of record is switched off in this configuration", i, replies[i], kind)),
            }
        }
        // the trace records of the range, immediate repeats collapsed, are the given line sequence
        ["trace-seq", r, want] => {
            let (a, b) = parse_range(r);
            let mut seq: Vec<String> = vec![];
            for i in a..=b.min(case.ops.len() - 1) {
                if case.ops[i] == "take" {
                    for rec in replies[i].split(' ') {
                        if let Some(n) = rec.strip_prefix("T:") {
                            if seq.last().map(|x| x.as_str()) != Some(n) {
                                seq.push(n.to_string());
                            }
                        }
                    }
                }
            }
            if seq.join(",") == *want {
                Ok(())
            } else {
                Err(format!("the trace (repeats collapsed) names the lines {} but execution passes through {}", seq.join(","), want))
            }
        }
        // every line of the program prints `#<its number>` first: the trace, repeats collapsed, is the sequence of those marks
        ["trace-eq-marks", r] => {
            let (a, b) = parse_range(r);
            let (mut seq, mut marks): (Vec<String>, Vec<String>) = (vec![], vec![]);
            for i in a..=b.min(case.ops.len() - 1) {
                if case.ops[i] == "take" {
                    for rec in replies[i].split(' ') {
                        if let Some(n) = rec.strip_prefix("T:") {
                            if seq.last().map(|x| x.as_str()) != Some(n) {
                                seq.push(n.to_string());
                            }
                        } else if let Some(t) = rec.strip_prefix("P:").and_then(crate::imp::unhex) {
                            if let Some(n) = t.trim_end().strip_prefix('#') {
                                if marks.last().map(|x| x.as_str()) != Some(n) {
                                    marks.push(n.to_string());
                                }
                            }
                        }
                    }
                }
            }
            if seq == marks {
                Ok(())
            } else {
                Err(format!("the trace (repeats collapsed) names the lines {} but the lines that ran (each prints its own number) are {}", seq.join(","), marks.join(",")))
            }
        }
        ["snap-field-is", i, key, want] => {
            let i: usize = i.parse().unwrap();
            let f = snapshot_fields(&replies[i]);
            if field(&f, key) == *want {
                Ok(())
            } else {
                Err(format!("snapshot at op {}: {} is {} instead of {}", i, key, field(&f, key), want))
            }
        }
        // one of the listed `take`s shows the record
        ["some-take-is", idxs, rec] => {
            let found = idxs.split(',').filter_map(|x| x.parse::<usize>().ok()).any(|i| i < replies.len() && replies[i].split(' ').any(|r| r == *rec));
            if found {
                Ok(())
            } else {
                Err(format!("none of the outputs taken at ops {} shows the record {} (they are: {})", idxs, rec, idxs.split(',').filter_map(|x| x.parse::<usize>().ok()).filter(|i| *i < replies.len()).map(|i| replies[i].clone()).collect::<Vec<_>>().join(" / ")))
            }
        }
        // the output taken at op i is exactly these records
        ["take-is", i, rest @ ..] => {
            let i: usize = i.parse().unwrap();
            let want = rest.join(" ");
            if replies[i] == want {
                Ok(())
            } else {
                Err(format!("output after op {} is {} instead of {}", i, replies[i], want))
            }
        }
        // the output taken at op i has no record of the kind (first letter)
        ["take-lacks-kind", i, kind] => {
            let i: usize = i.parse().unwrap();
            if replies[i].split(' ').any(|r| r.starts_with(kind)) {
                Err(format!("output after op {} is {} - a {} record although the call ran one statement that produces none", i, replies[i], kind))
            } else {
                Ok(())
            }
        }
        // exactly n records of the kind in the range
        ["range-count", r, kind, n] => {
            let (a, b) = parse_range(r);
            let n: usize = n.parse().unwrap();
            let got: usize = (a..=b.min(case.ops.len() - 1)).filter(|&i| case.ops[i] == "take").map(|i| replies[i].split(' ').filter(|x| x.starts_with(kind)).count()).sum();
            if got == n {
                Ok(())
            } else {
                Err(format!("{} {} records in ops {}-{} where exactly {} are due", got, kind, a, b, n))
            }
        }
        ["take-has", i, rec] => {
            let i: usize = i.parse().unwrap();
            if replies[i].split(' ').any(|r| r == *rec) {
                Ok(())
            } else {
                Err(format!("output after op {} is {} — expected a {} record", i, replies[i], rec))
            }
        }
        ["take-lacks", i, rec] => {
            let i: usize = i.parse().unwrap();
            if replies[i].split(' ').any(|r| r == *rec) {
                Err(format!("output after op {} is {} — unexpected {} record", i, replies[i], rec))
            } else {
                Ok(())
            }
        }
        // with tracing on, a continued call that executes a statement of numbered line N starts with the record T:N
        ["traced-calls"] => {
            let mut res = Ok(());
            for i in 1..case.ops.len() {
                // a continued call after a snapshot, or the CONT command after a snapshot taken at a breakpoint
                let is_cont_cmd = case.ops[i].strip_prefix("start ").and_then(crate::imp::unhex).map(|t| t.trim().eq_ignore_ascii_case("CONT")).unwrap_or(false);
                if (case.ops[i] == "cont" || is_cont_cmd) && case.ops[i - 1] == "snap" {
                    let f = snapshot_fields(&replies[i - 1]);
                    if field(&f, "trace") != "1" {
                        continue;
                    }
                    if is_cont_cmd && (field(&f, "state") != "Idle" || !replies[i].starts_with("ok")) {
                        continue;
                    }
                    let loc = if is_cont_cmd { field(&f, "bp") } else { field(&f, "loc") };
                    if loc == "-" {
                        continue;
                    }
                    let mut it = loc.split(':');
                    let (line, idx) = (it.next().unwrap_or(""), it.next().unwrap_or("0").parse::<usize>().unwrap_or(0));
                    if line == "imm" || line.is_empty() {
                        continue;
                    }
                    // does the line have a token at the cursor?
                    let lines = field(&f, "lines");
                    let has_token = lines
                        .trim_start_matches('{')
                        .split('|')
                        .find(|l| l.starts_with(&format!("{}:", line)))
                        .map(|l| l[line.len() + 1..].split("} sorted").next().unwrap_or("").split(' ').filter(|t| !t.is_empty()).count() > idx)
                        .unwrap_or(false);
                    if !has_token {
                        continue;
                    }
                    if let Some(j) = (i + 1..case.ops.len()).find(|&j| case.ops[j] == "take") {
                        let first = replies[j].split(' ').next().unwrap_or("");
                        if first != format!("T:{}", line) {
                            res = Err(format!("the call at op {} executes a statement of line {} (token {}) but its output {} does not start with T:{}", i, line, idx, replies[j], line));
                            break;
                        }
                    }
                }
            }
            res
        }
        ["some-call-fails", kind] => {
            if (0..case.ops.len()).any(|i| is_call(&case.ops[i]) && replies[i].starts_with(&format!("err {}", kind))) {
                Ok(())
            } else {
                Err(format!("exceeding the cap was not reported: no host call failed with {}", kind))
            }
        }
        ["no-call-fails", kind] => {
            match (0..case.ops.len()).find(|&i| is_call(&case.ops[i]) && replies[i].starts_with(&format!("err {}", kind))) {
                None => Ok(()),
                Some(i) => Err(format!("op {} failed with {} although the cap is not exceeded", i, replies[i])),
            }
        }
        ["snap-field-eq", i, j, key] => {
            let (i, j): (usize, usize) = (i.parse().unwrap(), j.parse().unwrap());
            let fa = snapshot_fields(&replies[i]);
            let fb = snapshot_fields(&replies[j]);
            if field(&fa, key) == field(&fb, key) {
                Ok(())
            } else {
                Err(format!("state field {} differs: {} vs {}", key, field(&fa, key), field(&fb, key)))
            }
        }
        // C03: printed output and final (error kind, line) as the reference interpreter says
        ["ref-outcome", r, outhex, err, rest @ ..] => {
            let (a, b) = parse_range(r);
            let prefix = rest.contains(&"prefix");
            let mut got = String::new();
            let mut got_err = "-".to_string();
            for i in a..=b.min(case.ops.len() - 1) {
                if case.ops[i] == "take" {
                    for rec in replies[i].split(' ') {
                        if let Some(h) = rec.strip_prefix("P:") {
                            got.push_str(&crate::imp::unhex(h).unwrap_or_default());
                        }
                    }
                } else if is_call(&case.ops[i]) && replies[i].starts_with("err ") {
                    // err Kind@line:idx
                    let e = &replies[i][4..];
                    let (kind, loc) = e.split_once('@').unwrap_or((e, "-"));
                    let line = loc.split(':').next().unwrap_or("-");
                    got_err = format!("{}@{}", kind, if line == "imm" { "-" } else { line });
                }
            }
            let want = if *outhex == "-" { String::new() } else { crate::imp::unhex(outhex).unwrap_or_default() };
            if prefix {
                let n = got.len().min(want.len());
                if got.as_bytes()[..n] != want.as_bytes()[..n] {
                    Err(format!("printed output diverges from the reference interpreter's: got {:?}, reference {:?}", got, want))
                } else {
                    Ok(())
                }
            } else if got != want {
                Err(format!("printed output {:?} but the reference interpreter prints {:?}", got, want))
            } else if got_err != *err {
                Err(format!("run ended with {} but the reference interpreter ends with {}", got_err, err))
            } else {
                Ok(())
            }
        }
        // C05 oracle on one `analyze` reply
        ["analysis-wellformed", i] => {
            let i: usize = i.parse().unwrap();
            let doc = case.ops[i].split(' ').nth(1).and_then(crate::imp::unhex).unwrap_or_default();
            analysis_wellformed(&doc, &replies[i])
        }
        // C20 oracle on one `lsp` reply
        ["lsp-wellformed", i] => {
            let i: usize = i.parse().unwrap();
            let arg = if case.ops[i].starts_with("lspu") || case.ops[i].starts_with("lspo") { 2 } else { 1 };
            let doc = case.ops[i].split(' ').nth(arg).and_then(crate::imp::unhex).unwrap_or_default();
            lsp_wellformed(&doc, &replies[i])
        }
        // C06: analysis error on a straight-line line => executing it fails
        ["agree-straight", ai, r] => {
            let ai: usize = ai.parse().unwrap();
            let (a, b) = parse_range(r);
            let analysis_err = replies[ai].split(" ; M ").nth(1).unwrap_or("").split(' ').find(|m| m.starts_with("E:")).map(|s| s.to_string());
            let run_err = (a..=b.min(case.ops.len() - 1)).find(|&k| is_call(&case.ops[k]) && replies[k].starts_with("err ")).map(|k| replies[k].clone());
            match (analysis_err, run_err) {
                (Some(ae), None) => Err(format!("analysis rejects the line ({}) but executing it from a fresh state succeeds", ae)),
                (None, Some(re)) if re.starts_with("err Syntax.") || re.starts_with("err TypeMismatch") || re.starts_with("err UndefinedStatement") => {
                    Err(format!("analysis reports no error but execution fails with {}", re))
                }
                _ => Ok(()),
            }
        }
        // C06: no analysis error => no syntax / type / undefined-line failure at run time
        ["agree-sound", ai, r] => {
            let ai: usize = ai.parse().unwrap();
            let (a, b) = parse_range(r);
            let has_err = replies[ai].split(" ; M ").nth(1).unwrap_or("").split(' ').any(|m| m.starts_with("E:")) || replies[ai].starts_with("PANIC");
            if has_err {
                return Some(Ok(()));
            }
            match (a..=b.min(case.ops.len() - 1)).find(|&k| {
                is_call(&case.ops[k]) && (replies[k].starts_with("err Syntax.") || replies[k].starts_with("err TypeMismatch") || replies[k].starts_with("err UndefinedStatement"))
            }) {
                Some(k) => Err(format!("analysis reports no error but execution fails with {} at op {}", replies[k], k)),
                None => Ok(()),
            }
        }
        // C06: the analysis reports no error on file line `fl` whose statement executes fine on its own (range r)
        ["no-error-on-line", ai, fl, r] => {
            let ai: usize = ai.parse().unwrap();
            let (a, b) = parse_range(r);
            let runs_fine = !(a..=b.min(case.ops.len() - 1)).any(|k| is_call(&case.ops[k]) && replies[k].starts_with("err "));
            let rejected = replies[ai].split(" ; M ").nth(1).unwrap_or("").split(' ').find(|m| m.starts_with(&format!("E:{}:", fl))).map(|s| s.to_string());
            match (runs_fine, rejected) {
                (true, Some(e)) => Err(format!("analysis rejects file line {} ({}) although that straight-line statement executes fine from a fresh state", fl, e)),
                _ => Ok(()),
            }
        }
        // C15: file mode and piped interactive mode of the real binary agree (or file mode refused because of static errors)
        ["cli-same", i] => {
            let i: usize = i.parse().unwrap();
            if replies[i] == "same" || replies[i] == "refused" {
                Ok(())
            } else {
                let parts: Vec<&str> = replies[i].splitn(4, ':').collect();
                if parts.len() == 4 {
                    Err(format!(
                        "`abasic FILE` and the piped session differ on {}: file mode {:?} vs piped {:?}",
                        parts[1],
                        crate::imp::unhex(parts[2]).unwrap_or_default(),
                        crate::imp::unhex(parts[3]).unwrap_or_default()
                    ))
                } else {
                    Err(format!("cli comparison failed: {}", replies[i]))
                }
            }
        }
        // C15: a file that is well-formed by construction is run, not refused
        ["cli-ran", i] => {
            let i: usize = i.parse().unwrap();
            if replies[i] == "refused" {
                Err("`abasic FILE` refused a well-formed file (static check reported an error) that the piped session runs".to_string())
            } else {
                Ok(())
            }
        }
        // C19: the adapter did not trap and shows exactly what the core interpreter produces for the same calls
        ["web-ok", i] => {
            let i: usize = i.parse().unwrap();
            if replies[i].starts_with("TRAP") && !replies[i].starts_with("TRAPPED") {
                Err(format!("the adapter trapped (assertion / panic / transient state exposed) on page event {} ({})", i, case.ops[i]))
            } else if replies[i].contains(" F:DIFF ") {
                Err(format!("after page event {} the page shows something else than the core interpreter produces for the same calls: {}", i, replies[i]))
            } else {
                Ok(())
            }
        }
        ["same-replies", ra, rb] => {
            let (a1, a2) = parse_range(ra);
            let (b1, b2) = parse_range(rb);
            let xs: Vec<&String> = (a1..=a2).map(|k| &replies[k]).collect();
            let ys: Vec<&String> = (b1..=b2).map(|k| &replies[k]).collect();
            if xs == ys {
                Ok(())
            } else {
                let k = (0..xs.len().min(ys.len())).find(|&k| xs[k] != ys[k]).unwrap_or(0);
                Err(format!("after NEW the page differs from a fresh one at probe {}: {} vs {}", k, xs.get(k).map(|s| s.as_str()).unwrap_or("-"), ys.get(k).map(|s| s.as_str()).unwrap_or("-")))
            }
        }
        // C19: the page script itself (main.ts under node) and its transliteration agree on every event of the session
        ["page-script-same", ra, rb] => {
            let (a1, a2) = parse_range(ra);
            let (b1, b2) = parse_range(rb);
            let mut res = Ok(());
            for k in 0..=(a2 - a1).min(b2 - b1) {
                let (x, y) = (&replies[a1 + k], &replies[b1 + k]);
                if y.starts_with("TRAP") && !x.starts_with("TRAP") {
                    res = Err(format!("driven by the page script (abasic-web/ts/main.ts) the adapter TRAPS at event {} ({}), where the transliterated script shows {}", k, case.ops[b1 + k], x));
                    break;
                }
                if x != y {
                    res = Err(format!("the page script (abasic-web/ts/main.ts) and its transliteration differ at event {} ({}): script {} vs transliteration {}", k, case.ops[b1 + k], y, x));
                    break;
                }
            }
            res
        }
        // C09: the statements in this range of the session each took a host call of their own
        ["turns-at-least", r, n] => {
            let (a, b) = parse_range(r);
            let n: usize = n.parse().unwrap();
            let turns = (a..=b.min(case.ops.len() - 1)).filter(|&k| is_call(&case.ops[k]) && replies[k] == "ok").count();
            if turns >= n {
                Ok(())
            } else {
                Err(format!("{} statements were executed in only {} host calls (ops {}-{}): some call ran more than one statement", n, turns, a, b))
            }
        }
        ["no-syntax-error"] => {
            let mut res = Ok(());
            for i in 0..case.ops.len() {
                if is_call(&case.ops[i]) && replies[i].starts_with("err Syntax.") {
                    res = Err(format!("a well-formed program failed with {} at op {}", replies[i], i));
                    break;
                }
            }
            res
        }
        _ => return None,
    })
}

fn mapped(m: &str) -> Option<(usize, usize, usize)> {
    // f:a-b
    let (f, r) = m.split_once(':')?;
    let (a, b) = r.split_once('-')?;
    Some((f.parse().ok()?, a.parse().ok()?, b.parse().ok()?))
}

/// C05: one token list per file line; every diagnostic maps to a position on the file line it
/// names, inside the line, on character boundaries; per-line token ranges ordered, non-overlapping.
pub fn analysis_wellformed(doc: &str, reply: &str) -> Result<(), String> {
    if reply.starts_with("PANIC") {
        return Err(format!("the analyzer panicked: {}", reply));
    }
    let lines: Vec<&str> = doc.split('\n').collect();
    let Some(rest) = reply.strip_prefix("T ") else { return Err(format!("unparsable reply {}", reply)) };
    let (toks, msgs) = rest.split_once(" ; M ").unwrap_or((rest.trim_end_matches(" ; M"), ""));
    let per_line: Vec<&str> = toks.split('|').collect();
    if per_line.len() != lines.len() {
        return Err(format!("{} token lists for {} file lines", per_line.len(), lines.len()));
    }
    for (i, lt) in per_line.iter().enumerate() {
        let mut prev_end = 0;
        for (k, t) in lt.split(',').filter(|t| !t.is_empty()).enumerate() {
            let r = t.rsplit('@').next().unwrap_or("");
            let (a, b) = r.split_once('-').ok_or("bad range")?;
            let (a, b): (usize, usize) = (a.parse().map_err(|_| "bad range")?, b.parse().map_err(|_| "bad range")?);
            if a > b || b > lines[i].len() || !lines[i].is_char_boundary(a) || !lines[i].is_char_boundary(b) {
                return Err(format!("file line {}: token range {}-{} outside the line / off a character boundary", i, a, b));
            }
            if k > 0 && a < prev_end {
                return Err(format!("file line {}: token ranges overlap or are out of order at {}-{}", i, a, b));
            }
            prev_end = b;
        }
    }
    for m in msgs.split(' ').filter(|m| !m.is_empty()) {
        let (head, map) = m.rsplit_once('>').ok_or("bad message")?;
        let file_line: usize = head.split(':').nth(1).and_then(|x| x.parse().ok()).ok_or("bad message")?;
        if file_line >= lines.len() {
            return Err(format!("diagnostic {} names file line {} of a {}-line file", head, file_line, lines.len()));
        }
        if map == "-" {
            return Err(format!("diagnostic {} cannot be mapped to a source position", head));
        }
        let (f, a, b) = mapped(map).ok_or("bad mapping")?;
        if f != file_line {
            return Err(format!("diagnostic {} names file line {} but maps to file line {}", head, file_line, f));
        }
        let l = lines[f];
        if a > b || b > l.len() || !l.is_char_boundary(a) || !l.is_char_boundary(b) {
            return Err(format!("diagnostic {} maps to {}-{} outside file line {} ({} bytes) or off a character boundary", head, a, b, f, l.len()));
        }
    }
    Ok(())
}

/// the protocol's notion of lines: "\r\n", "\n" and "\r" end a line
fn protocol_lines(doc: &str) -> Vec<String> {
    let mut out = vec![];
    let mut cur = String::new();
    let mut it = doc.chars().peekable();
    while let Some(c) = it.next() {
        if c == '\r' {
            if it.peek() == Some(&'\n') {
                it.next();
            }
            out.push(std::mem::take(&mut cur));
        } else if c == '\n' {
            out.push(std::mem::take(&mut cur));
        } else {
            cur.push(c);
        }
    }
    out.push(cur);
    out
}

/// C20: ranges and tokens inside the document (UTF-16 columns), tokens ordered and non-overlapping with
/// types from the legend, diagnostics = the analyzer's mappable messages for that text.
pub fn lsp_wellformed(doc: &str, reply: &str) -> Result<(), String> {
    if reply.starts_with("PANIC") || reply == "NO-SERVER" {
        return Err(format!("the language server died or could not be started: {}", reply));
    }
    if reply.starts_with("NODIAG") {
        return Err("the open / change was not answered with diagnostics: the server replied to the NEXT request without having published any".to_string());
    }
    let lines = protocol_lines(doc);
    let u16len = |s: &str| s.encode_utf16().count();
    let Some(rest) = reply.strip_prefix("D ") else { return Err(format!("unparsable reply {}", reply)) };
    let (diags, toks) = rest.split_once(" ; S ").unwrap_or((rest.trim_end_matches(" ; S"), ""));
    let mut n_diags = 0;
    let mut texts: Vec<String> = vec![];
    for d in diags.split(' ').filter(|d| !d.is_empty()) {
        n_diags += 1;
        let parts: Vec<&str> = d.splitn(4, ':').collect();
        let line: usize = parts[0].parse().map_err(|_| "bad diag")?;
        let (a, b) = parts[1].split_once('-').ok_or("bad diag")?;
        let (a, b): (usize, usize) = (a.parse().map_err(|_| "bad diag")?, b.parse().map_err(|_| "bad diag")?);
        if line >= lines.len() {
            return Err(format!("diagnostic on line {} of a {}-line document", line, lines.len()));
        }
        if a > b || b > u16len(&lines[line]) {
            return Err(format!("diagnostic range {}-{} outside line {} ({} UTF-16 units)", a, b, line, u16len(&lines[line])));
        }
        texts.push(parts[3].to_string());
    }
    // decode the semantic tokens
    let (mut line, mut col, mut prev_end) = (0usize, 0usize, 0usize);
    for t in toks.split(' ').filter(|t| !t.is_empty()) {
        let v: Vec<usize> = t.split(',').map(|x| x.parse().unwrap_or(usize::MAX)).collect();
        if v.len() != 4 || v.contains(&usize::MAX) {
            return Err(format!("unparsable semantic token {}", t));
        }
        if v[0] > 0 {
            line += v[0];
            col = v[1];
            prev_end = 0;
        } else {
            col += v[1];
        }
        if line >= lines.len() {
            return Err(format!("semantic token on line {} of a {}-line document", line, lines.len()));
        }
        if col < prev_end {
            return Err(format!("semantic tokens overlap on line {} at column {}", line, col));
        }
        if col + v[2] > u16len(&lines[line]) {
            return Err(format!("semantic token {}+{} runs past the end of line {} ({} UTF-16 units)", col, v[2], line, u16len(&lines[line])));
        }
        if v[3] >= 8 {
            return Err(format!("semantic token type {} is not in the advertised legend", v[3]));
        }
        prev_end = col + v[2];
    }
    // the set of diagnostics equals the analyzer's (mappable) messages for the latest text
    let a = abasic_core::SourceFileAnalyzer::analyze_lines(lines.clone());
    let map = a.source_file_map();
    let mut want: Vec<String> = a
        .messages()
        .iter()
        .filter(|m| map.map_to_source(m).is_some())
        .map(|m| match m {
            abasic_core::DiagnosticMessage::Warning(_, _, msg) => crate::imp::hex(msg),
            abasic_core::DiagnosticMessage::Error(_, e) => crate::imp::hex(&e.to_string()),
        })
        .collect();
    want.sort();
    texts.sort();
    if want != texts {
        return Err(format!("{} diagnostics published but the analyzer has {} messages for the latest text (or their texts differ)", n_diags, want.len()));
    }
    Ok(())
}
