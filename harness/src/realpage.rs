//! The page script itself: `class Interpreter` and the submit handler of abasic-web/ts/main.ts, type-stripped and run
//! under node (harness/page/page_driver.js), against the real `JsInterpreter` compiled natively.  The node process asks
//! for every adapter call over its stdout; this module executes it on the adapter and answers.  Replies have the shape
//! of `web::Pair::event`, so a slice can demand that the transliteration of the page (web.rs, Front.lean) and the real
//! script agree on every event of a session.
use abasic_web::{JsInterpreter, JsInterpreterOutputType, JsInterpreterState};
use std::io::{BufRead, BufReader, Write};
use std::process::{Child, ChildStdin, ChildStdout, Command, Stdio};

pub struct RealPage {
    child: Child,
    stdin: ChildStdin,
    stdout: BufReader<ChildStdout>,
    js: Option<JsInterpreter>,
    trapped: bool,
}

fn hex(s: &str) -> String {
    s.bytes().map(|b| format!("{:02x}", b)).collect()
}

fn unhex(s: &str) -> String {
    crate::imp::unhex(s).unwrap_or_default()
}

impl RealPage {
    pub fn spawn() -> Result<RealPage, String> {
        let repo = std::env::var("VERIF_REPO").unwrap_or_else(|_| "/repo".to_string());
        let driver = concat!(env!("CARGO_MANIFEST_DIR"), "/page/page_driver.js");
        let mut child = Command::new("node")
            .arg(driver)
            .arg(format!("{}/abasic-web/ts/main.ts", repo))
            .stdin(Stdio::piped())
            .stdout(Stdio::piped())
            .stderr(Stdio::null())
            .spawn()
            .map_err(|e| format!("cannot start node: {}", e))?;
        let stdin = child.stdin.take().unwrap();
        let stdout = BufReader::new(child.stdout.take().unwrap());
        Ok(RealPage { child, stdin, stdout, js: None, trapped: false })
    }

    fn adapter_call(&mut self, op: &str, arg: &str) -> String {
        let r = std::panic::catch_unwind(std::panic::AssertUnwindSafe(|| -> String {
            if op == "new" {
                self.js = Some(JsInterpreter::new());
                return "ok".to_string();
            }
            let js = self.js.as_mut().expect("adapter used before new");
            match op {
                "randomize" => {
                    js.randomize(arg.parse::<u64>().unwrap_or(0));
                    "ok".into()
                }
                "start" => {
                    js.start_evaluating(unhex(arg));
                    "ok".into()
                }
                "cont" => {
                    js.continue_evaluating();
                    "ok".into()
                }
                "input" => {
                    js.provide_input(unhex(arg));
                    "ok".into()
                }
                "break" => {
                    js.break_at_current_location();
                    "ok".into()
                }
                "state" => match js.get_state() {
                    JsInterpreterState::Idle => "0".into(),
                    JsInterpreterState::Running => "1".into(),
                    JsInterpreterState::AwaitingInput => "2".into(),
                    JsInterpreterState::Errored => "3".into(),
                },
                "error" => match js.take_latest_error() {
                    Some(e) => format!("e{}", hex(&e)),
                    None => "none".into(),
                },
                "output" => js
                    .take_latest_output()
                    .into_iter()
                    .map(|item| {
                        let t = match item.output_type {
                            JsInterpreterOutputType::Print => 0,
                            JsInterpreterOutputType::Break => 1,
                            JsInterpreterOutputType::Warning => 2,
                            JsInterpreterOutputType::Trace => 3,
                            JsInterpreterOutputType::ExtraIgnored => 4,
                            JsInterpreterOutputType::Reenter => 5,
                        };
                        format!("{}:{}", t, hex(&item.into_string()))
                    })
                    .collect::<Vec<_>>()
                    .join(" "),
                other => panic!("page driver asked for an unknown adapter call {:?}", other),
            }
        }));
        match r {
            Ok(s) => s,
            Err(_) => "trap".to_string(),
        }
    }

    /// the generator of the adapter is seeded by the page with the clock; sessions re-seed it
    pub fn seed(&mut self, n: u64) {
        if let Some(js) = self.js.as_mut() {
            js.randomize(n);
        }
    }

    /// one page event; the reply has the shape of `web::Pair::event`
    pub fn event(&mut self, ev: &str) -> String {
        if self.trapped {
            return "TRAPPED".to_string();
        }
        if writeln!(self.stdin, "{}", ev).and_then(|_| self.stdin.flush()).is_err() {
            return "PAGE-DRIVER-GONE".to_string();
        }
        loop {
            let mut line = String::new();
            match self.stdout.read_line(&mut line) {
                Ok(0) | Err(_) => return "PAGE-DRIVER-GONE".to_string(),
                Ok(_) => {}
            }
            let line = line.trim_end_matches('\n');
            if let Some(rest) = line.strip_prefix("CALL ") {
                let mut it = rest.splitn(2, ' ');
                let op = it.next().unwrap_or("").to_string();
                let arg = it.next().unwrap_or("").to_string();
                let reply = self.adapter_call(&op, &arg);
                if writeln!(self.stdin, "{}", reply).and_then(|_| self.stdin.flush()).is_err() {
                    return "PAGE-DRIVER-GONE".to_string();
                }
            } else if let Some(rest) = line.strip_prefix("DONE ") {
                let st = match std::panic::catch_unwind(std::panic::AssertUnwindSafe(|| self.js.as_ref().map(|j| j.get_state()))) {
                    Ok(Some(JsInterpreterState::Idle)) => "Idle",
                    Ok(Some(JsInterpreterState::Running)) => "Running",
                    Ok(Some(JsInterpreterState::AwaitingInput)) => "AwaitingInput",
                    Ok(Some(JsInterpreterState::Errored)) => "Errored",
                    Ok(None) => "Idle",
                    Err(_) => {
                        self.trapped = true;
                        return "TRAP".to_string();
                    }
                };
                // DONE i=<0|1> t=<n> ui=<entries>
                let mut i = "1";
                let mut t = "0";
                let mut ui = "";
                for part in rest.splitn(3, ' ') {
                    if let Some(v) = part.strip_prefix("i=") {
                        i = v;
                    } else if let Some(v) = part.strip_prefix("t=") {
                        t = v;
                    } else if let Some(v) = part.strip_prefix("ui=") {
                        ui = v;
                    }
                }
                return format!("{} t={} i={} F:ok ui={}", st, t, i, ui);
            } else if line == "TRAP" {
                self.trapped = true;
                return "TRAP".to_string();
            } else if let Some(rest) = line.strip_prefix("THROW ") {
                return format!("PAGE-SCRIPT-THREW {}", rest);
            } else if line.starts_with("FATAL") {
                return format!("PAGE-DRIVER {}", hex(line));
            }
        }
    }
}

impl Drop for RealPage {
    fn drop(&mut self) {
        let _ = writeln!(self.stdin, "quit");
        let _ = self.child.kill();
        let _ = self.child.wait();
    }
}
