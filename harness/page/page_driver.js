// Runs the page script's `Interpreter` class and submit handler, taken verbatim from
// abasic-web/ts/main.ts (only the TypeScript type annotations are removed), under node.
// Every call the script makes into the adapter (`JsInterpreter`) is forwarded,
// synchronously, to the parent process (the harness), which executes it on the real
// adapter compiled natively.  Protocol on stdin/stdout, one line each way:
//   parent -> node : new | start | load <hex> | submit <hex> | break | tick | quit
//   node -> parent : CALL <op> [<hex>]   (parent answers with one line: ok | trap | <value>)
//                    DONE i=<0|1> t=<pending timers> ui=<class:hex ...>   (event finished)
//                    TRAP ...            (the adapter trapped during the event)
//                    THROW <hex>         (the page script itself threw)
"use strict";
const fs = require("fs");

const mainTsPath = process.argv[2];
const hex = (s) => Buffer.from(s, "utf8").toString("hex");
const unhex = (h) => Buffer.from(h || "", "hex").toString("utf8");

let pending = Buffer.alloc(0);
function readLine() {
  for (;;) {
    const nl = pending.indexOf(10);
    if (nl >= 0) {
      const line = pending.subarray(0, nl).toString("utf8");
      pending = pending.subarray(nl + 1);
      return line;
    }
    const buf = Buffer.alloc(65536);
    let n = 0;
    try {
      n = fs.readSync(0, buf, 0, buf.length, null);
    } catch (e) {
      if (e.code === "EAGAIN") continue;
      if (e.code === "EOF") return null;
      throw e;
    }
    if (n === 0) return null;
    pending = Buffer.concat([pending, buf.subarray(0, n)]);
  }
}
function writeLine(s) {
  fs.writeSync(1, s + "\n");
}

class WasmTrap extends Error {}
function call(op, arg) {
  writeLine(arg === undefined ? `CALL ${op}` : `CALL ${op} ${arg}`);
  const reply = readLine();
  if (reply === null) process.exit(0);
  if (reply === "trap") throw new WasmTrap(op);
  return reply;
}

const JsInterpreterState = { Idle: 0, Running: 1, AwaitingInput: 2, Errored: 3 };
for (const [k, v] of Object.entries({ ...JsInterpreterState })) JsInterpreterState[v] = k;
const JsInterpreterOutputType = { Print: 0, Break: 1, Warning: 2, Trace: 3, ExtraIgnored: 4, Reenter: 5 };

class JsInterpreter {
  static new() {
    call("new");
    return new JsInterpreter();
  }
  randomize(seed) { call("randomize", BigInt.asUintN(64, seed).toString()); }
  start_evaluating(line) { call("start", hex(line)); }
  continue_evaluating() { call("cont"); }
  provide_input(input) { call("input", hex(input)); }
  break_at_current_location() { call("break"); }
  get_state() { return Number(call("state")); }
  take_latest_error() {
    const r = call("error");
    return r === "none" ? undefined : unhex(r.slice(1));
  }
  take_latest_output() {
    const r = call("output");
    return r.split(" ").filter((x) => x).map((item) => {
      const [type, text] = item.split(":");
      return { output_type: Number(type), into_string: () => unhex(text) };
    });
  }
}

function strip(js) {
  return js
    .replace(/constructor\(private readonly impl: JsInterpreter\) \{/, "constructor(impl) { this.impl = impl;")
    .replace(/\bprivate\s+/g, "")
    .replace(/\((\s*\w+)\s*:\s*string\s*\)/g, "($1)")
    .replace(/\)\s*:\s*boolean\s*\{/g, ") {");
}

const source = fs.readFileSync(mainTsPath, "utf8");
const classMatch = source.match(/^class Interpreter \{[\s\S]*?^\}/m);
const submitMatch = source.match(/ui\.onSubmitInput\(\(\) => \{([\s\S]*?)\n  \}\);/);
if (!classMatch || !submitMatch) {
  writeLine("FATAL cannot find class Interpreter / ui.onSubmitInput in main.ts");
  process.exit(3);
}

let page = null;
function makePage() {
  const screen = [];
  const timers = [];
  let currentInput = "";
  const ui = {
    print: (msg) => screen.push(["print", msg]),
    printSpanWithClass: (msg, cls) => screen.push([cls, msg]),
    setPrompt: (p) => { if (p !== "") screen.push(["prompt", p]); },
    clearPromptAndDisableInput: () => screen.push(["prompt", "<disabled>"]),
    commitCurrentPromptToOutput: () => {},
    clearScreen: () => {},
    getInput: () => currentInput,
    clearInput: () => { currentInput = ""; },
  };
  const env = {
    ui,
    window: { setTimeout: (fn) => timers.push(fn) },
    console: { warn: () => {}, log: () => {}, error: () => {} },
    JsInterpreter, JsInterpreterState, JsInterpreterOutputType,
    unreachable: (x) => { throw new Error(`unreachable: ${x}`); },
    VERSION: "x",
    Date: { now: () => 0 },
    BigInt,
  };
  const names = Object.keys(env);
  let Interpreter, submitHandler;
  try {
    Interpreter = new Function(...names, `"use strict";\n${strip(classMatch[0])}\nreturn Interpreter;`)(...names.map((n) => env[n]));
    const interpreter = new Interpreter(JsInterpreter.new());
    submitHandler = new Function("interpreter", ...names, `"use strict";\nreturn () => {${submitMatch[1]}\n};`)(interpreter, ...names.map((n) => env[n]));
    return { interpreter, screen, timers, submitHandler, setInput: (s) => { currentInput = s; }, shown: 0 };
  } catch (e) {
    if (e instanceof WasmTrap) throw e;
    writeLine("FATAL the type-stripped page script does not run: " + String(e).replace(/\n/g, " "));
    process.exit(3);
  }
}

function done() {
  const fresh = page.screen.slice(page.shown).map(([c, t]) => `${c}:${hex(t)}`);
  page.shown = page.screen.length;
  writeLine(`DONE i=${page.interpreter.isFullyInteractive ? 1 : 0} t=${page.timers.length} ui=${fresh.join(" ")}`);
}

for (;;) {
  const line = readLine();
  if (line === null || line === "quit") break;
  const sp = line.indexOf(" ");
  const op = sp < 0 ? line : line.slice(0, sp);
  const arg = sp < 0 ? "" : line.slice(sp + 1);
  try {
    switch (op) {
      case "new":
        page = makePage();
        break;
      case "start":
        page.interpreter.start();
        break;
      case "load":
        page.interpreter.loadAndRunSourceCode(unhex(arg));
        page.interpreter.start();
        break;
      case "submit":
        page.setInput(unhex(arg));
        page.submitHandler();
        break;
      case "break":
        page.interpreter.breakAtCurrentLocation();
        break;
      case "tick":
        if (page.timers.length) page.timers.shift()();
        break;
      default:
        writeLine("FATAL unknown event " + op);
        process.exit(3);
    }
    done();
  } catch (e) {
    if (e instanceof WasmTrap) {
      writeLine("TRAP");
    } else {
      writeLine("THROW " + hex(String(e)));
    }
  }
}
