#!/usr/bin/env python3
"""Mechanical mutation campaign (a measurement, not a check): apply one small syntactic mutation at a time to a scratch
copy of /repo, keep those that still compile and pass the 153 existing tests, and see whether the quick checks notice.
Everything happens in scratch copies under /tmp/mut (a git worktree of /repo and a copy of /verif whose harness points
at it); /repo and /verif themselves are not touched.  Results: /verif/.cache/mutants.jsonl
usage: [MUT_DIR=/tmp/mutN] [MUT_OPS=2] [MUT_PART=k/K] tools/mutants.py setup | run <count> <seed> | report"""
import json, os, random, re, shutil, subprocess, sys, time

MUT = os.environ.get("MUT_DIR", "/tmp/mut")
MREPO = MUT + "/repo"
MVERIF = MUT + "/verif"
OUT = os.environ.get("MUT_OUT", "/verif/.cache/mutants.jsonl")
ENV = dict(os.environ, RUST_BACKTRACE="0", CARGO_NET_OFFLINE="true", VERIF_REPO=MREPO, VERIF_SEED="1", VERIF_TIER="quick",
           VERIF_LSP_BIN=MVERIF + "/.cache/target-repo/debug/abasic-lsp", VERIF_CLI_BIN=MVERIF + "/.cache/target-repo/debug/abasic")
ORDER = "C04 C18 C11 C08 C10 C09 C07 C03 C02 C06 C12 C14 C17 C19 C20 C15 C13 C05 C16 C01".split()
FILES = ["abasic-core/src/" + f for f in ["arrays.rs", "data.rs", "expression.rs", "interpreter.rs", "interpreter_error.rs", "line_number_parser.rs", "operators.rs", "program.rs",
                                          "program_lines.rs", "random.rs", "statement.rs", "tokenizer.rs", "value.rs", "variables.rs", "line_cruncher.rs", "syntax_error.rs",
                                          "analyzer/expression_analyzer.rs", "analyzer/statement_analyzer.rs", "analyzer/source_file_analyzer.rs", "analyzer/source_map.rs"]] + \
        ["abasic-web/src/lib.rs", "abasic-lsp/src/main.rs", "abasic-cli/src/stdio_interpreter.rs"]

OPS = [
    (r" == ", " != "), (r" != ", " == "), (r" < ", " <= "), (r" <= ", " < "), (r" > ", " >= "), (r" >= ", " > "),
    (r" && ", " || "), (r" \|\| ", " && "), (r" \+ 1\b", " + 2"), (r" - 1\b", " - 0"), (r" \+ ", " - "), (r" - ", " + "),
    (r"\btrue\b", "false"), (r"\bfalse\b", "true"), (r"if !", "if "), (r"\.rev\(\)", ""), (r"\bSTACK_LIMIT\b", "(STACK_LIMIT - 1)"),
    (r"= None;", "= None; /*kept*/"), (r"\.trim\(\)", ".trim_start()"), (r"\.trim_end\(\)", ""), (r"\.is_ascii_digit\(\)", ".is_ascii_hexdigit()"),
    (r"\.to_ascii_uppercase\(\)", ".to_ascii_lowercase()"), (r"\.is_empty\(\)", ".len() == 1"), (r"\bindex \+= ", "index -= "), (r"\.pop\(\)", ".last().cloned()"),
]
# second campaign: other operator classes (boundaries inverted rather than shifted, constants, dropped calls, early exits)
OPS2 = [
    (r" < ", " > "), (r" > ", " < "), (r" <= ", " >= "), (r" >= ", " <= "), (r" == ", " >= "), (r" \+= ", " -= "), (r" -= ", " += "),
    (r"\b0\.0\b", "1.0"), (r"\b1\.0\b", "0.0"), (r" = 0;", " = 1;"), (r"\(0\)", "(1)"), (r"\b10000\b", "9999"), (r"\b32\b", "33"), (r"\b48\b", "47"), (r"\b10;", "11;"),
    (r"\.min\(", ".max("), (r"\.max\(", ".min("), (r"\bcontinue;", "break;"), (r"\bbreak;", "continue;"), (r"unwrap_or\(0\)", "unwrap_or(1)"), (r"unwrap_or\(1\)", "unwrap_or(0)"),
    (r"\.first\(\)", ".last()"), (r"\.last\(\)", ".first()"), (r"\.is_some\(\)", ".is_none()"), (r"\.is_none\(\)", ".is_some()"), (r"if let Some\((\w+)\) = (.*) \{$", r"if let Some(\1) = None::<()>.and(\2) {"),
    (r"^(\s*)if (?!let)(.*) \{$", r"\1if !(\2) {"), (r"^(\s*)\} else if (?!let)(.*) \{$", r"\1} else if !(\2) {"), (r"^(\s*)while (?!let)(.*) \{$", r"\1while !(\2) {"),
    (r"\.len\(\) - 1", ".len()"), (r"\.len\(\)", ".len().saturating_sub(1)"), (r"\* ", "+ "), (r" / ", " * "), (r" % ", " / "), (r"\.chars\(\)", ".chars().rev()"),
    (r"\.trim_start\(\)", ""), (r"\.to_ascii_uppercase\(\)", ""), (r"\.floor\(\)", ".ceil()"), (r"\.abs\(\)", ""), (r"as usize", "as u8 as usize"),
]
DELETE2 = [r"^\s*self\.[\w.()]+\((.*)\);\s*$", r"^\s*\w+\.push\(.*\);\s*$", r"^\s*\w+(\.\w+)* [+-]= .*;\s*$", r"^\s*return;\s*$", r"^\s*\w+(\.\w+)* = (true|false);\s*$", r"^\s*self\.\w+(\.\w+)* = .*;\s*$"]
DELETE = [r"^\s*self\.\w+(\.\w+)*\.clear\(\);\s*$", r"^\s*self\.\w+ = None;\s*$", r"^\s*self\.\w+ = \w+::default\(\);\s*$", r"^\s*self\.program\(\)\.\w+\(\);\s*$"]


def sh(cmd, cwd=None, timeout=3000, env=ENV):
    try:
        p = subprocess.run(cmd, cwd=cwd, env=env, stdout=subprocess.PIPE, stderr=subprocess.STDOUT, text=True, errors="replace", timeout=timeout, shell=isinstance(cmd, str), executable="/bin/bash" if isinstance(cmd, str) else None)
        return p.returncode, p.stdout
    except subprocess.TimeoutExpired as e:
        return 124, (e.stdout or "") if isinstance(e.stdout, str) else ""


def setup():
    shutil.rmtree(MVERIF, ignore_errors=True)
    sh("git -C /repo worktree remove --force %s; git -C /repo worktree prune" % MREPO)
    os.makedirs(MUT, exist_ok=True)
    print(sh("git -C /repo worktree add --detach %s HEAD" % MREPO)[1][-200:])
    sh("rsync -a --exclude .git --exclude .cache --exclude replays --exclude seeded --exclude evidence /verif/ %s/" % MVERIF)
    os.makedirs(MVERIF + "/evidence", exist_ok=True)
    for root, _, files in os.walk(MVERIF + "/harness"):
        for f in files:
            if f.endswith((".rs", ".toml")):
                p = os.path.join(root, f)
                s = open(p).read()
                s2 = s.replace('"/repo/', '"%s/' % MREPO).replace("/verif/", MVERIF + "/").replace('"/repo"', '"%s"' % MREPO)
                if s2 != s:
                    open(p, "w").write(s2)
    rc, out = sh("./setup", cwd=MVERIF, timeout=3000)
    print("setup rc", rc, out[-400:])


def candidates():
    cands = []
    ops, dels = (OPS2, DELETE2) if os.environ.get("MUT_OPS") == "2" else (OPS, DELETE)
    for rel in FILES:
        p = os.path.join(MREPO, rel)
        if not os.path.exists(p):
            continue
        lines = open(p).read().split("\n")
        in_test = False
        for i, l in enumerate(lines):
            if "#[cfg(test)]" in l or "mod tests" in l:
                break
            if "verif_" in l or "verif-hooks" in l or (i > 0 and "verif-hooks" in lines[i - 1]):
                continue
            # the bodies of `impl` blocks that exist only with the hooks feature follow their cfg line: skip to the file's end
            if l.startswith("impl") and i > 0 and "verif-hooks" in lines[i - 1]:
                break
            s = l.strip()
            if not s or s.startswith("//") or s.startswith("#[") or "panic!" in s or "assert" in s or "write!(" in s or "format!(" in s and "Err" not in s:
                continue
            for pat, rep in ops:
                for m in re.finditer(pat, l):
                    new = l[:m.start()] + re.sub(pat, rep, l[m.start():m.end()]) + l[m.end():]
                    if new != l:
                        cands.append((rel, i, l, new))
            for pat in dels:
                if re.match(pat, l):
                    cands.append((rel, i, l, "        // (deleted) " + s))
    return cands


def run(count, seed):
    rnd = random.Random(seed)
    cands = candidates()
    rnd.shuffle(cands)
    part = os.environ.get("MUT_PART")
    if part:
        k, K = (int(x) for x in part.split("/"))
        cands = [c for j, c in enumerate(cands) if j % K == k]
    done = set()
    if os.path.exists(OUT):
        for l in open(OUT):
            try:
                r = json.loads(l)
                done.add((r["file"], r["line"], r["after"]))
            except ValueError:
                pass
    n = 0
    for rel, i, old, new in cands:
        if n >= count:
            break
        if (rel, i + 1, new) in done:
            continue
        sh("git checkout -- . && git clean -fdq", cwd=MREPO)
        p = os.path.join(MREPO, rel)
        lines = open(p).read().split("\n")
        if lines[i] != old:
            continue
        lines[i] = new
        open(p, "w").write("\n".join(lines))
        rec = {"file": rel, "line": i + 1, "before": old.strip(), "after": new.strip(), "t": time.strftime("%H:%M:%S")}
        rc, out = sh("cargo build --offline --workspace 2>&1 | tail -3", cwd=MREPO)
        if "error" in out and "warning: unused" not in out.split("error")[0][-30:] and ("could not compile" in out or "error[" in out or "error:" in out):
            rec["result"] = "does-not-compile"
        else:
            rc, out = sh("timeout -k 5 240 cargo test --workspace --no-fail-fast --offline 2>&1 | grep -E '^test result|panicked|FAILED|timed out' | head -20; echo rc=${PIPESTATUS[0]}", cwd=MREPO, timeout=400)
            sh("pkill -9 -f %s/target/debug/deps/ || true" % MREPO)
            passed = sum(int(m) for m in re.findall(r"test result: ok\. (\d+) passed", out))
            if "FAILED" in out or "rc=124" in out or "rc=137" in out or passed < 153:
                rec["result"] = "killed-by-existing-tests"
            else:
                rec["result"] = "SURVIVED-ALL-CHECKS"
                for pid in ORDER:
                    rc, out = sh(["./check", pid], cwd=MVERIF, timeout=1500)
                    if rc != 0 or "VIOLATION" in out:
                        v = [l for l in out.splitlines() if l.startswith("VIOLATION")]
                        j = out.splitlines().index(v[0]) if v else -1
                        rec["result"] = "killed-by-check"
                        rec["check"] = pid
                        rec["how"] = ("no-failing-input-found" if v and "no-failing-input-found" in v[0] else "failing-input") if v else "rc=%s" % rc
                        rec["detail"] = (out.splitlines()[j + 1] if v and j + 1 < len(out.splitlines()) else out[-300:])[:300]
                        break
        n += 1
        with open(OUT, "a") as f:
            f.write(json.dumps(rec) + "\n")
        print(n, rec["result"], rec.get("check", ""), rel, i + 1, rec["after"][:80], flush=True)
    sh("git checkout -- . && git clean -fdq", cwd=MREPO)


def report():
    rs = [json.loads(l) for l in open(OUT)]
    from collections import Counter
    c = Counter(r["result"] for r in rs)
    print(dict(c))
    for r in rs:
        if r["result"] == "SURVIVED-ALL-CHECKS":
            print("SURVIVOR %s:%d  %s  ==>  %s" % (r["file"], r["line"], r["before"][:90], r["after"][:90]))


if __name__ == "__main__":
    if sys.argv[1] == "setup":
        setup()
    elif sys.argv[1] == "run":
        run(int(sys.argv[2]), int(sys.argv[3]))
    else:
        report()
