import re,sys
p='/verif/tools/props_more.py'; s=open(p).read()

def add_theorems(pid, names):
    global s
    m=re.search(r'    "%s": \{\n        "theorems": \[' % pid, s)
    assert m, pid
    s=s[:m.end()]+", ".join('"%s"'%n for n in names)+",\n                     "+s[m.end():]

def block(pid):
    i=s.index('    "%s": {' % pid); j=s.index('\n    },', i)
    return i,j

def append_what(pid, text):
    global s
    i,j=block(pid); blk=s[i:j]
    m=re.search(r'        "what": "', blk)
    assert m, pid
    k=blk.find('",\n', m.end())
    if k<0:
        assert blk.endswith('",'); k=len(blk)-2
    blk=blk[:k]+"; "+text.replace('"','\\"')+blk[k:]
    s=s[:i]+blk+s[j:]

def replace_open(pid, items):
    global s
    i,j=block(pid); blk=s[i:j]+'\n'
    m=re.search(r'        "open": \[.*?\],\n', blk, re.S)
    assert m, pid
    new='        "open": [%s],\n' % ", ".join('"%s"'%x.replace('"','\\"') for x in items)
    blk=blk[:m.start()]+new+blk[m.end():]
    s=s[:i]+blk[:-1]+s[j:]

def new_entry(pid, theorems, what, open_, note, level=None):
    global s
    e='    "%s": {\n        "theorems": [%s],\n        "what": "%s",\n        "open": [%s],\n' % (pid, ", ".join('"%s"'%t for t in theorems), what.replace('"','\\"'), ", ".join('"%s"'%x.replace('"','\\"') for x in open_))
    if level: e+='        "level": "%s",\n' % level.replace('"','\\"')
    e+='        "note": "%s",\n    },\n' % note.replace('"','\\"')
    k=s.rindex('}')
    s=s[:k]+e+s[k:]
exec(open(sys.argv[1] if len(sys.argv) > 1 else '/tmp/upd_body.py').read())
open(p,'w').write(s)
