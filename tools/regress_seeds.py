#!/usr/bin/env python3
"""Regression over the kept seeded changes: every seeded/<id>-<x>/patch.diff is applied to a scratch copy of the
repository and the property's quick check is run in a scratch copy of /verif pointed at it (same mechanism as
tools/mutants.py: MUT_DIR names the scratch directory).  One JSON line per seed in REG_OUT.
usage: MUT_DIR=/tmp/regN REG_PART=k/K [REG_OUT=/verif/.cache/regress.jsonl] tools/regress_seeds.py setup | run"""
import glob, json, os, re, sys, time
sys.path.insert(0, os.path.dirname(os.path.abspath(__file__)))
import mutants as M

OUT = os.environ.get("REG_OUT", "/verif/.cache/regress.jsonl")


def run():
    k, K = (int(x) for x in os.environ.get("REG_PART", "0/1").split("/"))
    seeds = sorted(glob.glob("/verif/seeded/*"))
    done = set()
    if os.path.exists(OUT):
        done = {json.loads(l)["seed"] for l in open(OUT) if l.strip()}
    for j, d in enumerate(seeds):
        name = os.path.basename(d)
        if j % K != k or name in done:
            continue
        pid = name.split("-")[0]
        M.sh("git checkout -- . && git clean -fdq", cwd=M.MREPO)
        rc, out = M.sh(["git", "apply", os.path.join(d, "patch.diff")], cwd=M.MREPO)
        rec = {"seed": name, "t": time.strftime("%H:%M:%S")}
        if rc != 0:
            rec["result"] = "patch-does-not-apply"
        else:
            rc, out = M.sh(["./check", pid], cwd=M.MVERIF, timeout=1500)
            v = [l for l in out.splitlines() if l.startswith("VIOLATION")]
            if v:
                rec["result"] = "no-failing-input-found" if "no-failing-input-found" in v[0] else "failing-input"
                j2 = out.splitlines().index(v[0])
                rec["detail"] = (out.splitlines()[j2 + 1] if j2 + 1 < len(out.splitlines()) else "")[:240]
            else:
                rec["result"] = "NOT-DETECTED rc=%s" % rc
        with open(OUT, "a") as f:
            f.write(json.dumps(rec) + "\n")
        print(name, rec["result"], flush=True)
    M.sh("git checkout -- . && git clean -fdq", cwd=M.MREPO)


if __name__ == "__main__":
    if sys.argv[1] == "setup":
        M.setup()
    else:
        run()
