#!/usr/bin/env python3
"""Print the prompt given to a fresh sub-agent that seeds a breaking change for one property."""
import json, sys
pid = sys.argv[1]
props = {json.loads(l)['id']: json.loads(l) for l in open('/verif/properties.jsonl') if l.strip()}
p = props[pid]
print(f"""You are helping to evaluate a verification effort by playing the adversary. You get one behavioural property of a Rust code base and must produce realistic code changes that BREAK that property while still compiling and passing the project's existing test suite.

The code base: toolness/abasic, a small Applesoft-style BASIC interpreter in Rust (crates abasic-core, abasic-cli, abasic-web, abasic-lsp). Work ONLY in your own scratch git worktree; never edit /repo itself, and do not read or touch anything under /verif or /root/.vp (that would spoil the experiment).

Setup:
  git -C /repo worktree add /tmp/seed-{pid} -b seed-{pid} HEAD
  cd /tmp/seed-{pid}
There is no network: always pass `--offline` to cargo. `RUST_BACKTRACE=1` is set in this sandbox and makes two existing tests fail spuriously, so always run with `RUST_BACKTRACE=0`. The existing suite: `cd /tmp/seed-{pid} && RUST_BACKTRACE=0 cargo test --workspace --no-fail-fast --offline` (153 tests pass on the unchanged tree). (abasic-core has an optional cargo feature `verif-hooks` with read-only observation helpers in src/verif_hooks.rs; leave it compiling: also run `cargo build --offline -p abasic-core --features verif-hooks`.)

THE PROPERTY ({pid}: {p['title']})
{p['statement']}
It must hold for: {p['quantifier']['text']}.
Why the existing tests cannot settle it: {p['why_tests_cant']}
Code it is anchored in: {', '.join(p['anchors']['files'])}

YOUR TASK: produce TWO different, independent changes (call them a and b), each a small plausible edit a developer might make (a refactoring slip, an off-by-one, a dropped reset, a reordered pair of statements, a wrong boundary, a 'simplification', two cooperating edits that each look fine alone ...) such that:
  1. the workspace still compiles (also with `--features verif-hooks` on abasic-core) and ALL existing tests still pass, unedited;
  2. the property above is violated, demonstrably;
  3. the violation needs something SPECIFIC to manifest — a particular multi-step sequence of operations, an unusual input, a boundary value, a particular interleaving of host calls, or two cooperating sites — NOT something ordinary use or a casual smoke test would expose at once. Prefer subtle over blatant. The two changes should break the property in different ways / at different code sites.
For each change write a demonstration: a Rust integration test file (e.g. abasic-core/tests/seed_demo.rs using only the crate's public API, or for front ends a small script) that FAILS with the change applied and PASSES on the unchanged tree. Verify both directions yourself (git stash / git checkout to switch).

Deliver, for each change x in {{a, b}}, a directory /tmp/seed-{pid}-out/x/ containing:
  - patch.diff  : `git diff` of the change ONLY (not the demo), relative to the worktree's HEAD, applicable with `git apply` at the repo root;
  - demo.rs (or demo.sh / demo.py) : the demonstration, plus in README.md the exact command to run it and where the file must be placed;
  - README.md : which part of the property it breaks, what it needs in order to manifest (the specific input / sequence), what you ran and observed with and without the change (including confirmation that the 153 existing tests pass with the change).
Do not commit anything. When finished, restore the worktree to a clean state (`git checkout -- . && git clean -fd`), remove build output (`rm -rf /tmp/seed-{pid}/target`) but leave the worktree in place. In your final message, summarise both changes in a few lines each.""")
