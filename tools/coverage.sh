#!/bin/sh
# Source-based coverage of /repo's crates under the correspondence slices.
# Not a check: a measurement of which regions of the Rust code the differential
# runs (implementation vs Lean model) execute, used to direct the generators.
# usage: tools/coverage.sh [tier] [slice ...]   -> /verif/.cache/cov/{report.txt,uncovered.txt}
set -e
V=$(cd "$(dirname "$0")/.." && pwd)
TIER=${1:-quick}; [ $# -gt 0 ] && shift
SLICES=${*:-"c01 c02 c03 c04 c05 c06 c07 c08 c09 c10 c11 c12 c13 c14 c15 c16 c17 c18 c19 c20"}
BIN=$(dirname "$(rustup which --toolchain nightly rustc)")/../lib/rustlib/x86_64-unknown-linux-gnu/bin
COV=$V/.cache/cov; rm -rf "$COV"; mkdir -p "$COV/raw"
cp /repo/Cargo.lock "$V/harness/Cargo.lock"
(cd "$V/harness" && CARGO_NET_OFFLINE=true CARGO_TARGET_DIR=$V/.cache/target-cov RUSTFLAGS="-C instrument-coverage" cargo +nightly build --offline 2>&1 | tail -2)
H=$V/.cache/target-cov/debug/harness
for s in $SLICES; do
  LLVM_PROFILE_FILE="$COV/raw/$s-%p.profraw" timeout 1800 "$H" "$s" --seed 1 --tier "$TIER" --driver "$V/lean/.lake/build/bin/abasic-driver" --out "$COV/$s.json" >/dev/null 2>&1 || echo "slice $s rc=$?"
done
"$BIN/llvm-profdata" merge -sparse "$COV"/raw/*.profraw -o "$COV/all.profdata"
"$BIN/llvm-cov" report "$H" -instr-profile="$COV/all.profdata" -ignore-filename-regex='(registry|rustc|harness/src|verif_hooks)' > "$COV/report.txt"
"$BIN/llvm-cov" show "$H" -instr-profile="$COV/all.profdata" -ignore-filename-regex='(registry|rustc|harness/src|verif_hooks)' -show-line-counts-or-regions -format=text > "$COV/show.txt"
# lines with an execution count of 0
awk '/^\/.*:$/ {file=$0} /^ +[0-9]+\| +0\|/ {print file " " $0}' "$COV/show.txt" > "$COV/uncovered.txt"
cat "$COV/report.txt"
rm -f /repo/*.profraw /repo/*/*.profraw
