"""Per-property configuration of ./check: which theorems are the property's
obligations, which correspondence slices run, what is trusted."""
import json
import os
import re

VERIF = os.path.join(os.path.dirname(os.path.abspath(__file__)), "..")

TRUSTED_BASE = [
    "Lean 4.33 kernel (and leanchecker in the thorough tier)",
    "axioms allowed in property theorems: propext, Classical.choice, Quot.sound (audited per theorem on every run); no native_decide, no bv_decide, no axioms of ours, no sorry",
    "the hand-written model M (lean/Abasic/*.lean) is tied to /repo only by the correspondence check: Rust harness (verif/harness) + compiled Lean driver over a hex line protocol, generated cases from one PRNG seed",
    "tools/extract.py regenerates lean/Abasic/Extracted.lean (keyword/operator/token-class tables, constants, messages) from /repo's source on every run",
    "NumOps: IEEE double arithmetic, powf, floor, `as` casts, str::parse::<f64>, Display for f64 are parameters of the model; the executable instance (lean/Abasic/Exec) is validated against Rust's std by the `num` slice",
    "Rust std semantics of HashMap/BTreeSet/String/char primitives that M models as lists",
    "not modelled: StringManager, Backtrace capture, stdio/rustyline/ctrl-c, wasm-bindgen glue, DOM, JSON-RPC transport, allocation failure, bytes of native stack per recursion level",
]

PROPS = {
    "C18": {
        "what": "RND: state reduced mod 2^33 by randomize, positive argument = one step of the documented LCG (no 64-bit overflow possible), RND(0) repeats, negative argument errors without advancing, k-th value is a pure function of seed mod 2^33",
        "theorems": ["constants", "step_is_lcg", "seed_reduced", "seed_congruence", "step_in_range", "no_overflow", "rnd_negative", "rnd_zero",
                     "rnd_positive", "rnd_safe", "lcg_sequence", "same_seed_same_sequence"],
        "slices": ["c18"],
        "level_text": "Machine-checked theorems (Lean 4) about the model of random.rs / the RND builtin, for every seed, every state and every number of calls: reduction of the seed, the documented recurrence, no 64-bit overflow, RND(0) and negative-argument behaviour, purity of the sequence. The model is tied to the code by the correspondence slice (raw generator steps via the hook and PRINT RND sessions, implementation vs model vs a u128 oracle; thorough tier sweeps all 2^33 states of the implementation).",
        "level_note": "Trusted: Lean kernel; extractor for MODULUS/MULTIPLIER/INCREMENT; the model is hand-written and validated by sampling; exactness of n/2^33 in doubles is a NumOps fact tested, not proved; wasm/CLI seeding glue not modelled.",
        "trusted": ["`(n as f64) / 2^33` is exact for n < 2^33 (so the value lies in [0,1)): a NumOps fact, checked by the harness's u128 oracle on every generated state and, in the thorough tier, exhaustively on all 2^33 states of the implementation"],
        "assumptions": ["front ends pass the seed through `Interpreter::randomize` unchanged (abasic-web: randomize(u64); abasic-cli: time-based seed)"],
    },
}


NOT_CLAIMED = {}


def _load_known():
    try:
        return json.load(open(os.path.join(VERIF, "known-findings.json")))["known"]
    except (OSError, ValueError, KeyError):
        return []


def _unhex(h):
    try:
        return bytes.fromhex(h).decode("utf-8", "replace")
    except ValueError:
        return ""


def _else_resume(f):
    """KF-ELSE-RESUME: a taken THEN-clause that is GOSUB / INPUT / STOP directly
    followed by ELSE, failing with UnexpectedToken located at that ELSE."""
    texts = [_unhex(o.split(" ", 1)[1]) for o in f.get("ops", []) if o.startswith("start ") and " " in o]
    pat = re.compile(r"THEN\s*(GOSUB\s*[0-9 ]+|INPUT\s*[A-Z0-9$ ]+(\([^)]*\))?|STOP)\s*ELSE", re.I)
    if not any(pat.search(t) for t in texts):
        return False
    blob = " ".join(f.get("impl_replies", [])) + " " + str(f.get("detail", ""))
    return "Syntax.UnexpectedToken" in blob


_MATCHERS = {"KF-ELSE-RESUME": _else_resume}


def known_match(pid, failure):
    for k in _load_known():
        if pid in k.get("properties", []) and k["id"] in _MATCHERS and _MATCHERS[k["id"]](failure):
            return k
    return None
