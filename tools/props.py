"""Per-property configuration of ./check: which theorems are the property's
obligations, which correspondence slices run, what is trusted."""
import json
import os
import re

VERIF = os.path.join(os.path.dirname(os.path.abspath(__file__)), "..")

TRUSTED_BASE = [
    "Lean 4.33 kernel (and leanchecker in the thorough tier)",
    "axioms allowed in property theorems: propext, Classical.choice, Quot.sound (audited per theorem on every run); no native_decide, no bv_decide, no axioms of ours, no sorry",
    "the hand-written model M (lean/Abasic/*.lean) is tied to /repo only by the correspondence check: Rust harness (verif/harness) + compiled Lean driver over a hex line protocol, generated cases from one PRNG seed",
    "tools/extract.py regenerates lean/Abasic/Extracted.lean (keyword/operator/token-class tables, constants, messages) from /repo's source on every run",
    "NumOps: IEEE double arithmetic, powf, floor, `as` casts, str::parse::<f64>, Display for f64 are parameters of the model; the executable instance (lean/Abasic/Exec) is validated against Rust's std by the `num` slice",
    "Rust std semantics of HashMap/BTreeSet/String/char primitives that M models as lists",
    "not modelled: StringManager, Backtrace capture, stdio/rustyline/ctrl-c, wasm-bindgen glue, DOM, JSON-RPC transport, allocation failure, bytes of native stack per recursion level",
]

PROPS = {
    "C02": {
        "what": "for EVERY syntax tree e the token-stream evaluator of the model, run on the minimally parenthesised rendering of e, consumes exactly that rendering and yields the value (or the error) of the strict left-to-right fold of e (eval_render, by induction over trees and tiers); plus the rules of the fold (comparisons / logical operators yield 1 or 0 with the stated truthiness, DIVISION BY ZERO, TYPE MISMATCH, unary operators, ABS/INT, parentheses irrelevant — also as a theorem about the evaluator), left-associative rendering, and the six operator tiers of the evaluator = the six precedence levels in the stated order",
        "theorems": ["cmp_yields_bool", "cmp_mixed", "logical_ops", "truthiness", "division_by_zero", "arithmetic_mismatch", "unary_ops", "paren_irrelevant", "left_assoc_render", "tier_tables", "tier_order", "abs_int",
                     "depth_eq_parenNesting", "eval_render_stageA", "eval_render_stageB", "eval_render", "eval_render_body", "eval_render_outcome", "eval_render_body_outcome", "paren_irrelevant_eval", "ready_immediate", "eval_render_fresh"],
        "open": ["eval_render covers the trees of Ref.Expr (numbers, strings, scalar variables, parentheses, unary and binary operators, ABS, INT); array subscripts, user-function calls and RND inside expressions are outside the spec's tree type and rest on the correspondence slice"],
        "slices": ["c02", "num"],
        "level_text": "Spec in Lean: Ref.foldE (value of a syntax tree, strict, left to right) and Ref.render (minimal parentheses). Machine-checked refinement theorem eval_render: for every tree, every state whose current line holds pre ++ render e ++ rest (rest not starting with an operator or '('), with room below the nesting cap, the model's token-stream evaluator returns exactly foldE e and leaves the state unchanged apart from the cursor (moved past the rendering) and the read counter; on an error of the fold it fails with the same error and the nesting counter restored. Corollaries: redundant parentheses never change the evaluator's outcome; the rules of the fold exactly as the property states them; each tier accepts exactly the operators of one precedence level (OR < AND < comparison < +,- < *,/ < ^ < unary). Correspondence slice: all trees with 1-2 (thorough: part of 3) binary operators, all unary/binary pairings, random trees up to size 9 with and without redundant parentheses; text rendered by the Lean spec; implementation's PRINT vs model's PRINT vs the spec's fold (computed by the Lean driver).",
        "level_note": "Full refinement proof for the tree type of the spec; array subscripts / FN calls / RND in expressions only by correspondence. Trusted: Lean kernel; NumOps (IEEE arithmetic, powf, Display) parameters; hand-written model validated by sampling.",
    },
    "C03": {
        "what": "semantic rules of the property on the model of the real code: FOR never tests its limit (control stays at the statement after FOR, limit and step are stored once), NEXT adds the stored step, tests against the stored limit with the sign of the stored step and jumps back to the stored location, NEXT forgets inner loops, READ visits DATA in ascending line order, undefined variables read as 0/empty, implicit arrays have indices 0..10 per dimension (10 inside, 11 BAD SUBSCRIPT), fresh cells read as 0/empty",
        "theorems": ["next_forgets_inner", "undefined_reads_default", "implicit_array_shape", "implicit_array_bounds", "fresh_cells_default",
                     "for_enters_body", "next_uses_stored_again", "next_uses_stored_done", "next_uses_stored", "read_line_order"],
        "open": ["refines: transcript (M.run (compile p)) = transcript (R.run p) for every well-formed program (needs a reference semantics in Lean and a per-statement simulation)"],
        "slices": ["c03", "walk"],
        "level_text": "Machine-checked theorems (Lean 4) about the model for the individual rules the property names (FOR entry, NEXT stepping with the stored limit/step, loop forgetting, DATA line order, defaults, implicit array bounds). The whole-program refinement against a reference semantics is NOT proved; the reference interpreter is the harness's independent interpreter over syntax trees (verif/harness/src/refint.rs) and is used as the oracle: grammar-generated structured programs are compiled to numbered text, run on the implementation, on the model (correspondence) and on the reference interpreter, comparing printed output and (error kind, line).",
        "level_note": "PARTIAL proof; the reference interpreter is Rust code in the harness, not a Lean spec. Known finding KF-ELSE-RESUME (THEN GOSUB ... ELSE) is generated at a low rate and reported as KNOWN-FINDING.",
    },
    "C04": {
        "what": "program store = finite map + ordered key set: both indexes agree after every edit history (invariant), an edit writes exactly its key (last writer wins, bare number deletes, failed tokenization changes nothing), LIST = stored lines ascending, `after` = least greater key for every n, RUN order = keys ascending, edits to different lines commute",
        "theorems": ["wf_empty", "get_set", "wf_set", "wf_reachable", "store_refines", "set_comm", "list_sorted", "after_least", "run_order", "submit_numbered", "submit_failed"],
        "open": ["lineno_parse: parseLineNumber accepts exactly ASCII-blank-prefixed digit runs with value < 2^64 (covered by the correspondence slice's number pool only)"],
        "slices": ["c04", "walk"],
        "level_text": "Machine-checked theorems (Lean 4) about the model of program_lines.rs / Interpreter::start_evaluating for ALL edit histories: the two indexes (token map, ordered set) agree as an inductive invariant, refinement of the store to a finite map, LIST/after/first/RUN order over the ordered index with no bound on line numbers, commutation of edits to distinct lines. Correspondence: random edit histories over a line-number pool incl. 0, leading zeros and the u64 extremes, interleaved with LIST and RUN, implementation vs model (replies and full state snapshot incl. both indexes) vs a BTreeMap oracle.",
        "level_note": "Trusted: Lean kernel; the hand-written model of ProgramLines/Program (HashMap and BTreeSet as lists) validated by sampling; u64 range of line numbers enters only through parse_line_number (modelled, value < 2^64) — `after` is proved over unbounded naturals.",
    },
    "C12": {
        "what": "blank- and case-insensitivity of the tokenizer: every matcher (blank skipping, keywords, operators, numbers, identifiers) gives the same token and related rests for inputs differing by a blank inserted anywhere or by letter case; one step of the main loop either yields the same token or is inside protected text on both sides; a whole line whose tokens are keywords / operators / numbers / identifiers tokenizes to exactly the same tokens after inserting or removing any number of blanks anywhere (iff form) and after any change of letter case",
        "theorems": ["skipWs_blank", "skipWs_ins", "skipWs_ins_cases", "chompKeyword_ins", "chompKeywordTable_ins", "chompAnyKeyword_ins", "chompOneOrTwo_ins", "skipWs_caseEq", "chompKeyword_caseEq", "tokLoop_leading_blank",
                     "numLoop_ins", "symLoop_ins", "nextToken_ins_cases", "nextToken_ins_unprotected", "nextToken_del_unprotected", "tokLoop_ins_unprotected", "tokLoop_del_unprotected",
                     "tokenize_ins_unprotected", "tokenize_insBlanks_unprotected", "tokenize_del_unprotected", "tokenize_ins_iff_unprotected",
                     "chompAnyKeyword_caseEq", "chompOneOrTwo_caseEq", "numLoop_caseEq", "symLoop_caseEq", "nextToken_caseEq_cases", "nextToken_caseEq_unprotected", "tokLoop_caseEq_unprotected", "tokenize_caseEq_unprotected",
                     "tokLoop_fuel_irrelevant", "tokenizeRanges_not_outOfFuel"],
        "open": ["crunch_blank / crunch_case for lines that also contain string / REM / DATA tokens, the edit avoiding the protected text (the one-step lemma nextToken_ins_cases already covers them: either same token or both outcomes protected)", "data_blank (blanks around DATA items)"],
        "slices": ["c12"],
        "level_text": "Machine-checked theorems (Lean 4), for every input text, every position and every number of edits: all matchers of the model tokenizer and one step of its main loop are insensitive to a blank inserted anywhere and to letter case; lifted by induction over the main loop to whole lines consisting of keyword / operator / number / identifier tokens (tokenize line' = tokenize line for blank insertions, removals, and case changes), with no bound on length. For lines that also contain string, REM or DATA tokens the one-step theorem is proved (same token or protected on both sides) but the whole-line lift with the 'edit outside protected text' side condition is not; there, and for blanks around DATA items, the check rests on the correspondence slice (implementation tokens = model tokens on original and perturbed lines, exhaustive single edits of short lines) and the implementation oracle (token sequences of original vs perturbed line).",
        "level_note": "PARTIAL proof: whole-line theorem for lines without string/REM/DATA tokens; lines with protected text rest on the one-step theorem plus the slice (listed in evidence under not_yet_proved). Trusted: Lean kernel, extractor for the keyword/operator tables, hand-written tokenizer model validated by sampling.",
    },
    "C13": {
        "what": "token ranges of the model tokenizer: ordered, non-overlapping, strictly non-empty (start < end), within the line (end <= byte length), first at/after the skipped prefix; each range is the byte range of a run of whole characters that starts on a non-blank and (REM/DATA apart) ends on a non-blank; tokenization is total (the fuel of the model loop never runs out); error positions lie at/after the end of the last token",
        "theorems": ["chain_mono", "tokLoop_chain", "ranges_chain", "skipWs_suffix", "skipWs_nonblank", "errPosOk_mono", "tokLoop_error_pos", "error_after_skip",
                     "nextToken_cases_consumes", "nextToken_consumes", "ranges_in_bounds_strict", "ranges_in_bounds_strict_skip", "tokenize_total", "nonblank_ends", "tokLoop_exact", "ranges_exact_zero", "ranges_exact"],
        "open": ["self_tokenise (the text of a range re-tokenizes to its token; hard because the identifier matcher looks ahead for keywords)"],
        "slices": ["c13", "c05"],
        "level_text": "Machine-checked theorems (Lean 4) for every line and skip: reported ranges form a chain skip <= s1 < e1 <= s2 < e2 ... <= len(line), every range is exactly the bytes of a run of whole characters of the line beginning on a non-blank and (REM/DATA apart) ending on a non-blank, tokenization terminates within its fuel, an error position is never before the end of the last token; character-boundary alignment is structural in the model (positions are UTF-8 lengths of whole-character prefixes). Re-tokenization of a range to its own token is not yet proved: the check rests for it on the correspondence slice ((token, range) pairs equal between implementation and model; exhaustive over all strings up to length 3/5 of a 17-symbol alphabet) and on the implementation oracle (bounds, boundaries, order, blank ends, re-tokenization of every slice).",
        "level_note": "PARTIAL proof (see not_yet_proved in evidence). Trusted: Lean kernel, extractor, hand-written tokenizer model validated by sampling and bounded exhaustive enumeration.",
    },
    "C01": {
        "what": "failures of host calls are values after which the interpreter is idle and locatable; reply/break/seed cannot fail; protocol assertions; the nesting counter is balanced on every path and refuses at the cap 48 (bounded native depth)",
        "theorems": ["start_error_is_value", "cont_error_is_value", "error_located", "reply_total", "break_total", "seed_total", "start_assert", "nesting_limit", "nested_refuses_at_cap", "nested_balanced"],
        "open": ["WF invariant (every stored location names an existing line; indexes agree; caps) preserved by every protocol-respecting call", "no_panic: every modelled panic site unreachable under WF", "caret_total", "iteration budgets never run out (termination in the model)"],
        "slices": ["c01", "walk"],
        "level_text": "Machine-checked theorems (Lean 4), for every state/line/reply/seed: an error of start/continue is a value after which the state is Idle and carries a location; provide_input, break and randomize cannot fail; nested evaluation restores the nesting counter on both the Ok and the Err path and refuses at the extracted cap 48, which bounds native recursion depth by a constant. The global no-panic invariant over arbitrary call sequences is NOT yet proved; there the check rests on the correspondence slice (state-aware random protocol walks with boundary lines, 30..1000-deep nesting, full state snapshots and caret rendering compared between implementation and model, where every Rust panic site is an explicit value) and on the implementation oracle (no panic / abort, Idle after error).",
        "level_note": "PARTIAL proof. Trusted: Lean kernel; hand-written model validated by sampling; bytes of native stack per nesting level are measured, not proved (cap 48 x ~15 KB debug); allocation failure outside the model.",
    },
    "C05": {
        "what": "the analyzer's line pass yields one token list and one range record per file line; the BASIC->file map only ever points at range records that exist and have token ranges (the D11 invariant); a mapped location lands on an existing file line",
        "theorems": ["analyzeLine_counts", "one_token_list_per_line", "mapOk_empty", "analyzeLine_mapOk", "analyzeLines_mapOk", "mapLoc_line_exists"],
        "open": ["analyze_total: no panic and no exhausted budget for any file", "diag_maps: every message maps, to the file line it names, within bounds and on character boundaries", "ranges_ordered per line (from C13)"],
        "slices": ["c05"],
        "level_text": "Machine-checked theorems (Lean 4) for every file content about the analyzer's line pass (one token list per line, inductive invariant of the BASIC->file map that excludes the D11 panics, mapped locations exist). Totality of the whole analysis and the full diagnostic well-formedness are not yet proved; the check rests for them on the correspondence slice (documents of every shape incl. 47..300-deep nesting and the shapes of all earlier defects; implementation vs model where each Rust panic site is a value) and the well-formedness oracle on the implementation's output.",
        "level_note": "PARTIAL proof.",
    },
    "C06": {
        "what": "operator-level agreement of analyzer and evaluator for all operand values: TYPE MISMATCH iff the tier's type rule rejects, produced values have the analysed type, only other failure is DIVISION BY ZERO; unary operators likewise; same suffix rule for assignment / binding; same operator tables and tier order",
        "theorems": ["binop_agrees", "unop_agrees", "suffix_rule_agrees", "same_tiers", "tables_match_tiers"],
        "open": ["agree_expr (whole expressions: same tokens consumed, analysed type = kind of the value, same first syntax/type error)", "sound (no analysis error => no Syntax/TypeMismatch/UndefinedStatement at run time, under FunctionsConsistent)", "complete_straight"],
        "slices": ["c06"],
        "level_text": "Machine-checked theorems (Lean 4): for every binary and unary operator and all operand values the evaluator's TYPE MISMATCH coincides with the analyzer's type rule and results have the analysed type; both walkers use the same operator tables in the same tier order. Statement- and program-level soundness/completeness are not yet proved; the check rests for them on the correspondence slice and the oracle (straight-line lines: analysis error => execution from a fresh state fails; generated programs: no analysis error => no syntax/type/undefined-line failure under three seeds / input scripts).",
        "level_note": "PARTIAL proof.",
    },
    "C19": {
        "what": "adapter model: NEW yields exactly a fresh interpreter and the transient state never survives a returning call; a failing call latches the core's error text (with source line and caret for start), a succeeding one leaves the latch empty; the reported state is the core's (Errored when latched); output records are handed over in order; calling with an error latched is the trap",
        "theorems": ["new_is_fresh", "replaced_not_transient", "start_cases", "start_traps_when_latched", "continue_cases", "state_faithful", "output_faithful"],
        "open": ["no_trap over arbitrary page event sequences (invariant: latch non-empty => a timer callback is pending; needs C01's no-panic invariant of the core)", "Page-level theorems about loader and state handler"],
        "slices": ["c19"],
        "level_text": "Machine-checked theorems (Lean 4) about the adapter model (transliteration of abasic-web/src/lib.rs): freshness after NEW, never exposing the transient state, latch behaviour, faithful state and output. The trap-freedom theorem over all page event sequences is not yet proved; the check rests for it on the correspondence slice: the REAL JsInterpreter (the crate is also an rlib) driven natively through a Rust transliteration of the page's loader and state handler (main.ts) over generated event sequences, compared with the model of adapter + page, and on the lock-step oracle (a plain core interpreter driven through the same page script must show exactly the same records, states and timer callbacks; no trap).",
        "level_note": "PARTIAL proof. The transliteration of main.ts (harness/src/web.rs and Front.lean) is hand-written; wasm-bindgen glue and the DOM are not modelled; the TS repair 4845820 is mirrored in both transliterations.",
    },
    "C20": {
        "what": "byte->UTF-16 column conversion stays inside the line and is monotone for every line and offset; protocol line splitting gives terminator-free lines and at least one line; token types are in the legend; encoded tokens fit their line",
        "theorems": ["col_in_bounds", "col_monotone", "range_in_line", "col_of_prefix", "split_no_terminators", "split_nonempty", "type_in_legend", "encoded_token_ok"],
        "open": ["lsp_total (no panic for any document)", "delta_decodes_ordered (decoded tokens strictly ordered, non-overlapping)", "diags_are_messages"],
        "slices": ["c20"],
        "needs_bins": True,
        "level_text": "Machine-checked theorems (Lean 4) about the server's position logic for EVERY line text and byte offset (columns in bounds, monotone, exact on boundaries), protocol line splitting, legend membership. Survival on every document, delta decoding and the diagnostics=messages clause are not yet proved; the check rests for them on the correspondence slice (the real abasic-lsp binary driven over stdio with sequences of open/change notifications + semanticTokens requests, responses vs the model) and the JSON oracle (positions inside the document in UTF-16 units, tokens ordered/non-overlapping, types < 8, diagnostics = analyzer messages for the latest text, server alive).",
        "level_note": "PARTIAL proof. JSON-RPC framing, threads and process liveness are exercised, not modelled.",
    },
    "C07": {
        "what": "break records the interrupted location as breakpoint and keeps the stack; CONT restores the cursor; break followed by CONT's restore is the identity on everything the program observes",
        "theorems": ["break_records", "cont_restores", "break_cont"],
        "open": ["lift over whole runs (transcript equality for any set of break points)", "inspect_pure", "assign_at_stop"],
        "slices": ["c07", "walk"],
        "level_text": "Machine-checked theorems (Lean 4), for every state: break at a numbered location then CONT's restore gives back exactly the interrupted state except the BREAK record, the dead immediate line and the host state. The lift to whole runs and the inspection / assignment clauses are not yet proved; for them the check rests on the correspondence slice and the metamorphic oracle on the implementation (uninterrupted run vs run with host breaks at random turn boundaries + side-effect-free inspection incl. failing FN calls + CONT; assignment at STOP vs assignment in place).",
        "level_note": "PARTIAL proof. Known finding KF-ELSE-RESUME (THEN STOP ... ELSE) recorded in known-findings.json.",
    },
    "C08": {
        "what": "INPUT with no pending reply rewinds onto the INPUT token and awaits input, changing nothing else; the reply is parsed by the DATA item parser; text to a numeric variable is the REENTER case; a suitable item is storable",
        "theorems": ["find_input", "input_suspend", "reply_parse", "text_to_numeric", "item_suits"],
        "open": ["input_resume_ok (turn with a suitable reply = assignment, EXTRA IGNORED iff surplus)", "input_reenter (state unchanged but REENTER)", "placement independence (THEN/ELSE/loop/subroutine)"],
        "slices": ["c08", "walk"],
        "level_text": "Machine-checked theorems (Lean 4), for every state and token list: reaching INPUT without a reply yields AwaitingInput with the cursor back on the INPUT token and nothing else changed; the reply is read by the DATA parser; coercion cases. Resume/REENTER turn-level theorems not yet proved; the check rests for them on the correspondence slice (9 placements x numeric/string target x 21 reply texts, snapshots before/after each reply) and the oracle (REENTER / EXTRA IGNORED records, state equality across a REENTER).",
        "level_note": "PARTIAL proof. Known finding KF-ELSE-RESUME (THEN INPUT ... ELSE) recorded in known-findings.json and exercised by the slice.",
    },
    "C09": {
        "what": "anatomy of a host call: exactly one statement-evaluator invocation per turn, trace record first and at most one per activation, nested activations cost a nesting level and are refused at the cap",
        "theorems": ["turn_anatomy", "continue_is_one_turn", "statement_anatomy", "trace_at_most_one", "nested_statement_costs_a_level"],
        "open": ["work_bound: token reads per call <= K*len + K' for programs without user functions", "trace_count = chain length"],
        "slices": ["c09"],
        "level_text": "Machine-checked theorems (Lean 4) exhibiting the structure of a turn (one statement-evaluator call, then line sequencing), that a statement activation emits at most one trace record before dispatching, and that the only second activation inside a call (under THEN/ELSE) costs a nesting level and fails at the cap. The per-call work bound is not yet proved: the check rests on the correspondence slice (the hook's token-read counter must equal the model's after every call, incl. non-terminating programs) and the oracle (<=1 Print record and <=1+#IF Trace records per call; reads <= 4*len+40).",
        "level_note": "PARTIAL proof. Hook: verif-hooks token-read counter.",
    },
    "C10": {
        "what": "the RUN command cannot distinguish a state with arbitrary session history from a fresh interpreter holding the same program, generator state and flags",
        "theorems": ["reset_forgets", "run_clean", "run_resets_everything"],
        "open": ["nesting = 0 at every call boundary as a reachable-state invariant (hypothesis of run_clean; proved per nested evaluation in C01.nested_balanced)"],
        "slices": ["c10", "walk"],
        "level_text": "Machine-checked theorem (Lean 4): for EVERY idle state sigma (any variables, arrays, loops, stack, functions, data cursor, breakpoint, location, immediate line, pending reply) whose nesting counter is 0, start_evaluating(RUN) on sigma equals start_evaluating(RUN) on a fresh interpreter with the same lines, rng state, flags and untaken output - same outcome and same resulting state, hence the same future. Correspondence: random histories then RUN vs fresh+RUN, implementation vs model, with transcript and final-snapshot equality as oracle on the implementation.",
        "level_note": "Trusted: Lean kernel; hand-written model validated by sampling. The hypothesis nesting = 0 is an invariant of call boundaries shown per nested evaluation (C01) but not yet lifted to all reachable states.",
    },
    "C11": {
        "what": "a successful edit yields exactly the state with breakpoint, stack, loops, functions, data cursor cleared and variables/arrays kept; the probes CONT/RETURN/NEXT/READ/FN then behave as specified; a rejected edit changes none of them",
        "theorems": ["edit_result", "edit_clears", "cont_after_edit", "return_without_gosub", "next_without_for", "read_restarts", "function_gone", "failed_edit_inert"],
        "open": [],
        "slices": ["c11", "walk"],
        "level_text": "Machine-checked theorems (Lean 4), for every state at which a line can be entered: the exact post-edit state; CONT gives CAN'T CONTINUE, RETURN gives RETURN WITHOUT GOSUB, NEXT gives NEXT WITHOUT FOR, READ rebuilds the cursor from the edited program, a former function is no function; a rejected edit leaves breakpoint, loops, functions, data cursor, lines, variables, arrays (and the stack when a breakpoint is pending) untouched. Correspondence: programs suspended at every kind of point x 5 edit kinds x 6 probes, implementation vs model incl. snapshots, with probe outcomes as oracle.",
        "level_note": "Trusted: Lean kernel; hand-written model validated by sampling.",
    },
    "C14": {
        "what": "table facts behind the LIST fixed point: every keyword/operator spelling re-tokenizes to its own token (also before a blank); shape of a LIST line; spelling of DATA strings (quote rule) and of a numeral after an identifier",
        "theorems": ["kw_spelling_roundtrip", "kw_then_blank", "list_line_shape", "data_string_spelling", "numeral_after_identifier", "numeral_elsewhere"],
        "open": ["list_fixpoint for arbitrary token lists (needs C12's whole-line normal form + NumOps respelling law parse(render x) = x)", "parseData (renderData items) = items", "same RUN behaviour (follows from equal token lists by determinism)"],
        "slices": ["c14", "num"],
        "level_text": "Machine-checked table facts and spelling rules (Lean 4) that the LIST fixed-point argument rests on: all 39 keyword/operator spellings read from tokenizer.rs re-tokenize to exactly their own token; DATA string quote rule; numeral-after-identifier rule. The fixed-point theorem for arbitrary stored lines is not yet proved; the check rests for it on the correspondence slice (store -> LIST -> reload into a fresh interpreter -> LIST, RUN of both with a READ/PRINT tail that dumps every DATA item; implementation vs model) and on the oracle (identical listing, identical stored tokens, identical transcripts). This slice found a genuine defect on the pinned tree (PRINT A .5 listed as PRINT A 0.5, which reloads as A0 0.5), repaired by fix commit 99b8efc.",
        "level_note": "PARTIAL proof. Trusted: Lean kernel, extractor, NumOps law parse(render x) = x for finite x (tested by the num slice).",
    },
    "C15": {
        "what": "a numbered non-empty tokenizable line is stored identically by the analyzer's line pass and by line entry; for a file of such lines the loaded program store = the fold of line entries; the loaded interpreter has all runtime state initial; in file mode and in interactive mode the running interpreter carries exactly the command-line flags, which line entry does not change",
        "theorems": ["analyzeLine_store", "typed_store", "load_store", "loaded_is_fresh", "cli_flags_file", "cli_flags_interactive", "typing_keeps_flags"],
        "open": ["equality of whole RUN transcripts in both modes (follows from equal stores + equal flags + fresh state by determinism; not yet stated as one theorem)", "skip_check_same_program is immediate: the check never touches the program"],
        "slices": ["c15"],
        "needs_bins": True,
        "level_text": "Machine-checked theorems (Lean 4): loading = typing at the level of the program store for every file of numbered, non-empty, tokenizable lines (induction over the file), freshness of the loaded interpreter, and flags = command-line options in both modes. Correspondence: SourceFileAnalyzer::analyze(..).into_interpreter() vs line-by-line entry in-process (snapshot, LIST, RUN; implementation vs model), and the REAL abasic binary run in file mode vs the same lines + RUN piped into an interactive session for the --warnings/--tracing/--skip-check combinations (stdout/stderr canonicalised: banner, static-analysis messages and the trailing newline of a piped session removed).",
        "level_note": "Process-level I/O (rustyline, buffering, exit codes) is exercised, not modelled; the time-based seed is a parameter of the model.",
    },
    "C16": {
        "what": "each growth site of stack/arrays/variables respects its cap or typing rule: GOSUB and FN frames <= 32 with OUT OF MEMORY at the cap and the stack untouched, FOR keeps <= 32 open loops with distinct names on the Ok and the Err path (re-entering an open loop never grows the stack), NEXT never grows it, created arrays have prod(dims) cells <= 10000 and the kind of their suffix, scalars stored only with matching suffix",
        "theorems": ["caps", "gosub_cap", "call_cap", "dimSizes_spec", "create_spec", "setVar_typed",
                     "removeLoop_spec", "removeLoop_length_lt", "removeLoop_nodup", "for_cap", "next_cap"],
        "open": ["arraySet / bindArgs typing", "lift to every reachable state of every session (WF invariant)"],
        "slices": ["c16", "walk"],
        "level_text": "Machine-checked theorems (Lean 4), for every state: the operation-level cap and typing facts at the only sites where the subroutine stack, the array table and the variable table grow. The lift to all reachable states of every session is not yet proved; there the check rests on the correspondence slice (full state snapshot after EVERY host call of targeted cap / re-entry / typing programs and random walks, implementation vs model) and on the snapshot oracle (frames <= 32, loops <= 32 distinct, cells = prod dims <= 10000, kinds obey suffixes).",
        "level_note": "PARTIAL proof. Hook: verif-hooks snapshot.",
    },
    "C17": {
        "what": "the three places where flags are read only append Warning/Trace records, are the identity when the flag is off, and fire exactly when specified",
        "theorems": ["warn_effect", "array_warning_iff", "trace_effect"],
        "open": ["flags_transparent: the whole evaluator commutes with erasing flags and filtering the queue", "scalar warn_iff at term level", "trace_is_path"],
        "slices": ["c17", "c09", "walk"],
        "level_text": "Machine-checked theorems (Lean 4), for every state: warn / the undeclared-array warning / the trace step change nothing but the output queue, add exactly one record of their kind exactly under the stated condition, and are the identity with the flag off. The whole-evaluator transparency theorem is not yet proved; the check rests for it on the correspondence slice and the four-configuration oracle on the implementation (filtered transcripts and final snapshots equal across (w,t) in {0,1}^2, flags set via API fields or TRACE/NOTRACE).",
        "level_note": "PARTIAL proof.",
    },
    "C18": {
        "what": "RND: state reduced mod 2^33 by randomize, positive argument = one step of the documented LCG (no 64-bit overflow possible), RND(0) repeats, negative argument errors without advancing, k-th value is a pure function of seed mod 2^33",
        "theorems": ["constants", "step_is_lcg", "seed_reduced", "seed_congruence", "step_in_range", "no_overflow", "rnd_negative", "rnd_zero",
                     "rnd_positive", "rnd_safe", "lcg_sequence", "same_seed_same_sequence"],
        "slices": ["c18"],
        "level_text": "Machine-checked theorems (Lean 4) about the model of random.rs / the RND builtin, for every seed, every state and every number of calls: reduction of the seed, the documented recurrence, no 64-bit overflow, RND(0) and negative-argument behaviour, purity of the sequence. The model is tied to the code by the correspondence slice (raw generator steps via the hook and PRINT RND sessions, implementation vs model vs a u128 oracle; thorough tier sweeps all 2^33 states of the implementation).",
        "level_note": "Trusted: Lean kernel; extractor for MODULUS/MULTIPLIER/INCREMENT; the model is hand-written and validated by sampling; exactness of n/2^33 in doubles is a NumOps fact tested, not proved; wasm/CLI seeding glue not modelled.",
        "trusted": ["`(n as f64) / 2^33` is exact for n < 2^33 (so the value lies in [0,1)): a NumOps fact, checked by the harness's u128 oracle on every generated state and, in the thorough tier, exhaustively on all 2^33 states of the implementation"],
        "assumptions": ["front ends pass the seed through `Interpreter::randomize` unchanged (abasic-web: randomize(u64); abasic-cli: time-based seed)"],
    },
}


NOT_CLAIMED = {}

# second layer of theorems (continuation files Props/Cxx<Suffix>.lean): merged over the entries above
from props_more import MORE  # noqa: E402
for _pid, _m in MORE.items():
    _p = PROPS[_pid]
    _p["theorems"] = _p["theorems"] + [t for t in _m.get("theorems", []) if t not in _p["theorems"]]
    if "open" in _m:
        _p["open"] = _m["open"]
    if "what" in _m:
        _p["what"] = _p["what"] + "; " + _m["what"]
    if "level" in _m:
        _p["level_text"] = _m["level"]
    if "note" in _m:
        _p["level_note"] = _m["note"]


def _load_known():
    try:
        return json.load(open(os.path.join(VERIF, "known-findings.json")))["known"]
    except (OSError, ValueError, KeyError):
        return []


def _unhex(h):
    try:
        return bytes.fromhex(h).decode("utf-8", "replace")
    except ValueError:
        return ""


def _else_resume(f):
    """KF-ELSE-RESUME: a taken THEN-clause that is GOSUB / INPUT / STOP directly
    followed by ELSE, failing with UnexpectedToken located at that ELSE."""
    texts = [_unhex(o.split(" ", 1)[1]) for o in f.get("ops", []) if o.startswith("start ") and " " in o]
    pat = re.compile(r"THEN\s*(GOSUB\s*[0-9 ]+|INPUT\s*[A-Z0-9$ ]+(\([^)]*\))?|STOP)\s*ELSE", re.I)
    if not any(pat.search(t) for t in texts):
        return False
    blob = " ".join(f.get("impl_replies", [])) + " " + str(f.get("detail", ""))
    return "Syntax.UnexpectedToken" in blob


def _nested_else(f):
    """KF-NESTED-ELSE: a grammatical line (no more ELSE than IF) whose THEN-clause is an IF with an ELSE and which has a second
    ELSE, failing with UnexpectedToken."""
    texts = [_unhex(o.split(" ", 1)[1]) for o in f.get("ops", []) if o.startswith("start ") and " " in o]
    def shape(t):
        ifs = len(re.findall(r"\bIF\b", t, re.I))
        elses = len(re.findall(r"\bELSE\b", t, re.I))
        return elses >= 2 and ifs >= elses and re.search(r"THEN\s*IF\b.*\bELSE\b.*\bELSE\b", t, re.I) is not None
    if not any(shape(t) for t in texts):
        return False
    blob = " ".join(f.get("impl_replies", [])) + " " + str(f.get("detail", ""))
    return "Syntax.UnexpectedToken" in blob


def _forward_fn(f):
    """KF-FORWARD-FN: a DEF body that calls a function defined on a later line, failing with TypeMismatch / a syntax error."""
    texts = [_unhex(o.split(" ", 1)[1]) for o in f.get("ops", []) if o.startswith("start ") and " " in o]
    defs = {}
    for t in texts:
        m = re.match(r"\s*(\d+)\s*DEF\s+([A-Z][A-Z0-9]*\$?)\s*\(([^)]*)\)\s*=(.*)", t, re.I)
        if m:
            defs[m.group(2).upper()] = (int(m.group(1)), m.group(4))
    forward = False
    for name, (line, body) in defs.items():
        for callee in re.findall(r"([A-Z][A-Z0-9]*\$?)\s*\(", body, re.I):
            c = callee.upper()
            if c in defs and defs[c][0] > line:
                forward = True
    if not forward:
        return False
    blob = " ".join(f.get("impl_replies", [])) + " " + str(f.get("detail", ""))
    return "TypeMismatch" in blob or "Syntax.ExpectedToken" in blob or "Syntax.UnexpectedToken" in blob


_MATCHERS = {"KF-ELSE-RESUME": _else_resume, "KF-NESTED-ELSE": _nested_else, "KF-FORWARD-FN": _forward_fn}


def known_match(pid, failure):
    for k in _load_known():
        if pid in k.get("properties", []) and k["id"] in _MATCHERS and _MATCHERS[k["id"]](failure):
            return k
    return None
