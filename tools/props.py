"""Per-property configuration of ./check: which theorems are the property's
obligations, which correspondence slices run, what is trusted."""
import json
import os
import re

VERIF = os.path.join(os.path.dirname(os.path.abspath(__file__)), "..")

TRUSTED_BASE = [
    "Lean 4.33 kernel (and leanchecker in the thorough tier)",
    "axioms allowed in property theorems: propext, Classical.choice, Quot.sound (audited per theorem on every run); no native_decide, no bv_decide, no axioms of ours, no sorry",
    "the hand-written model M (lean/Abasic/*.lean) is tied to /repo only by the correspondence check: Rust harness (verif/harness) + compiled Lean driver over a hex line protocol, generated cases from one PRNG seed",
    "tools/extract.py regenerates lean/Abasic/Extracted.lean (keyword/operator/token-class tables, constants, messages) from /repo's source on every run",
    "NumOps: IEEE double arithmetic, powf, floor, `as` casts, str::parse::<f64>, Display for f64 are parameters of the model; the executable instance (lean/Abasic/Exec) is validated against Rust's std by the `num` slice",
    "Rust std semantics of HashMap/BTreeSet/String/char primitives that M models as lists",
    "not modelled: StringManager, Backtrace capture, stdio/rustyline/ctrl-c, wasm-bindgen glue, DOM, JSON-RPC transport, allocation failure, bytes of native stack per recursion level",
]

PROPS = {
    "C04": {
        "what": "program store = finite map + ordered key set: both indexes agree after every edit history (invariant), an edit writes exactly its key (last writer wins, bare number deletes, failed tokenization changes nothing), LIST = stored lines ascending, `after` = least greater key for every n, RUN order = keys ascending, edits to different lines commute",
        "theorems": ["wf_empty", "get_set", "wf_set", "wf_reachable", "store_refines", "set_comm", "list_sorted", "after_least", "run_order", "submit_numbered", "submit_failed"],
        "open": ["lineno_parse: parseLineNumber accepts exactly ASCII-blank-prefixed digit runs with value < 2^64 (covered by the correspondence slice's number pool only)"],
        "slices": ["c04"],
        "level_text": "Machine-checked theorems (Lean 4) about the model of program_lines.rs / Interpreter::start_evaluating for ALL edit histories: the two indexes (token map, ordered set) agree as an inductive invariant, refinement of the store to a finite map, LIST/after/first/RUN order over the ordered index with no bound on line numbers, commutation of edits to distinct lines. Correspondence: random edit histories over a line-number pool incl. 0, leading zeros and the u64 extremes, interleaved with LIST and RUN, implementation vs model (replies and full state snapshot incl. both indexes) vs a BTreeMap oracle.",
        "level_note": "Trusted: Lean kernel; the hand-written model of ProgramLines/Program (HashMap and BTreeSet as lists) validated by sampling; u64 range of line numbers enters only through parse_line_number (modelled, value < 2^64) — `after` is proved over unbounded naturals.",
    },
    "C12": {
        "what": "blank- and case-insensitivity of the crunching matchers: skipWs absorbs an inserted blank, chomp_keyword / chomp_any_keyword / chomp_one_or_two_characters give the same token and related rests for inputs differing by one inserted blank anywhere, keyword matching is case-insensitive, a leading blank changes no token of the main loop",
        "theorems": ["skipWs_blank", "skipWs_ins", "skipWs_ins_cases", "chompKeyword_ins", "chompKeywordTable_ins", "chompAnyKeyword_ins", "chompOneOrTwo_ins", "skipWs_caseEq", "chompKeyword_caseEq", "tokLoop_leading_blank"],
        "open": ["numLoop_ins / symLoop_ins (number and identifier matchers respect inserted blanks)", "crunch_blank / crunch_case for whole lines with the protected-region side condition", "data_blank (blanks around DATA items)"],
        "slices": ["c12"],
        "level_text": "Machine-checked theorems (Lean 4) that the blank-skipping primitive, the keyword matcher, the keyword table and the operator matcher of the model tokenizer are insensitive to a blank inserted ANYWHERE in their input and to letter case (for every input text, every keyword, every position). The lift to whole lines (number / identifier matchers, protected-region side condition, DATA blanks) is not yet proved: for those the check rests on the correspondence slice (implementation tokens = model tokens on original and perturbed lines, exhaustive single edits of short lines) and the implementation oracle (token sequences of original vs perturbed line).",
        "level_note": "PARTIAL proof: matcher-level lemmas only; whole-line statement still open (listed in evidence under not_yet_proved). Trusted: Lean kernel, extractor for the keyword/operator tables, hand-written tokenizer model validated by sampling.",
    },
    "C13": {
        "what": "token ranges of the model tokenizer: ordered, non-overlapping, start <= end, first at/after the skipped prefix; tokens start on a non-blank; error positions lie at/after the end of the last token",
        "theorems": ["chain_mono", "tokLoop_chain", "ranges_chain", "skipWs_suffix", "skipWs_nonblank", "errPosOk_mono", "tokLoop_error_pos", "error_after_skip"],
        "open": ["in_bounds (end <= line length) and strictness (start < end): need 'every matcher consumes a non-empty prefix'", "nonblank_ends", "self_tokenise (the text of a range re-tokenizes to its token)", "tokenize_total (fuel never runs out)"],
        "slices": ["c13"],
        "level_text": "Machine-checked theorems (Lean 4) for every line and skip: reported ranges form a chain skip <= s1 <= e1 <= s2 <= e2 ..., tokens start on non-blank characters, an error position is never before the end of the last token; character-boundary alignment is structural in the model (positions are UTF-8 lengths of whole-character prefixes). Upper bounds, strictness and re-tokenization of a range are not yet proved: the check rests for them on the correspondence slice ((token, range) pairs equal between implementation and model; exhaustive over all strings up to length 3/5 of a 17-symbol alphabet) and on the implementation oracle (bounds, boundaries, order, blank ends, re-tokenization of every slice).",
        "level_note": "PARTIAL proof (see not_yet_proved in evidence). Trusted: Lean kernel, extractor, hand-written tokenizer model validated by sampling and bounded exhaustive enumeration.",
    },
    "C18": {
        "what": "RND: state reduced mod 2^33 by randomize, positive argument = one step of the documented LCG (no 64-bit overflow possible), RND(0) repeats, negative argument errors without advancing, k-th value is a pure function of seed mod 2^33",
        "theorems": ["constants", "step_is_lcg", "seed_reduced", "seed_congruence", "step_in_range", "no_overflow", "rnd_negative", "rnd_zero",
                     "rnd_positive", "rnd_safe", "lcg_sequence", "same_seed_same_sequence"],
        "slices": ["c18"],
        "level_text": "Machine-checked theorems (Lean 4) about the model of random.rs / the RND builtin, for every seed, every state and every number of calls: reduction of the seed, the documented recurrence, no 64-bit overflow, RND(0) and negative-argument behaviour, purity of the sequence. The model is tied to the code by the correspondence slice (raw generator steps via the hook and PRINT RND sessions, implementation vs model vs a u128 oracle; thorough tier sweeps all 2^33 states of the implementation).",
        "level_note": "Trusted: Lean kernel; extractor for MODULUS/MULTIPLIER/INCREMENT; the model is hand-written and validated by sampling; exactness of n/2^33 in doubles is a NumOps fact tested, not proved; wasm/CLI seeding glue not modelled.",
        "trusted": ["`(n as f64) / 2^33` is exact for n < 2^33 (so the value lies in [0,1)): a NumOps fact, checked by the harness's u128 oracle on every generated state and, in the thorough tier, exhaustively on all 2^33 states of the implementation"],
        "assumptions": ["front ends pass the seed through `Interpreter::randomize` unchanged (abasic-web: randomize(u64); abasic-cli: time-based seed)"],
    },
}


NOT_CLAIMED = {}


def _load_known():
    try:
        return json.load(open(os.path.join(VERIF, "known-findings.json")))["known"]
    except (OSError, ValueError, KeyError):
        return []


def _unhex(h):
    try:
        return bytes.fromhex(h).decode("utf-8", "replace")
    except ValueError:
        return ""


def _else_resume(f):
    """KF-ELSE-RESUME: a taken THEN-clause that is GOSUB / INPUT / STOP directly
    followed by ELSE, failing with UnexpectedToken located at that ELSE."""
    texts = [_unhex(o.split(" ", 1)[1]) for o in f.get("ops", []) if o.startswith("start ") and " " in o]
    pat = re.compile(r"THEN\s*(GOSUB\s*[0-9 ]+|INPUT\s*[A-Z0-9$ ]+(\([^)]*\))?|STOP)\s*ELSE", re.I)
    if not any(pat.search(t) for t in texts):
        return False
    blob = " ".join(f.get("impl_replies", [])) + " " + str(f.get("detail", ""))
    return "Syntax.UnexpectedToken" in blob


_MATCHERS = {"KF-ELSE-RESUME": _else_resume}


def known_match(pid, failure):
    for k in _load_known():
        if pid in k.get("properties", []) and k["id"] in _MATCHERS and _MATCHERS[k["id"]](failure):
            return k
    return None
