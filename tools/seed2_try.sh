#!/bin/sh
# seed2_try.sh <pid> [tier] : run the property's check against both round-2 seeds
PID="$1"
for x in a b; do
  D=/tmp/seed${ROUND:-2}-$PID-out/$x
  [ -d "$D" ] || continue
  echo "=== $PID/$x"
  /verif/tools/try_seed.sh "$PID" "$D/patch.diff" "${2:-quick}" 2>&1 | head -6
done
