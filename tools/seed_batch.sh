#!/bin/sh
# seed_batch.sh <pid> : confirm and try both seeds of a property
PID="$1"
for x in a b; do
  D=/tmp/seed-$PID-out/$x
  [ -d "$D" ] || continue
  echo "=== $PID/$x"
  /verif/tools/confirm_seed.sh "$D" 2>&1 | grep RESULT
  /verif/tools/try_seed.sh "$PID" "$D/patch.diff" 2>&1 | head -6
done
