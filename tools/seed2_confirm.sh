#!/bin/sh
# seed2_confirm.sh <pid> : confirm both round-2 seeds of a property in scratch worktrees
PID="$1"
for x in a b; do
  D=/tmp/seed${ROUND:-2}-$PID-out/$x
  [ -d "$D" ] || continue
  echo "=== $PID/$x $(/verif/tools/confirm_seed.sh "$D" 2>&1 | grep RESULT)"
done
