#!/bin/sh
# keep_seed.sh <pid> <x> <srcdir> "<needs>" "<confirmed>" "<check result>"
set -e
PID="$1"; X="$2"; SRC="$3"
DST=/verif/seeded/$PID-$X
mkdir -p "$DST"
cp "$SRC/patch.diff" "$DST/patch.diff"
for f in "$SRC"/demo.*; do cp "$f" "$DST/"; done
cp "$SRC/README.md" "$DST/README.agent.md" 2>/dev/null || true
python3 - "$PID" "$X" "$4" "$5" "$6" > "$DST/meta.json" <<'PY'
import json, sys
pid, x, needs, confirmed, result = sys.argv[1:6]
print(json.dumps({"property": pid, "variant": x, "needs_to_manifest": needs, "confirmed_by": confirmed, "check_result": result,
  "ran": ["tools/confirm_seed.sh <dir> (scratch worktree: patch applies, 153 existing tests pass, verif-hooks build ok, demo passes on clean tree and fails with the patch)",
          "tools/try_seed.sh %s seeded/%s-%s/patch.diff (git apply in /repo, ./check %s --tier quick, git checkout -- .)" % (pid, pid, x, pid)]}, indent=1))
PY
echo kept $DST
