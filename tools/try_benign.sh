#!/bin/sh
# usage: tools/try_benign.sh benign/<patch>.diff [Cxx ...]
# Applies a behaviour-preserving change to /repo, runs the quick checks (all twenty unless some are named) and undoes
# the change.  Every check must print OK: an alarm here is a false alarm of the machinery.
V=$(cd "$(dirname "$0")/.." && pwd)
R=${VERIF_REPO:-/repo}
patch=$1; shift
props=${*:-C01 C02 C03 C04 C05 C06 C07 C08 C09 C10 C11 C12 C13 C14 C15 C16 C17 C18 C19 C20}
git -C "$R" apply "$V/$patch" || { echo "patch does not apply"; exit 2; }
bad=0
for p in $props; do
  out=$("$V/check" $p --tier quick 2>&1)
  if echo "$out" | grep -q "^VIOLATION"; then bad=1; echo "FALSE ALARM $p:"; echo "$out" | grep -A3 "^VIOLATION" | cut -c1-300; else echo "$out" | tail -1 | cut -c1-120; fi
done
git -C "$R" checkout -- .
python3 "$V/tools/extract.py" >/dev/null
exit $bad
