"""A small lexer for Rust source and helpers to find items in the token stream.

The extractor (tools/extract.py) reads tables out of /repo's source.  It works on
tokens, not on lines, so that comments, blank lines, indentation, line breaks,
trailing commas, attributes and doc comments - everything rustfmt or a reviewer
may change without changing the program - do not disturb it.

Token = (kind, text) with kind in: id, num, str, char, byte, bstr, life, punct.
`str`/`bstr` texts are the *decoded* contents, `char`/`byte` the decoded character.
"""
import re


class LexError(Exception):
    pass


PUNCT3 = ["<<=", ">>=", "...", "..="]
PUNCT2 = ["=>", "::", "->", "==", "!=", "<=", ">=", "&&", "||", "<<", ">>", "..", "+=", "-=", "*=", "/=", "%=", "^=", "&=", "|="]

_ESC = {"n": "\n", "r": "\r", "t": "\t", "\\": "\\", "0": "\0", "'": "'", '"': '"'}


def _unescape(s):
    out = []
    i = 0
    while i < len(s):
        c = s[i]
        if c != "\\":
            out.append(c)
            i += 1
            continue
        i += 1
        if i >= len(s):
            raise LexError("dangling backslash")
        e = s[i]
        if e in _ESC:
            out.append(_ESC[e])
            i += 1
        elif e == "x":
            out.append(chr(int(s[i + 1:i + 3], 16)))
            i += 3
        elif e == "u":
            j = s.index("}", i)
            out.append(chr(int(s[i + 2:j].replace("_", ""), 16)))
            i = j + 1
        elif e == "\n":
            i += 1
            while i < len(s) and s[i] in " \t\r\n":
                i += 1
        else:
            raise LexError("unknown escape \\" + e)
    return "".join(out)


def lex(src):
    toks = []
    i, n = 0, len(src)
    while i < n:
        c = src[i]
        if c in " \t\r\n":
            i += 1
            continue
        if src.startswith("//", i):
            j = src.find("\n", i)
            i = n if j < 0 else j
            continue
        if src.startswith("/*", i):
            depth, i = 1, i + 2
            while i < n and depth:
                if src.startswith("/*", i):
                    depth, i = depth + 1, i + 2
                elif src.startswith("*/", i):
                    depth, i = depth - 1, i + 2
                else:
                    i += 1
            continue
        # raw strings r"..." r#"..."# (and br)
        m = re.match(r'(b?)r(#*)"', src[i:])
        if m:
            hashes = m.group(2)
            start = i + len(m.group(0))
            end = src.find('"' + hashes, start)
            if end < 0:
                raise LexError("unterminated raw string")
            toks.append(("bstr" if m.group(1) else "str", src[start:end]))
            i = end + 1 + len(hashes)
            continue
        if c == '"' or (c == "b" and src.startswith('b"', i)):
            kind = "str"
            if c == "b":
                kind, i = "bstr", i + 1
            j = i + 1
            while j < n and src[j] != '"':
                j += 2 if src[j] == "\\" else 1
            if j >= n:
                raise LexError("unterminated string")
            toks.append((kind, _unescape(src[i + 1:j])))
            i = j + 1
            continue
        if c == "'" or (c == "b" and src.startswith("b'", i)):
            kind = "char"
            k = i
            if c == "b":
                kind, k = "byte", i + 1
            # char literal: '\..' or 'x' followed by a closing quote; otherwise a lifetime
            m = re.match(r"'((?:\\(?:x[0-9a-fA-F]{2}|u\{[0-9a-fA-F_]+\}|.))|[^\\'])'", src[k:], re.S)
            if m:
                toks.append((kind, _unescape(m.group(1))))
                i = k + len(m.group(0))
                continue
            m = re.match(r"'[A-Za-z_][A-Za-z0-9_]*", src[k:])
            if m and kind == "char":
                toks.append(("life", m.group(0)))
                i = k + len(m.group(0))
                continue
            raise LexError("bad quote at offset %d" % i)
        m = re.match(r"[A-Za-z_][A-Za-z0-9_]*", src[i:])
        if m:
            toks.append(("id", m.group(0)))
            i += len(m.group(0))
            continue
        m = re.match(r"[0-9][0-9A-Za-z_]*(?:\.[0-9][0-9A-Za-z_]*)?(?:[eE][+-]?[0-9_]+)?[A-Za-z0-9_]*", src[i:])
        if m:
            toks.append(("num", m.group(0)))
            i += len(m.group(0))
            continue
        for p in PUNCT3 + PUNCT2:
            if src.startswith(p, i):
                toks.append(("punct", p))
                i += len(p)
                break
        else:
            toks.append(("punct", c))
            i += 1
    return toks


OPEN = {"(": ")", "[": "]", "{": "}"}
CLOSE = {")", "]", "}"}


def close_of(toks, i):
    """index of the bracket that closes the one at i"""
    assert toks[i][0] == "punct" and toks[i][1] in OPEN, toks[i]
    depth = 0
    for j in range(i, len(toks)):
        k, t = toks[j]
        if k == "punct":
            if t in OPEN:
                depth += 1
            elif t in CLOSE:
                depth -= 1
                if depth == 0:
                    return j
    raise LexError("unbalanced bracket")


def is_p(tok, text):
    return tok[0] == "punct" and tok[1] == text


def is_id(tok, text=None):
    return tok[0] == "id" and (text is None or tok[1] == text)


def split_top(toks, sep=","):
    """split a token list at top-level separators (brackets and generic angle
    brackets are not tracked for `<`; callers use it on enum bodies, array
    bodies and argument lists where a top-level comma never sits inside <>
    except in type payloads, which are handled by tracking <> as well)"""
    parts, cur, depth, angle = [], [], 0, 0
    for tok in toks:
        k, t = tok
        if k == "punct":
            if t in OPEN:
                depth += 1
            elif t in CLOSE:
                depth -= 1
            elif t == "<" and depth == 0 and cur and cur[-1][0] == "id":
                angle += 1
            elif t == ">" and angle > 0 and depth == 0:
                angle -= 1
            elif t == ">>" and angle > 1 and depth == 0:
                angle -= 2
            elif t == sep and depth == 0 and angle == 0:
                parts.append(cur)
                cur = []
                continue
        cur.append(tok)
    if cur:
        parts.append(cur)
    return parts


def strip_attrs(toks):
    """drop leading `#[...]` attributes and `pub` / `pub(crate)` from an item"""
    i = 0
    while i < len(toks):
        if is_p(toks[i], "#") and i + 1 < len(toks) and is_p(toks[i + 1], "["):
            i = close_of(toks, i + 1) + 1
        elif is_id(toks[i], "pub"):
            i += 1
            if i < len(toks) and is_p(toks[i], "("):
                i = close_of(toks, i) + 1
        else:
            break
    return toks[i:]


def text_of(toks):
    """compact spelling of a token list (for comparing small type / expression texts)"""
    out = []
    for k, t in toks:
        if k == "str":
            out.append('"' + t + '"')
        elif k == "byte":
            out.append("b'" + t + "'")
        elif k == "char":
            out.append("'" + t + "'")
        else:
            if out and re.match(r"[A-Za-z0-9_]", t[0]) and re.match(r"[A-Za-z0-9_]", out[-1][-1]):
                out.append(" ")
            out.append(t)
    return "".join(out)


def find_seq(toks, pattern, start=0, end=None):
    """first index >= start where the token texts match `pattern`; an element
    None matches any one token; (kind, None) matches any token of that kind"""
    end = len(toks) if end is None else end
    m = len(pattern)
    for i in range(start, end - m + 1):
        ok = True
        for j, p in enumerate(pattern):
            tok = toks[i + j]
            if p is None:
                continue
            if isinstance(p, tuple):
                if tok[0] != p[0] or (p[1] is not None and tok[1] != p[1]):
                    ok = False
                    break
            elif tok[1] != p or tok[0] in ("str", "bstr", "char", "byte"):
                ok = False
                break
        if ok:
            return i
    return -1


def find_all(toks, pattern, start=0, end=None):
    out = []
    i = start
    while True:
        i = find_seq(toks, pattern, i, end)
        if i < 0:
            return out
        out.append(i)
        i += 1


def item_body(toks, keyword, name, start=0):
    """(open, close) indices of the braces of `keyword name ... { ... }` (enum, struct, fn, mod, trait)"""
    i = start
    while True:
        i = find_seq(toks, [keyword, name], i)
        if i < 0:
            return None
        # for fn: skip the signature up to the body brace at depth 0
        j = i + 2
        depth = 0
        while j < len(toks):
            k, t = toks[j]
            if k == "punct":
                if t in ("(", "["):
                    depth += 1
                elif t in (")", "]"):
                    depth -= 1
                elif t == "{" and depth == 0:
                    return j, close_of(toks, j)
                elif t == ";" and depth == 0:
                    break
            j += 1
        i += 1


def impl_body(toks, trait, ty):
    """(open, close) of `impl [path::]Trait for Ty {` (trait given) or `impl Ty {` (trait None); all matches"""
    out = []
    for i in find_all(toks, ["impl"]):
        j = i + 1
        # skip generics
        if j < len(toks) and is_p(toks[j], "<"):
            depth = 0
            while j < len(toks):
                if is_p(toks[j], "<"):
                    depth += 1
                elif is_p(toks[j], ">"):
                    depth -= 1
                    if depth == 0:
                        j += 1
                        break
                j += 1
        head = []
        while j < len(toks) and not is_p(toks[j], "{"):
            head.append(toks[j])
            j += 1
        if j >= len(toks):
            continue
        names = [t for k, t in head if k == "id"]
        if trait is None:
            if "for" not in names and names and names[0] == ty:
                out.append((j, close_of(toks, j)))
        else:
            if "for" in names:
                k = names.index("for")
                if trait in names[:k] and ty in names[k + 1:k + 2]:
                    out.append((j, close_of(toks, j)))
    return out


def match_arms(toks, open_i):
    """arms of the match whose `{` is at open_i: list of (pattern_tokens, body_tokens)"""
    close = close_of(toks, open_i)
    arms = []
    i = open_i + 1
    while i < close:
        # pattern up to top-level =>
        pat = []
        depth = 0
        while i < close:
            k, t = toks[i]
            if k == "punct":
                if t in OPEN:
                    depth += 1
                elif t in CLOSE:
                    depth -= 1
                elif t == "=>" and depth == 0:
                    break
            pat.append(toks[i])
            i += 1
        if i >= close:
            break
        i += 1  # =>
        if is_p(toks[i], "{"):
            j = close_of(toks, i)
            body = toks[i:j + 1]
            i = j + 1
            # a block arm may still continue as an expression (`{..}.x()`); take everything up to the comma
            depth = 0
            while i < close and not (is_p(toks[i], ",") and depth == 0):
                # next arm starts directly after a block without comma
                if depth == 0 and not is_p(toks[i], ".") and not is_p(toks[i], "?"):
                    break
                k, t = toks[i]
                if k == "punct" and t in OPEN:
                    depth += 1
                elif k == "punct" and t in CLOSE:
                    depth -= 1
                body.append(toks[i])
                i += 1
            if i < close and is_p(toks[i], ","):
                i += 1
        else:
            body = []
            depth = 0
            while i < close:
                k, t = toks[i]
                if k == "punct":
                    if t in OPEN:
                        depth += 1
                    elif t in CLOSE:
                        depth -= 1
                    elif t == "," and depth == 0:
                        break
                body.append(toks[i])
                i += 1
            i += 1
        arms.append((strip_attrs(pat), body))
    return arms


def find_match(toks, scrutinee, start=0, end=None):
    """index of the `{` of the first `match <scrutinee tokens> {` in [start, end)"""
    end = len(toks) if end is None else end
    pat = ["match"] + scrutinee + ["{"]
    i = find_seq(toks, pat, start, end)
    return -1 if i < 0 else i + len(pat) - 1


def all_fns(toks, start=0, end=None):
    """every `fn name ... { body }` in [start, end): list of (name, open, close); nested fns are listed too"""
    end = len(toks) if end is None else end
    out = []
    for i in find_all(toks, ["fn", ("id", None)], start, end):
        r = item_body(toks[:end], "fn", toks[i + 1][1], i)
        if r and r[0] > i and find_seq(toks, ["fn"], i + 1, r[0]) < 0:
            out.append((toks[i + 1][1], r[0], r[1]))
    return out
