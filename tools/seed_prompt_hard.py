#!/usr/bin/env python3
"""Prompt for the later, harder rounds of seeded changes: ONE change per property, the author is told what every earlier
round tried.  usage: tools/seed_prompt_hard.py Cxx <round>  (prints the prompt; scratch names use /tmp/seed<round>-Cxx)"""
import glob, json, subprocess, sys
pid, rnd = sys.argv[1], sys.argv[2]
s = subprocess.run([sys.executable, "/verif/tools/seed_prompt.py", pid], capture_output=True, text=True).stdout
s = s.replace("/tmp/seed-", "/tmp/seed%s-" % rnd).replace("-b seed-", "-b seed%s-" % rnd)
s = s.replace("YOUR TASK: produce TWO different, independent changes (call them a and b), each a small plausible edit", "YOUR TASK: produce ONE change (call it a), a small plausible edit")
s = s.replace("Prefer subtle over blatant. The two changes should break the property in different ways / at different code sites.",
              "Prefer subtle over blatant. Take your time to find a change that a very thorough differential-testing and proof-based verification effort could still overlook: think about rarely generated inputs, interactions between two features, state that survives from an earlier operation, values at representation boundaries, code paths reached only after an error, host-API calls made in an unusual but protocol-respecting order, and inputs that are legal but that nobody writes.")
s = s.replace("For each change write a demonstration", "Write a demonstration")
s = s.replace("Deliver, for each change x in {a, b}, a directory /tmp/seed%s-%s-out/x/ containing" % (rnd, pid), "Deliver a directory /tmp/seed%s-%s-out/a/ containing" % (rnd, pid))
s = s.replace("summarise both changes in a few lines each", "summarise the change in a few lines")
print(s)
print("\nEarlier rounds of this experiment already tried the following changes for this property; do NOT repeat them or close variants - look for a different code site, a different mechanism, or a rarer trigger:")
for d in sorted(glob.glob("/verif/seeded/%s-*" % pid)):
    m = json.load(open(d + "/meta.json"))
    print(" - " + m["needs_to_manifest"][:220].replace("\n", " "))
print("\nIMPORTANT: other agents work in sibling worktrees of the same repository at the same time. Do NOT use 'git stash' (the stash is shared between worktrees) and do not touch branches other than your own; to switch between the changed and the unchanged tree use 'git diff > /tmp/seed%s-%s.patch; git checkout -- .' and 'git apply /tmp/seed%s-%s.patch'. Deliver into /tmp/seed%s-%s-out/a/ exactly (patch.diff; demo.rs or demo.sh or demo.py; README.md)." % (rnd, pid, rnd, pid, rnd, pid))
