// Test-vector generator for Abasic.Dec (Lean) against Rust std.
// Build:  rustc -O gen.rs -o gen
// Run:    ./gen OUTDIR [SEED]   (writes OUTDIR/show.txt, parse.txt, conv.txt; SEED is an optional u64)
//
// Line formats (fields separated by a single space):
//   S <cat> <bits:hex16> <format!("{}",x)>
//   P <cat> <r:RAW | h:HEX-of-utf8> <bits:hex16 | NAN | ERR>
//   I <cat> <bits:hex16> <x as i64> <x as u64>
//   U <cat> <n:u64 decimal> <bits:hex16 of n as f64>
use std::collections::BTreeMap;
use std::fs::File;
use std::io::{BufWriter, Write};

struct Rng(u64);
impl Rng {
    fn next(&mut self) -> u64 {
        self.0 = self.0.wrapping_add(0x9E3779B97F4A7C15);
        let mut z = self.0;
        z = (z ^ (z >> 30)).wrapping_mul(0xBF58476D1CE4E5B9);
        z = (z ^ (z >> 27)).wrapping_mul(0x94D049BB133111EB);
        z ^ (z >> 31)
    }
    fn below(&mut self, n: u64) -> u64 {
        self.next() % n
    }
    fn range(&mut self, lo: i64, hi: i64) -> i64 {
        lo + (self.next() % ((hi - lo + 1) as u64)) as i64
    }
}

// ---------- tiny big-decimal (base 1e9, little endian) ----------
#[derive(Clone)]
struct Big(Vec<u32>);
impl Big {
    fn from_u64(mut x: u64) -> Big {
        let mut v = vec![];
        while x > 0 {
            v.push((x % 1_000_000_000) as u32);
            x /= 1_000_000_000;
        }
        Big(v)
    }
    fn mul_small(&mut self, m: u32) {
        let mut carry: u64 = 0;
        for d in self.0.iter_mut() {
            let t = (*d as u64) * (m as u64) + carry;
            *d = (t % 1_000_000_000) as u32;
            carry = t / 1_000_000_000;
        }
        while carry > 0 {
            self.0.push((carry % 1_000_000_000) as u32);
            carry /= 1_000_000_000;
        }
    }
    fn mul_pow2(&mut self, mut k: u32) {
        while k >= 29 {
            self.mul_small(1 << 29);
            k -= 29;
        }
        if k > 0 {
            self.mul_small(1 << k);
        }
    }
    fn mul_pow5(&mut self, mut k: u32) {
        while k >= 13 {
            self.mul_small(1220703125);
            k -= 13;
        }
        if k > 0 {
            self.mul_small(5u32.pow(k));
        }
    }
    fn to_dec(&self) -> String {
        if self.0.is_empty() {
            return "0".to_string();
        }
        let mut s = format!("{}", self.0[self.0.len() - 1]);
        for d in self.0.iter().rev().skip(1) {
            s.push_str(&format!("{:09}", d));
        }
        s
    }
}

/// exact decimal of m * 2^e as (digits N, k) meaning N * 10^-k  (k >= 0)
fn exact_dec(m: u64, e: i32) -> (String, usize) {
    let mut b = Big::from_u64(m);
    if e >= 0 {
        b.mul_pow2(e as u32);
        (b.to_dec(), 0)
    } else {
        b.mul_pow5((-e) as u32);
        (b.to_dec(), (-e) as usize)
    }
}

/// positional rendering of N * 10^-k
fn positional(n: &str, k: usize) -> String {
    if k == 0 {
        n.to_string()
    } else if n.len() > k {
        format!("{}.{}", &n[..n.len() - k], &n[n.len() - k..])
    } else {
        format!("0.{}{}", "0".repeat(k - n.len()), n)
    }
}

/// decimal string decrement (n > 0)
fn dec_str(n: &str) -> String {
    let mut b: Vec<u8> = n.bytes().collect();
    let mut i = b.len();
    loop {
        i -= 1;
        if b[i] == b'0' {
            b[i] = b'9';
        } else {
            b[i] -= 1;
            break;
        }
    }
    String::from_utf8(b).unwrap()
}

fn decode(bits: u64) -> (u64, i32) {
    let be = ((bits >> 52) & 0x7ff) as i32;
    let frac = bits & ((1u64 << 52) - 1);
    if be == 0 {
        (frac, -1074)
    } else {
        (frac | (1u64 << 52), be - 1075)
    }
}

fn enc(s: &str) -> String {
    if !s.is_empty() && s.bytes().all(|b| b > 0x20 && b < 0x7f) {
        format!("r:{}", s)
    } else {
        let mut h = String::from("h:");
        for b in s.bytes() {
            h.push_str(&format!("{:02x}", b));
        }
        h
    }
}

struct Out {
    w: BufWriter<File>,
    counts: BTreeMap<String, usize>,
}
impl Out {
    fn new(p: &str) -> Out {
        Out { w: BufWriter::new(File::create(p).unwrap()), counts: BTreeMap::new() }
    }
    fn cnt(&mut self, k: String) {
        *self.counts.entry(k).or_insert(0) += 1;
    }
    fn show(&mut self, cat: &str, bits: u64) {
        let x = f64::from_bits(bits);
        writeln!(self.w, "S {} {:016x} {}", cat, bits, x).unwrap();
        self.cnt(format!("show/{}", cat));
    }
    fn parse(&mut self, cat: &str, s: &str) {
        let r = match s.parse::<f64>() {
            Ok(v) if v.is_nan() => "NAN".to_string(),
            Ok(v) => format!("{:016x}", v.to_bits()),
            Err(_) => "ERR".to_string(),
        };
        writeln!(self.w, "P {} {} {}", cat, enc(s), r).unwrap();
        self.cnt(format!("parse/{}", cat));
    }
    fn f2i(&mut self, cat: &str, bits: u64) {
        let x = f64::from_bits(bits);
        writeln!(self.w, "I {} {:016x} {} {}", cat, bits, x as i64, x as u64).unwrap();
        self.cnt(format!("f2i/{}", cat));
    }
    fn u2f(&mut self, cat: &str, n: u64) {
        writeln!(self.w, "U {} {} {:016x}", cat, n, (n as f64).to_bits()).unwrap();
        self.cnt(format!("u2f/{}", cat));
    }
    fn report(&mut self) {
        self.w.flush().unwrap();
        let mut tot = 0;
        for (k, v) in &self.counts {
            println!("{}: {}", k, v);
            tot += v;
        }
        println!("  subtotal: {}", tot);
    }
}

fn doubles(rng: &mut Rng) -> Vec<(&'static str, u64)> {
    let mut v: Vec<(&'static str, u64)> = vec![];
    for _ in 0..200_000 {
        v.push(("rand_bits", rng.next()));
    }
    for _ in 0..40_000 {
        let be = rng.range(1023 - 40, 1023 + 70) as u64;
        let frac = rng.next() & ((1 << 52) - 1);
        let sign = rng.below(2) << 63;
        v.push(("small_exp", sign | (be << 52) | frac));
    }
    for _ in 0..10_000 {
        // few set bits in the mantissa, any exponent
        let be = rng.below(2047);
        let mut frac = 0u64;
        for _ in 0..rng.below(4) {
            frac |= 1 << rng.below(52);
        }
        v.push(("few_bits", (be << 52) | frac));
    }
    for k in 0..=3000u32 {
        v.push(("ints", (k as f64).to_bits()));
        v.push(("ints", (-(k as f64)).to_bits()));
        v.push(("k_10", (k as f64 / 10.0).to_bits()));
        v.push(("k_100", (k as f64 / 100.0).to_bits()));
        v.push(("k_8", (k as f64 / 8.0).to_bits()));
    }
    for e in -1074..=1023i32 {
        let b = if e < -1022 { 1u64 << (e + 1074) } else { ((e + 1023) as u64) << 52 };
        v.push(("pow2", b));
        v.push(("pow2", b + 1));
        if b > 0 {
            v.push(("pow2", b - 1));
        }
        v.push(("pow2", b | (1 << 63)));
    }
    for e in -323..=308i32 {
        let b = format!("1e{}", e).parse::<f64>().unwrap().to_bits();
        v.push(("pow10", b));
        v.push(("pow10", b + 1));
        v.push(("pow10", b - 1));
        for d in 2..=9 {
            let b = format!("{}e{}", d, e).parse::<f64>().unwrap().to_bits();
            if b < 0x7ff0000000000000 {
                v.push(("pow10_d", b));
            }
        }
    }
    for i in 0..1000u64 {
        v.push(("subnormal", i));
        v.push(("subnormal", (1u64 << 52) - 1 - i));
        v.push(("subnormal", (1u64 << 52) + i));
    }
    for _ in 0..20_000 {
        let bits = rng.below(52) + 1;
        v.push(("subnormal", rng.next() & ((1u64 << bits) - 1)));
    }
    for x in [
        f64::MAX, f64::MIN, f64::MIN_POSITIVE, -f64::MIN_POSITIVE, f64::EPSILON, 0.0, -0.0,
        f64::INFINITY, f64::NEG_INFINITY, f64::NAN, -f64::NAN, 1.0, -1.0, 0.1, 0.2, 0.3,
        0.1 + 0.2, 1e21, 1e22, 1e23, 9007199254740992.0, 9007199254740993.0, 1e15, 1e16, 1e17,
        123456789012345680.0, 1.5, 1e-7, 5e-324, 1.7976931348623157e308, 2.2250738585072014e-308,
        2.225073858507201e-308, 4.9406564584124654e-324, 9.5e-5, 0.3e-5, 299792458.0,
        3.141592653589793, 2.718281828459045, 1e100, 1e-100, 8.41e21, 2e-323, 9.999999999999999e22,
        4.35, 0.000001, 0.00001, 123456.789e3, 5e-1, 0.5, 0.25, 0.125, 1.0 / 3.0, 2.0 / 3.0,
    ] {
        v.push(("special", x.to_bits()));
    }
    v.push(("special", 0x7ff0000000000001));
    v.push(("special", 0xfff0000000000001));
    v.push(("special", 0x7fffffffffffffff));
    v.push(("special", 0xffffffffffffffff));
    v.push(("special", 0x7fefffffffffffff));
    v.push(("special", 0x7feffffffffffffe));
    for _ in 0..50_000 {
        let n = rng.below(1u64 << 33);
        v.push(("rng33", (n as f64 / 8589934592.0).to_bits()));
    }
    for _ in 0..10_000 {
        let f = f32::from_bits(rng.next() as u32);
        if f.is_finite() {
            v.push(("f32", (f as f64).to_bits()));
        }
    }
    for _ in 0..30_000 {
        let nd = rng.range(1, 17) as u32;
        let d = rng.below(10u64.pow(nd));
        let e = rng.range(-330, 300);
        let x: f64 = format!("{}e{}", d, e).parse().unwrap();
        v.push(("short_dec", x.to_bits()));
    }
    for _ in 0..10_000 {
        // integers around and beyond 2^53, near powers of ten
        let bl = rng.range(40, 80) as u32;
        let x = (rng.next() as f64) * 2f64.powi(bl as i32 - 64);
        v.push(("big_int", x.floor().to_bits()));
    }
    for p in 0..=25 {
        let t = 10f64.powi(p);
        for d in -3i64..=3 {
            v.push(("big_int", (t.to_bits() as i64 + d) as u64));
        }
    }
    v
}

fn main() {
    let dir = std::env::args().nth(1).unwrap_or_else(|| ".".to_string());
    let seed: u64 = std::env::args().nth(2).and_then(|s| s.parse().ok()).unwrap_or(0x1234_5678_9abc_def0);
    let mut rng = Rng(seed);
    let ds = doubles(&mut rng);

    // ---------------- (a) showF64 ----------------
    let mut o = Out::new(&format!("{}/show.txt", dir));
    for (cat, b) in &ds {
        o.show(cat, *b);
    }
    o.report();

    // ---------------- (b) parseF64 ----------------
    let mut o = Out::new(&format!("{}/parse.txt", dir));
    for (i, (_cat, b)) in ds.iter().enumerate() {
        let x = f64::from_bits(*b);
        o.parse("display", &format!("{}", x));
        o.parse("sci", &format!("{:e}", x));
        if i % 7 == 0 {
            o.parse("sci_upper", &format!("{:E}", x));
            o.parse("prec17", &format!("{:.17e}", x));
            o.parse("plus_sign", &format!("{:+e}", x));
        }
    }
    // random digit strings
    for _ in 0..150_000 {
        let len = rng.range(1, 40) as usize;
        let mut s = String::new();
        match rng.below(6) {
            0 => s.push('-'),
            1 => s.push('+'),
            _ => {}
        }
        let dot = if rng.below(3) > 0 { Some(rng.below(len as u64 + 1) as usize) } else { None };
        let lead0 = if rng.below(5) == 0 { rng.below(len as u64) as usize } else { 0 };
        for i in 0..len {
            if dot == Some(i) {
                s.push('.');
            }
            if i < lead0 {
                s.push('0');
            } else {
                s.push((b'0' + rng.below(10) as u8) as char);
            }
        }
        if dot == Some(len) {
            s.push('.');
        }
        if rng.below(3) > 0 {
            s.push(if rng.below(2) == 0 { 'e' } else { 'E' });
            let e = if rng.below(4) == 0 { rng.range(-400, 400) } else { rng.range(-30, 30) };
            if e >= 0 && rng.below(3) == 0 {
                s.push('+');
            }
            if rng.below(10) == 0 {
                s.push_str(&format!("{:05}", e));
            } else {
                s.push_str(&format!("{}", e));
            }
        }
        o.parse("rand_str", &s);
    }
    // random strings near the extremes of the range
    for _ in 0..20_000 {
        let len = rng.range(1, 25) as usize;
        let mut s = String::new();
        for _ in 0..len {
            s.push((b'0' + rng.below(10) as u8) as char);
        }
        let e = if rng.below(2) == 0 { rng.range(-350, -300) } else { rng.range(280, 312) } - len as i64;
        s.push_str(&format!("e{}", e));
        o.parse("rand_extreme", &s);
    }
    // halfway cases
    let mut half_src: Vec<u64> = vec![];
    for _ in 0..6000 {
        half_src.push(rng.next() & 0x7fffffffffffffff);
    }
    for _ in 0..14_000 {
        let be = rng.range(1023 - 60, 1023 + 80) as u64;
        half_src.push((be << 52) | (rng.next() & ((1 << 52) - 1)));
    }
    for _ in 0..1000 {
        let bits = rng.below(52) + 1;
        half_src.push(rng.next() & ((1u64 << bits) - 1));
    }
    for i in 0..200u64 {
        half_src.push(i);
        half_src.push(0x7fefffffffffffff - i);
        half_src.push((1u64 << 52) - 100 + i);
    }
    for e in (-1074..=1023i32).step_by(3) {
        let b = if e < -1022 { 1u64 << (e + 1074) } else { ((e + 1023) as u64) << 52 };
        half_src.push(b);
        half_src.push(b - 1);
    }
    for (idx, b) in half_src.iter().enumerate() {
        if *b >= 0x7ff0000000000000 {
            continue;
        }
        let (m, e) = decode(*b);
        // midpoint between b and its successor: (2m+1) * 2^(e-1)
        let (n, k) = exact_dec(2 * m + 1, e - 1);
        let style = idx % 3;
        let render = |n: &str, extra: &str| -> String {
            match style {
                0 => positional(&format!("{}{}", n, extra), k + extra.len()),
                1 => format!("{}{}e-{}", n, extra, k + extra.len()),
                _ => {
                    // d.ddddd e X
                    let all = format!("{}{}", n, extra);
                    let exp = all.len() as i64 - 1 - (k + extra.len()) as i64;
                    format!("{}.{}e{}", &all[..1], &all[1..], exp)
                }
            }
        };
        o.parse("half_exact", &render(&n, ""));
        o.parse("half_above", &render(&n, "1"));
        o.parse("half_below", &render(&dec_str(&n), "9"));
        if idx % 4 == 0 {
            o.parse("half_zeros", &render(&n, "0000"));
            o.parse("half_above_far", &render(&n, &format!("{}1", "0".repeat(60 + idx % 900))));
            o.parse("half_below_far", &render(&dec_str(&n), &"9".repeat(60 + idx % 900)));
            o.parse("half_neg", &format!("-{}", render(&n, "")));
        }
        if idx % 16 == 0 {
            // the exact double itself, full expansion, and +- tiny
            let (n, k2) = exact_dec(m, e);
            if m > 0 {
                let pos = positional(&n, k2);
                o.parse("exact_full", &pos);
                o.parse("exact_full", &format!("{}{}1", pos, if k2 == 0 { "." } else { "" }));
            }
        }
    }
    // long digit strings
    for i in 0..6000 {
        let len = rng.range(400, 1300) as usize;
        let mut s = String::new();
        let dot = rng.below(len as u64 + 1) as usize;
        for j in 0..len {
            if j == dot && i % 5 != 0 {
                s.push('.');
            }
            s.push((b'0' + rng.below(10) as u8) as char);
        }
        if i % 2 == 0 {
            let e = rng.range(-400, 400) - if i % 5 == 0 { len as i64 } else { dot as i64 };
            s.push_str(&format!("e{}", e));
        }
        o.parse("long_digits", &s);
    }
    for _ in 0..2000 {
        // long leading / trailing zeros
        let z1 = rng.range(0, 500) as usize;
        let z2 = rng.range(0, 500) as usize;
        let z3 = rng.range(0, 500) as usize;
        let mid = rng.below(1_000_000_000);
        let s = match rng.below(4) {
            0 => format!("{}{}{}", "0".repeat(z1), mid, "0".repeat(z2)),
            1 => format!("{}.{}{}{}", "0".repeat(z1), "0".repeat(z2), mid, "0".repeat(z3)),
            2 => format!("{}{}{}.{}e-{}", "0".repeat(z1), mid, "0".repeat(z2), "0".repeat(z3), z2 + rng.below(40) as usize),
            _ => format!("0.{}{}e{}", "0".repeat(z1), mid, z1 as i64 + rng.range(-20, 20)),
        };
        o.parse("long_zeros", &s);
    }
    // huge exponents
    for s in [
        "1e999999999", "1e-999999999", "0e999999999", "0e-999999999", "-1e999999999", "-1e-999999999",
        "-0e999999999", "1e99999999999999999999999999", "1e-99999999999999999999999999",
        "0.0e99999999999999999999999999", "1e65535", "1e65536", "1e65537", "1e655359", "1e655360", "1e-65536",
        "1e309", "1e308", "1.7976931348623157e308", "1.7976931348623158e308", "1.7976931348623159e308",
        "179769313486231580793728971405303415079934132710037826936173778980444968292764750946649017977587207096330286416692887910946555547851940402630657488671505820681908902000708383676273854845817711531764475730270069855571366959622842914819860834936475292719074168444365510704342711559699508093042880177904174497791.9999999999999999999999999999999999999999999999999999999999999999999",
        "179769313486231580793728971405303415079934132710037826936173778980444968292764750946649017977587207096330286416692887910946555547851940402630657488671505820681908902000708383676273854845817711531764475730270069855571366959622842914819860834936475292719074168444365510704342711559699508093042880177904174497792",
        "2.4703282292062327e-324", "2.4703282292062328e-324", "2.47e-324", "2.5e-324", "4.9e-324", "5e-324", "1e-323", "1e-324", "1e-325", "3e-324",
        "2.2250738585072011e-308", "2.2250738585072012e-308", "2.2250738585072014e-308",
        "0.000000000000000000000000000000000000000000000000000000000000000000000000000000000000000000000000000000000000000000000000000000000000000000000000000000000000000000000000000000000000000000000000000000000000000000000000000000000000000000000000000000000000000000000000000000000000000000000000000000000000000000000000000000000000001e330",
        "100000000000000000000000000000000000000000000000000000000000000000000000000000000000000000000000000000000000000000000000000000000000000000000000000000000000000000000000000000000000000000000000000000000000000000000000000000000000000000000000000000000000000000000000000000000000000000000000000000000000000000000000000000000000000000e-330",
        "9007199254740993", "9007199254740992.5", "9007199254740993.000000000000000000000000000001", "9007199254740991.5", "9007199254740994.5",
        "1e+00000000000000000000000000000000000000000000000005", "1e-0", "1e+0", "0e0", "0.e0", ".0e0", "-.0", "+.0", "-0.", "00.00", "-0", "+0", "0",
    ] {
        o.parse("edge", s);
    }
    for e in [300i64, 1000, 65535, 65536, 70000, 100000] {
        // 0.<e zeros>1e<e+1> == 1  (exponent arithmetic with many fractional digits)
        o.parse("edge_big", &format!("0.{}1e{}", "0".repeat(e as usize), e + 1));
        o.parse("edge_big", &format!("1{}e-{}", "0".repeat(e as usize), e));
        o.parse("edge_big", &format!("1{}.5e-{}", "0".repeat(e as usize), e));
    }
    // exponent-saturation quirk (only visible with > 655 kB strings)
    o.parse("edge_big", &format!("0.{}1e{}", "0".repeat(700000), 700001));
    o.parse("edge_big", &format!("1{}e-{}", "0".repeat(700000), 700000));
    // inf / nan family
    for base in ["inf", "infinity", "nan", "infinit", "in", "na", "nanx", "infx", "infinityx", "i", "n", "infini", "nan0", "inf.", "nan.0", "1nan", "inf1", "ınf", "infinıty"] {
        for mask in 0..(1u32 << base.chars().count().min(8)) {
            let s: String = base
                .chars()
                .enumerate()
                .map(|(i, c)| if i < 8 && (mask >> i) & 1 == 1 { c.to_ascii_uppercase() } else { c })
                .collect();
            for sign in ["", "+", "-", "--", "+-", " "] {
                o.parse("infnan", &format!("{}{}", sign, s));
            }
        }
    }
    // malformed / borderline list
    for s in [
        "", ".", "+", "-", "1e", "e1", "1..2", "0x10", "1 ", " 1", "1_000", "١", "1e5.5", "--1", "+-1", "in", "infinit",
        "nanx", ".e1", "1.e1", ".1e1", "1e+", "1e-", "e", "E", "-e", "+.e1", "+.", "-.", "..", "1.2.3", "1e1e1", "1ee1",
        "1e 1", "1 e1", "1e1 ", "\t1", "1\n", "1\0", "1,5", "1'000", "1f", "1.0f64", "1.0_f64", "1d0", "1D0", "0b1", "0o7",
        "0x1p3", "1e1.", "1e.1", "1.e", "1.e+", ".e", "+e1", "-e1", "1+1", "1-1", "1e++1", "1e+-1", "1e--1", "++1", "-+1",
        "1.-2", "1.+2", "-.5", "+.5", "-5.", "+5.", "5.e-3", "5.E+3", "5.E3", "007", "1.", ".5", "1e05", "1E5", "1e+5",
        "1e-5", "１", "1²", "½", "1e٣", "∞", "-∞", "NaN", "Inf", "Infinity", "INFINITY", "iNf", "nAn", "+nan", "-nan", "+inf", "-inf",
        "+infinity", "-infinity", "infinity ", " inf", "nan ", "in f", "i nf", "−1", "1e−5", "1.0\r", "\u{feff}1", "1\u{200b}",
        "0.1e", "0.1e+", "0.1E-", "00e00", "-00.00e-00", "+00.e+00", "1e0000000000000000000000000000000000001",
        "1e-0000000000000000000000000000000000001", "123abc", "abc", "1.5.e3", "1e3e", ".e", ". 5", ".+5", "0..", "..0",
        "0.0.0", "-", "+ 1", "- 1", "1 .5", "1. 5", "+", "+-", "-+", "e+5", "E-5", ".e5", "-.e5",
    ] {
        o.parse("malformed", s);
    }
    o.report();

    // ---------------- (c) integer conversions ----------------
    let mut o = Out::new(&format!("{}/conv.txt", dir));
    for _ in 0..40_000 {
        o.f2i("rand_bits", rng.next());
    }
    for _ in 0..70_000 {
        let be = rng.range(1023 - 5, 1023 + 70) as u64;
        let frac = rng.next() & ((1 << 52) - 1);
        let sign = rng.below(2) << 63;
        o.f2i("range", sign | (be << 52) | frac);
    }
    for _ in 0..20_000 {
        let n = rng.next() >> rng.below(64);
        o.f2i("from_i64", ((n as i64) as f64).to_bits());
        o.f2i("from_u64", (n as f64).to_bits());
    }
    let two63 = 9223372036854775808.0f64;
    let two64 = 18446744073709551616.0f64;
    let two53 = 9007199254740992.0f64;
    let two52 = 4503599627370496.0f64;
    let mut bnd: Vec<f64> = vec![
        0.0, -0.0, 0.5, -0.5, 0.9999, -0.9999, 0.99999999999999989, -0.99999999999999989, 1.0, -1.0, 1.5, -1.5, 1.9999999999999998,
        2.5, -2.5, f64::NAN, -f64::NAN, f64::INFINITY, f64::NEG_INFINITY, f64::MAX, f64::MIN, f64::MIN_POSITIVE, -f64::MIN_POSITIVE,
        5e-324, -5e-324, 1e-310, -1e-310, two53, two53 - 1.0, two53 + 2.0, -two53, -(two53 - 1.0), -(two53 + 2.0), two52 + 0.5, two52 - 0.5,
        -(two52 + 0.5), two52 * 0.5 + 0.25, 1e19, 1e20, -1e19, 1e18, -1e18, 4294967296.0, 4294967295.5, -4294967296.5, 2147483648.0, 65536.0,
        255.99, 256.0, f64::EPSILON,
    ];
    for base in [two63, two64, -two63, -two64, two53, -two53, two52, -two52, 1.0, -1.0, 2.0, 0.5] {
        let b = base.to_bits();
        for d in -20i64..=20 {
            bnd.push(f64::from_bits((b as i64 + d) as u64));
        }
    }
    for x in &bnd {
        o.f2i("boundary", x.to_bits());
    }
    for (_cat, b) in ds.iter().step_by(9) {
        o.f2i("show_set", *b);
    }

    for _ in 0..50_000 {
        o.u2f("rand", rng.next());
    }
    for _ in 0..30_000 {
        o.u2f("rand_len", rng.next() >> rng.below(64));
    }
    for _ in 0..30_000 {
        // halfway and near-halfway cases: q (53 bits) << sh, plus half, +-1
        let sh = rng.range(1, 11) as u32;
        let q = (rng.next() >> 11) | (1 << 52);
        let q = q >> (11 - sh); // so that q<<sh fits in 64 bits
        let q = q | (1u64 << (63 - sh)); // ensure top bit -> exactly 64-sh bits
        let base = q << sh;
        let half = 1u64 << (sh - 1);
        let delta: i64 = match rng.below(5) {
            0 => 0,
            1 => 1,
            2 => -1,
            3 => rng.range(-(half as i64), half as i64),
            _ => 0,
        };
        let n = base.wrapping_add(half).wrapping_add(delta as u64);
        o.u2f("halfway", n);
    }
    let mut ub: Vec<u64> = vec![0, 1, 2, 3, u64::MAX, u64::MAX - 1, u64::MAX - 1023, u64::MAX - 1024, u64::MAX - 1025,
        u64::MAX - 2047, u64::MAX - 2048, u64::MAX - 2049, (1 << 63) + (1 << 10), (1 << 63) + (1 << 10) + 1, (1 << 63) + (1 << 10) - 1,
        (1 << 63) + (1 << 11), (1 << 63) + 3 * (1 << 10), (1 << 63) + 3 * (1 << 10) + 1, (1 << 63) + 3 * (1 << 10) - 1, 1 << 63, (1 << 63) - 1, (1 << 63) + 1,
        (1 << 63) - 512, (1 << 63) - 513, (1 << 63) - 511, (1 << 63) - 256, (1 << 63) - 257];
    for p in 50..64u32 {
        for d in -5i64..=5 {
            ub.push(((1u64 << p) as i64).wrapping_add(d) as u64);
        }
    }
    for d in 0..=40u64 {
        ub.push((1u64 << 53) - 20 + d);
        ub.push((1u64 << 54) - 20 + d);
    }
    for n in &ub {
        o.u2f("boundary", *n);
    }
    o.report();
}
