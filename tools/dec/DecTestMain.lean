import Decwork.Dec
import Std.Data.HashMap
open Abasic.Dec

def hexVal (c : Char) : Nat :=
  if '0' ≤ c && c ≤ '9' then c.toNat - 48
  else if 'a' ≤ c && c ≤ 'f' then c.toNat - 87
  else if 'A' ≤ c && c ≤ 'F' then c.toNat - 55
  else 0

def parseHex (s : String) : Nat := s.foldl (fun a c => a * 16 + hexVal c) 0

def hexToString (s : String) : String :=
  let rec go (cs : List Char) (acc : ByteArray) : ByteArray :=
    match cs with
    | a :: b :: r => go r (acc.push (UInt8.ofNat (hexVal a * 16 + hexVal b)))
    | _ => acc
  match String.fromUTF8? (go s.toList ByteArray.empty) with
  | some s => s
  | none => "<<bad utf8>>"

def hex16 (n : Nat) : String :=
  let ds := (Nat.toDigits 16 n)
  String.ofList (List.replicate (16 - ds.length) '0' ++ ds)

def decodeText (f : String) : String :=
  if f.startsWith "r:" then (f.drop 2).toString
  else if f.startsWith "h:" then hexToString (f.drop 2).toString
  else f

def isNaNBits (b : Nat) : Bool :=
  (b / pow2_52) % 2048 == 2047 && b % pow2_52 != 0

structure St where
  counts : Std.HashMap String (Nat × Nat) := {}
  shown : Nat := 0

def bump (st : St) (key : String) (ok : Bool) (msg : Unit → String) : IO St := do
  let (n, bad) := st.counts.getD key (0, 0)
  let mut shown := st.shown
  if !ok then
    if shown < 60 then
      IO.println s!"MISMATCH [{key}] {msg ()}"
    shown := shown + 1
  return { counts := st.counts.insert key (n + 1, if ok then bad else bad + 1), shown := shown }

def processLine (st : St) (line : String) : IO St := do
  let fs := line.splitOn " "
  match fs with
  | ["S", cat, hb, text] =>
    let x := Float.ofBits (parseHex hb).toUInt64
    let got := String.ofList (showF64 x)
    bump st ("show/" ++ cat) (got == text) (fun _ => s!"bits={hb} rust={text} lean={got}")
  | ["P", cat, enc, res] =>
    let s := decodeText enc
    let got := parseF64 s.toList
    let gotS : String :=
      match got with
      | none => "ERR"
      | some f =>
        let b := f.toBits.toNat
        if isNaNBits b then "NAN" else hex16 b
    bump st ("parse/" ++ cat) (gotS == res) (fun _ => s!"input={s.quote} rust={res} lean={gotS}")
  | ["I", cat, hb, i, u] =>
    let x := Float.ofBits (parseHex hb).toUInt64
    let gi := toString (f64ToI64 x)
    let gu := toString (f64ToU64 x)
    bump st ("f2i/" ++ cat) (gi == i && gu == u) (fun _ => s!"bits={hb} rust=({i},{u}) lean=({gi},{gu})")
  | ["U", cat, n, hb] =>
    let got := hex16 (u64ToF64 n.toNat!).toBits.toNat
    bump st ("u2f/" ++ cat) (got == hb) (fun _ => s!"n={n} rust={hb} lean={got}")
  | [""] => return st
  | _ =>
    IO.println s!"BAD LINE: {line.quote}"
    bump st "badline" false (fun _ => line)

partial def loop (h : IO.FS.Stream) (st : St) : IO St := do
  let line ← h.getLine
  if line.isEmpty then return st
  let line := if line.endsWith "\n" then (line.dropEnd 1).toString else line
  let st ← processLine st line
  loop h st

def main (args : List String) : IO UInt32 := do
  let mut st : St := {}
  if args.isEmpty then
    st ← loop (← IO.getStdin) st
  else
    for p in args do
      let h ← IO.FS.Handle.mk p .read
      st ← loop (IO.FS.Stream.ofHandle h) st
  let keys := st.counts.toList.map (·.1) |>.toArray.qsort (· < ·)
  let mut total := 0
  let mut bad := 0
  for k in keys do
    let (n, b) := st.counts.getD k (0, 0)
    IO.println s!"{k}: tested={n} mismatches={b}"
    total := total + n
    bad := bad + b
  IO.println s!"TOTAL tested={total} mismatches={bad}"
  return (if bad == 0 then 0 else 1)
