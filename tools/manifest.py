#!/usr/bin/env python3
"""Regenerate MANIFEST.json from tools/props.py (claimed properties) and
properties.jsonl (everything else goes to not_applicable with its reason)."""
import json
import os
import sys

HERE = os.path.dirname(os.path.abspath(__file__))
sys.path.insert(0, HERE)
from props import PROPS, NOT_CLAIMED  # noqa: E402

VERIF = os.path.join(HERE, "..")
ids = [json.loads(l)["id"] for l in open(os.path.join(VERIF, "properties.jsonl")) if l.strip()]
old = json.load(open(os.path.join(VERIF, "MANIFEST.json")))
checks = []
for pid in ids:
    if pid not in PROPS:
        continue
    c = PROPS[pid]
    checks.append({
        "property_id": pid,
        "quick_cmd": "./check %s --tier quick" % pid,
        "thorough_cmd": "./check %s --tier thorough" % pid,
        "evidence_file": "/verif/evidence/%s.json" % pid,
        "replay_cmd_template": "./check %s --replay {path}" % pid,
        "engine": "lean4-model+correspondence",
        "level_claimed": {
            "category": "proof",
            "text": c["level_text"],
            "design_ref": "DESIGN.md section 5, " + pid,
        },
        "level_note": c["level_note"],
        "technique": c.get("technique", "Lean 4 theorems about a hand-written executable model; model tied to the Rust code by a differential correspondence check (harness + compiled Lean driver)"),
    })
manifest = {
    "version": 1,
    "setup_cmd": "./setup",
    "hooks": old["hooks"],
    "engines": [{
        "name": "lean4-model+correspondence",
        "path": "/verif/check",
        "serves_properties": [c["property_id"] for c in checks],
        "kind_free_text": "Lean 4 package /verif/lean (model M, specs, theorems per property, compiled line-protocol driver) + Rust harness /verif/harness linking /repo's crates with the verif-hooks feature + tools/extract.py regenerating the tables the model uses",
    }],
    "checks": checks,
    "notes": "Every check: regenerate Extracted.lean from /repo, lake build the property's theorems and the driver, audit axioms, cargo build the harness against /repo's working tree, run the property's correspondence slice(s) and oracles, write evidence/<id>.json. VERIF_SEED and VERIF_TIER are honoured. Known findings: known-findings.json.",
    "not_applicable": [{"property_id": pid, "reason": NOT_CLAIMED.get(pid, "not claimed yet: its theorems / correspondence slice are still being built (DESIGN.md section 9)")} for pid in ids if pid not in PROPS],
}
json.dump(manifest, open(os.path.join(VERIF, "MANIFEST.json"), "w"), indent=2, ensure_ascii=False)
print("MANIFEST.json: %d checks, %d not claimed" % (len(checks), len(manifest["not_applicable"])))
