#!/bin/sh
# confirm_seed.sh <seed-out-dir> : confirm in a scratch worktree that the patch compiles, passes the
# existing tests, and that the demo fails with it and passes without it. Prints a summary line.
# usage: tools/confirm_seed.sh /tmp/seed-C04-out/a
set -u
D="$1"
W=/tmp/confirm-$$
export RUST_BACKTRACE=0 CARGO_NET_OFFLINE=true
git -C /repo worktree add -q --detach "$W" HEAD || exit 2
cd "$W" || exit 2
cleanup() { cd /; git -C /repo worktree remove --force "$W" >/dev/null 2>&1; }
trap cleanup EXIT
if ! git apply --check "$D/patch.diff" 2>/dev/null; then echo "RESULT patch-does-not-apply"; exit 1; fi
DEMO=$(for c in demo.sh demo.py demo.rs; do [ -f "$D/$c" ] && echo $c && break; done)
run_demo() {
  case "$DEMO" in
    demo.rs) CR=$(grep -oE 'abasic-(core|lsp|web|cli)/tests/' "$D/README.md" | head -1 | cut -d/ -f1); CR=${CR:-abasic-core}; mkdir -p $CR/tests; cp "$D/demo.rs" $CR/tests/seed_demo.rs; timeout 900 cargo test --offline -q -p $CR --test seed_demo >/tmp/confirm-demo-$$.log 2>&1; rc=$?; rm -f $CR/tests/seed_demo.rs; return $rc;;
    demo.sh) timeout 900 bash "$D/demo.sh" "$W" >/tmp/confirm-demo-$$.log 2>&1; return $?;;
    demo.py) timeout 600 python3 "$D/demo.py" "$W" >/tmp/confirm-demo-$$.log 2>&1; return $?;;
    *) echo "no demo"; return 99;;
  esac
}
run_demo; clean_rc=$?
git apply "$D/patch.diff"
timeout 900 cargo test --workspace --no-fail-fast --offline >/tmp/confirm-tests-$$.log 2>&1; tests_rc=$?
passed=$(grep -E "^test result" /tmp/confirm-tests-$$.log | sed -E 's/.* ([0-9]+) passed.*/\1/' | paste -sd+ | bc)
timeout 600 cargo build --offline -q -p abasic-core --features verif-hooks >/dev/null 2>&1; hooks_rc=$?
run_demo; mutant_rc=$?
echo "RESULT demo=$DEMO clean_demo_rc=$clean_rc mutant_demo_rc=$mutant_rc tests_rc=$tests_rc tests_passed=$passed hooks_build_rc=$hooks_rc"
rm -f /tmp/confirm-demo-$$.log /tmp/confirm-tests-$$.log
