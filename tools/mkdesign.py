#!/usr/bin/env python3
"""Assemble DESIGN.md = DESIGN.head.md + section 5 (from tools/props.py) + section 6 (from seeded/*/meta.json) + DESIGN.tail.md"""
import glob, json, os, sys
HERE = os.path.dirname(os.path.abspath(__file__))
sys.path.insert(0, HERE)
from props import PROPS
V = os.path.join(HERE, "..")
titles = {json.loads(l)["id"]: json.loads(l)["title"] for l in open(os.path.join(V, "properties.jsonl")) if l.strip()}
out = [open(os.path.join(V, "DESIGN.head.md")).read()]
out.append("---------------------------------------------------------------------------\n\n## 5. Per-property status\n\n"
           "Generated from `tools/props.py` (the same data drives `./check`, MANIFEST.json and the evidence files).\n"
           "\"Open\" = part of the property's full statement that is not yet a kernel-checked theorem; for that part the\n"
           "check rests on the correspondence slice and the implementation oracle only.\n")
for pid in sorted(PROPS):
    c = PROPS[pid]
    out.append("\n### %s — %s\n" % (pid, titles.get(pid, "")))
    out.append("*Proved* (`Abasic/Props/%s.lean`): %s.  \nTheorems: %s.\n" % (pid, c["what"], ", ".join("`%s`" % t for t in c["theorems"])))
    if c.get("open"):
        out.append("*Open:* " + "; ".join(c["open"]) + ".\n")
    else:
        out.append("*Open:* nothing listed.\n")
    out.append("*Correspondence slice(s):* %s.  *Note:* %s\n" % (", ".join("`%s`" % s for s in c["slices"]), c["level_note"]))
out.append("\nNot applicable: none — every property has a logic core that M expresses; where part of the truth lives in the\n"
           "runtime (native stack bytes, process I/O, wasm, JSON-RPC) the MANIFEST `level_note` names the part that is only exercised.\n")
out.append("\n---------------------------------------------------------------------------\n\n## 6. Seeded changes: which check catches which\n\n"
           "One hundred and eighty changes (six per property in three rounds of two, then two more for each property in a fourth round - the twelve core-interpreter properties - and a fifth - the other eight -, and one more for each in a sixth) were written by fresh sub-agents that saw only the property text and a\n"
           "scratch worktree (the second round was also told what the first had tried, so as not to repeat it); each compiles,\n"
           "passes the 153 existing tests, and comes with a demonstration that fails with the change and passes without it\n"
           "(confirmed here with `tools/confirm_seed.sh`).  They are kept under `seeded/<id>-<a..i>/` (`patch.diff`, demo,\n"
           "`meta.json`) and were run with `tools/try_seed.sh` (apply to /repo, `./check`, undo).\n\n"
           "Round 2 (`-c`, `-d`) was run against the checks as they stood after round 1: 22 of 40 were reported at once, 18 were\n"
           "MISSED by the quick tier (C01-c, C02-c, C03-c, C03-d, C04-d, C05-d, C06-c, C08-d, C10-c, C10-d, C11-c, C11-d, C12-c,\n"
           "C15-c, C18-c, C18-d, C19-c, C19-d; of these C18-c would have been found by the thorough tier's 2^33 sweep).  Every miss was a generator that did not reach the\n"
           "triggering shape, never a wrong oracle; what was added, never special-cased to the patch: stacked unary operators and\n"
           "implementation-only 200000-operator probes, a nesting-counter-is-zero-between-calls oracle (C01); exhaustive string\n"
           "comparisons incl. never-assigned variables (C02); same-name nested FN parameters, several DATA statements with\n"
           "RESTORE after crossing (C03); separator-only line bodies (C04); files with 60..400 diagnostics (C05, C20);\n"
           "definitions x calls of every arity, unary after binary operators (C06); multi-byte replies with surplus (C08);\n"
           "programs whose RUN path skips a DEF / the empty program (C10); death by error, loops and functions opened at the\n"
           "prompt, tokenization-error probes with caret rendering (C11, C01); identifiers spelled like earlier literal text,\n"
           "whole sessions in two spellings (C12); end-of-line text with trailing blanks (C15); algebraic predecessors of special\n"
           "generator states, RND inside RUN (C18); string-pool / STATS and 200..1000-line LIST scenarios on the page (C19).\n"
           "All eighty are now reported by the quick tier, most with a concrete failing input (the table says which).\n\n"
           "Round 3 (`-e`, `-f`; all twenty properties, told about both earlier rounds, asked for rare or structural triggers):\n"
           "18 of 40 reported at once, 22 MISSED (C01-e, C01-f, C03-e, C03-f, C04-e, C04-f, C05-e, C05-f, C06-e, C06-f, C07-e,\n"
           "C08-e, C09-e, C09-f, C10-e, C11-e, C13-f, C15-f, C16-f, C18-e, C18-f, C19-f, C20-e), and C11-f was first caught by\n"
           "one lucky random case and lost again when an unrelated generator change shifted the random stream - detection by\n"
           "luck is not detection.  Added in the second half: DATA bodies differing in the sign of a zero and numbers followed\n"
           "by non-BASIC blanks (C04); non-ASCII blanks / a byte-order mark / numbers beyond u64 in front of file lines (C05,\n"
           "C13, C20); fractional jump targets and definitions named like built-ins (C06); refused DEF and END typed at a\n"
           "breakpoint (C07); statement counts known in advance with a turns-at-least oracle (C09); line numbers above 63999\n"
           "(C15); GOSUB / FN typed at the prompt when stopped at the cap (C16); RND arguments that draw numbers, reseeding the\n"
           "Web adapter while a program is suspended (C18); several documents open side by side under URIs differing in case\n"
           "or escaping (C20).  Added in the first half: non-ASCII\n"
           "numerals where a line number is expected; nesting that passes through a user-function call around the cap;\n"
           "31..33 loops with distinct variables and a jump back into a FOR line; every run of PRINT separators at the end of\n"
           "the statement (reference interpreter extended); reply / break / RUN; edits inside C10 histories (mirrored in the\n"
           "fresh interpreter) and DATA-line deletion after a READ; DATA-less programs whose READ already failed; programs that\n"
           "ended on their own before the edit.  C19-f changed `abasic-web/ts/main.ts` itself, which no check executed (only a\n"
           "hand transliteration): the check now ALSO runs the page script - `class Interpreter` and the submit handler,\n"
           "type-stripped, under node - against the real adapter and demands agreement with the transliteration and the model\n"
           "on every event (`harness/page/page_driver.js`, `harness/src/realpage.rs`, oracle `page-script-same`).\n"
           "Round 4 (`-g`, `-h`; the twelve properties decided over the core interpreter: C01-C04, C07-C11, C14, C16, C17) was a\n"
           "blind test of the general `walk` slice (section 4), which had been written after round 3 - the earlier figure\n"
           "that `walk` alone reported 28 of the 59 older core seeds was not blind, those seeds having shaped it.  15 of 24\n"
           "were reported at once (seven of them by `walk` alone: C04-g, C07-g, C07-h, C10-g, C10-h, C11-g, C11-h), 9 were\n"
           "MISSED (C02-g, C02-h, C03-g, C03-h, C14-g, C14-h, C16-g, C16-h, C17-g).  Added: NaN / infinite operands of every\n"
           "operator and sessions that define functions under built-in names before calling them (C02); errors raised two or\n"
           "three user-function calls deep, fractional and negative-fractional subscripts (C03); line numbers 0 and\n"
           "18446744073709551615 and programs edited after a run - lines, DATA lines among them, overwritten or deleted before\n"
           "LIST / reload (C14); FOR loops typed at the prompt when stopped at the cap (C16); shaped programs whose warnings\n"
           "come from reads of an outer call's argument (C17).  All 24 are now reported by the quick tier.\n\n"
           "Round 5 (`-g`, `-h` of the other eight properties: C05, C06, C12, C13, C15, C18, C19, C20; blind, told what earlier\n"
           "rounds had tried): 12 of 16 reported at once - two of those (C06-g, C18-h) only as a disagreement between model and\n"
           "implementation with no failing input - and 4 MISSED (C05-g, C15-g, C19-g, C20-h).  Added: definitions x calls of\n"
           "every arity also in the C05 check, and definitions that call THEMSELVES with a wrong argument list (C05, C06);\n"
           "file lines whose statement part is only separators - a spacer, a jump target, a replacement of an earlier line\n"
           "(C15); lines refused for a syntax error inside an RND call, after which the generator must not have moved (C18);\n"
           "NEW followed by further words / in other letter case (C19); a document opened again with a different text, with\n"
           "or without a close in between (C20; new operation `lspo`).  All 16 are now reported with a concrete failing input.\n\n"
           "Round 6 (`-i`, one change per property, blind; the authors were told everything earlier rounds had tried and asked for a\n"
           "change that 'a very thorough differential-testing and proof-based verification effort could still overlook': rarely\n"
           "generated inputs, interactions of two features, state surviving from an earlier operation, representation\n"
           "boundaries, paths reached only after an error).  This was the hardest round: 3 of 20 reported at once with a failing\n"
           "input (C02-i, C07-i, C12-i), 2 only weakly (C13-i because the extractor could not read the reshaped keyword table,\n"
           "C17-i as a model disagreement), 15 MISSED.  What the misses had in common - and what was added, as families again:\n"
           "two faults at one statement, where the ORDER of the checks decides the error kind (re-DIM of an existing array with\n"
           "more than 10000 cells: C03); blanks that are not BASIC blanks in front of a line number (C04); line numbers that\n"
           "differ by a power of two within one file (C05); every statement that takes a variable with every shape of target,\n"
           "e.g. `FOR A(1) = ..` (C06); statements JUXTAPOSED without a colon - `X = X + 1 INPUT Y` is a legal line of this\n"
           "dialect and none of the generators wrote one (C08); a prompt PRINT in front of an INPUT whose reply is refused,\n"
           "with the rule that a call reporting ?REENTER prints nothing (C09); INPUT with a target list, answered short and\n"
           "abandoned, in RUN histories (C10); edits that change nothing observable - a remark for a remark, the same text again\n"
           "(C11); not-a-number and infinities (from `(0-1)^.5`, `9^999`, replies and DATA items spelled `nan` / `inf`) in every\n"
           "position of FOR, DIM, subscripts, jumps (C01); typographic quotes and other look-alike spellings around text with\n"
           "a straight quote (C14); no-break and full-width blanks inside strings, remarks and DATA of loaded files (C15); a\n"
           "FOR typed at a BREAKPOINT prompt for a variable whose loop is open, up to 34 times (C16); re-seeding in the middle\n"
           "of a session, with 0 and with the current state (C18); replies with an unclosed quote and trailing blanks on the\n"
           "page (C19); every handshake a client may open with, incl. one that offers UTF-8 positions (C20); blank runs of\n"
           "254..300 bytes inside every multi-character token (C13); the trace oracle extended to the CONT command (C17).\n"
           "All 20 are now reported, 19 with a concrete failing input.  One of the new families exposed a bug of the harness\n"
           "itself (an index out of range in a case label), which ended the slice with a misattributed 'implementation died';\n"
           "`VERIF_LOUD_PANICS=1` now shows such panics.\n\n"
           "Mechanical mutants (`tools/mutants.py`, first campaign): all 238 one-token mutants of its operator set over the Rust\n"
           "sources (comparison flips, deleted statements, off-by-one constants) were each run through the existing tests and\n"
           "then through the quick tier in a scratch copy: 8 do not compile, 143 are killed by the existing tests, 57 by a check\n"
           "of this framework, 32 survive.  Survivors were triaged by hand (`python3 tools/mutants.py report` prints them): all but two are equivalent mutants (for\n"
           "instance `trim()` vs `trim_start()` before `is_empty()`, `is_ascii_hexdigit` where a later `parse::<u64>` rejects\n"
           "the same strings, iteration order over a loop stack that holds one entry per variable - an invariant proved in\n"
           "`C16.store_ok_reachable`) or lie outside the twenty properties (terminal detection, the static-warning line number\n"
           "the CLI prints, LSP capability flags).  Two were real misses: `step_value >= 0.0` -> `> 0.0` in NEXT (no generator\n"
           "produced STEP 0; a zero-step family - `STEP 0`, `STEP -0`, `STEP 0 * Z` - was added to the reference-interpreter\n"
           "generator), and the deleted `discard_remaining_tokens()` at a colon in the false-branch scan of IF (no generator put\n"
           "further statements after an IF on the same line, so a later `IF .. ELSE` whose ELSE the scan would wrongly pick up\n"
           "never occurred; the generator now does).  C03 reports both with a concrete program.\n\n"
           "The lesson kept from six rounds: misses were always generator reach, so every miss was answered with a\n"
           "*family* of inputs (a dimension of the input space), and the evidence file prints the distribution of families.\n\n"
           "| seed | needs, in order to manifest | result |\n|---|---|---|\n")
for d in sorted(glob.glob(os.path.join(V, "seeded", "*"))):
    m = json.load(open(os.path.join(d, "meta.json")))
    out.append("| %s | %s | %s |\n" % (os.path.basename(d), m["needs_to_manifest"].replace("|", "/"), m["check_result"].replace("|", "/")))
out.append(open(os.path.join(V, "DESIGN.tail.md")).read())
open(os.path.join(V, "DESIGN.md"), "w").write("".join(out))
print("DESIGN.md written (%d bytes)" % sum(len(x) for x in out))
