#!/usr/bin/env python3
"""Assemble DESIGN.md = DESIGN.head.md + section 5 (from tools/props.py) + section 6 (from seeded/*/meta.json) + DESIGN.tail.md"""
import glob, json, os, sys
HERE = os.path.dirname(os.path.abspath(__file__))
sys.path.insert(0, HERE)
from props import PROPS
V = os.path.join(HERE, "..")
titles = {json.loads(l)["id"]: json.loads(l)["title"] for l in open(os.path.join(V, "properties.jsonl")) if l.strip()}
out = [open(os.path.join(V, "DESIGN.head.md")).read()]
out.append("---------------------------------------------------------------------------\n\n## 5. Per-property status\n\n"
           "Generated from `tools/props.py` (the same data drives `./check`, MANIFEST.json and the evidence files).\n"
           "\"Open\" = part of the property's full statement that is not yet a kernel-checked theorem; for that part the\n"
           "check rests on the correspondence slice and the implementation oracle only.\n")
for pid in sorted(PROPS):
    c = PROPS[pid]
    out.append("\n### %s — %s\n" % (pid, titles.get(pid, "")))
    out.append("*Proved* (`Abasic/Props/%s.lean`): %s.  \nTheorems: %s.\n" % (pid, c["what"], ", ".join("`%s`" % t for t in c["theorems"])))
    if c.get("open"):
        out.append("*Open:* " + "; ".join(c["open"]) + ".\n")
    else:
        out.append("*Open:* nothing listed.\n")
    out.append("*Correspondence slice(s):* %s.  *Note:* %s\n" % (", ".join("`%s`" % s for s in c["slices"]), c["level_note"]))
out.append("\nNot applicable: none — every property has a logic core that M expresses; where part of the truth lives in the\n"
           "runtime (native stack bytes, process I/O, wasm, JSON-RPC) the MANIFEST `level_note` names the part that is only exercised.\n")
out.append("\n---------------------------------------------------------------------------\n\n## 6. Seeded changes: which check catches which\n\n"
           "Forty changes (two per property) were written by fresh sub-agents that saw only the property text and a scratch\n"
           "worktree; each compiles, passes the 153 existing tests, and comes with a demonstration that fails with the change\n"
           "and passes without it (confirmed here with `tools/confirm_seed.sh`).  They are kept under `seeded/<id>-<a|b>/`\n"
           "(`patch.diff`, demo, `meta.json`) and were run with `tools/try_seed.sh` (apply to /repo, `./check`, undo).\n"
           "Where a change was missed at first, the check was strengthened (generator or oracle), never special-cased;\n"
           "all forty are now reported, thirty-eight with a concrete failing input and the rest as noted.\n\n"
           "| seed | needs, in order to manifest | result |\n|---|---|---|\n")
for d in sorted(glob.glob(os.path.join(V, "seeded", "*"))):
    m = json.load(open(os.path.join(d, "meta.json")))
    out.append("| %s | %s | %s |\n" % (os.path.basename(d), m["needs_to_manifest"].replace("|", "/"), m["check_result"].replace("|", "/")))
out.append(open(os.path.join(V, "DESIGN.tail.md")).read())
open(os.path.join(V, "DESIGN.md"), "w").write("".join(out))
print("DESIGN.md written (%d bytes)" % sum(len(x) for x in out))
