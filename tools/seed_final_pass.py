import subprocess, json, os, re, sys
first = {}  # blind result
blind_once = {"C01","C04","C05","C06","C07","C13","C16","C18","C19"}
blind_weak = {"C03","C08","C10","C12"}
os.chdir('/verif')
for i in range(1, 21):
    p = "C%02d" % i
    src = "/tmp/seed10-%s-out/a" % p
    subprocess.run(["git","-C","/repo","apply",src+"/patch.diff"],check=True)
    r = subprocess.run(["./check",p,"quick"],capture_output=True,text=True)
    subprocess.run(["git","-C","/repo","checkout","--","."],check=True)
    out = r.stdout + r.stderr
    v = [l for l in out.split('\n') if l.startswith('VIOLATION')]
    if not v:
        print(p, "NOT DETECTED"); continue
    weak = 'no-failing-input-found' in v[0]
    rp = re.search(r'replay=(\S+)', v[0]).group(1)
    try:
        d = json.load(open(rp)); detail = d.get('detail','')[:420]; show = d.get('show','')[:200]
    except Exception as e:
        detail = ''; show = ''
    kind = "DETECTED (no failing input found; broken correspondence named in the replay)" if weak else "DETECTED (concrete failing input)"
    res = "%s: %s || case: %s" % (kind, detail, show)
    if p in blind_once:
        res += " || detected at once by the checks as they were when this change was written (round 10, blind)"
    elif p in blind_weak:
        res += " || WEAKLY detected (model/implementation disagreement, no failing input) by the checks as they were when this change was written (round 10, blind); a concrete failing input after the generators / oracles were strengthened (see DESIGN.md section 6)"
    else:
        res += " || MISSED by the checks as they were when this change was written (round 10, blind, asked for changes a thorough differential / proof effort could still overlook); detected after the generators were strengthened (see DESIGN.md section 6)"
    readme = open(src+"/README.md").read() if os.path.exists(src+"/README.md") else ""
    needs = " ".join(readme.split())[:600]
    subprocess.run(["tools/keep_seed.sh", p, "m", src, needs, "tools/confirm_seed.sh: patch applies, 153 tests pass, hooks build, demo fails with patch / passes without", res], check=True)
    print(p, "weak" if weak else "ok", detail[:150])
