#!/usr/bin/env python3
"""Regenerate lean/Abasic/Extracted.lean from /repo's current Rust source.

Only tables and constants are extracted (see DESIGN.md 3.4).  The model USES
them, so a changed keyword, spelling, constant or table row changes the model
and re-opens every lemma that depends on a table fact.

Exit status 0 and the file (re)written only if its content changed.
Exit status 3 if a table cannot be found (the code was reshaped): that is a
broken correspondence and handled as such by ./check.
"""
import json
import os
import re
import sys

sys.path.insert(0, os.path.dirname(os.path.abspath(__file__)))
from rustlex import (LexError, all_fns, close_of, find_all, find_match, find_seq, impl_body, is_id, is_p, item_body, lex, match_arms,
                     split_top, strip_attrs, text_of)

REPO = os.environ.get("VERIF_REPO", "/repo")
OUT = os.path.join(os.path.dirname(os.path.abspath(__file__)), "..", "lean", "Abasic", "Extracted.lean")


class Missing(Exception):
    pass


def read(rel):
    with open(os.path.join(REPO, rel), encoding="utf-8") as f:
        return f.read()


_LEXED = {}


def toks_of(rel):
    if rel not in _LEXED:
        try:
            _LEXED[rel] = lex(read(rel))
        except (LexError, OSError, ValueError) as e:
            raise Missing("%s: cannot be read as Rust tokens (%s)" % (rel, e))
    return _LEXED[rel]


def need(m, what):
    if not m:
        raise Missing(what)
    return m


def lean_str(s):
    return '"' + s.replace("\\", "\\\\").replace('"', '\\"') + '"'


def lean_char(c):
    if c == "'":
        return "'\\''"
    if c == "\\":
        return "'\\\\'"
    return "'" + c + "'"


def const_expr(rel, name):
    """value of `const NAME: ty = <integer expression>;` (literals with _ and type suffixes, + - * << >> and brackets, u64::pow)"""
    toks = toks_of(rel)
    i = find_seq(toks, ["const", name, ":"])
    if i < 0:
        i = find_seq(toks, ["static", name, ":"])
    if i < 0:
        raise Missing("%s: const %s" % (rel, name))
    j = find_seq(toks, ["="], i)
    k = find_seq(toks, [";"], j)
    need(j > 0 and k > j, "%s: const %s" % (rel, name))
    parts = []
    for kind, t in toks[j + 1:k]:
        if kind == "num":
            mm = re.fullmatch(r"(0x[0-9a-fA-F_]+|0b[01_]+|0o[0-7_]+|[0-9][0-9_]*)(?:[ui](?:8|16|32|64|128|size))?", t)
            if not mm:
                raise Missing("%s: const %s (unsupported literal %s)" % (rel, name, t))
            parts.append(str(int(mm.group(1).replace("_", ""), 0)))
        elif kind == "punct" and t in ("+", "-", "*", "<<", ">>", "(", ")", "/", "%"):
            parts.append("//" if t == "/" else t)
        elif kind == "id" and t == "as":
            parts.append("#")  # `as u64`: drop the cast and its type
        elif kind == "id" and parts and parts[-1] == "#":
            parts.pop()
        else:
            raise Missing("%s: const %s (unsupported constant expression: %s)" % (rel, name, text_of(toks[j + 1:k])))
    try:
        return int(eval(" ".join(parts)))
    except Exception:
        raise Missing("%s: const %s (cannot evaluate %s)" % (rel, name, " ".join(parts)))


def fn_body(toks, name, what, start=0, end=None):
    r = item_body(toks if end is None else toks[:end], "fn", name, start)
    if r is None:
        raise Missing(what + ": fn " + name)
    return r


def write_literal(body):
    """the format string of `write!(f, "..." [, args])` / `f.write_str("...")` in an arm body, with its argument tokens"""
    i = find_seq(body, ["write", "!", "("])
    if i >= 0:
        j = close_of(body, i + 2)
        args = split_top(body[i + 3:j])
        if len(args) >= 2 and len(args[1]) == 1 and args[1][0][0] == "str":
            return args[1][0][1], args[2:]
        return None
    i = find_seq(body, ["write_str", "("])
    if i >= 0:
        j = close_of(body, i + 1)
        inner = body[i + 2:j]
        if len(inner) == 1 and inner[0][0] == "str":
            return inner[0][1], []
    return None


def variant_of(pat, enum):
    """pattern `[&]Enum::Variant[(binder)]` -> (Variant, binder or None); None for anything else"""
    pat = [t for t in pat if not is_p(t, "&")]
    if len(pat) >= 3 and is_id(pat[0], enum) and is_p(pat[1], "::") and pat[2][0] == "id":
        if len(pat) == 3:
            return pat[2][1], None
        if is_p(pat[3], "(") and close_of(pat, 3) == len(pat) - 1:
            return pat[2][1], text_of(pat[4:-1])
    return None


def display_arms(rel, ty, what):
    """{Variant: (format string, [argument texts with the binder replaced by $0])} of `impl Display for ty`"""
    toks = toks_of(rel)
    out = {}
    for (o, c) in impl_body(toks, "Display", ty):
        fo, fc = fn_body(toks, "fmt", what, o, c + 1)
        for mi in find_all(toks, ["match"], fo, fc):
            brace = find_seq(toks, ["{"], mi, fc)
            if brace < 0:
                continue
            for pat, body in match_arms(toks, brace):
                v = variant_of(pat, ty)
                if not v:
                    continue
                lit = write_literal(body)
                if lit is None:
                    continue
                args = []
                for a in lit[1]:
                    t = text_of(a)
                    if v[1] and re.fullmatch(r"\w+", v[1]):
                        t = re.sub(r"\b%s\b" % re.escape(v[1]), "$0", t)
                    args.append(t)
                fmt = lit[0]
                if v[1] and re.fullmatch(r"\w+", v[1]):
                    fmt = fmt.replace("{%s}" % v[1], "{$0}")
                out[v[0]] = (fmt, args)
    if not out:
        raise Missing(what)
    return out



T = {}        # table name -> extracted value
FAILED = {}   # table name -> reason

# which properties rest on which table (the model driver uses all of them; the
# list says whose statements or oracles mention what the table defines)
ALL = ["C%02d" % i for i in range(1, 21)]
DEPS = {
    "token.enum": ALL, "token.display": ALL, "token.keywords": ALL, "token.chars": ALL, "token.order": ["C12", "C13", "C14"],
    "tokentype": ["C05", "C20"],
    "lsp": ["C20"],
    "builtins": ["C01", "C02", "C03", "C06", "C07", "C09", "C16", "C17", "C18"],
    "consts.program": ["C01", "C03", "C05", "C06", "C07", "C08", "C10", "C11", "C16", "C20"],
    "consts.arrays": ["C01", "C03", "C06", "C10", "C16"],
    "consts.random": ["C03", "C10", "C18", "C19"],
    "commands": ["C01", "C04", "C07", "C10", "C11", "C14", "C15", "C17", "C19"],
    "messages": ["C01", "C05", "C15", "C19", "C20"],
    "walkers": ["C02", "C05", "C06"],
    "dispatch": ["C03", "C05", "C06", "C09"],
}


def table(name):
    def deco(fn):
        try:
            T[name] = fn()
        except Missing as e:
            FAILED[name] = str(e)
        except (LexError, IndexError, KeyError, ValueError, AssertionError) as e:
            FAILED[name] = "%s: %r" % (type(e).__name__, e)
        return fn
    return deco


TOK = "abasic-core/src/tokenizer.rs"


@table("token.enum")
def _():
    toks = toks_of(TOK)
    r = need(item_body(toks, "enum", "Token"), "enum Token")
    variants, payload = [], {}
    for part in split_top(toks[r[0] + 1:r[1]]):
        part = strip_attrs(part)
        if not part:
            continue
        need(part[0][0] == "id", "enum Token variant: " + text_of(part))
        if len(part) == 1:
            variants.append(part[0][1])
        elif is_p(part[1], "(") and close_of(part, 1) == len(part) - 1:
            payload[part[0][1]] = text_of(part[2:-1])
        else:
            raise Missing("enum Token variant: " + text_of(part))
    expected_payload = {"Remark": "Rc<String>", "Symbol": "Symbol", "StringLiteral": "Rc<String>", "NumericLiteral": "f64",
                        "Data": "Rc<Vec<DataElement>>"}
    if payload != expected_payload:
        raise Missing("payload-carrying Token variants changed: %r" % payload)
    return variants, payload


@table("token.display")
def _():
    variants, _p = need(T.get("token.enum"), "enum Token")
    arms = display_arms(TOK, "Token", "Display for Token")
    disp = {}
    for v in variants:
        a = need(arms.get(v), "Display arm for Token::" + v)
        if a[1]:
            raise Missing("Display arm for Token::%s takes arguments" % v)
        disp[v] = a[0]
    exp = {"Remark": ("REM{}", ["$0"]), "Symbol": ("{}", ["$0"]), "StringLiteral": ('"{}"', ["$0"]), "NumericLiteral": ("{}", ["$0"]),
           "Data": ("DATA {}", ["data_elements_to_string($0)"])}
    # the inline form `{name}` is the same thing as `{}` with the binder as argument
    got = {}
    for k in exp:
        a = arms.get(k)
        if a and not a[1] and "{$0}" in a[0]:
            a = (a[0].replace("{$0}", "{}"), ["$0"])
        got[k] = a
    if got != exp:
        raise Missing("Display arms of payload tokens changed: %r" % got)
    return disp


def keyword_sites(toks):
    """(matcher method name, chain fn (name, o, c)) of the keyword chain, found by shape: the function with at least five
    `self.M("KEYWORD") { Some(Token::V) }` sites, or with one `M(` call next to a table of ("KEYWORD", Token::V) pairs"""
    best = None
    for name, o, c in all_fns(toks):
        hits = {}
        for i in find_all(toks, ["self", ".", ("id", None), "(", ("str", None), ")", "{"], o, c):
            hits.setdefault(toks[i + 2][1], []).append(i)
        for m, sites in hits.items():
            if len(sites) >= 5 and (best is None or len(sites) > len(best[2])):
                best = (m, (name, o, c), sites)
    return best


@table("token.keywords")
def _():
    toks = toks_of(TOK)
    best = keyword_sites(toks)
    kws = []
    if best:
        m, (fname, o, c), sites = best
        for i in sites:
            kw = toks[i + 4][1]
            blk = toks[i + 7:close_of(toks, i + 6)]
            k = find_seq(blk, ["Token", "::", ("id", None)])
            need(k >= 0 and len(find_all(blk, ["Token", "::"])) == 1, "keyword chain: result of %r" % kw)
            kws.append((kw, blk[k + 2][1]))
        if len(kws) != len(find_all(toks, [m, "("], o, c)):
            raise Missing("keyword chain: a call of %s that is not of the form %s(\"KEYWORD\") { Some(Token::V) }" % (m, m))
    else:
        # table-driven form: one array literal of ("KEYWORD", Token::Variant) pairs, tried in order
        tables = []
        for i in find_all(toks, ["[", "(", ("str", None), ",", "Token", "::"]):
            parts = split_top(toks[i + 1:close_of(toks, i)])
            if parts and all(len(q) == 7 and is_p(q[0], "(") and q[1][0] == "str" and is_p(q[2], ",") and is_id(q[3], "Token") and q[5][0] == "id" and is_p(q[6], ")") for q in parts):
                tables.append((i, [(q[1][1], q[5][1]) for q in parts]))
        need(len(tables) == 1, "keyword chain (neither an if-chain nor one keyword table)")
        kws = tables[0][1]
        # the matcher is the method called with a non-literal argument in the function that walks the table
        m, fname = None, None
        for name, o, c in all_fns(toks):
            if o < tables[0][0] < c or find_seq(toks, ["KEYWORDS"], o, c) >= 0:
                for i in find_all(toks, ["self", ".", ("id", None), "(", ("id", None), ")"], o, c):
                    m, fname = toks[i + 2][1], name
        need(m, "keyword chain: matcher call next to the keyword table")
    if len(kws) < 5:
        raise Missing("keyword chain")

    # REM and DATA: the other functions that call the same matcher with one literal, told apart by the token they build
    special = {}
    for name, o, c in all_fns(toks):
        if name == fname:
            continue
        hits = find_all(toks, [m, "(", ("str", None), ")"], o, c)
        if len(hits) == 1:
            for variant in ("Remark", "Data"):
                if find_seq(toks, ["Token", "::", variant], o, c) >= 0:
                    need(variant not in special, "keyword of the %s matcher (two candidates)" % variant)
                    special[variant] = (toks[hits[0] + 2][1], name)
    need("Remark" in special and "Data" in special, "REM / DATA keyword")
    T["_fn.keywords"], T["_fn.remark"], T["_fn.data"] = fname, special["Remark"][1], special["Data"][1]
    return kws, special["Remark"][0], special["Data"][0]


@table("token.chars")
def _():
    toks = toks_of(TOK)
    # by shape: the function holding a match with at least five `b'c' => Token::V` arms
    site = None
    for name, o, c in all_fns(toks):
        for mi in find_all(toks, ["match"], o, c):
            brace = find_seq(toks, ["{"], mi, c)
            if brace < 0:
                continue
            arms = match_arms(toks, brace)
            n = sum(1 for pat, body in arms if len(pat) == 1 and pat[0][0] == "byte" and len(body) == 3 and is_id(body[0], "Token"))
            if n >= 5:
                need(site is None, "one-character table (two candidates)")
                site = (name, o, c, arms)
    need(site, "one-character table")
    name, o, c, arms = site
    one = []
    for pat, body in arms:
        if len(pat) == 1 and pat[0][0] == "byte":
            need(len(body) == 3 and is_id(body[0], "Token") and body[2][0] == "id", "one-character arm " + text_of(pat + body))
            one.append((pat[0][1], body[2][1]))
        elif not (len(pat) == 1 and is_id(pat[0], "_")):
            raise Missing("one-character table: arm " + text_of(pat))
    two = []
    for i in find_all(toks, [("id", None), "==", "Token", "::", ("id", None), "{"], o, c):
        first = toks[i + 4][1]
        bo, bc = i + 5, close_of(toks, i + 5)
        for j in find_all(toks, [("id", None), "==", ("byte", None), "{"], bo, bc):
            blk = toks[j + 4:close_of(toks, j + 3)]
            k = find_seq(blk, ["Token", "::", ("id", None)])
            need(k >= 0, "two-character operator after " + first)
            two.append((first, toks[j + 2][1], blk[k + 2][1]))
    if sorted(two) != sorted([("LessThan", ">", "NotEquals"), ("LessThan", "=", "LessThanOrEqualTo"), ("GreaterThan", "=", "GreaterThanOrEqualTo")]):
        raise Missing("two-character operator table changed: %r" % two)
    T["_fn.chars"] = name
    return one, two


@table("token.order")
def _():
    """the main loop tries: keywords, one/two-character operators, string, number, REM, DATA, symbol - in this order"""
    toks = toks_of(TOK)
    roles = {}
    for r in ("keywords", "chars", "remark", "data"):
        roles[need(T.get("_fn." + r), "matcher order: the %s matcher was not identified" % r)] = r
    names = {n: (o, c) for n, o, c in all_fns(toks)}
    main = None
    for n, (o, c) in names.items():
        called = [toks[i + 2][1] for i in find_all(toks, ["self", ".", ("id", None), "(", ")"], o, c)]
        if all(k in called for k in roles):
            main = (n, [k for k in called if k in names and k != n])
    need(main, "matcher order: the function that tries the matchers in turn")
    order = []
    for k in main[1]:
        if k in roles:
            order.append(roles[k])
        else:
            o, c = names[k]
            if find_seq(toks, [("byte", '"')], o, c) >= 0:
                order.append("string")
            elif find_seq(toks, ["parse"], o, c) >= 0:
                order.append("number")
            else:
                order.append("other:" + k)
    want = ["keywords", "chars", "string", "number", "remark", "data"]
    if order[:6] != want or len(order) != 7 or not order[6].startswith("other:"):
        raise Missing("matcher order of the tokenizer's main loop changed: %r" % order)
    return order


@table("tokentype")
def _():
    rel = "abasic-core/src/analyzer/token_type.rs"
    toks = toks_of(rel)
    r = need(item_body(toks, "enum", "TokenType"), "enum TokenType")
    ttypes = []
    for part in split_top(toks[r[0] + 1:r[1]]):
        part = strip_attrs(part)
        if part:
            need(len(part) == 1 and part[0][0] == "id", "enum TokenType variant " + text_of(part))
            ttypes.append(part[0][1])
    cls = {}
    for (o, c) in impl_body(toks, "From", "TokenType"):
        for mi in find_all(toks, ["match"], o, c):
            brace = find_seq(toks, ["{"], mi, c)
            for pat, body in match_arms(toks, brace):
                if len(body) == 3 and is_id(body[0], "TokenType") and is_p(body[1], "::"):
                    # or-patterns: every alternative gets the class
                    for alt in split_top(pat, "|"):
                        v = variant_of(alt, "Token")
                        need(v, "TokenType arm " + text_of(pat))
                        cls[v[0]] = body[2][1]
    variants, payload = need(T.get("token.enum"), "enum Token")
    for v in variants + list(payload):
        if v not in cls:
            raise Missing("TokenType arm for Token::" + v)
    return ttypes, cls


@table("lsp")
def _():
    rel = "abasic-lsp/src/main.rs"
    toks = toks_of(rel)
    # the legend is the one array literal (const, static or vec!) whose elements are all `SemanticTokenType::X`
    legends = []
    for i in find_all(toks, ["[", "SemanticTokenType", "::"]):
        parts = split_top(toks[i + 1:close_of(toks, i)])
        if parts and all(len(p) == 3 and is_id(p[0], "SemanticTokenType") and is_p(p[1], "::") and p[2][0] == "id" for p in parts):
            legends.append([p[2][1] for p in parts])
    need(len(legends) == 1, "LSP legend (array of SemanticTokenType::X)")
    legend = legends[0]
    # by shape: the one match whose arms are all `TokenType::X => <number>`
    found = []
    for mi in find_all(toks, ["match"]):
        brace = find_seq(toks, ["{"], mi, min(len(toks), mi + 12))
        if brace < 0:
            continue
        arms = match_arms(toks, brace)
        idx, ok = {}, bool(arms)
        for pat, body in arms:
            for alt in split_top(pat, "|"):
                v = variant_of(alt, "TokenType")
                if not (v and len(body) == 1 and body[0][0] == "num"):
                    ok = False
                    break
                idx[v[0]] = int(re.match(r"\d+", body[0][1]).group(0))
        if ok:
            found.append(idx)
    need(len(found) == 1, "LSP index map (match from TokenType to legend index)")
    lspidx = found[0]
    ttypes, _c = need(T.get("tokentype"), "enum TokenType")
    for t in ttypes:
        if t not in lspidx:
            raise Missing("LSP index for TokenType::" + t)
    return legend, lspidx


@table("builtins")
def _():
    rel = "abasic-core/src/builtins.rs"
    toks = toks_of(rel)
    builtins = []
    for i in find_all(toks, [("str", None), "=>"]):
        j = i + 2
        if is_id(toks[j], "Some") and is_p(toks[j + 1], "("):
            j += 2
        if is_id(toks[j], "Builtin") and is_p(toks[j + 1], "::"):
            builtins.append((toks[i][1], toks[j + 2][1]))
    if sorted(b for _, b in builtins) != ["Abs", "Int", "Rnd"]:
        raise Missing("builtin table changed: %r" % builtins)
    return builtins


@table("consts.program")
def _():
    return {"stackLimit": const_expr("abasic-core/src/program.rs", "STACK_LIMIT"), "nestingLimit": const_expr("abasic-core/src/program.rs", "NESTING_LIMIT")}


@table("consts.arrays")
def _():
    return {"maxDimTotalElements": const_expr("abasic-core/src/arrays.rs", "MAX_DIM_TOTAL_ELEMENTS"),
            "defaultArraySize": const_expr("abasic-core/src/arrays.rs", "DEFAULT_ARRAY_SIZE")}


@table("consts.random")
def _():
    return {"rngModulus": const_expr("abasic-core/src/random.rs", "MODULUS"), "rngMultiplier": const_expr("abasic-core/src/random.rs", "MULTIPLIER"),
            "rngIncrement": const_expr("abasic-core/src/random.rs", "INCREMENT")}


@table("commands")
def _():
    rel = "abasic-core/src/interpreter.rs"
    toks = toks_of(rel)
    # by shape: the match with string-literal arms that include "RUN"
    site = None
    for mi in find_all(toks, ["match"]):
        brace = -1
        for k in range(mi + 1, min(len(toks), mi + 30)):
            if is_p(toks[k], "{"):
                brace = k
                break
            if is_p(toks[k], ";"):
                break
        if brace < 0:
            continue
        arms = match_arms(toks, brace)
        lits = [alt[0][1] for pat, _b in arms for alt in split_top(pat, "|") if len(alt) == 1 and alt[0][0] == "str"]
        if "RUN" in lits:
            need(site is None, "command table (two candidates)")
            site = (mi, brace, arms)
    need(site, "command table")
    mi, brace, arms = site
    scrut = text_of(toks[mi + 1:brace])
    if "to_ascii_uppercase" not in scrut and "to_uppercase" not in scrut:
        # the upper-casing may happen in a `let` just before
        back = text_of(toks[max(0, mi - 60):mi])
        if "to_ascii_uppercase" not in back and "to_uppercase" not in back:
            raise Missing("command table: the word is no longer upper-cased before the match (%s)" % scrut)
    commands = []
    for pat, _b in arms:
        for alt in split_top(pat, "|"):
            if len(alt) == 1 and alt[0][0] == "str":
                commands.append(alt[0][1])
            elif not (len(alt) == 1 and is_id(alt[0], "_")):
                raise Missing("command table: arm " + text_of(pat))
    if sorted(commands) != sorted(["RUN", "LIST", "NEW", "CONT", "TRACE", "NOTRACE", "INTERNALS", "STATS"]):
        raise Missing("command table changed: %r" % commands)
    return commands


ERRNAMES = ["TypeMismatch", "DataTypeMismatch", "UndefinedStatement", "OutOfMemory", "OutOfData", "ReturnWithoutGosub",
            "NextWithoutFor", "BadSubscript", "IllegalQuantity", "Unimplemented", "DivisionByZero", "RedimensionedArray",
            "CannotContinue", "IllegalDirect"]


@table("messages")
def _():
    ie = "abasic-core/src/interpreter_error.rs"
    se = "abasic-core/src/syntax_error.rs"
    # TracedInterpreterError's Display matches on InterpreterError variants
    toks = toks_of(ie)
    errdisp = {}
    for (o, c) in impl_body(toks, "Display", "TracedInterpreterError") + impl_body(toks, "Display", "InterpreterError"):
        for mi in find_all(toks, ["match"], o, c):
            brace = find_seq(toks, ["{"], mi, c)
            for pat, body in match_arms(toks, brace):
                v = variant_of(pat, "InterpreterError")
                lit = write_literal(body)
                if v and lit is not None:
                    fmt = lit[0]
                    if v[1] and lit[1] and [text_of(a) for a in lit[1]] == [v[1]]:
                        fmt = fmt.replace("{}", "{%s}" % v[1], 1)
                    errdisp[v[0]] = fmt
    oom = dict((k, v[0]) for k, v in display_arms(ie, "OutOfMemoryError", "Display for OutOfMemoryError").items())
    tokerr = dict((k, v[0]) for k, v in display_arms(se, "TokenizationError", "Display for TokenizationError").items())
    synerr = dict((k, v[0].replace("{$0}", "{tok}")) for k, v in display_arms(se, "SyntaxError", "Display for SyntaxError").items())
    for e in ERRNAMES:
        if e not in errdisp:
            raise Missing("Display arm for InterpreterError::" + e)
    for e in ["StackOverflow", "ArrayTooLarge"]:
        if e not in oom:
            raise Missing("Display arm for OutOfMemoryError::" + e)
    for e in ["IllegalCharacter", "UnterminatedStringLiteral", "InvalidNumber"]:
        if e not in tokerr:
            raise Missing("Display arm for TokenizationError::" + e)
    for e in ["UnexpectedToken", "ExpectedToken", "UnexpectedEndOfInput"]:
        if e not in synerr:
            raise Missing("Display arm for SyntaxError::" + e)
    return errdisp, oom, tokerr, synerr


def from_token_tables():
    """{(Type, fn name): [Token variants mapped to Some(..)]} for every `fn(token: Token) -> Option<Self>`-shaped match in operators.rs"""
    rel = "abasic-core/src/operators.rs"
    toks = toks_of(rel)
    out = {}
    for i in find_all(toks, ["impl", ("id", None), "{"]):
        name = toks[i + 1][1]
        o, c = i + 2, close_of(toks, i + 2)
        for fname, fo, fc in all_fns(toks, o, c):
            mi = find_seq(toks, ["match"], fo, fc)
            if mi < 0:
                continue
            brace = find_seq(toks, ["{"], mi, fc)
            heads, ok = [], True
            for pat, body in match_arms(toks, brace):
                if find_seq(body, ["Some", "("]) == 0:
                    for alt in split_top(pat, "|"):
                        v = variant_of(alt, "Token")
                        if not v:
                            ok = False
                            break
                        heads.append(v[0])
            if ok and heads:
                out[(name, fname)] = heads
    return out


def program_call(toks, i):
    """is the method name at index i called on `self.program` / `self.program()`?  returns the index of `self` or -1"""
    j = i - 1
    if j < 0 or not is_p(toks[j], "."):
        return -1
    j -= 1
    if j >= 1 and is_p(toks[j], ")") and is_p(toks[j - 1], "("):
        j -= 2
    if j >= 2 and is_id(toks[j], "program") and is_p(toks[j - 1], ".") and is_id(toks[j - 2], "self"):
        return j - 2
    return -1


def walker(rel, from_token):
    """the precedence chain of a recursive-descent walker, found by SHAPE (function names do not matter): a tier is a
    function with a `while ... accept_next_token(Token::X)` or `while let Some(_) = ... try_next_token(T::f)` loop; the
    unary level takes one optional operator with `let _ = ... try_next_token(T::f)`; each tier calls the next one"""
    toks = toks_of(rel)
    fns = all_fns(toks)
    tier, unary = {}, {}
    for name, o, c in fns:
        for i in find_all(toks, ["accept_next_token", "(", "Token", "::", ("id", None), ")"], o, c):
            s = program_call(toks, i)
            if s >= 1 and is_id(toks[s - 1], "while"):
                tier[name] = [toks[i + 4][1]]
        for i in find_all(toks, ["try_next_token", "(", ("id", None), "::", ("id", None), ")"], o, c):
            s = program_call(toks, i)
            if s < 0:
                continue
            key = (toks[i + 2][1], toks[i + 4][1])
            before = text_of(toks[max(o, s - 7):s])
            if re.search(r"while let Some\(\w+\)=$", before):
                tier[name] = need(from_token.get(key), "operators.rs: %s::%s" % key)
            elif re.search(r"let (mut )?\w+(:[^=]+)?=$", before) or re.search(r"(if|match) (let Some\(\w+\)=)?$", before):
                unary[name] = need(from_token.get(key), "operators.rs: %s::%s" % key)
    need(tier and len(unary) == 1, rel + ": precedence tiers (found %d loops, %d unary levels)" % (len(tier), len(unary)))
    levels = set(tier) | set(unary)
    operand = {}
    for name, o, c in fns:
        if name in tier:
            called = {toks[i + 2][1] for i in find_all(toks, ["self", ".", ("id", None), "("], o, c)} & (levels - {name})
            need(len(called) == 1, rel + ": operand level of " + name)
            operand[name] = called.pop()
    entries = [n for n in tier if n not in operand.values()]
    need(len(entries) == 1, rel + ": outermost precedence tier")
    chain, cur = [], entries[0]
    for _ in range(len(tier) + 1):
        if cur in unary:
            return chain, unary[cur]
        chain.append(need(tier.get(cur), rel + ": tier " + cur))
        cur = operand[cur]
    raise Missing(rel + ": precedence chain does not end in the unary level")


@table("walkers")
def _():
    ft = from_token_tables()
    need(ft, "operators.rs: operator tables")
    return walker("abasic-core/src/expression.rs", ft), walker("abasic-core/src/analyzer/expression_analyzer.rs", ft)


def dispatch(rel):
    """the statement dispatcher, by shape: the match on `...next_token()` that has an arm for Some(Token::Dim)"""
    toks = toks_of(rel)
    brace = -1
    for mi in find_all(toks, ["match"]):
        b = -1
        for k in range(mi + 1, min(len(toks), mi + 30)):
            if is_p(toks[k], "{"):
                b = k
                break
            if is_p(toks[k], ";"):
                break
        if b < 0 or "next_token()" not in text_of(toks[mi + 1:b]):
            continue
        if any(find_seq(pat, ["Token", "::", "Dim"]) >= 0 for pat, _b in match_arms(toks, b)):
            need(brace < 0, rel + ": statement dispatch (two candidates)")
            brace = b
    need(brace >= 0, rel + ": statement dispatch")
    heads = []
    for pat, _b in match_arms(toks, brace):
        if pat and is_id(pat[0], "Some"):
            for i in find_all(pat, ["Token", "::", ("id", None)]):
                heads.append(pat[i + 2][1])
    need(heads, rel + ": statement dispatch arms")
    return heads


@table("dispatch")
def _():
    return dispatch("abasic-core/src/statement.rs"), dispatch("abasic-core/src/analyzer/statement_analyzer.rs")


# ----------------------------------------------------------------------------------------------------------------
# emission: the file is a sequence of sections; a section whose tables could not be read keeps its previous text

def kwl(lst):
    return "[%s]" % ", ".join("." + k for k in lst)


def sec_kw():
    variants, _ = T["token.enum"]
    L = ["/-- Payload-free variants of `enum Token` (tokenizer.rs), in declaration order. -/", "inductive Kw where"]
    L += ["  | %s" % v for v in variants]
    L += ["  deriving DecidableEq, Repr, Inhabited", ""]
    return L


def sec_tokentype():
    ttypes, _ = T["tokentype"]
    return ["inductive TokenType where"] + ["  | %s" % t for t in ttypes] + ["  deriving DecidableEq, Repr, Inhabited", ""]


def sec_names():
    variants, _ = T["token.enum"]
    L = ["def allKw : List Kw := [%s]" % ", ".join(".%s" % v for v in variants), "", "/-- Rust variant names (what `{:?}` prints). -/", "def kwName : Kw → String"]
    L += ["  | .%s => %s" % (v, lean_str(v)) for v in variants]
    return L + [""]


def sec_spelling():
    variants, _ = T["token.enum"]
    disp = T["token.display"]
    return ["/-- `impl Display for Token`, payload-free arms. -/", "def kwSpelling : Kw → String"] + ["  | .%s => %s" % (v, lean_str(disp[v])) for v in variants] + [""]


def sec_keywords():
    kws, rem_kw, data_kw = T["token.keywords"]
    return ["/-- `chomp_any_keyword`: (keyword text, token) in match order. -/", "def keywords : List (String × Kw) := [",
            ",\n".join("  (%s, .%s)" % (lean_str(k), v) for k, v in kws), "]", "def remKeyword : String := %s" % lean_str(rem_kw),
            "def dataKeyword : String := %s" % lean_str(data_kw), ""]


def sec_chars():
    one, two = T["token.chars"]
    return ["/-- `chomp_one_or_two_characters`: first-byte table in match order. -/", "def oneChar : List (Char × Kw) := [",
            ",\n".join("  (%s, .%s)" % (lean_char(c), v) for c, v in one), "]", "def twoChar : List (Kw × Char × Kw) := [",
            ",\n".join("  (.%s, %s, .%s)" % (a, lean_char(c), r) for a, c, r in two), "]", ""]


def sec_kwtype():
    variants, _ = T["token.enum"]
    _, cls = T["tokentype"]
    L = ["/-- `From<&Token> for TokenType`. -/", "def kwType : Kw → TokenType"] + ["  | .%s => .%s" % (v, cls[v]) for v in variants]
    L += ["def remarkType : TokenType := .%s" % cls["Remark"], "def symbolType : TokenType := .%s" % cls["Symbol"],
          "def stringType : TokenType := .%s" % cls["StringLiteral"], "def numberType : TokenType := .%s" % cls["NumericLiteral"],
          "def dataType : TokenType := .%s" % cls["Data"], ""]
    return L


def sec_lsp():
    ttypes, _ = T["tokentype"]
    legend, lspidx = T["lsp"]
    return ["/-- abasic-lsp: `abasic_token_type_to_lsp_token_type` and the advertised legend. -/", "def lspIndex : TokenType → Nat"] + \
        ["  | .%s => %d" % (t, lspidx[t]) for t in ttypes] + ["def lspLegend : List String := [%s]" % ", ".join(lean_str(x) for x in legend), ""]


def sec_builtins():
    b = T["builtins"]
    return ["def builtin%s : String := %s" % (n, lean_str([k for k, x in b if x == n][0])) for n in ("Abs", "Int", "Rnd")] + [""]


def sec_consts(name):
    def f():
        return ["def %s : Nat := %d" % (k, v) for k, v in T[name].items()]
    return f


def sec_commands():
    return ["", "def commands : List String := [%s]" % ", ".join(lean_str(c) for c in T["commands"]), ""]


def sec_messages():
    errdisp, oom, tokerr, synerr = T["messages"]
    L = ["def msg%s : String := %s" % (e, lean_str(errdisp[e])) for e in ERRNAMES]
    L += ["def msgStackOverflow : String := %s" % lean_str(oom["StackOverflow"]), "def msgArrayTooLarge : String := %s" % lean_str(oom["ArrayTooLarge"]),
          "def msgIllegalCharacter : String := %s" % lean_str(tokerr["IllegalCharacter"]),
          "def msgUnterminatedString : String := %s" % lean_str(tokerr["UnterminatedStringLiteral"]),
          "def msgInvalidNumber : String := %s" % lean_str(tokerr["InvalidNumber"]), "def msgUnexpectedToken : String := %s" % lean_str(synerr["UnexpectedToken"]),
          "def msgExpectedToken : String := %s" % lean_str(synerr["ExpectedToken"]),
          "def msgUnexpectedEndOfInput : String := %s" % lean_str(synerr["UnexpectedEndOfInput"]), ""]
    return L


def sec_walkers():
    (ev_chain, ev_unary), (an_chain, an_unary) = T["walkers"]
    return ["/-- expression.rs: the binary tiers from `evaluate_expression` inwards (operator tokens each loop accepts), then the unary tier. -/",
            "def evalChain : List (List Kw) := [%s]" % ", ".join(kwl(t) for t in ev_chain), "def evalUnary : List Kw := %s" % kwl(ev_unary),
            "/-- analyzer/expression_analyzer.rs: the same structure of the analyzer's fork. -/",
            "def anaChain : List (List Kw) := [%s]" % ", ".join(kwl(t) for t in an_chain), "def anaUnary : List Kw := %s" % kwl(an_unary)]


def sec_dispatch():
    variants, _ = T["token.enum"]
    ev_disp, an_disp = T["dispatch"]
    kwset = set(variants)
    return ["/-- statement.rs / analyzer/statement_analyzer.rs: the keyword tokens `evaluate_statement` dispatches on (in arm order), and the payload tokens (sorted). -/",
            "def evalStmtKws : List Kw := %s" % kwl([k for k in ev_disp if k in kwset]),
            "def evalStmtOther : List String := [%s]" % ", ".join(lean_str(k) for k in sorted(k for k in ev_disp if k not in kwset)),
            "def anaStmtKws : List Kw := %s" % kwl([k for k in an_disp if k in kwset]),
            "def anaStmtOther : List String := [%s]" % ", ".join(lean_str(k) for k in sorted(k for k in an_disp if k not in kwset)), ""]


SECTIONS = [
    ("header", [], lambda: ["/- GENERATED by tools/extract.py from /repo's Rust source. DO NOT EDIT. -/", "namespace Abasic", ""]),
    ("Kw", ["token.enum"], sec_kw),
    ("TokenType", ["tokentype"], sec_tokentype),
    ("open", [], lambda: ["namespace Extracted", ""]),
    ("names", ["token.enum"], sec_names),
    ("spelling", ["token.enum", "token.display"], sec_spelling),
    ("keywords", ["token.keywords"], sec_keywords),
    ("chars", ["token.chars"], sec_chars),
    ("kwType", ["token.enum", "tokentype"], sec_kwtype),
    ("lsp", ["tokentype", "lsp"], sec_lsp),
    ("builtins", ["builtins"], sec_builtins),
    ("consts.program", ["consts.program"], sec_consts("consts.program")),
    ("consts.arrays", ["consts.arrays"], sec_consts("consts.arrays")),
    ("consts.random", ["consts.random"], sec_consts("consts.random")),
    ("commands", ["commands"], sec_commands),
    ("messages", ["messages"], sec_messages),
    ("walkers", ["walkers"], sec_walkers),
    ("dispatch", ["token.enum", "dispatch"], sec_dispatch),
    ("footer", [], lambda: ["end Extracted", "end Abasic"]),
]

MARK = "-- § "


def old_sections():
    out = {}
    if not os.path.exists(OUT):
        return out
    cur = None
    with open(OUT, encoding="utf-8") as f:
        for line in f.read().split("\n"):
            if line.startswith(MARK):
                cur = line[len(MARK):].strip()
                out[cur] = []
            elif cur is not None:
                out[cur].append(line)
    return out


def main():
    old = old_sections()
    L = []
    stale = []
    for name, needs, fn in SECTIONS:
        L.append(MARK + name)
        if all(n in T for n in needs):
            L += fn()
        elif name in old:
            # keep the section as it was extracted last time; the failure is reported below
            body = old[name]
            while body and body[-1] == "" and name == "footer":
                body = body[:-1]
            L += body
            stale.append(name)
        else:
            print("extract: cannot find table: %s (and no earlier extraction of section %s to fall back on)" % ("; ".join(FAILED.values()), name))
            return 3
    text = "\n".join(L)
    text = text.rstrip("\n") + "\n"

    prev = None
    if os.path.exists(OUT):
        with open(OUT, encoding="utf-8") as f:
            prev = f.read()
    if prev != text:
        with open(OUT, "w", encoding="utf-8") as f:
            f.write(text)
        print("extract: Extracted.lean rewritten")
    else:
        print("extract: Extracted.lean unchanged")
    affected = sorted({p for t in FAILED for p in DEPS.get(t, ALL)})
    status = {"failed": FAILED, "stale_sections": stale, "affected_properties": affected}
    cache = os.path.join(os.path.dirname(os.path.abspath(__file__)), "..", ".cache")
    try:
        os.makedirs(cache, exist_ok=True)
        with open(os.path.join(cache, "extract_status.json"), "w") as f:
            json.dump(status, f, indent=1)
    except OSError:
        pass
    if FAILED:
        for t, why in sorted(FAILED.items()):
            print("extract: cannot find table: %s: %s" % (t, why))
        print("extract: affected properties: %s" % " ".join(affected))
        return 3
    return 0


if __name__ == "__main__":
    sys.exit(main())
