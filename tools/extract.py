#!/usr/bin/env python3
"""Regenerate lean/Abasic/Extracted.lean from /repo's current Rust source.

Only tables and constants are extracted (see DESIGN.md 3.4).  The model USES
them, so a changed keyword, spelling, constant or table row changes the model
and re-opens every lemma that depends on a table fact.

Exit status 0 and the file (re)written only if its content changed.
Exit status 3 if a table cannot be found (the code was reshaped): that is a
broken correspondence and handled as such by ./check.
"""
import os
import re
import sys

REPO = os.environ.get("VERIF_REPO", "/repo")
OUT = os.path.join(os.path.dirname(os.path.abspath(__file__)), "..", "lean", "Abasic", "Extracted.lean")


class Missing(Exception):
    pass


def read(rel):
    with open(os.path.join(REPO, rel), encoding="utf-8") as f:
        return f.read()


def need(m, what):
    if not m:
        raise Missing(what)
    return m


def lean_str(s):
    return '"' + s.replace("\\", "\\\\").replace('"', '\\"') + '"'


def lean_char(c):
    if c == "'":
        return "'\\''"
    if c == "\\":
        return "'\\\\'"
    return "'" + c + "'"


def const_expr(src, name, what):
    m = need(re.search(r"const\s+%s\s*:\s*\w+\s*=\s*([^;]+);" % name, src), what)
    expr = m.group(1).strip()
    if not re.fullmatch(r"[0-9_ <>+*()-]+", expr):
        raise Missing(what + " (unsupported constant expression: %s)" % expr)
    return int(eval(expr.replace("_", "")))


def main():
    tok = read("abasic-core/src/tokenizer.rs")

    # --- enum Token: payload-free variants become `Kw`, the rest are checked.
    m = need(re.search(r"pub enum Token\s*\{(.*?)\n\}", tok, re.S), "enum Token")
    variants = []
    payload = {}
    for line in m.group(1).splitlines():
        line = line.strip().rstrip(",")
        if not line or line.startswith("//"):
            continue
        mm = re.fullmatch(r"(\w+)(\((.*)\))?", line)
        need(mm, "enum Token variant: " + line)
        if mm.group(2):
            payload[mm.group(1)] = mm.group(3)
        else:
            variants.append(mm.group(1))
    expected_payload = {
        "Remark": "Rc<String>",
        "Symbol": "Symbol",
        "StringLiteral": "Rc<String>",
        "NumericLiteral": "f64",
        "Data": "Rc<Vec<DataElement>>",
    }
    if payload != expected_payload:
        raise Missing("payload-carrying Token variants changed: %r" % payload)

    # --- Display for Token
    m = need(re.search(r"impl Display for Token\s*\{.*?match self\s*\{(.*?)\n        \}", tok, re.S), "Display for Token")
    disp = {}
    disp_payload = {}
    for line in m.group(1).splitlines():
        line = line.strip()
        mm = re.fullmatch(r'Token::(\w+)\s*=>\s*write!\(f,\s*"((?:[^"\\]|\\.)*)"\),', line)
        if mm:
            disp[mm.group(1)] = bytes(mm.group(2), "utf-8").decode("unicode_escape")
            continue
        mm = re.fullmatch(r'Token::(\w+)\((\w+)\)\s*=>\s*write!\(f,\s*"((?:[^"\\]|\\.)*)",\s*(.*)\),', line)
        if mm:
            disp_payload[mm.group(1)] = (bytes(mm.group(3), "utf-8").decode("unicode_escape"), mm.group(4))
    for v in variants:
        if v not in disp:
            raise Missing("Display arm for Token::" + v)
    exp_disp_payload = {
        "Remark": ("REM{}", "comment"),
        "Symbol": ("{}", "name"),
        "StringLiteral": ('"{}"', "string"),
        "NumericLiteral": ("{}", "number"),
        "Data": ("DATA {}", "data_elements_to_string(elements)"),
    }
    if disp_payload != exp_disp_payload:
        raise Missing("Display arms of payload tokens changed: %r" % disp_payload)

    # --- chomp_any_keyword chain (in match order)
    m = need(re.search(r"fn chomp_any_keyword\(&mut self\)\s*->\s*Option<Token>\s*\{(.*?)\n    \}", tok, re.S), "chomp_any_keyword")
    kws = re.findall(r'self\.chomp_keyword\("([A-Z]+)"\)\s*\{\s*Some\(Token::(\w+)\)', m.group(1))
    if len(kws) < 5 or len(kws) != m.group(1).count("chomp_keyword("):
        raise Missing("chomp_any_keyword chain")
    rem_kw = need(re.search(r'fn chomp_remark.*?self\.chomp_keyword\("([A-Z]+)"\)', tok, re.S), "REM keyword").group(1)
    data_kw = need(re.search(r'fn chomp_data.*?self\.chomp_keyword\("([A-Z]+)"\)', tok, re.S), "DATA keyword").group(1)

    # --- one/two character operators
    m = need(re.search(r"fn chomp_one_or_two_characters.*?match byte\s*\{(.*?)_ => return None", tok, re.S), "one-character table")
    one = re.findall(r"b'(.)'\s*=>\s*Token::(\w+),", m.group(1))
    if len(one) < 5:
        raise Missing("one-character table")
    two = []
    body = need(re.search(r"fn chomp_one_or_two_characters(.*?)\n    fn ", tok, re.S), "two-character table").group(1)
    for first, blk in re.findall(r"token == Token::(\w+)\s*\{(.*?)\n            \}", body, re.S):
        for ch, res in re.findall(r"next_char == b'(.)'\s*\{.*?Some\(Ok\(Token::(\w+)\)\)", blk, re.S):
            two.append((first, ch, res))
    if sorted(two) != sorted([("LessThan", ">", "NotEquals"), ("LessThan", "=", "LessThanOrEqualTo"), ("GreaterThan", "=", "GreaterThanOrEqualTo")]):
        raise Missing("two-character operator table changed: %r" % two)

    # --- order of matchers in chomp_next_token
    m = need(re.search(r"fn chomp_next_token.*?let result = (.*?)Err\(TokenizationError::IllegalCharacter", tok, re.S), "chomp_next_token")
    order = re.findall(r"self\.(chomp_\w+)\(\)", m.group(1))
    if order != ["chomp_any_keyword", "chomp_one_or_two_characters", "chomp_string", "chomp_number", "chomp_remark", "chomp_data", "chomp_symbol"]:
        raise Missing("matcher order in chomp_next_token changed: %r" % order)

    # --- token classes
    tt = read("abasic-core/src/analyzer/token_type.rs")
    m = need(re.search(r"pub enum TokenType\s*\{(.*?)\}", tt, re.S), "enum TokenType")
    ttypes = [x.strip() for x in m.group(1).split(",") if x.strip()]
    cls = dict(re.findall(r"Token::(\w+)(?:\(_\))?\s*=>\s*TokenType::(\w+),", tt))
    for v in variants + list(payload):
        if v not in cls:
            raise Missing("TokenType arm for Token::" + v)

    # --- LSP legend
    lsp = read("abasic-lsp/src/main.rs")
    m = need(re.search(r"const TOKEN_TYPES: &\[SemanticTokenType;\s*(\d+)\]\s*=\s*&\[(.*?)\];", lsp, re.S), "LSP legend")
    legend_len = int(m.group(1))
    legend = re.findall(r"SemanticTokenType::(\w+)", m.group(2))
    if len(legend) != legend_len:
        raise Missing("LSP legend length")
    lspidx = dict((a, int(b)) for a, b in re.findall(r"TokenType::(\w+)\s*=>\s*(\d+),", need(re.search(r"fn abasic_token_type_to_lsp_token_type.*?\{(.*?)\n\}", lsp, re.S), "LSP index map").group(1)))
    for t in ttypes:
        if t not in lspidx:
            raise Missing("LSP index for TokenType::" + t)

    # --- builtins
    bi = read("abasic-core/src/builtins.rs")
    builtins = re.findall(r'"([A-Z]+)"\s*=>\s*Builtin::(\w+),', bi)
    if sorted(b for _, b in builtins) != ["Abs", "Int", "Rnd"]:
        raise Missing("builtin table changed: %r" % builtins)

    # --- constants
    prog = read("abasic-core/src/program.rs")
    arr = read("abasic-core/src/arrays.rs")
    rnd = read("abasic-core/src/random.rs")
    consts = {
        "stackLimit": const_expr(prog, "STACK_LIMIT", "STACK_LIMIT"),
        "nestingLimit": const_expr(prog, "NESTING_LIMIT", "NESTING_LIMIT"),
        "maxDimTotalElements": const_expr(arr, "MAX_DIM_TOTAL_ELEMENTS", "MAX_DIM_TOTAL_ELEMENTS"),
        "defaultArraySize": const_expr(arr, "DEFAULT_ARRAY_SIZE", "DEFAULT_ARRAY_SIZE"),
        "rngModulus": const_expr(rnd, "MODULUS", "MODULUS"),
        "rngMultiplier": const_expr(rnd, "MULTIPLIER", "MULTIPLIER"),
        "rngIncrement": const_expr(rnd, "INCREMENT", "INCREMENT"),
    }

    # --- commands
    interp = read("abasic-core/src/interpreter.rs")
    m = need(re.search(r"fn maybe_process_command.*?match first_word\.to_ascii_uppercase\(\)\.as_str\(\)\s*\{(.*?)\n            _ =>", interp, re.S), "command table")
    commands = re.findall(r'\n            "([A-Z]+)"\s*=>', "\n" + m.group(1))
    if sorted(commands) != sorted(["RUN", "LIST", "NEW", "CONT", "TRACE", "NOTRACE", "INTERNALS", "STATS"]):
        raise Missing("command table changed: %r" % commands)

    # --- error messages
    ie = read("abasic-core/src/interpreter_error.rs")
    errdisp = dict(re.findall(r'InterpreterError::(\w+)(?:\(\w+\))?\s*=>\s*\{\s*write!\(f,\s*"((?:[^"\\]|\\.)*)"', ie))
    oom = dict(re.findall(r'OutOfMemoryError::(\w+)\s*=>\s*write!\(f,\s*"([^"]*)"\)', ie))
    se = read("abasic-core/src/syntax_error.rs")
    tokerr = dict(re.findall(r'TokenizationError::(\w+)\(_\)\s*=>\s*write!\(f,\s*"([^"]*)"\)', se))
    synerr = dict(re.findall(r'SyntaxError::(\w+)(?:\(\w+\))?\s*=>\s*write!\(f,\s*"([^"]*)"', se))
    errnames = ["TypeMismatch", "DataTypeMismatch", "UndefinedStatement", "OutOfMemory", "OutOfData", "ReturnWithoutGosub",
                "NextWithoutFor", "BadSubscript", "IllegalQuantity", "Unimplemented", "DivisionByZero", "RedimensionedArray",
                "CannotContinue", "IllegalDirect"]
    for e in errnames:
        if e not in errdisp:
            raise Missing("Display arm for InterpreterError::" + e)
    for e in ["StackOverflow", "ArrayTooLarge"]:
        if e not in oom:
            raise Missing("Display arm for OutOfMemoryError::" + e)
    for e in ["IllegalCharacter", "UnterminatedStringLiteral", "InvalidNumber"]:
        if e not in tokerr:
            raise Missing("Display arm for TokenizationError::" + e)
    for e in ["UnexpectedToken", "ExpectedToken", "UnexpectedEndOfInput"]:
        if e not in synerr:
            raise Missing("Display arm for SyntaxError::" + e)

    # --- emit
    L = []
    w = L.append
    w("/- GENERATED by tools/extract.py from /repo's Rust source. DO NOT EDIT. -/")
    w("namespace Abasic")
    w("")
    w("/-- Payload-free variants of `enum Token` (tokenizer.rs), in declaration order. -/")
    w("inductive Kw where")
    for v in variants:
        w("  | %s" % v)
    w("  deriving DecidableEq, Repr, Inhabited")
    w("")
    w("inductive TokenType where")
    for t in ttypes:
        w("  | %s" % t)
    w("  deriving DecidableEq, Repr, Inhabited")
    w("")
    w("namespace Extracted")
    w("")
    w("def allKw : List Kw := [%s]" % ", ".join(".%s" % v for v in variants))
    w("")
    w("/-- Rust variant names (what `{:?}` prints). -/")
    w("def kwName : Kw → String")
    for v in variants:
        w("  | .%s => %s" % (v, lean_str(v)))
    w("")
    w("/-- `impl Display for Token`, payload-free arms. -/")
    w("def kwSpelling : Kw → String")
    for v in variants:
        w("  | .%s => %s" % (v, lean_str(disp[v])))
    w("")
    w("/-- `chomp_any_keyword`: (keyword text, token) in match order. -/")
    w("def keywords : List (String × Kw) := [")
    w(",\n".join("  (%s, .%s)" % (lean_str(k), v) for k, v in kws))
    w("]")
    w("def remKeyword : String := %s" % lean_str(rem_kw))
    w("def dataKeyword : String := %s" % lean_str(data_kw))
    w("")
    w("/-- `chomp_one_or_two_characters`: first-byte table in match order. -/")
    w("def oneChar : List (Char × Kw) := [")
    w(",\n".join("  (%s, .%s)" % (lean_char(c), v) for c, v in one))
    w("]")
    w("def twoChar : List (Kw × Char × Kw) := [")
    w(",\n".join("  (.%s, %s, .%s)" % (a, lean_char(c), r) for a, c, r in two))
    w("]")
    w("")
    w("/-- `From<&Token> for TokenType`. -/")
    w("def kwType : Kw → TokenType")
    for v in variants:
        w("  | .%s => .%s" % (v, cls[v]))
    w("def remarkType : TokenType := .%s" % cls["Remark"])
    w("def symbolType : TokenType := .%s" % cls["Symbol"])
    w("def stringType : TokenType := .%s" % cls["StringLiteral"])
    w("def numberType : TokenType := .%s" % cls["NumericLiteral"])
    w("def dataType : TokenType := .%s" % cls["Data"])
    w("")
    w("/-- abasic-lsp: `abasic_token_type_to_lsp_token_type` and the advertised legend. -/")
    w("def lspIndex : TokenType → Nat")
    for t in ttypes:
        w("  | .%s => %d" % (t, lspidx[t]))
    w("def lspLegend : List String := [%s]" % ", ".join(lean_str(x) for x in legend))
    w("")
    w("def builtinAbs : String := %s" % lean_str([k for k, b in builtins if b == "Abs"][0]))
    w("def builtinInt : String := %s" % lean_str([k for k, b in builtins if b == "Int"][0]))
    w("def builtinRnd : String := %s" % lean_str([k for k, b in builtins if b == "Rnd"][0]))
    w("")
    for k, v in consts.items():
        w("def %s : Nat := %d" % (k, v))
    w("")
    w("def commands : List String := [%s]" % ", ".join(lean_str(c) for c in commands))
    w("")
    for e in errnames:
        w("def msg%s : String := %s" % (e, lean_str(bytes(errdisp[e], "utf-8").decode("unicode_escape"))))
    w("def msgStackOverflow : String := %s" % lean_str(oom["StackOverflow"]))
    w("def msgArrayTooLarge : String := %s" % lean_str(oom["ArrayTooLarge"]))
    w("def msgIllegalCharacter : String := %s" % lean_str(tokerr["IllegalCharacter"]))
    w("def msgUnterminatedString : String := %s" % lean_str(tokerr["UnterminatedStringLiteral"]))
    w("def msgInvalidNumber : String := %s" % lean_str(tokerr["InvalidNumber"]))
    w("def msgUnexpectedToken : String := %s" % lean_str(synerr["UnexpectedToken"]))
    w("def msgExpectedToken : String := %s" % lean_str(synerr["ExpectedToken"]))
    w("def msgUnexpectedEndOfInput : String := %s" % lean_str(synerr["UnexpectedEndOfInput"]))
    w("")
    # --- structure of the two expression walkers and the two statement dispatchers
    ops_src = read("abasic-core/src/operators.rs")
    from_token = {}
    for im in re.finditer(r"impl (\w+) \{(.*?)\n\}", ops_src, re.S):
        fm = re.search(r"pub fn from_token\(token: Token\) -> Option<Self> \{(.*?)\n    \}", im.group(2), re.S)
        if fm:
            from_token[im.group(1)] = re.findall(r"Token::(\w+)\s*=>\s*Some\(", fm.group(1))
    need(from_token.get("UnaryOp"), "operators.rs: UnaryOp::from_token")

    def walker(rel, what):
        src = read(rel)
        fns = {}
        for fm in re.finditer(r"\n    (?:pub )?fn (evaluate_\w+)\b.*?\{(.*?)\n    \}", src, re.S):
            fns[fm.group(1)] = fm.group(2)
        entry = need(re.search(r"self\.(evaluate_\w+_expression)\(\)", fns.get("evaluate_expression", "")), what + ": evaluate_expression body")
        chain, cur, unary = [], entry.group(1), None
        for _ in range(12):
            body = need(fns.get(cur), what + ": fn " + cur)
            operand = need(re.search(r"self\.(evaluate_\w+)\(\)", body), what + ": operand of " + cur).group(1)
            a = re.search(r"while self\s*\.program(?:\(\))?\s*\.accept_next_token\(Token::(\w+)\)", body)
            t = re.search(r"while let Some\(\w+\) = self\s*\.program(?:\(\))?\s*\.try_next_token\((\w+)::from_token\)", body)
            u = re.search(r"let \w+ = self\s*\.program(?:\(\))?\s*\.try_next_token\((\w+)::from_token\)", body)
            if a:
                chain.append([a.group(1)])
            elif t:
                chain.append(need(from_token.get(t.group(1)), "operators.rs: %s::from_token" % t.group(1)))
            elif u and not t:
                unary = need(from_token.get(u.group(1)), "operators.rs: %s::from_token" % u.group(1))
                break
            else:
                raise Missing(what + ": cannot classify tier function " + cur)
            cur = operand
        need(unary, what + ": unary tier")
        return chain, unary

    ev_chain, ev_unary = walker("abasic-core/src/expression.rs", "expression.rs")
    an_chain, an_unary = walker("abasic-core/src/analyzer/expression_analyzer.rs", "expression_analyzer.rs")

    def dispatch(rel, fn, what):
        src = read(rel)
        fm = need(re.search(r"fn %s\b.*?match self\s*\.program(?:\(\))?\s*\.next_token\(\) \{(.*?)\n        \}" % fn, src, re.S), what)
        heads = []
        for arm in re.finditer(r"\n            (Some\([^=]*?)=>", fm.group(1)):
            heads += re.findall(r"Token::(\w+)", arm.group(1))
        need(heads, what + ": arms")
        return heads

    ev_disp = dispatch("abasic-core/src/statement.rs", "evaluate_statement", "statement.rs: evaluate_statement dispatch")
    an_disp = dispatch("abasic-core/src/analyzer/statement_analyzer.rs", "evaluate_statement", "statement_analyzer.rs: evaluate_statement dispatch")
    kwset = set(variants)

    def kws(lst):
        return "[%s]" % ", ".join("." + k for k in lst)

    w("/-- expression.rs: the binary tiers from `evaluate_expression` inwards (operator tokens each loop accepts), then the unary tier. -/")
    w("def evalChain : List (List Kw) := [%s]" % ", ".join(kws(t) for t in ev_chain))
    w("def evalUnary : List Kw := %s" % kws(ev_unary))
    w("/-- analyzer/expression_analyzer.rs: the same structure of the analyzer's fork. -/")
    w("def anaChain : List (List Kw) := [%s]" % ", ".join(kws(t) for t in an_chain))
    w("def anaUnary : List Kw := %s" % kws(an_unary))
    w("/-- statement.rs / analyzer/statement_analyzer.rs: the keyword tokens `evaluate_statement` dispatches on, and the payload tokens. -/")
    w("def evalStmtKws : List Kw := %s" % kws([k for k in ev_disp if k in kwset]))
    w("def evalStmtOther : List String := [%s]" % ", ".join(lean_str(k) for k in ev_disp if k not in kwset))
    w("def anaStmtKws : List Kw := %s" % kws([k for k in an_disp if k in kwset]))
    w("def anaStmtOther : List String := [%s]" % ", ".join(lean_str(k) for k in an_disp if k not in kwset))
    w("")
    w("end Extracted")
    w("end Abasic")
    text = "\n".join(L) + "\n"

    old = None
    if os.path.exists(OUT):
        with open(OUT, encoding="utf-8") as f:
            old = f.read()
    if old != text:
        with open(OUT, "w", encoding="utf-8") as f:
            f.write(text)
        print("extract: Extracted.lean rewritten")
    else:
        print("extract: Extracted.lean unchanged")
    return 0


if __name__ == "__main__":
    try:
        sys.exit(main())
    except Missing as e:
        print("extract: cannot find table: %s" % e)
        sys.exit(3)
