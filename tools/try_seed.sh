#!/bin/sh
# try_seed.sh <pid> <patch.diff> [tier] : apply a seeded change to /repo, run ./check <pid>, undo it.
set -u
PID="$1"; PATCH="$2"; TIER="${3:-quick}"
cd /repo || exit 2
if [ -n "$(git status --porcelain)" ]; then echo "repo not clean"; exit 2; fi
git apply "$PATCH" || { echo "patch does not apply"; exit 2; }
cd /verif && timeout 3000 ./check "$PID" --tier "$TIER" > /verif/.cache/try_seed_$PID.log 2>&1; rc=$?
git -C /repo checkout -- . ; git -C /repo clean -fdq
grep -E "^(VIOLATION|OK|KNOWN)" /verif/.cache/try_seed_$PID.log | head -5
sed -n '/^VIOLATION/,$p' /verif/.cache/try_seed_$PID.log | sed -n 2,4p | cut -c1-400
echo "check rc=$rc"
# the evidence file was rewritten by a run on a modified tree: restore the committed one
git -C /verif checkout -- evidence/$PID.json 2>/dev/null
# replays written while testing a seeded change are not kept
rm -f /verif/replays/$PID-*.json
python3 /verif/tools/extract.py >/dev/null 2>&1
